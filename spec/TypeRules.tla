----------------------------- MODULE TypeRules -----------------------------
(***************************************************************************)
(* C09.  The typing judgement of truth scripts, written from the statement *)
(* of property C09 and from doc/syntax.md / CHANGELOG.md -- NOT from       *)
(* src/passes/type_check.rs.                                               *)
(*                                                                         *)
(*   TypeOf(e, G)  \in {"i", "f", "s", "void", "err"}                      *)
(*   StmtOk(s, G), BlockOk(stmts, G), ProgramOk(p)                         *)
(*                                                                         *)
(* G = [v |-> (variable id -> "i" | "f" | "s"),                            *)
(*      sigs |-> (opcode -> sequence of parameter types),                  *)
(*      labels |-> set of types admitted for interrupt ids / +n: labels]   *)
(* Programs are in the JSON interchange form (DESIGN section 3): the form  *)
(* vh::render turns into source text.                                      *)
(*                                                                         *)
(* Sources of the rules (S = statement of C09, D = doc/syntax.md,          *)
(* C = CHANGELOG.md):                                                      *)
(*  R1  operand types per operator class (S): arithmetic and comparison    *)
(*      take two operands of the same numeric type; bitwise, logical and   *)
(*      shift operators take ints (D: "All ints in truth are signed so >>  *)
(*      is an arithmetic right shift"); a comparison yields an int (D:     *)
(*      `int i = RAND % 2; if (i == 1)`, conditions are ints).             *)
(*  R2  unary `-` is numeric and keeps the type; `!` `~` are int; sin cos  *)
(*      tan asin acos atan sqrt are float functions (D "Special            *)
(*      functions"); casts int() float() and the read-as $() %() (C: "New  *)
(*      type-cast syntax"; D: `_S` float to int, `_f` int to float) take a *)
(*      numeric operand and yield the named type.                          *)
(*  R3  variables (D "Variables"): without sigil a variable has its        *)
(*      inherent / declared type; `$x` reads it as int and `%x` as float;  *)
(*      sigils only on numeric variables (S) -- D: "While the other kinds  *)
(*      of variables are limited to integers and floats, const vars may    *)
(*      also be strings".                                                  *)
(*  R4  int-only conditions and counters (S): conditions of if / unless /  *)
(*      while / do-while / conditional goto, the count of `times`, and the *)
(*      variable of a `--x` condition (D "About conditions"; `times(n)` is *)
(*      sugar for `int temp = n; while (--temp)`, hence a clobber is an    *)
(*      int variable too).                                                 *)
(*  R5  matching assignment and declaration types (S): `x = e` needs       *)
(*      type(x) = type(e); `x op= e` is typed like `x op e` (D             *)
(*      "Assignments"); a declaration's initialiser has the declared type  *)
(*      (D: `int i = 0; float x = 3.0, y, z = F0;`), also for `const`      *)
(*      (C: "const variables. These are typed compile-time constants").    *)
(*      Locals are scoped to their containing block, consts are visible in *)
(*      the whole block (D).                                               *)
(*  R6  call arity and parameter types from the instruction signature (S); *)
(*      an instruction call is of void type (D: "indistinguishable from    *)
(*      any other function calls of void type").                           *)
(*  R7  ternary: int condition, branches of one type; difficulty switch:   *)
(*      all explicit cases of one type.                                    *)
(*  R8  expression statements must be void; every operand / initialiser /  *)
(*      argument must be a value (not void).                               *)
(*  R9  "wherever in the script the offending construct sits" (S): a       *)
(*      program is well-typed iff every statement at every depth is.       *)
(*  R10 interrupt ids and relative time labels (C: "Relative time labels   *)
(*      and interrupts now accept expressions, so you can use consts") are *)
(*      expressions like any other, so R1-R8 apply inside them (R9), and   *)
(*      they are ints.  The documentation does not say that it is the      *)
(*      *type checker* that refuses a well-typed non-int there, so the set *)
(*      of types admitted for them is a parameter G.labels: {"i"} is the   *)
(*      strict reading, ValueTys the relaxed one (see design_notes/C09.md).*)
(***************************************************************************)
EXTENDS Integers, Sequences, TLC

Numeric  == {"i", "f"}
ValueTys == {"i", "f", "s"}

\* ---- R1: operator classes
OpsArithmetic == {"+", "-", "*", "/", "%"}
OpsComparison == {"==", "!=", "<", "<=", ">", ">="}
OpsBitwise    == {"|", "^", "&"}
OpsLogical    == {"||", "&&"}
OpsShift      == {"<<", ">>", ">>>"}
OpsIntOnly    == OpsBitwise \cup OpsLogical \cup OpsShift
AllBinOps     == OpsArithmetic \cup OpsComparison \cup OpsIntOnly

BinTy(op, ta, tb) ==
    IF op \in OpsArithmetic THEN (IF ta = tb /\ ta \in Numeric THEN ta ELSE "err")
    ELSE IF op \in OpsComparison THEN (IF ta = tb /\ ta \in Numeric THEN "i" ELSE "err")
    ELSE IF op \in OpsIntOnly THEN (IF ta = "i" /\ tb = "i" THEN "i" ELSE "err")
    ELSE "err"

\* ---- R2: unary operators
FloatFuncs == {"sin", "cos", "tan", "asin", "acos", "atan", "sqrt"}
CastsToInt == {"int", "$", "_S"}
CastsToFloat == {"float", "%", "_f"}
AllUnOps == {"-", "!", "~"} \cup FloatFuncs \cup CastsToInt \cup CastsToFloat

UnTy(op, t) ==
    IF op = "-" THEN (IF t \in Numeric THEN t ELSE "err")
    ELSE IF op \in {"!", "~"} THEN (IF t = "i" THEN "i" ELSE "err")
    ELSE IF op \in FloatFuncs THEN (IF t = "f" THEN "f" ELSE "err")
    ELSE IF op \in CastsToInt THEN (IF t \in Numeric THEN "i" ELSE "err")
    ELSE IF op \in CastsToFloat THEN (IF t \in Numeric THEN "f" ELSE "err")
    ELSE "err"

\* ---- R3: variables and sigils
VarTy(var, G) ==
    IF var.id \notin DOMAIN G.v THEN "err"
    ELSE LET t == G.v[var.id]
         IN IF var.sig = "" THEN t
            ELSE IF t \notin Numeric THEN "err"            \* sigils only on numeric variables
            ELSE IF var.sig = "$" THEN "i"
            ELSE IF var.sig = "%" THEN "f"
            ELSE "err"

\* all elements of a sequence of types are one value type -> that type, else "err"
OneType(ts) ==
    IF Len(ts) = 0 THEN "err"
    ELSE IF ts[1] \in ValueTys /\ \A j \in 1..Len(ts) : ts[j] = ts[1] THEN ts[1] ELSE "err"

RECURSIVE TypeOf(_, _)
TypeOf(e, G) ==
    CASE e.k = "int" -> "i"
      [] e.k = "float" -> "f"
      [] e.k = "str" -> "s"
      [] e.k = "var" -> VarTy(e, G)
      [] e.k = "bin" -> BinTy(e.op, TypeOf(e.a, G), TypeOf(e.b, G))
      [] e.k = "un" -> UnTy(e.op, TypeOf(e.x, G))
      [] e.k = "tern" ->                                                       \* R7
            IF TypeOf(e.c, G) = "i" THEN OneType(<<TypeOf(e.a, G), TypeOf(e.b, G)>>) ELSE "err"
      [] e.k = "ds" ->                                                         \* R7
            LET explicit == SelectSeq(e.cases, LAMBDA c : c.k # "hole")
            IN OneType([j \in 1..Len(explicit) |-> TypeOf(explicit[j], G)])
      [] e.k = "xcr" -> (IF VarTy(e.var, G) = "i" THEN "i" ELSE "err")         \* R4: `--x` int
      [] e.k = "call" ->                                                       \* R6
            IF "ins" \notin DOMAIN e.name \/ e.name.ins \notin DOMAIN G.sigs THEN "err"
            ELSE LET ps == G.sigs[e.name.ins]
                 IN IF Len(e.args) # Len(ps) THEN "err"
                    ELSE IF \A j \in 1..Len(ps) : TypeOf(e.args[j], G) = ps[j] THEN "void" ELSE "err"
      [] OTHER -> "err"

\* ---- R4: conditions
CondOk(c, G) == TypeOf(c, G) = "i"

\* ---- R5: assignments and declarations
\* `x op= e` is typed like `x op e`
AssignBinOp(op) ==
    CASE op = "+=" -> "+" [] op = "-=" -> "-" [] op = "*=" -> "*" [] op = "/=" -> "/" [] op = "%=" -> "%"
      [] op = "|=" -> "|" [] op = "^=" -> "^" [] op = "&=" -> "&"
      [] op = "<<=" -> "<<" [] op = ">>=" -> ">>" [] op = ">>>=" -> ">>>"
      [] OTHER -> "?"

AssignOk(s, G) ==
    LET tv == VarTy(s.var, G)
        te == TypeOf(s.value, G)
    IN IF s.op = "=" THEN tv = te /\ tv \in ValueTys
       ELSE BinTy(AssignBinOp(s.op), tv, te) # "err"

KeywordTy(kw) == CASE kw = "int" -> "i" [] kw = "float" -> "f" [] kw = "string" -> "s" [] OTHER -> "err"

\* a declarator: no sigil contradicting the keyword, initialiser (if any) of the declared type
DeclaratorOk(d, kt, G) ==
    /\ kt \in ValueTys
    /\ d.var.sig = "" \/ (kt \in Numeric /\ d.var.sig = (IF kt = "i" THEN "$" ELSE "%"))
    /\ "init" \in DOMAIN d => TypeOf(d.init, G) = kt

DeclOk(s, G) == \A j \in 1..Len(s.vars) : DeclaratorOk(s.vars[j], KeywordTy(s.ty), G)

Bind(G, id, t) == [G EXCEPT !.v = (id :> t) @@ @]
RECURSIVE BindAll(_, _, _, _)
BindAll(G, vars, t, j) == IF j > Len(vars) THEN G ELSE BindAll(Bind(G, vars[j].var.id, t), vars, t, j + 1)

IsConstItem(s) == s.k = "item" /\ s.item.k = "const"
\* consts are items: visible in the whole block, before and after (D)
RECURSIVE BindConsts(_, _, _)
BindConsts(G, stmts, j) ==
    IF j > Len(stmts) THEN G
    ELSE IF IsConstItem(stmts[j])
         THEN BindConsts(BindAll(G, stmts[j].item.vars, KeywordTy(stmts[j].item.ty), 1), stmts, j + 1)
         ELSE BindConsts(G, stmts, j + 1)
\* a local is visible from the end of its declaration to the end of its block
After(s, G) == IF s.k = "decl" THEN BindAll(G, s.vars, KeywordTy(s.ty), 1) ELSE G

\* ---- statements (R9: every statement at every depth)
RECURSIVE StmtOk(_, _), BlockFrom(_, _, _)
BlockOk(stmts, G) == BlockFrom(stmts, 1, BindConsts(G, stmts, 1))
BlockFrom(stmts, j, G) ==
    IF j > Len(stmts) THEN TRUE
    ELSE StmtOk(stmts[j], G) /\ BlockFrom(stmts, j + 1, After(stmts[j], G))

StmtOk(s, G) ==
    CASE s.k = "expr" -> TypeOf(s.e, G) = "void"                               \* R8
      [] s.k = "assign" -> AssignOk(s, G)
      [] s.k = "decl" -> DeclOk(s, G)
      [] s.k = "item" ->
            IF s.item.k = "const" THEN DeclOk(s.item, G) ELSE FALSE            \* (functions: not modelled)
      [] s.k = "chain" ->
            /\ \A j \in 1..Len(s.blocks) : CondOk(s.blocks[j].cond, G) /\ BlockOk(s.blocks[j].body, G)
            /\ "else" \in DOMAIN s => BlockOk(s.else, G)
      [] s.k = "condjump" -> CondOk(s.cond, G)
      [] s.k = "loop" -> BlockOk(s.body, G)
      [] s.k = "while" -> CondOk(s.cond, G) /\ BlockOk(s.body, G)
      [] s.k = "times" ->
            /\ TypeOf(s.count, G) = "i"
            /\ "clobber" \in DOMAIN s => VarTy(s.clobber, G) = "i"
            /\ BlockOk(s.body, G)
      [] s.k = "block" -> BlockOk(s.body, G)
      [] s.k \in {"interrupt", "rel"} -> TypeOf(s.e, G) \in G.labels                \* R10
      [] s.k \in {"label", "abs", "jump", "nop"} -> TRUE
      [] OTHER -> FALSE

ProgramOk(p) == BlockOk(p.body, p.gamma)

\* ------------------------------------------------------------------------
\* The type of every expression node of a program, parents before children, in source order
\* (`cond ? a : b`; `while`/`do-while`: condition, then body).  harness/src/bin/c09.rs walks the
\* real AST in the same order and reports `compute_ty` of each node.
RECURSIVE Flatten(_, _)
Flatten(seqs, j) == IF j > Len(seqs) THEN <<>> ELSE seqs[j] \o Flatten(seqs, j + 1)

RECURSIVE ExprTypes(_, _)
ExprTypes(e, G) ==
    <<TypeOf(e, G)>> \o
    CASE e.k = "bin" -> ExprTypes(e.a, G) \o ExprTypes(e.b, G)
      [] e.k = "un" -> ExprTypes(e.x, G)
      [] e.k = "tern" -> ExprTypes(e.c, G) \o ExprTypes(e.a, G) \o ExprTypes(e.b, G)
      [] e.k = "ds" -> LET explicit == SelectSeq(e.cases, LAMBDA c : c.k # "hole")
                       IN Flatten([j \in 1..Len(explicit) |-> ExprTypes(explicit[j], G)], 1)
      [] e.k = "call" -> Flatten([j \in 1..Len(e.args) |-> ExprTypes(e.args[j], G)], 1)
      [] OTHER -> <<>>

InitTypes(vars, G) ==
    Flatten([j \in 1..Len(vars) |-> IF "init" \in DOMAIN vars[j] THEN ExprTypes(vars[j].init, G) ELSE <<>>], 1)

RECURSIVE StmtTypes(_, _), BlockTypesFrom(_, _, _)
BlockTypes(stmts, G) == BlockTypesFrom(stmts, 1, BindConsts(G, stmts, 1))
BlockTypesFrom(stmts, j, G) ==
    IF j > Len(stmts) THEN <<>>
    ELSE StmtTypes(stmts[j], G) \o BlockTypesFrom(stmts, j + 1, After(stmts[j], G))
StmtTypes(s, G) ==
    CASE s.k \in {"expr", "interrupt", "rel"} -> ExprTypes(s.e, G)
      [] s.k = "assign" -> ExprTypes(s.value, G)
      [] s.k = "decl" -> InitTypes(s.vars, G)
      [] s.k = "item" -> (IF s.item.k = "const" THEN InitTypes(s.item.vars, G) ELSE <<>>)
      [] s.k = "chain" ->
            Flatten([j \in 1..Len(s.blocks) |-> ExprTypes(s.blocks[j].cond, G) \o BlockTypes(s.blocks[j].body, G)], 1)
            \o (IF "else" \in DOMAIN s THEN BlockTypes(s.else, G) ELSE <<>>)
      [] s.k = "condjump" -> ExprTypes(s.cond, G)
      [] s.k = "loop" -> BlockTypes(s.body, G)
      [] s.k = "while" -> ExprTypes(s.cond, G) \o BlockTypes(s.body, G)
      [] s.k = "times" -> ExprTypes(s.count, G) \o BlockTypes(s.body, G)
      [] s.k = "block" -> BlockTypes(s.body, G)
      [] OTHER -> <<>>

ProgramTypes(p) == BlockTypes(p.body, p.gamma)
===========================================================================
