------------------------------ MODULE MC_I32 ------------------------------
(* In-model sanity of the I32 transcription over a boundary set (C11 in-model part). *)
EXTENDS I32, TLC, FiniteSets

B == {0, 1, -1, 2, -2, 3, 7, -8, 31, 32, 33, 255, 256, 65535, 65536, -65536, 46341, -46341,
      MinI32, MaxI32, MaxI32 - 1, MinI32 + 1, 1431655765, -1431655766, 1073741824, -1073741824}
Small == -40..40

\* plain arithmetic agrees with the limb arithmetic wherever plain arithmetic cannot overflow
ASSUME \A a \in Small, b \in Small :
    /\ Add(a, b) = a + b /\ Sub(a, b) = a - b /\ Mul(a, b) = a * b
    /\ (b # 0 => DivT(a, b) * b + RemT(a, b) = a)
    /\ (b # 0 => (RemT(a, b) = 0 \/ Sign(RemT(a, b)) = Sign(a)))
    /\ (b # 0 => Abs(RemT(a, b)) < Abs(b))
ASSUME \A a \in B, b \in B :
    /\ IsI32(Add(a, b)) /\ IsI32(Sub(a, b)) /\ IsI32(Mul(a, b))
    /\ Add(a, b) = Add(b, a) /\ Mul(a, b) = Mul(b, a)
    /\ Sub(Add(a, b), b) = a
    /\ Add(a, Neg(a)) = 0
    /\ Neg(a) = Sub(0, a)
    /\ Mul(a, -1) = Neg(a)
    /\ Mul(a, 2) = Add(a, a)
    /\ (b # 0 => Add(Mul(DivT(a, b), b), RemT(a, b)) = a)
    /\ (b # 0 /\ ~(a = MinI32 /\ b = -1) => (RemT(a, b) = 0 \/ Sign(RemT(a, b)) = Sign(a)))
    /\ BAnd(a, b) = BNot(BOr(BNot(a), BNot(b)))
    /\ BXor(a, b) = Sub(BOr(a, b), BAnd(a, b))
    /\ BXor(a, a) = 0 /\ BAnd(a, a) = a /\ BOr(a, 0) = a /\ BAnd(a, -1) = a
    /\ BNot(a) = Sub(-1, a)
    /\ ((a < b) \/ (a = b) \/ (a > b))
ASSUME DivT(MinI32, -1) = MinI32 /\ RemT(MinI32, -1) = 0
ASSUME DivT(-7, 2) = -3 /\ RemT(-7, 2) = -1 /\ DivT(7, -2) = -3 /\ RemT(7, -2) = 1
ASSUME DivT(MinI32, 2) = -1073741824 /\ DivT(MinI32, -2) = 1073741824 /\ DivT(MinI32, 3) = -715827882
ASSUME DivT(MinI32, MinI32) = 1 /\ DivT(MaxI32, MinI32) = 0 /\ RemT(MaxI32, MinI32) = MaxI32
ASSUME Mul(65536, 65536) = 0 /\ Mul(46341, 46341) = -2147479015 /\ Mul(MinI32, MinI32) = 0
ASSUME Mul(MaxI32, MaxI32) = 1 /\ Mul(1431655765, 3) = -1
ASSUME \A x \in B, n \in {-33, -32, -1, 0, 1, 5, 16, 30, 31, 32, 33, 63, 64} :
    /\ Shl(x, n) = Shl(x, n + 32) /\ ShrA(x, n) = ShrA(x, n + 32) /\ ShrL(x, n) = ShrL(x, n + 32)
    /\ (x >= 0 => ShrL(x, n) = ShrA(x, n))
    /\ Shl(x, 0) = x /\ ShrA(x, 0) = x /\ ShrL(x, 0) = x
    /\ (ShCount(n) > 0 => ShrL(x, n) >= 0)
    /\ (x < 0 => ShrA(x, n) < 0)
    /\ IsI32(Shl(x, n)) /\ IsI32(ShrA(x, n)) /\ IsI32(ShrL(x, n))
    /\ ShrL(Shl(x, 1), 1) = BAnd(x, MaxI32)
ASSUME Shl(1, 31) = MinI32 /\ Shl(1, 32) = 1 /\ Shl(1, -1) = MinI32 /\ Shl(3, 31) = MinI32
ASSUME ShrA(-1, 31) = -1 /\ ShrL(-1, 31) = 1 /\ ShrL(-1, 1) = MaxI32 /\ ShrL(MinI32, 31) = 1
ASSUME ShrL(-8, 1) = 2147483644 /\ ShrA(-8, 1) = -4 /\ ShrL(-8, 33) = 2147483644
ASSUME BAnd(-1431655766, 1431655765) = 0 /\ BOr(-1431655766, 1431655765) = -1
ASSUME PrintT(<<"MC_I32 ok", Cardinality(B)>>)
===========================================================================
