SPECIFICATION Spec
INVARIANT Disciplined
INVARIANT Agreement
INVARIANT DeclarativeSane
CHECK_DEADLOCK FALSE
