------------------------------ MODULE StrFrame ------------------------------
(***************************************************************************)
(* C15 (and the string letters of C12): how the bytes of one string        *)
(* argument are framed inside an instruction's argument blob.              *)
(*                                                                         *)
(* Sources (documentation, not the encoder):                               *)
(*  - doc comment of `StringArgSize` (src/llir/abi.rs):                    *)
(*      bs=  "null-terminated ... When written, a null terminator is       *)
(*            appended and it is padded to a multiple of `bs` bytes"       *)
(*      p    "stores the total length (including null + padding) followed  *)
(*            by the data" + same terminator/padding rule                  *)
(*      len= "fixed length string buffer ... a trailing null is required   *)
(*            to be present INSIDE the buffer"; `nulless` lifts that       *)
(*  - doc comment of `ArgEncoding::String`: "accelerating XOR mask. The    *)
(*    three integers supplied to `mask` are the initial mask value, the    *)
(*    initial velocity, and acceleration"                                  *)
(*  - doc/syntax.md (@blob): "every byte XORed with 0x77, as they are in   *)
(*    the file"                                                            *)
(*  - tests/integration/strings.rs (len=8: 8 chars too large, nulless: 8   *)
(*    chars fit, 9 do not)                                                 *)
(*  - furibug: "replicates a strange quirk in TH12+ MSG files related to   *)
(*    strings that represent furigana"; the quirk itself is read off the   *)
(*    bundled game-format samples tests/integration/bits-2-bits/           *)
(*    th12-furibug.msg and th17-furibug-ex-regression.msg (see the test    *)
(*    vectors in MC_StrFrame): the block written for a furigana line       *)
(*    (text starting with `|`) is left behind and re-appears, as written,  *)
(*    behind the terminator of the next string, inside that string's       *)
(*    padding/masking; the string after that is clean again.               *)
(*                                                                         *)
(* A payload is the sequence of (non-zero) bytes of the encoded text.      *)
(***************************************************************************)
EXTENDS Integers, Sequences, Bitwise

Byte == 0..255
Bar == 124          \* '|' : a text starting with it is a furigana line

\* string parameter:
\*   [kind |-> "block" | "pascal" | "fixed", n |-> bs resp. len, nulless |-> BOOLEAN,
\*    mask |-> <<m, v, a>>, furibug |-> BOOLEAN]
StrSpec(kind, n, nulless, mask, furibug) ==
    [kind |-> kind, n |-> n, nulless |-> nulless, mask |-> mask, furibug |-> furibug]

NoCarry == <<>>      \* a carried block is never empty (it contains at least the terminator)

(***************************************************************************)
(* The accelerating mask.  Byte i (0-based) is XORed with m_i where        *)
(* m_0 = m, v_0 = v, m_{i+1} = m_i + v_i, v_{i+1} = v_i + a  (mod 256).    *)
(***************************************************************************)
RECURSIVE MaskStream(_, _, _, _)
MaskStream(m, v, a, n) ==
    IF n = 0 THEN <<>> ELSE <<m>> \o MaskStream((m + v) % 256, (v + a) % 256, a, n - 1)

\* closed form of the same sequence (checked equal in MC_StrFrame): m + i v + a i(i-1)/2
MaskAt(m, v, a, i) == (m + i * v + a * ((i * (i - 1)) \div 2)) % 256

\* (evaluated through the closed form: TLC re-evaluates recursive operators on every use)
XorMask(bytes, mask) ==
    <<>> \o [i \in 1..Len(bytes) |-> bytes[i] ^^ MaskAt(mask[1], mask[2], mask[3], i - 1)]

Zeros(n) == <<>> \o [i \in 1..n |-> 0]
RoundUp(k, bs) == ((k + bs - 1) \div bs) * bs

\* 32-bit little-endian length prefix
LE32(n) == << n % 256, (n \div 256) % 256, (n \div 65536) % 256, (n \div 16777216) % 256 >>
FromLE32(b) == b[1] + 256 * b[2] + 65536 * b[3] + 16777216 * b[4]      \* callers guarantee b[4] < 128

IsFurigana(payload) == Len(payload) > 0 /\ payload[1] = Bar

HasTerminator(sp) == ~(sp.kind = "fixed" /\ sp.nulless)

\* bytes that have to be stored: text, terminator, and (quirk) the block left behind by the last furigana line
Body(sp, payload, carry) ==
    (IF HasTerminator(sp) THEN payload \o <<0>> ELSE payload)
    \o (IF sp.furibug THEN carry ELSE <<>>)

TooLarge(sp, payload, carry) == sp.kind = "fixed" /\ Len(Body(sp, payload, carry)) > sp.n

\* the masked block (without a length prefix)
Block(sp, payload, carry) ==
    LET body == Body(sp, payload, carry)
        size == IF sp.kind = "fixed" THEN sp.n ELSE RoundUp(Len(body), sp.n)
    IN XorMask(body \o Zeros(size - Len(body)), sp.mask)

\* [ok |-> TRUE, bytes, carry]  |  [ok |-> FALSE, err |-> "too_large", carry]
EncodeStr(sp, payload, carry) ==
    IF TooLarge(sp, payload, carry)
    THEN [ok |-> FALSE, err |-> "too_large", bytes |-> <<>>, carry |-> carry]
    ELSE LET blk == Block(sp, payload, carry)
         IN [ok |-> TRUE, err |-> "",
             bytes |-> IF sp.kind = "pascal" THEN LE32(Len(blk)) \o blk ELSE blk,
             carry |-> IF ~sp.furibug THEN carry                 \* other strings do not touch the buffer
                       ELSE IF IsFurigana(payload) THEN blk      \* remembered exactly as written
                       ELSE NoCarry]                             \* used up

\* consecutive strings of one script: fold EncodeStr, threading the carried block.  steps = <<[sp, payload]>>
RECURSIVE RunSeq(_, _, _)
RunSeq(steps, k, carry) ==
    IF k > Len(steps) THEN <<>>
    ELSE LET r == EncodeStr(steps[k].sp, steps[k].payload, carry)
         IN <<r>> \o RunSeq(steps, k + 1, r.carry)

\* number of bytes of `rest` (the blob from this argument on) that belong to this argument;
\* -1 = malformed (too short)
FrameLen(sp, rest) ==
    CASE sp.kind = "block" -> Len(rest)
      [] sp.kind = "fixed" -> IF Len(rest) >= sp.n THEN sp.n ELSE -1
      [] sp.kind = "pascal" ->
            IF Len(rest) < 4 \/ rest[4] >= 128 THEN -1
            ELSE LET n == FromLE32(rest) IN IF Len(rest) >= 4 + n THEN 4 + n ELSE -1

RECURSIVE FirstZero(_, _)
FirstZero(bytes, i) == IF i > Len(bytes) THEN i ELSE IF bytes[i] = 0 THEN i ELSE FirstZero(bytes, i + 1)

\* the text of a framed argument: unmask, cut at the first NUL
DecodeStr(sp, frame) ==
    LET blk == IF sp.kind = "pascal" THEN SubSeq(frame, 5, Len(frame)) ELSE frame
        plain == XorMask(blk, sp.mask)
    IN SubSeq(plain, 1, FirstZero(plain, 1) - 1)
=============================================================================
