------------------------------ MODULE Desugar ------------------------------
(***************************************************************************)
(* The *documented* desugaring of block structures into labels and jumps   *)
(* (doc/syntax.md "Conditional jumps and labels", "Block structures"):     *)
(*                                                                         *)
(*   if (c) {A} else if (d) {B} else {C}                                   *)
(*        unless (c) goto L1;  A  goto End;                                *)
(*    L1: unless (d) goto L2;  B  goto End;                                *)
(*    L2: C                                                                *)
(*    End:                          (the last block has no `goto End`)     *)
(*   loop {A}            L: A  goto L;  E:                                 *)
(*   do {A} while (c)    L: A  if (c) goto L;  E:                          *)
(*   while (c) {A}       unless (c) goto E;  L: A  if (c) goto L;  E:      *)
(*   times(x = n) {A}    x = n;  if (x == 0) goto E;  L: A  if (--x) goto L;  E:    *)
(*   times(n) {A}        the same with a fresh local for x                 *)
(*   break               goto E of the innermost loop                      *)
(*   { A }               A                                                 *)
(*                                                                         *)
(* This is the spec's own formulation; `MC_Desugar` (Gen_Blocks.tla) checks *)
(* that AstSem on a block tree and AstSem on its documented flat form      *)
(* agree, so the two readings of the documentation cannot drift apart.     *)
(* It is NOT a transcription of src/passes/desugar_blocks.rs.              *)
(***************************************************************************)
EXTENDS AstSem

Lbl(n) == "@L" \o ToString(n)
LabelStmt(n) == [k |-> "label", name |-> Lbl(n)]
Goto(n) == [k |-> "jump", jump |-> "goto", label |-> Lbl(n)]
CondGoto(kw, c, n) == [k |-> "condjump", kw |-> kw, cond |-> c, jump |-> "goto", label |-> Lbl(n)]
Negate(kw) == IF kw = "if" THEN "unless" ELSE "if"
TmpVar(n) == [k |-> "var", sig |-> "", id |-> "tmp" \o ToString(n)]
PreDec(v) == [k |-> "xcr", op |-> "--", order |-> "pre", var |-> v]
CountCond(v) == IF CountGt THEN [k |-> "bin", op |-> ">", a |-> PreDec(v), b |-> [k |-> "int", v |-> 0]] ELSE PreDec(v)

\* Every function returns [out |-> flat statements, n |-> next unused label number].
\* `brk` is the label number of the innermost loop's end label (0 = not in a loop).
RECURSIVE DBlock(_, _, _, _), DChain(_, _, _, _, _, _)

DStmt(s, n, brk) ==
    CASE s.k = "block" -> DBlock(s.body, 1, n, brk)
      [] s.k = "jump" /\ s.jump = "break" -> [out |-> << Goto(brk) >>, n |-> n]
      [] s.k = "loop" ->
            LET l == n  e == n + 1
                b == DBlock(s.body, 1, n + 2, e)
            IN [out |-> << LabelStmt(l) >> \o b.out \o << Goto(l), LabelStmt(e) >>, n |-> b.n]
      [] s.k = "while" ->
            LET l == n  e == n + 1
                b == DBlock(s.body, 1, n + 2, e)
                guard == IF s.do THEN <<>> ELSE << CondGoto("unless", s.cond, e) >>
            IN [out |-> guard \o << LabelStmt(l) >> \o b.out \o << CondGoto("if", s.cond, l), LabelStmt(e) >>, n |-> b.n]
      [] s.k = "times" ->
            LET l == n  e == n + 1
                x == IF HasField(s, "clobber") THEN s.clobber ELSE TmpVar(n)
                b == DBlock(s.body, 1, n + 2, e)
                zero == [k |-> "bin", op |-> "==", a |-> x, b |-> [k |-> "int", v |-> 0]]
            IN [out |-> << [k |-> "assign", var |-> x, op |-> "=", value |-> s.count],
                            CondGoto("if", zero, e), LabelStmt(l) >>
                        \o b.out \o << CondGoto("if", CountCond(x), l), LabelStmt(e) >>,
                n |-> b.n]
      [] s.k = "chain" -> DChain(s, 1, n + 1, brk, n, <<>>)
      [] OTHER -> [out |-> << s >>, n |-> n]

\* blocks j.. of a chain; `endl` is the chain's end label number
DChain(s, j, n, brk, endl, acc) ==
    LET nb == Len(s.blocks)
        hasElse == HasField(s, "else")
    IN IF j > nb THEN
           IF hasElse
           THEN LET b == DBlock(s.else, 1, n, brk) IN [out |-> acc \o b.out \o << LabelStmt(endl) >>, n |-> b.n]
           ELSE [out |-> acc \o << LabelStmt(endl) >>, n |-> n]
       ELSE
           LET blk == s.blocks[j]
               isLast == j = nb /\ ~hasElse
               skip == n
               b == DBlock(blk.body, 1, n + 1, brk)
               tail == IF isLast THEN <<>> ELSE << Goto(endl) >>
           IN DChain(s, j + 1, b.n, brk, endl,
                     acc \o << CondGoto(Negate(blk.kw), blk.cond, skip) >> \o b.out \o tail \o << LabelStmt(skip) >>)

DBlock(blk, i, n, brk) ==
    IF i > Len(blk) THEN [out |-> <<>>, n |-> n]
    ELSE LET a == DStmt(blk[i], n, brk)
             r == DBlock(blk, i + 1, a.n, brk)
         IN [out |-> a.out \o r.out, n |-> r.n]

\* time labels are statements like any other and simply stay where they are, so the lexical times of
\* the flat form are those of the tree
Desugar(prog) == DBlock(prog, 1, 1, 0).out
=============================================================================
