-------------------------- MODULE MC_ToolchainRT --------------------------
(***************************************************************************)
(* In-model check of the L3 contract ToolchainRT on a small abstract       *)
(* toolchain: 3 contents x 2 option sets x 2 widths, one format per cfg (one that  *)
(* needs an image source, one that does not), histories of up to MaxLen    *)
(* events after the import of a first binary.  The "tool" is completely nondeterministic: every event record  *)
(* of the finite universe is offered at every state and the contract's     *)
(* guards decide which ones are allowed.  TLC establishes                  *)
(*   - the guards imply the declarative properties over the history        *)
(*     (RoundTrip, Deterministic) and memo/store are exactly what the      *)
(*     history says (the contract's bookkeeping is right);                 *)
(*   - the contract is satisfiable and not vacuous: every action and every *)
(*     interesting branch is taken somewhere (counted, POSTCONDITION);     *)
(*   - the guards are *tight*: an event offered in a state where the       *)
(*     guard fails would break a declarative property (RejectsAreReal).    *)
(* This model says nothing about the code; it exists so that the trace     *)
(* spec (Trace_ToolchainRT) reuses checked actions.  Run with -workers 1   *)
(* (counters live in TLC registers).                                       *)
(***************************************************************************)
EXTENDS ToolchainRT

CONSTANTS MaxLen, Fmts      \* history bound; the formats of this run (one cfg per format keeps the space small)

VARIABLES hist
vars == <<store, memo, pending, hist>>

Contents == {"c1", "c2", "c3"}
OptSets == {"", "no-blocks"}
Widths == {7, 80}
Errs == {"e0", "eW"}          \* two stderr contents; "eW" contains a loss warning
LossOf(se) == se = "eW"

DOutcomes == [rc : {0}, out : Contents, so : {"o"}, se : Errs] \cup [rc : {1}, out : {""}, so : {"o"}, se : {"e0"}]
COutcomes == [rc : {0}, out : Contents, so : {"o"}, se : {"e0"}] \cup [rc : {1}, out : {""}, so : {"o"}, se : {"e0"}]

Base(cmd, fmt, o, w, in, img, oc, trusted) ==
    [cmd |-> cmd, fmt |-> fmt, game |-> "7", opts |-> o, width |-> w, map |-> "", in |-> in, img |-> img,
     rc |-> oc.rc, out |-> oc.out, so |-> oc.so, se |-> oc.se, loss |-> (cmd = "decompile" /\ LossOf(oc.se)),
     trusted |-> trusted, kind |-> ""]

DecompileEvents == {Base("decompile", f, o, w, c, "", oc, FALSE) : f \in Fmts, o \in OptSets, w \in Widths, c \in Contents, oc \in DOutcomes}
CompileEvents == {Base("compile", f, "", -1, c, img, oc, FALSE) : f \in Fmts, c \in Contents, img \in Contents \cup {""}, oc \in COutcomes}
ImportEvents == {[Base("import", "", "", -1, c, "", [rc |-> 0, out |-> "", so |-> "", se |-> ""], FALSE) EXCEPT !.kind = k] :
                    c \in Contents, k \in {"bin", "text"}}
ResetEvents == {Base("reset", "", "", -1, "", "", [rc |-> 0, out |-> "", so |-> "", se |-> ""], FALSE)}
Events == DecompileEvents \cup CompileEvents \cup ImportEvents \cup ResetEvents

\* ---- counters (registers 61..69), single worker
ASSUME \A r \in 61..69 : TLCSet(r, 0)
Bump(r) == TLCSet(r, TLCGet(r) + 1)
Count(e) ==
    /\ e.cmd = "import" => Bump(61)
    /\ e.cmd = "reset" => Bump(62)
    /\ (e.cmd = "decompile" /\ Ok(e) /\ ~e.loss) => Bump(63)
    /\ (e.cmd = "decompile" /\ Ok(e) /\ e.loss) => Bump(64)
    /\ (e.cmd = "decompile" /\ ~Ok(e)) => Bump(65)
    /\ (e.cmd = "compile" /\ Recompiles(e)) => Bump(66)                      \* RoundTrip antecedent true, event allowed
    /\ (e.cmd = "compile" /\ ~Recompiles(e) /\ Ok(e)) => Bump(67)            \* unconstrained compile, Ok
    /\ (e.cmd = "compile" /\ ~Recompiles(e) /\ ~Ok(e)) => Bump(68)           \* unconstrained compile, Err
    /\ (IsTool(e) /\ Key(e) \in DOMAIN memo) => Bump(69)                     \* memo hit (same command again)

\* the session starts with one imported binary (a bundled game file)
First == CHOOSE e \in ImportEvents : e.in = "c1" /\ e.kind = "bin"
Init == store = Put(Empty, "c1", "bin") /\ memo = Empty /\ pending = NoPending /\ hist = <<First>>

Next ==
    /\ Len(hist) < MaxLen
    /\ \E e \in {x \in Events : ~IsTool(x) \/ x.in \in DOMAIN store} :     \* (cheap pre-filter; InputsKnown decides)
        /\ ToolStep(e)
        /\ hist' = IF e.cmd = "reset" THEN <<>> ELSE Append(hist, e)
        /\ Count(e)

Spec == Init /\ [][Next]_vars

\* ---- invariants
TypeOK ==
    /\ DOMAIN store \subseteq Contents /\ \A c \in DOMAIN store : store[c] \in {"bin", "text"}
    /\ \A k \in DOMAIN memo : memo[k][1] \in {0, 1}
    /\ pending.some \in BOOLEAN

RoundTripHolds == RoundTrip(hist)
DeterministicHolds == Deterministic(hist)

\* the bookkeeping is exactly the history
MemoIsHistory ==
    /\ \A i \in 1..Len(hist) : IsTool(hist[i]) => (Key(hist[i]) \in DOMAIN memo /\ memo[Key(hist[i])] = Outcome(hist[i]))
    /\ \A k \in DOMAIN memo : \E i \in 1..Len(hist) : IsTool(hist[i]) /\ Key(hist[i]) = k
StoreIsHistory ==
    \A c \in DOMAIN store : \E i \in 1..Len(hist) :
        \/ hist[i].cmd = "import" /\ hist[i].in = c
        \/ IsTool(hist[i]) /\ hist[i].rc = 0 /\ hist[i].out = c
PendingIsLast ==
    LET t == ToolEvents(hist) IN
    pending.some <=> ( /\ t # <<>>
                       /\ LET d == t[Len(t)] IN d.cmd = "decompile" /\ d.rc = 0 /\ ~d.loss )

\* tightness: a tool event with known inputs and a well-formed outcome that the guards refuse would
\* falsify RoundTrip or Deterministic if it were appended to the history
RejectsAreReal ==
    \A e \in {x \in DecompileEvents \cup CompileEvents : x.in \in DOMAIN store} :
        ( /\ InputsKnown(e) /\ OutcomeShape(e)
          /\ ~(IF e.cmd = "decompile" THEN DecompileGuard(e) ELSE CompileGuard(e)) )
        => ~(RoundTrip(Append(hist, e)) /\ Deterministic(Append(hist, e)))

\* ---- every action / branch was exercised
Post ==
    /\ PrintT(<<"COUNTS", TLCGet(61), TLCGet(62), TLCGet(63), TLCGet(64), TLCGet(65), TLCGet(66), TLCGet(67), TLCGet(68), TLCGet(69)>>)
    /\ \A r \in 61..69 : TLCGet(r) > 0
=============================================================================
