SPECIFICATION Spec
INVARIANT LabelsReproduceStoredTimes
CHECK_DEADLOCK FALSE
POSTCONDITION Post
