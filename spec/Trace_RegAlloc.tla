--------------------------- MODULE Trace_RegAlloc ---------------------------
(***************************************************************************)
(* Mode H for C05: the allocation events recorded from the real            *)
(* `assign_registers` (hook events alloc / free / too_complex /            *)
(* anti_scratch_error), the register operands of the emitted instructions  *)
(* (use) and the outcome (end) must be a behaviour of RegAlloc.  The       *)
(* per-script constants come from the harness and the generator (`reset`), *)
(* not from the code.  Deterministic: one state per consumed event; the    *)
(* POSTCONDITION reports how far the history could be explained.           *)
(***************************************************************************)
EXTENDS RegAlloc, Sequences, Json, IOUtils

Rec == ndJsonDeserialize(IOEnv.HIST)
VARIABLE l
tvars == <<avars, l>>

SetOf(seq) == {seq[j] : j \in 1..Len(seq)}
IsEvent(e) == l <= Len(Rec) /\ Rec[l].ev = e /\ l' = l + 1
Ty(t) == IF t = "Float" THEN "f" ELSE "i"

TReset == IsEvent("reset") /\ Reset([i |-> SetOf(Rec[l].general_i), f |-> SetOf(Rec[l].general_f)],
                                    SetOf(Rec[l].mentioned), SetOf(Rec[l].params), Rec[l].anti)
TAlloc == IsEvent("alloc") /\ Alloc(Rec[l].def, Ty(Rec[l].ty), Rec[l].reg)
TFree == IsEvent("free") /\ Free(Rec[l].def, Rec[l].reg)
TTooComplex == IsEvent("too_complex") /\ TooComplex(Ty(Rec[l].ty))
TAntiErr == IsEvent("anti_scratch_error") /\ AntiScratchError
TUse == IsEvent("use") /\ Use(SetOf(Rec[l].regs))
TEnd == IsEvent("end") /\ (IF Rec[l].ok THEN EndOk ELSE EndErr)

Init == /\ l = 1 /\ General = [i |-> {}, f |-> {}] /\ Mentioned = {} /\ Params = {} /\ Anti = FALSE
        /\ live = <<>> /\ ever = {} /\ failed = FALSE /\ antiErr = FALSE
        /\ TLCSet(61, 1)
Next == (TReset \/ TAlloc \/ TFree \/ TTooComplex \/ TAntiErr \/ TUse \/ TEnd) /\ TLCSet(61, l')
Spec == Init /\ [][Next]_tvars

Inv == NoTwoLive /\ NeverMentioned /\ OnlyGeneral
\* how far the history was explained (l reached) vs its length; the driver compares
Post == PrintT(<<"REACHED", TLCGet(61), Len(Rec) + 1>>)
=============================================================================
