SPECIFICATION Spec
INVARIANT Inv
POSTCONDITION Post
CHECK_DEADLOCK FALSE
