SPECIFICATION Spec
INVARIANT Inv
INVARIANT NotDone
POSTCONDITION Post
CHECK_DEADLOCK FALSE
