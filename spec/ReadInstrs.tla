----------------------------- MODULE ReadInstrs -----------------------------
(***************************************************************************)
(* L2: the end-of-script detection machine of the instruction reader       *)
(* (llir::read_instrs), from the documentation of `ReadInstr` and          *)
(* `InstrFormat::has_terminal_instr`:                                      *)
(*                                                                         *)
(*  - every script ends with a dummy *terminal* instruction, which is not  *)
(*    part of the script; `Terminal` is one that is recognisable as such   *)
(*  - `MaybeTerminal(instr)` looks like the terminal but could be code: it *)
(*    is the terminal only if it ends at the expected end offset or is     *)
(*    followed by end of file; otherwise it is an ordinary instruction     *)
(*  - end of file at the beginning of an instruction ends the script       *)
(*  - reaching the expected end offset ends the script; reading past it    *)
(*    is an error                                                          *)
(*  - when the format has terminal instructions and the script ended       *)
(*    without one, a warning "missing end-of-script marker" is printed     *)
(*                                                                         *)
(* The reader events of a file are a sequence over                         *)
(*   "i4" "i8"  (an instruction of that size)   "m4" (maybe-terminal)      *)
(*   "t" (terminal);   after the sequence the file is at EOF.              *)
(* State machine: one step per event read; `Result` is the final verdict.  *)
(***************************************************************************)
EXTENDS Integers, Sequences, TLC

Size(e) == CASE e = "i4" -> 4 [] e = "i8" -> 8 [] e = "m4" -> 4 [] OTHER -> 0

\* configuration: position in the stream, byte offset, pending maybe-terminal (0 = none, else its index),
\* indices of the instructions kept, warned?, status "run" | "ok" | "err"
Start == [i |-> 1, off |-> 0, pend |-> 0, out |-> <<>>, warned |-> FALSE, st |-> "run"]

Flush(c) == IF c.pend = 0 THEN c ELSE [c EXCEPT !.out = Append(c.out, c.pend), !.pend = 0]

\* `hasEnd`/`endoff`: the expected end offset (relative to the start of the script), `hasTerm`: format has terminals
StepRI(stream, hasEnd, endoff, hasTerm, c) ==
    IF c.st # "run" THEN c
    ELSE IF hasEnd /\ c.off = endoff THEN
        \* the script ends here; a pending maybe-terminal that ends exactly here IS the terminal
        [c EXCEPT !.st = "ok", !.warned = hasTerm /\ c.pend = 0]
    ELSE IF hasEnd /\ c.off > endoff THEN [c EXCEPT !.st = "err"]
    ELSE IF c.i > Len(stream) THEN
        \* end of file at the beginning of an instruction; a pending maybe-terminal followed by EOF is the terminal
        [c EXCEPT !.st = "ok", !.warned = hasTerm /\ c.pend = 0]
    ELSE LET e == stream[c.i] IN
         IF e = "t" THEN [Flush(c) EXCEPT !.st = "ok"]     \* (a pending maybe-terminal before a real terminal was code)
         ELSE LET f == Flush(c)        \* another instruction follows: a pending maybe-terminal was code
                  g == [f EXCEPT !.i = c.i + 1, !.off = c.off + Size(e)]
              IN IF e = "m4" THEN [g EXCEPT !.pend = c.i] ELSE [g EXCEPT !.out = Append(f.out, c.i)]

RECURSIVE RunRI(_, _, _, _, _)
RunRI(stream, hasEnd, endoff, hasTerm, c) ==
    IF c.st # "run" THEN c ELSE RunRI(stream, hasEnd, endoff, hasTerm, StepRI(stream, hasEnd, endoff, hasTerm, c))

Result(stream, hasEnd, endoff, hasTerm) ==
    LET c == RunRI(stream, hasEnd, endoff, hasTerm, Start)
    IN [ok |-> c.st = "ok", kept |-> IF c.st = "ok" THEN c.out ELSE <<>>, warned |-> c.st = "ok" /\ c.warned]
=============================================================================
