--------------------------- MODULE ProductDecomp ---------------------------
(***************************************************************************)
(* C07: ProductAst on (instruction stream decompiled without block         *)
(* recovery, same stream decompiled with loops / if-else / break           *)
(* recovered), plus the three structural "never" clauses of the property   *)
(* as predicates on the pair of trees.                                     *)
(***************************************************************************)
EXTENDS ProductAst

\* all statements of a tree, in lexical order (compound statements are followed by their bodies)
RECURSIVE Flat(_), FlatFrom(_, _), FlatChain(_, _)
FlatChain(blocks, j) == IF j > Len(blocks) THEN <<>> ELSE Flat(blocks[j].body) \o FlatChain(blocks, j + 1)
FlatFrom(blk, n) ==
    IF n > Len(blk) THEN <<>>
    ELSE LET s == blk[n]
             inner == IF s.k \in {"loop", "while", "times", "block"} THEN Flat(s.body)
                      ELSE IF s.k = "chain" THEN FlatChain(s.blocks, 1) \o (IF HasField(s, "else") THEN Flat(s.else) ELSE <<>>)
                      ELSE <<>>
         IN <<s>> \o inner \o FlatFrom(blk, n + 1)
Flat(blk) == FlatFrom(blk, 1)

Sel(seq, P(_)) == SelectSeq(seq, P)
IsGotoLike(s) == s.k \in {"jump", "condjump"} /\ s.jump = "goto"
IsTimedJump(s) == IsGotoLike(s) /\ HasField(s, "time")
IsLabel(s) == s.k = "label"
IsInstr(s) == s.k \in {"expr", "assign"}

\* times of the instruction statements, in order
InstrTimesOf(ablk) == LET f == Sel(Flat(ablk), IsInstr) IN [j \in 1..Len(f) |-> f[j].tm]
\* jumps with an explicit time, in order, with everything that identifies them
TimedJumpsOf(ablk) == LET f == Sel(Flat(ablk), IsTimedJump) IN [j \in 1..Len(f) |-> <<f[j].k, f[j].label, f[j].time, f[j].tm>>]
LabelNames(ablk) == LET f == Sel(Flat(ablk), IsLabel) IN [j \in 1..Len(f) |-> f[j].name]
GotoTargets(ablk) == LET f == Sel(Flat(ablk), IsGotoLike) IN {f[j].label : j \in 1..Len(f)}
Count(seq, x) == Cardinality({j \in 1..Len(seq) : seq[j] = x})

\* reconstruction never alters time labels
TimesUnchanged == InstrTimesOf(ASrc[i]) = InstrTimesOf(AOut[i])
\* reconstruction never captures a jump with an explicit time argument
NoTimedJumpCaptured == TimedJumpsOf(ASrc[i]) = TimedJumpsOf(AOut[i])
\* reconstruction never moves / drops a label that something still jumps to: every remaining goto target
\* exists exactly once, at the same time and before the same instruction as in the flat form
LabelTimeIn(ablk, name) == LET f == Sel(Flat(ablk), LAMBDA s : IsLabel(s) /\ s.name = name) IN f[1].tm
LabelsPreserved ==
    \A name \in GotoTargets(AOut[i]) :
        /\ Count(LabelNames(AOut[i]), name) = 1
        /\ Count(LabelNames(ASrc[i]), name) = 1
        /\ LabelTimeIn(AOut[i], name) = LabelTimeIn(ASrc[i], name)
StructOk == TimesUnchanged /\ NoTimedJumpCaptured /\ LabelsPreserved
=============================================================================
