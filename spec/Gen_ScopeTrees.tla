--------------------------- MODULE Gen_ScopeTrees ---------------------------
(***************************************************************************)
(* C10, Mode G.  The enumerated family of scope trees, their expected      *)
(* resolution (Scopes!Declarative) and the rows exported for replay into   *)
(* the real resolver.                                                      *)
(*                                                                         *)
(* The size of a tree is the number of its nodes: every statement is one   *)
(* node, an initialiser that mentions a name is one more node, a second    *)
(* declarator and a function parameter are one node each.  All trees up to *)
(* a size bound are enumerated for                                         *)
(* a *vocabulary* (which names may be declared / used / appear in          *)
(* initialisers, which compound statements exist).  Several vocabularies   *)
(* are used because the full one explodes at size 5 (see Vocab below).     *)
(***************************************************************************)
EXTENDS Scopes, Json, IOUtils
LOCAL INSTANCE SequencesExt

Lit == [k |-> "lit"]

\* leaves of size 1 and 2
Leaves1(V) ==
    { [k |-> "use", n |-> n] : n \in V.useN }
    \cup { [k |-> "callf", n |-> n] : n \in V.callN }
    \cup { [k |-> kd, n |-> n, i |-> Lit] : kd \in {"local", "const"}, n \in V.declN }
Leaves2(V) ==
    { [k |-> kd, n |-> n, i |-> [k |-> "var", n |-> m]] : kd \in {"local", "const"}, n \in V.declN, m \in V.initN }
    \cup { [k |-> kd, n |-> n, i |-> [k |-> "call", n |-> m]] : kd \in {"local", "const"}, n \in V.declN, m \in V.initCallN }

\* two declarators in one statement: sizes 2 (second initialiser a literal) and 3
TwoDecl(V, w) ==
    IF ~V.two THEN {}
    ELSE IF w = 2 THEN { [k |-> "local2", n |-> n, m |-> m, i |-> Lit] : n \in V.declN, m \in V.declN }
    ELSE IF w = 3 THEN { [k |-> "local2", n |-> n, m |-> m, i |-> [k |-> "var", n |-> x]] : n \in V.declN, m \in V.declN, x \in V.initN }
    ELSE {}

ParamLists(V) == {<<>>} \cup { <<m>> : m \in V.paramN } \cup { <<m, m2>> : m \in V.paramN, m2 \in V.paramN }

\* T = <<blocks of size 0, blocks of size 1, ..., blocks of size w-1>>  (T[s+1] = blocks of size s)
BodiesOf(V, T, s) == IF s < 0 \/ (V.nonempty /\ s = 0) THEN {} ELSE T[s + 1]

StmtsOfSize(V, T, w) ==
    (IF w = 1 THEN Leaves1(V) ELSE IF w = 2 THEN Leaves2(V) ELSE {})
    \cup TwoDecl(V, w)
    \cup { [k |-> kd, b |-> b] : kd \in (V.structs \cap {"blk", "loop"}), b \in BodiesOf(V, T, w - 1) }
    \cup (IF "if" \in V.structs
          THEN UNION { { [k |-> "if", b |-> b, e |-> e] : b \in BodiesOf(V, T, s), e \in T[w - 1 - s + 1] } : s \in 0..(w - 1) }
          ELSE {})
    \cup UNION { { [k |-> "func", n |-> n, q |-> q, p |-> ps, b |-> b] :
                     n \in V.funcN, q \in V.quals, b \in BodiesOf(V, T, w - 1 - Len(ps)) } : ps \in ParamLists(V) }

\* S = <<statements of size 1, ..., statements of size w>>: blocks of size w
BlocksOfSize(T, S, w) ==
    UNION { { <<s>> \o r : s \in S[f], r \in T[w - f + 1] } : f \in 1..w }

RECURSIVE Build(_, _, _, _)
Build(V, T, S, w) ==      \* extend the tables up to size V.max
    IF w > V.max THEN T
    ELSE LET S2 == Append(S, StmtsOfSize(V, T, w))
             T2 == Append(T, BlocksOfSize(T, S2, w))
         IN Build(V, T2, S2, w + 1)

RECURSIVE NamesOfBlock(_)
NamesOfInit(i) == IF i.k = "lit" THEN <<>> ELSE <<i.n>>
NamesOfStmt(s) ==
    CASE s.k \in {"use", "callf"}   -> <<s.n>>
      [] s.k \in {"local", "const"} -> <<s.n>> \o NamesOfInit(s.i)
      [] s.k = "local2"             -> <<s.n, s.m>> \o NamesOfInit(s.i)
      [] s.k \in {"blk", "loop"}    -> NamesOfBlock(s.b)
      [] s.k = "if"                 -> NamesOfBlock(s.b) \o NamesOfBlock(s.e)
      [] s.k = "func"               -> <<s.n>> \o s.p \o NamesOfBlock(s.b)
NamesOfBlock(b) == IF b = <<>> THEN <<>> ELSE NamesOfStmt(b[1]) \o NamesOfBlock(Tail(b))

\* The pool names "a" and "b" are interchangeable: keep the trees whose first pool name is "a".
Canonical(t) ==
    LET ns == SelectSeq(NamesOfBlock(t), LAMBDA n : n \in {"a", "b"})
    IN ns = <<>> \/ ns[1] = "a"

Family(V) ==
    LET T == Build(V, << {<<>>} >>, <<>>, 1)
    IN { t \in UNION { T[w + 1] : w \in 1..V.max } : V.sym => Canonical(t) }

(***************************************************************************)
(* Vocabularies.  `max` comes from the environment (tier).                 *)
(*  V  all three names everywhere, blocks, loops, if/else, empty bodies    *)
(*  N  the two pool names, free blocks only (non-empty), statements with   *)
(*     two declarators: deeper shadowing                                   *)
(*  D  one name, blocks and if/else (non-empty): deepest nesting           *)
(*  F  function items (0..2 parameters, plain and const), calls, one name  *)
(*     for variables and functions + the instruction alias                 *)
(***************************************************************************)
Vocab(f, max) ==
    CASE f = "V" -> [declN |-> {"a", "b", AliasVar}, useN |-> {"a", "b", AliasVar}, initN |-> {"a", "b", AliasVar},
                     callN |-> {}, initCallN |-> {}, funcN |-> {}, paramN |-> {}, quals |-> {},
                     structs |-> {"blk", "loop", "if"}, nonempty |-> FALSE, sym |-> TRUE, two |-> FALSE, max |-> max]
      [] f = "N" -> [declN |-> {"a", "b"}, useN |-> {"a", "b"}, initN |-> {"a", "b"},
                     callN |-> {}, initCallN |-> {}, funcN |-> {}, paramN |-> {}, quals |-> {},
                     structs |-> {"blk"}, nonempty |-> TRUE, sym |-> TRUE, two |-> TRUE, max |-> max]
      [] f = "D" -> [declN |-> {"a"}, useN |-> {"a"}, initN |-> {"a"},
                     callN |-> {}, initCallN |-> {}, funcN |-> {}, paramN |-> {}, quals |-> {},
                     structs |-> {"blk", "if"}, nonempty |-> TRUE, sym |-> FALSE, two |-> FALSE, max |-> max]
      \* parameters against the declarations of the function's own body (one name, no calls): deeper than F affords
      [] f = "P" -> [declN |-> {"a"}, useN |-> {"a"}, initN |-> {"a"},
                     callN |-> {}, initCallN |-> {}, funcN |-> {"f"}, paramN |-> {"a", "b"},
                     quals |-> {"none", "const"},
                     structs |-> {"blk"}, nonempty |-> FALSE, sym |-> FALSE, two |-> FALSE, max |-> max]
      [] f = "F" -> [declN |-> {"a"}, useN |-> {"a", AliasVar}, initN |-> {"a"},
                     callN |-> {"a", AliasIns}, initCallN |-> {"a"}, funcN |-> {"a"}, paramN |-> {"a", "b"},
                     quals |-> {"none", "const"},
                     structs |-> {"blk"}, nonempty |-> FALSE, sym |-> FALSE, two |-> FALSE, max |-> max]

\* the languages a tree is resolved for: both when it mentions a mapfile alias
\* ... and with / without a global enum const spelled like the register alias when it mentions that name
Langs(t) == (IF \E j \in DOMAIN NamesOfBlock(t) : NamesOfBlock(t)[j] \in {AliasVar, AliasIns}
             THEN {"own", "other"} ELSE {"own"})
            \cup (IF \E j \in DOMAIN NamesOfBlock(t) : NamesOfBlock(t)[j] = AliasVar
                  THEN {"own+e", "other+e"} ELSE {})

-----------------------------------------------------------------------------
(***************************************************************************)
(* Export.  One row per (tree, language): the tree, and per identifier     *)
(* occurrence (keyed by its path) the expected class:                      *)
(*   "D<path of the declaration>" | "alias:v" | "alias:f" | "unknown" |    *)
(*   "barrier" | "skip" (not determined by the rules, see Scopes!Ambig)    *)
(* plus the expected errors, and two renamings of the bound names:         *)
(*   r1: every definition gets its own fresh name (no shadowing remains);  *)
(*   r2: a |-> p, b |-> q, ALIAS |-> r on bound occurrences (the shadowing  *)
(*       structure is kept, free names -- aliases, unknowns -- are kept).  *)
(***************************************************************************)
Key(p) == ToString(p)

Label(r, p, ns) ==
    CASE r.t = "def" -> "D" \o Key(r.d)
      [] r.t \in {"self", "redef"} -> "D" \o Key(p)
      [] r.t = "alias" -> "alias:" \o ns
      [] r.t = "ambig" -> "skip"
      [] OTHER -> r.t

PoolRename(n) == CASE n = "a" -> "p" [] n = "b" -> "q" [] n = AliasVar -> "r" [] OTHER -> n \o "_"

Row(f, t, l) ==
    LET O == Occs(t, l)
        seq == SetToSeq(O)
        N == Len(seq)
        R == <<>> \o [j \in 1..N |-> Result(O, seq[j])]            \* = Declarative(t, l)[seq[j].p], computed once
        Ix(p) == CHOOSE j \in 1..N : seq[j].p = p
        \* the declaration an occurrence is bound to (0: free)
        Bound(j) == IF seq[j].role = "decl" THEN j ELSE IF R[j].t = "def" THEN Ix(R[j].d) ELSE 0
        Num(j) == Cardinality({ i \in 1..j : seq[i].role = "decl" })   \* any injective numbering of declarations will do
        bad == SelectSeq(<<>> \o [j \in 1..N |-> j], LAMBDA j : R[j].t \in {"unknown", "barrier", "redef"})
    IN [fam |-> f, lang |-> l, tree |-> t,
        occ |-> <<>> \o [j \in 1..N |->
                    [p |-> Key(seq[j].p), n |-> seq[j].n, ns |-> seq[j].ns, role |-> seq[j].role, dk |-> seq[j].dk,
                     e |-> Label(R[j], seq[j].p, seq[j].ns),
                     \* the enum const is a declared name too: it is renamed (to ge1 / ge2) along with its uses
                     r1 |-> IF R[j].t = "enum" THEN "ge1" ELSE IF Bound(j) = 0 THEN seq[j].n ELSE "v" \o ToString(Num(Bound(j))),
                     r2 |-> IF R[j].t = "enum" THEN "ge2" ELSE IF Bound(j) = 0 THEN seq[j].n ELSE PoolRename(seq[j].n)]],
        errs |-> <<>> \o [i \in 1..Len(bad) |-> [kind |-> R[bad[i]].t, n |-> seq[bad[i]].n, ns |-> seq[bad[i]].ns]],
        determined |-> \A j \in 1..N : R[j].t # "ambig",
        clean |-> \A j \in 1..N : R[j].t \in {"def", "alias", "enum", "self"}]

Cases(f, max) == UNION { { <<t, l>> : l \in Langs(t) } : t \in Family(Vocab(f, max)) }

Rows(f, max) == LET cs == SetToSeq(Cases(f, max)) IN [j \in 1..Len(cs) |-> Row(f, cs[j][1], cs[j][2])]
=============================================================================
