SPECIFICATION Spec
INVARIANTS Bijection Classified
CHECK_DEADLOCK FALSE
