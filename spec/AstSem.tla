------------------------------ MODULE AstSem ------------------------------
(***************************************************************************)
(* L1: the script machine on block trees (and, as the special case without *)
(* nested blocks, on flat label-and-jump statement lists).                 *)
(*                                                                         *)
(* A configuration is a record                                             *)
(*   [pos, time, rt, regs, tmps, log, st, fuel]                            *)
(* pos  : a path  <<i>>, <<i, j, k>>, ...  statement i of the body, block  *)
(*        j of that statement, statement k of that block, ...  An index    *)
(*        one past the end of a block means "at the closing brace".        *)
(* time : script time;  rt : real (monotone) time;  regs : id -> value;    *)
(* tmps : hidden counters of `times(n)` loops, keyed by the loop's path;   *)
(* log  : the observable instruction calls  <<rt, time, opcode, args>>;    *)
(* st   : "run" | "done" | "discard" (left the decided envelope) |         *)
(*        "fuel" (step budget exhausted).                                  *)
(*                                                                         *)
(* Rules, each a sentence of doc/syntax.md (see DESIGN.md section 3):      *)
(*  - before a statement executes the machine waits until its time label   *)
(*    (also when the statement is then skipped for the wrong difficulty)   *)
(*  - goto sets time to the label's time, or to the explicit `@ t`         *)
(*  - falling into or out of a block never changes time; every other way   *)
(*    of moving (to an else-branch, from the end of a non-final branch to  *)
(*    the end of the chain, back to a loop start, past a loop or chain)    *)
(*    is a jump to a label at that place and sets time to the lexical      *)
(*    time of that place (the documented if/else desugaring)               *)
(*  - times(n) is `int tmp = n; if (tmp == 0) skip; do {..} while(--tmp)`  *)
(***************************************************************************)
EXTENDS TimeLabels

CONSTANT CountGt      \* TRUE: the counting jump loops while the decremented counter is > 0; FALSE: while it is # 0

\* ------------------------------------------------------------------ tree access
LastOf(p) == p[Len(p)]
WithLast(p, i) == [p EXCEPT ![Len(p)] = i]
NextPos(p) == WithLast(p, LastOf(p) + 1)

\* sub-block j of compound statement s (chain: j-th conditional block, or the else block as j = n+1)
SubBlock(s, j) ==
    IF s.k = "chain"
    THEN IF j <= Len(s.blocks) THEN s.blocks[j].body ELSE s.else
    ELSE s.body

RECURSIVE BlockAtFrom(_, _, _)
\* the block containing position p (p's last element indexes into it)
BlockAtFrom(blk, p, d) ==
    IF d = Len(p) THEN blk
    ELSE BlockAtFrom(SubBlock(blk[p[d]], p[d + 1]), p, d + 2)
BlockAt(prog, p) == BlockAtFrom(prog, p, 1)
AtEnd(prog, p) == LastOf(p) > Len(BlockAt(prog, p))
StmtAt(prog, p) == BlockAt(prog, p)[LastOf(p)]
\* path of the compound statement whose sub-block contains p, and which sub-block
ParentPath(p) == SubSeq(p, 1, Len(p) - 2)
ParentSel(p) == p[Len(p) - 1]

\* innermost enclosing loop statement of position p (for `break`); <<>> if none
RECURSIVE EnclosingLoop(_, _)
EnclosingLoop(prog, p) ==
    IF Len(p) <= 1 THEN <<>>
    ELSE LET pp == ParentPath(p)
         IN IF StmtAt(prog, pp).k \in {"loop", "while", "times"} THEN pp ELSE EnclosingLoop(prog, pp)

\* path of `label name:` anywhere in the body; <<>> if absent
RECURSIVE FindLabel(_, _, _, _), FindInSubs(_, _, _, _)
FindInSubs(s, j, prefix, name) ==
    LET n == IF s.k = "chain" THEN Len(s.blocks) + (IF HasField(s, "else") THEN 1 ELSE 0) ELSE 1
    IN IF j > n THEN <<>>
       ELSE LET r == FindLabel(SubBlock(s, j), prefix \o <<j>>, 1, name)
            IN IF r # <<>> THEN r ELSE FindInSubs(s, j + 1, prefix, name)
FindLabel(blk, prefix, i, name) ==
    IF i > Len(blk) THEN <<>>
    ELSE LET s == blk[i] IN
         IF s.k = "label" /\ s.name = name THEN prefix \o <<i>>
         ELSE IF s.k \in {"loop", "while", "times", "block", "chain"}
              THEN LET r == FindInSubs(s, 1, prefix \o <<i>>, name)
                   IN IF r # <<>> THEN r ELSE FindLabel(blk, prefix, i + 1, name)
              ELSE FindLabel(blk, prefix, i + 1, name)
LabelPath(prog, name) == FindLabel(prog, <<>>, 1, name)

\* ------------------------------------------------------------------ configurations
Start(regs0, fuel0) ==
    [pos |-> <<1>>, time |-> 0, rt |-> 0, regs |-> regs0, tmps |-> <<>>, log |-> <<>>, st |-> "run", fuel |-> fuel0]

SetReg(regs, id, v) == [x \in DOMAIN regs \cup {id} |-> IF x = id THEN v ELSE regs[x]]

Discard(c) == [c EXCEPT !.st = "discard"]

\* value of a condition; conditions may be `--x` (pre-decrement): returns <<value, regs'>>
RECURSIVE CondEval(_, _, _)
CondEval(cond, regs, diff) ==
    IF cond.k = "xcr" THEN
        LET old == ReadVar([cond.var EXCEPT !.sig = ""], regs)
        IN IF Bad(old) \/ ~IsInt(old) THEN << Opaque, regs >>
           ELSE LET new == IntV(IF cond.op = "--" THEN Sub(old.v, 1) ELSE Add(old.v, 1))
                IN << (IF cond.order = "pre" THEN new ELSE old), SetReg(regs, cond.var.id, new) >>
    ELSE IF cond.k = "bin" /\ cond.a.k = "xcr" THEN      \* `--x > 0` style counting condition
        LET r == CondEval(cond.a, regs, diff)
        IN << BinOp(cond.op, r[1], Eval(cond.b, r[2], diff)), r[2] >>
    ELSE << Eval(cond, regs, diff), regs >>

EvalArgs(args, regs, diff) == [i \in 1..Len(args) |-> ValueOut(Eval(args[i], regs, diff))]
AnyBad(vals) == \E i \in 1..Len(vals) : vals[i].t \in {"undef", "opaque"}

\* `goto L [@ t]` from configuration c
DoGoto(prog, c, s) ==
    LET lp == LabelPath(prog, s.label)
    IN IF lp = <<>> THEN Discard(c)
       ELSE [c EXCEPT !.pos = lp,
                      !.time = IF HasField(s, "time") THEN s.time ELSE StmtAt(prog, lp).tm]

DoBreak(prog, c) ==
    LET lp == EnclosingLoop(prog, c.pos)
    IN IF lp = <<>> THEN Discard(c)
       ELSE [c EXCEPT !.pos = NextPos(lp), !.time = EndT(StmtAt(prog, lp).body)]

DoJump(prog, c, s) == IF s.jump = "goto" THEN DoGoto(prog, c, s) ELSE DoBreak(prog, c)

\* ------------------------------------------------------------------ leaving a block by reaching its `}`
EndOfBlock(prog, c, diff) ==
    IF Len(c.pos) = 1 THEN [c EXCEPT !.st = "done"]
    ELSE
        LET pp == ParentPath(c.pos)
            ps == StmtAt(prog, pp)
        IN CASE ps.k = "block" -> [c EXCEPT !.pos = NextPos(pp)]
             [] ps.k = "chain" ->
                    \* every block but the last ends with `goto end_label` (time := the label's time, which is
                    \* the lexical time after the last block); the last block simply falls through to it
                    LET nblk == Len(ps.blocks) + (IF HasField(ps, "else") THEN 1 ELSE 0)
                        lastBlk == IF HasField(ps, "else") THEN ps.else ELSE ps.blocks[Len(ps.blocks)].body
                    IN IF ParentSel(c.pos) = nblk THEN [c EXCEPT !.pos = NextPos(pp)]
                       ELSE [c EXCEPT !.pos = NextPos(pp), !.time = EndT(lastBlk)]
             [] ps.k = "loop" -> [c EXCEPT !.pos = pp \o <<1, 1>>, !.time = StartT(ps.body)]
             [] ps.k = "while" ->
                    LET r == CondEval(ps.cond, c.regs, diff)
                    IN IF Bad(r[1]) \/ ~IsInt(r[1]) THEN Discard(c)
                       ELSE IF Truthy(r[1])
                            THEN [c EXCEPT !.regs = r[2], !.pos = pp \o <<1, 1>>, !.time = StartT(ps.body)]
                            ELSE [c EXCEPT !.regs = r[2], !.pos = NextPos(pp)]
             [] ps.k = "times" ->
                    LET clob == HasField(ps, "clobber")
                        old == IF clob THEN ReadVar([ps.clobber EXCEPT !.sig = ""], c.regs)
                               ELSE IF pp \in DOMAIN c.tmps THEN c.tmps[pp] ELSE Opaque
                    IN IF Bad(old) \/ ~IsInt(old) THEN Discard(c)
                       ELSE LET new == Sub(old.v, 1)
                                again == IF CountGt THEN new > 0 ELSE new # 0
                                c1 == IF clob THEN [c EXCEPT !.regs = SetReg(c.regs, ps.clobber.id, IntV(new))]
                                      ELSE [c EXCEPT !.tmps = SetReg(c.tmps, pp, IntV(new))]
                            IN IF again THEN [c1 EXCEPT !.pos = pp \o <<1, 1>>, !.time = StartT(ps.body)]
                               ELSE [c1 EXCEPT !.pos = NextPos(pp)]
             [] OTHER -> Discard(c)

\* ------------------------------------------------------------------ executing the statement at pos
AssignBinop(op) ==
    CASE op = "+=" -> "+" [] op = "-=" -> "-" [] op = "*=" -> "*" [] op = "/=" -> "/" [] op = "%=" -> "%"
      [] op = "|=" -> "|" [] op = "^=" -> "^" [] op = "&=" -> "&" [] op = "<<=" -> "<<" [] op = ">>=" -> ">>"
      [] op = ">>>=" -> ">>>"
AssignValue(s, regs, diff) ==
    IF s.op = "=" THEN Eval(s.value, regs, diff)
    ELSE BinOp(AssignBinop(s.op), ReadVar(s.var, regs), Eval(s.value, regs, diff))

RECURSIVE DeclAll(_, _, _, _)
DeclAll(vars, i, regs, diff) ==     \* returns [ok, regs]; ok = FALSE when some initialiser is undecided
    IF i > Len(vars) THEN [ok |-> TRUE, regs |-> regs]
    ELSE IF ~HasField(vars[i], "init") THEN DeclAll(vars, i + 1, regs, diff)
    ELSE LET v == Eval(vars[i].init, regs, diff)
         IN IF Bad(v) THEN [ok |-> FALSE, regs |-> regs]
            ELSE DeclAll(vars, i + 1, SetReg(regs, vars[i].var.id, v), diff)

\* first branch of a chain (from index j) whose condition holds: returns <<j or 0 for "none", regs'>>, or <<-1, regs>> if undecided
RECURSIVE PickBranch(_, _, _, _)
PickBranch(blocks, j, regs, diff) ==
    IF j > Len(blocks) THEN << 0, regs >>
    ELSE LET r == CondEval(blocks[j].cond, regs, diff)
         IN IF Bad(r[1]) \/ ~IsInt(r[1]) THEN << -1, regs >>
            ELSE IF Truthy(r[1]) = (blocks[j].kw = "if") THEN << j, r[2] >>
            ELSE PickBranch(blocks, j + 1, r[2], diff)

Exec(prog, c0, diff) ==
    LET s == StmtAt(prog, c0.pos)
        \* wait for the statement's time label
        w == IF c0.time < s.tm THEN s.tm - c0.time ELSE 0
        c == [c0 EXCEPT !.time = c0.time + w, !.rt = c0.rt + w]
        next == [c EXCEPT !.pos = NextPos(c.pos)]
        maskBit == (s.dm \div (2^diff)) % 2 = 1
    IN
    IF s.k # "block" /\ ~maskBit THEN next           \* wrong difficulty: skipped (after waiting)
    ELSE CASE s.k \in {"nop", "label", "abs", "rel", "interrupt", "scopeend", "item"} -> next
      [] s.k = "expr" ->
            IF s.e.k # "call" \/ ~HasField(s.e.name, "ins") THEN Discard(c)
            ELSE LET vals == EvalArgs(s.e.args, c.regs, diff)
                 IN IF AnyBad(vals) \/ Len(s.e.pseudos) > 0 THEN Discard(c)
                    ELSE [next EXCEPT !.log = Append(c.log, << c.rt, c.time, s.e.name.ins, vals >>)]
      [] s.k = "assign" ->
            LET v == AssignValue(s, c.regs, diff)
            IN IF Bad(v) THEN Discard(c) ELSE [next EXCEPT !.regs = SetReg(c.regs, s.var.id, v)]
      [] s.k = "decl" ->
            LET r == DeclAll(s.vars, 1, c.regs, diff)
            IN IF ~r.ok THEN Discard(c) ELSE [next EXCEPT !.regs = r.regs]
      [] s.k = "jump" -> DoJump(prog, c, s)
      [] s.k = "condjump" ->
            LET r == CondEval(s.cond, c.regs, diff)
            IN IF Bad(r[1]) \/ ~IsInt(r[1]) THEN Discard(c)
               ELSE IF Truthy(r[1]) = (s.kw = "if")
                    THEN DoJump(prog, [c EXCEPT !.regs = r[2]], s)
                    ELSE [next EXCEPT !.regs = r[2]]
      [] s.k = "block" -> [c EXCEPT !.pos = c.pos \o <<1, 1>>]
      [] s.k = "loop" -> [c EXCEPT !.pos = c.pos \o <<1, 1>>]
      [] s.k = "chain" ->
            LET r == PickBranch(s.blocks, 1, c.regs, diff)
                c1 == [c EXCEPT !.regs = r[2]]
            IN IF r[1] = -1 THEN Discard(c)
               ELSE IF r[1] = 1 THEN [c1 EXCEPT !.pos = c.pos \o <<1, 1>>]       \* fall into the first block
               ELSE IF r[1] > 1 THEN [c1 EXCEPT !.pos = c.pos \o <<r[1], 1>>, !.time = StartT(s.blocks[r[1]].body)]
               ELSE IF HasField(s, "else")
                    THEN [c1 EXCEPT !.pos = c.pos \o <<Len(s.blocks) + 1, 1>>, !.time = StartT(s.else)]
                    ELSE [c1 EXCEPT !.pos = NextPos(c.pos), !.time = EndT(s.blocks[Len(s.blocks)].body)]
      [] s.k = "while" ->
            IF s.do THEN [c EXCEPT !.pos = c.pos \o <<1, 1>>]
            ELSE LET r == CondEval(s.cond, c.regs, diff)
                 IN IF Bad(r[1]) \/ ~IsInt(r[1]) THEN Discard(c)
                    ELSE IF Truthy(r[1]) THEN [c EXCEPT !.regs = r[2], !.pos = c.pos \o <<1, 1>>]
                    ELSE [c EXCEPT !.regs = r[2], !.pos = NextPos(c.pos), !.time = EndT(s.body)]
      [] s.k = "times" ->
            LET n == Eval(s.count, c.regs, diff)
            IN IF Bad(n) \/ ~IsInt(n) THEN Discard(c)
               ELSE IF n.v < 0 THEN Discard(c)     \* negative run-time counts: no defensible expectation (DESIGN C06)
               ELSE LET c1 == IF HasField(s, "clobber")
                              THEN [c EXCEPT !.regs = SetReg(c.regs, s.clobber.id, n)]
                              ELSE [c EXCEPT !.tmps = SetReg(c.tmps, c.pos, n)]
                    IN IF n.v = 0 THEN [c1 EXCEPT !.pos = NextPos(c.pos), !.time = EndT(s.body)]
                       ELSE [c1 EXCEPT !.pos = c.pos \o <<1, 1>>]
      [] OTHER -> Discard(c)          \* return, callsub, ...: not modelled here

\* one step of the machine (identity on finished configurations)
Step(prog, c, diff) ==
    IF c.st # "run" THEN c
    ELSE IF c.fuel = 0 THEN [c EXCEPT !.st = "fuel"]
    ELSE LET c1 == [c EXCEPT !.fuel = c.fuel - 1]
         IN IF AtEnd(prog, c1.pos) THEN EndOfBlock(prog, c1, diff) ELSE Exec(prog, c1, diff)

Done(c) == c.st # "run"
===========================================================================
