--------------------------- MODULE Gen_ReadInstrs ---------------------------
(* Mode G for the reader machine: every event stream up to MaxLen x every expected end offset x
   has-terminal; one TLC state per case; in-model facts; export for replay into llir::read_instrs.
   A format uses either recognisable terminals ("t") or maybe-terminals ("m4"), never both, and a
   format without terminal instructions only ever reports plain instructions and needs an end offset
   (documentation of InstrFormat) -- streams outside that are not generated. *)
EXTENDS ReadInstrs, Json, IOUtils

CONSTANT MaxLen

RECURSIVE Streams(_, _)
Streams(alpha, n) == IF n = 0 THEN {<<>>} ELSE LET r == Streams(alpha, n - 1) IN r \cup {Append(s, x) : s \in {t \in r : Len(t) = n - 1}, x \in alpha}
Offsets == {4 * k : k \in 0..(2 * MaxLen)}

Cases ==
    { [stream |-> s, hasEnd |-> he, endoff |-> eo, hasTerm |-> TRUE] :
        s \in Streams({"i4", "i8", "t"}, MaxLen) \cup Streams({"i4", "i8", "m4"}, MaxLen),
        he \in BOOLEAN, eo \in Offsets } 
    \cup
    { [stream |-> s, hasEnd |-> TRUE, endoff |-> eo, hasTerm |-> FALSE] : s \in Streams({"i4", "i8"}, MaxLen), eo \in Offsets }
\* (with hasEnd = FALSE the offset is irrelevant: keep one representative)
Relevant(c) == c.hasEnd \/ c.endoff = 0

ASSUME TLCSet(46, <<>>)
VARIABLE c
Init == c \in {x \in Cases : Relevant(x)}
Next == UNCHANGED c
Spec == Init /\ [][Next]_c

Res(x) == Result(x.stream, x.hasEnd, x.endoff, x.hasTerm)
\* in-model facts
KeptAreInstructions == \A j \in 1..Len(Res(c).kept) : c.stream[Res(c).kept[j]] \in {"i4", "i8", "m4"}
KeptInOrder == \A j \in 1..(Len(Res(c).kept) - 1) : Res(c).kept[j] < Res(c).kept[j + 1]
AtMostOneDropped ==      \* only the terminal itself is ever dropped from what was read before the script ended
    Res(c).ok => \A j \in 1..Len(Res(c).kept) : Res(c).kept[j] \in {j, j + 1} /\ Res(c).kept[j] >= j
NoWarningWithoutTerminals == ~c.hasTerm => ~Res(c).warned
Inv == KeptAreInstructions /\ KeptInOrder /\ NoWarningWithoutTerminals /\ TLCSet(46, Append(TLCGet(46), [case |-> c, exp |-> Res(c)]))

Post == ndJsonSerialize(IOEnv.OUT, TLCGet(46)) /\ PrintT(<<"GEN", "Gen_ReadInstrs", Len(TLCGet(46))>>)
=============================================================================
