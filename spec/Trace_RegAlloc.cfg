SPECIFICATION Spec
CONSTANT Types = {"i", "f"}
INVARIANT Inv
POSTCONDITION Post
CHECK_DEADLOCK FALSE
