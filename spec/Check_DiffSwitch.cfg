SPECIFICATION Spec
INVARIANTS Holds Classified
CHECK_DEADLOCK FALSE
