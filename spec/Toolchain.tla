----------------------------- MODULE Toolchain -----------------------------
(***************************************************************************)
(* L3 -- the toolchain contract (DESIGN §0, layer L3).                     *)
(*                                                                         *)
(* What a user observes of truth: a content-addressed store of files and a *)
(* memo of command outcomes.  One action per tool invocation (Compile,     *)
(* Decompile, Extract); every invocation ends in an *outcome*              *)
(*                                                                         *)
(*      Ok(warnings)          success, possibly after warnings             *)
(*      Err(nErrorDiags >= 1) failure AFTER >= 1 error diagnostic          *)
(*                                                                         *)
(* and in nothing else: there is deliberately NO action whose outcome is   *)
(* a panic, an abort, a stack overflow, a time-out or memory exhaustion,   *)
(* so a recorded history that contains such an invocation has no matching  *)
(* transition and is rejected at that event (Trace_Outcomes.tla).          *)
(*                                                                         *)
(* Source of the contract: properties C04 / C16 ("terminates and either    *)
(* succeeds or fails after printing at least one error diagnostic; never   *)
(* panics, aborts, overflows the stack or loops forever.  Failure is       *)
(* reported if and only if an error-severity diagnostic was printed";      *)
(* for binaries: "fail with an error diagnostic naming the file") and the  *)
(* process interface documented in README.md (exit status 0 / non-zero).   *)
(*                                                                         *)
(* The module is constant-free so that other contracts (C01 round trip,    *)
(* C03 read-back, C19 determinism) can EXTEND it: they add invariants over *)
(* `memo` / `store` or strengthen `Run` -- see the marked extension points.*)
(***************************************************************************)
EXTENDS Naturals, Integers, Sequences, FiniteSets, TLC

VARIABLES store,   \* set of content ids that exist (inputs given + outputs of successful commands)
          memo     \* CmdKey -|-> Outcome : what each command invocation ended in

tcVars == <<store, memo>>

-----------------------------------------------------------------------------
(* Outcomes *)

\* An outcome records what the user saw: did the tool report failure, and how many error /
\* warning diagnostics did it print.
OutcomeRec(failed, errors, warnings) == [failed |-> failed, errors |-> errors, warnings |-> warnings]
Ok(w)      == OutcomeRec(FALSE, 0, w)
Err(n, w)  == OutcomeRec(TRUE, n, w)

\* `Failed <=> at least one error-severity diagnostic was printed'
FailedIffErrorDiag(o) == o.failed <=> (o.errors >= 1)

IsOutcome(o) ==
    /\ DOMAIN o = {"failed", "errors", "warnings"}
    /\ o.failed \in BOOLEAN /\ o.errors \in Nat /\ o.warnings \in Nat
    /\ FailedIffErrorDiag(o)

\* the same set, bounded, for model checking the abstract toolchain (MC_Toolchain)
OutcomesUpTo(maxErr, maxWarn) ==
    {Ok(w) : w \in 0..maxWarn} \cup {Err(n, w) : n \in 1..maxErr, w \in 0..maxWarn}

-----------------------------------------------------------------------------
(* Commands *)

Verbs == {"compile", "decompile", "extract"}

\* A command key: everything the outcome may depend on (C19 states exactly this).
\*   tool : "truanm" | "trustd" | "trumsg" | "trumsg-mission" | "truecl"
\*   verb : element of Verbs
\*   game : game string as given to -g
\*   opts : sequence of option strings (e.g. <<"--no-blocks">>), in command-line order
\*   inputs : sequence of ids of given files (script or binary first, then mapfiles / image
\*            sources); a pipeline that feeds an output into the next command registers the
\*            output's bytes as a given file of the same content (content addressing)
MkKey(tool, verb, game, opts, inputs) ==
    [tool |-> tool, verb |-> verb, game |-> game, opts |-> opts, inputs |-> inputs]

IsCmdKey(k) ==
    /\ DOMAIN k = {"tool", "verb", "game", "opts", "inputs"}
    /\ k.verb \in Verbs
    /\ Len(k.inputs) >= 1

\* Content ids.  Two kinds, kept apart by a tag so that TLC can compare any two of them:
\* files handed to the toolchain from outside, and what a successful command writes
\* (abstract: a function of the command).
Given(id) == <<"given", id>>
OutputOf(k) == <<"out", k>>

InputsOf(k) == {Given(k.inputs[i]) : i \in 1..Len(k.inputs)}

-----------------------------------------------------------------------------
(* Actions *)

\* EXTENSION POINT: the generic step.  C19 strengthens it with
\*   k \in DOMAIN memo => memo[k] = o      (determinism),
\* C01/C03 add facts about OutputOf(k).
Run(k, o) ==
    /\ IsCmdKey(k)
    /\ InputsOf(k) \subseteq store             \* a command runs on files that exist
    /\ IsOutcome(o)                            \* THE contract: Ok(w) or Err(n >= 1), nothing else
    /\ memo' = [x \in DOMAIN memo \cup {k} |-> IF x = k THEN o ELSE memo[x]]
    /\ store' = IF o.failed THEN store ELSE store \cup {OutputOf(k)}

\* text -> binary.  (C04: any byte string as script or mapfile.)
Compile(k, o) ==
    /\ k.verb = "compile"
    /\ Run(k, o)

\* binary -> text.  `namesFile': the diagnostics name the input file.
\* (C16: "fail with an error diagnostic naming the file".)
Decompile(k, o, namesFile) ==
    /\ k.verb = "decompile"
    /\ (o.failed => namesFile)
    /\ Run(k, o)

\* ANM -> directory of images; same contract as Decompile.
Extract(k, o, namesFile) ==
    /\ k.verb = "extract"
    /\ (o.failed => namesFile)
    /\ Run(k, o)

-----------------------------------------------------------------------------
(* Invariants of the toolchain state *)

TypeOK ==
    /\ \A k \in DOMAIN memo : IsCmdKey(k) /\ IsOutcome(memo[k])

\* every remembered failure printed an error, every remembered success printed none
FailureIsDiagnosed == \A k \in DOMAIN memo : FailedIffErrorDiag(memo[k])

\* the output of a command exists exactly if (some run of) the command succeeded
OutputsComeFromSuccess ==
    \A k \in DOMAIN memo : (~memo[k].failed) => OutputOf(k) \in store

ToolchainInv == TypeOK /\ FailureIsDiagnosed /\ OutputsComeFromSuccess

-----------------------------------------------------------------------------
(* Observations.                                                           *)
(*                                                                         *)
(* The driver records, per process, only raw facts:                        *)
(*   exit_code        the process exit status (negative = killed by signal)*)
(*   signal           terminating signal number or 0                       *)
(*   timed_out        the wall-clock limit expired and the driver killed it*)
(*                    (a spinning process is stopped earlier by the CPU    *)
(*                    time limit and shows up as signal SIGXCPU)           *)
(*   n_error_diags    lines of stderr starting with "error"                *)
(*   n_warning_diags  lines of stderr starting with "warning"              *)
(*   names_file       the input path occurs in stderr                      *)
(*   marks            which of a fixed list of substrings occur in stderr  *)
(* Everything below -- which raw facts constitute an outcome -- is decided *)
(* here, not in the driver.                                                *)
(***************************************************************************)

ExitSuccess == 0       \* wrap_exit_code: Ok(()) => exit(0)
ExitFailure == 1       \* wrap_exit_code: Err(ErrorReported) => exit(1); also usage errors
ExitRustPanic == 101   \* the Rust runtime's exit status for an unwinding panic of the main thread

\* the process came to an orderly end with one of the two documented statuses
Terminated(e) ==
    /\ e.timed_out = FALSE
    /\ e.signal = 0
    /\ e.exit_code \in {ExitSuccess, ExitFailure}

\* the outcome such an observation denotes
ObservedOutcome(e) ==
    OutcomeRec(e.exit_code = ExitFailure, e.n_error_diags, e.n_warning_diags)

HasMark(e, m) == \E i \in 1..Len(e.marks) : e.marks[i] = m

\* A name for what was observed -- used only to *report* a rejected event.
SIGXCPU == 24          \* the driver's CPU-time limit (RLIMIT_CPU) expired
ObservedKind(e) ==
    IF e.timed_out \/ e.signal = SIGXCPU THEN "Timeout"
    ELSE IF e.signal # 0 \/ e.exit_code >= 128 \/ e.exit_code < 0 THEN
        IF HasMark(e, "has overflowed its stack") THEN "StackOverflow"
        ELSE IF HasMark(e, "memory allocation of") THEN "OutOfMemory"
        ELSE "Abort"
    ELSE IF e.exit_code = ExitRustPanic THEN "Panic"
    ELSE IF e.exit_code = ExitSuccess THEN
        (IF e.n_error_diags = 0 THEN "Ok" ELSE "SuccessAfterErrorDiagnostic")
    ELSE IF e.exit_code = ExitFailure THEN
        (IF e.n_error_diags >= 1 THEN "Err" ELSE "FailureWithoutDiagnostic")
    ELSE "UnknownExitStatus"

=============================================================================
