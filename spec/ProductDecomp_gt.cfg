SPECIFICATION Spec
CONSTANTS
  CountGt = TRUE
  FuelA = 150
  FuelB = 1200
  Wide = FALSE
INVARIANTS PrefixOk SameBehaviour Terminates StructOk
CHECK_DEADLOCK FALSE
POSTCONDITION Post
