---------------------------- MODULE Gen_StrFrame ----------------------------
(***************************************************************************)
(* C15 in-model part 2 + Mode G generator.  One TLC state per case:        *)
(*   single : one string under one string encoding                        *)
(*            (65 encodings x {lengths 0..2 bs+1 (len+2) x 4 byte patterns,*)
(*             every text of length <= 3 over {'A', '|', 'w'}})            *)
(*   seq    : two or three consecutive strings over SeqSpecs x SeqPayloads *)
(*            (the furigana state machine of MC_StrFrame, as a fold)       *)
(* Every state is checked against the in-model facts below; the cases are  *)
(* written with the expected blobs for replay into the real Lowerer/Raiser.*)
(***************************************************************************)
EXTENDS StrFrame, TLC, Json, IOUtils
CONSTANT Deep      \* FALSE: 5 sequence payloads (quick), TRUE: 8

Masks == << <<0, 0, 0>>, <<119, 7, 16>>, <<170, 0, 0>>, <<1, 255, 1>>, <<65, 0, 0>> >>
BlockSizes == <<1, 4, 16>>
FixedLens == <<1, 8>>
Bools == <<FALSE, TRUE>>

\* ---- the 65 encodings ----
NBlock == 3 * 5 * 2
NPascal == 3 * 5
NFixed == 2 * 2 * 5
NSpecs == NBlock + NPascal + NFixed
SpecOf(k) ==
    IF k <= NBlock THEN
        LET j == k - 1 IN StrSpec("block", BlockSizes[(j \div 10) + 1], FALSE, Masks[((j \div 2) % 5) + 1], Bools[(j % 2) + 1])
    ELSE IF k <= NBlock + NPascal THEN
        LET j == k - NBlock - 1 IN StrSpec("pascal", BlockSizes[(j \div 5) + 1], FALSE, Masks[(j % 5) + 1], FALSE)
    ELSE
        LET j == k - NBlock - NPascal - 1
        IN StrSpec("fixed", FixedLens[(j \div 10) + 1], Bools[((j \div 5) % 2) + 1], Masks[(j % 5) + 1], FALSE)

MaxLen(sp) == IF sp.kind = "fixed" THEN sp.n + 2 ELSE 2 * sp.n + 1
LenSlots == 34           \* 0 .. 2*16+1
NPatterns == 4
NSmall == 40             \* texts of length <= 3 over Alpha
Alpha == <<65, 124, 119>>
PerSpec == LenSlots * NPatterns + NSmall

\* a printable ASCII byte that needs no escaping in a string literal
Plain(b) == b >= 33 /\ b <= 126 /\ b # 34 /\ b # 92

Pattern(sp, pat, len) ==
    <<>> \o [i \in 1..len |->
        CASE pat = 1 -> 65
          [] pat = 2 -> LET m == MaskAt(sp.mask[1], sp.mask[2], sp.mask[3], i - 1)     \* masked byte becomes 0
                        IN IF Plain(m) THEN m ELSE 66
          [] pat = 3 -> IF i = 1 THEN Bar ELSE 96 + ((i - 1) % 26) + 1                 \* a furigana line
          [] OTHER   -> IF i % 2 = 1 THEN 119 ELSE 126]                                \* the first MSG mask bytes

SmallText(j) ==      \* j in 0..39 : <<>>, 3 of length 1, 9 of length 2, 27 of length 3
    IF j = 0 THEN <<>>
    ELSE IF j <= 3 THEN <<Alpha[j]>>
    ELSE IF j <= 12 THEN LET q == j - 4 IN <<Alpha[(q \div 3) + 1], Alpha[(q % 3) + 1]>>
    ELSE LET q == j - 13 IN <<Alpha[(q \div 9) + 1], Alpha[((q \div 3) % 3) + 1], Alpha[(q % 3) + 1]>>

NSingle == NSpecs * PerSpec

\* [skip |-> TRUE] for length slots beyond the encoding's range
SingleOf(i) ==
    LET k == ((i - 1) \div PerSpec) + 1
        r == (i - 1) % PerSpec
        sp == SpecOf(k)
    IN IF r < LenSlots * NPatterns THEN
            LET len == r \div NPatterns
                pat == (r % NPatterns) + 1
            IN IF len > MaxLen(sp) THEN [skip |-> TRUE]
               ELSE [skip |-> FALSE, steps |-> << [sp |-> sp, payload |-> Pattern(sp, pat, len)] >>]
       ELSE [skip |-> FALSE, steps |-> << [sp |-> sp, payload |-> SmallText(r - LenSlots * NPatterns)] >>]

\* ---- sequences (same alphabet as MC_StrFrame) ----
MsgMask == <<119, 7, 16>>
SeqSpecs == << StrSpec("block", 4, FALSE, MsgMask, TRUE), StrSpec("block", 4, FALSE, MsgMask, FALSE),
               StrSpec("block", 1, FALSE, <<0, 0, 0>>, TRUE), StrSpec("block", 16, FALSE, <<65, 0, 0>>, TRUE) >>
SeqPayloadsDeep == << <<>>, <<124>>, <<124, 65, 66>>, <<65, 66, 67>>, <<119, 126, 65, 65>>,
                      <<65>>, <<65, 124, 66>>, <<124, 119, 126, 65, 66, 67, 68>> >>
SeqPayloads == IF Deep THEN SeqPayloadsDeep ELSE SubSeq(SeqPayloadsDeep, 1, 5)
SB == Len(SeqSpecs) * Len(SeqPayloads)
StepOf(d) == [sp |-> SeqSpecs[(d \div Len(SeqPayloads)) + 1], payload |-> SeqPayloads[(d % Len(SeqPayloads)) + 1]]
NSeq2 == SB * SB
NSeq3 == SB * SB * SB
SeqOf(j) ==     \* j in 1..NSeq2+NSeq3
    IF j <= NSeq2 THEN LET q == j - 1 IN << StepOf(q \div SB), StepOf(q % SB) >>
    ELSE LET q == j - NSeq2 - 1 IN << StepOf(q \div (SB * SB)), StepOf((q \div SB) % SB), StepOf(q % SB) >>

N == NSingle + NSeq2 + NSeq3

CaseOf(i) ==
    IF i <= NSingle THEN SingleOf(i) ELSE [skip |-> FALSE, steps |-> SeqOf(i - NSingle)]

Run(steps, k, carry) == RunSeq(steps, k, carry)

Letter(sp) == IF sp.kind = "pascal" THEN "p" ELSE IF sp.mask = <<0, 0, 0>> THEN "z" ELSE "m"
Row(i) ==
    LET c == CaseOf(i) IN
    IF c.skip THEN [id |-> i, skip |-> TRUE]
    ELSE LET rs == Run(c.steps, 1, NoCarry) IN
         [id |-> i, skip |-> FALSE,
          kind |-> IF i <= NSingle THEN "single" ELSE "seq",
          steps |-> <<>> \o [k \in 1..Len(c.steps) |->
                [letter |-> Letter(c.steps[k].sp), kind |-> c.steps[k].sp.kind, n |-> c.steps[k].sp.n,
                 nulless |-> c.steps[k].sp.nulless, mask |-> c.steps[k].sp.mask, furibug |-> c.steps[k].sp.furibug,
                 payload |-> c.steps[k].payload]],
          exp |-> <<>> \o [k \in 1..Len(rs) |-> [ok |-> rs[k].ok, bytes |-> rs[k].bytes]]]

\* ------------------------------------------------------------------------
\* cases are visited as the nodes of a binary heap so that all workers take part.
\* IOEnv.MODE = "check": all N cases are states; "export": a single state, the run only writes the cases.
Checking == IOEnv.MODE = "check"
NN == IF Checking THEN N ELSE 1
VARIABLE idx
Init == idx = 1
Next == \E j \in {2 * idx, 2 * idx + 1} : j <= NN /\ idx' = j
Spec == Init /\ [][Next]_idx

NonZero(p) == \A i \in 1..Len(p) : p[i] # 0

\* in-model facts about one string written with nothing carried over
SingleFacts(sp, p) ==
    LET r == EncodeStr(sp, p, NoCarry)
        L == Len(p)
        need == L + (IF HasTerminator(sp) THEN 1 ELSE 0)
    IN /\ NonZero(p)
       /\ (~r.ok <=> (sp.kind = "fixed" /\ need > sp.n))                        \* error iff it does not fit
       /\ r.ok =>
            /\ DecodeStr(sp, r.bytes) = p                                        \* reads back
            /\ FrameLen(sp, r.bytes \o <<1, 2, 3>>) =                            \* self-delimiting (block: takes the rest)
                    (IF sp.kind = "block" THEN Len(r.bytes) + 3 ELSE Len(r.bytes))
            /\ CASE sp.kind = "block"  -> /\ Len(r.bytes) % sp.n = 0
                                          /\ Len(r.bytes) > L /\ Len(r.bytes) <= L + sp.n    \* least multiple of bs above L
                 [] sp.kind = "pascal" -> /\ FromLE32(r.bytes) = Len(r.bytes) - 4
                                          /\ (Len(r.bytes) - 4) % sp.n = 0
                                          /\ Len(r.bytes) - 4 > L /\ Len(r.bytes) - 4 <= L + sp.n
                 [] OTHER              -> Len(r.bytes) = sp.n
            /\ LET blk == IF sp.kind = "pascal" THEN SubSeq(r.bytes, 5, Len(r.bytes)) ELSE r.bytes
                   plain == XorMask(blk, sp.mask)
               IN /\ SubSeq(plain, 1, L) = p                                     \* text first,
                  /\ \A i \in (L + 1)..Len(plain) : plain[i] = 0                 \* then only zeros
            /\ (r.carry # NoCarry <=> (sp.furibug /\ IsFurigana(p)))

\* in-model facts about a sequence: every block reads back; only furibug strings after a furigana line differ
\* from what the same string gives on its own; the carry never survives a furibug string that is no furigana line
SeqFacts(steps) ==
    LET rs == Run(steps, 1, NoCarry) IN
    \A k \in 1..Len(steps) :
        /\ rs[k].ok
        /\ DecodeStr(steps[k].sp, rs[k].bytes) = steps[k].payload
        /\ Len(rs[k].bytes) % steps[k].sp.n = 0
        /\ (steps[k].sp.furibug /\ ~IsFurigana(steps[k].payload)) => rs[k].carry = NoCarry
        /\ (steps[k].sp.furibug /\ IsFurigana(steps[k].payload)) => rs[k].carry = rs[k].bytes
        /\ ~steps[k].sp.furibug => rs[k].carry = (IF k = 1 THEN NoCarry ELSE rs[k - 1].carry)
        /\ LET before == IF k = 1 THEN NoCarry ELSE rs[k - 1].carry
           IN (before = NoCarry \/ ~steps[k].sp.furibug) =>
                    rs[k].bytes = EncodeStr(steps[k].sp, steps[k].payload, NoCarry).bytes

Inv ==
    LET c == CaseOf(idx) IN
    c.skip \/ (IF idx <= NSingle THEN SingleFacts(c.steps[1].sp, c.steps[1].payload) ELSE SeqFacts(c.steps))

\* ---- export: all single cases, every SeqStride-th sequence (+ the ids listed in EXTRA) ----
SeqStride == atoi(IOEnv.SEQSTRIDE)
NSeqSel == (NSeq2 + NSeq3) \div SeqStride
Extra == ndJsonDeserialize(IOEnv.EXTRA)       \* lines {"id": n}
NExport == NSingle + NSeqSel + Len(Extra)
ExportId(k) == IF k <= NSingle THEN k
               ELSE IF k <= NSingle + NSeqSel THEN NSingle + (k - NSingle) * SeqStride
               ELSE Extra[k - NSingle - NSeqSel].id
ASSUME Checking \/ ndJsonSerialize(IOEnv.OUT, [k \in 1..NExport |-> Row(ExportId(k))])
ASSUME PrintT(<<"GEN", "Gen_StrFrame", N, NSingle, NExport>>)
=============================================================================
