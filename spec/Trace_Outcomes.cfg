SPECIFICATION Spec
INVARIANT Accepted
INVARIANT Inv
CHECK_DEADLOCK FALSE
