SPECIFICATION Spec
CONSTANTS
  MaxItems = 4
  MaxBlocks = 1
  MaxDepth = 1
  Small = TRUE
INVARIANT Inv
CHECK_DEADLOCK FALSE
