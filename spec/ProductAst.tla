---------------------------- MODULE ProductAst ----------------------------
(***************************************************************************)
(* Mode P (translation validation): the product of the L1 machine on a     *)
(* source tree and on what a real pass of truth made of it.  The pairs     *)
(* come from the harness (real parser output / real pass output, exported  *)
(* structurally).  Initial states: every program pair x every valuation    *)
(* of the registers it mentions over a small domain x every difficulty.    *)
(* The source side runs to completion, then the transformed side; the      *)
(* invariants compare what a script *does*.                                *)
(***************************************************************************)
EXTENDS AstSem, Json, IOUtils, SequencesExt

CONSTANTS FuelA, FuelB, Wide      \* step budgets; Wide: 4-value domain instead of 3

Pairs == ndJsonDeserialize(IOEnv.PAIRS)
N == Len(Pairs)
\* The annotated programs are computed once, at start-up, and parked in a TLC register: TLC does not
\* cache definitions that depend on RECURSIVE operators, and a bare function constructor is re-evaluated
\* on every application (`<<>> \o` forces a tuple).  The parked values are shared, un-normalised TLC
\* values: run this module with -workers 1 only (the driver shards pairs over processes instead).
ASSUME TLCSet(41, <<>> \o [k \in 1..N |-> Annotate(Pairs[k].src)])
ASSUME TLCSet(42, <<>> \o [k \in 1..N |-> Annotate(Pairs[k].out)])
ASrc == TLCGet(41)
AOut == TLCGet(42)

DInt == IF Wide THEN {IntV(-2), IntV(0), IntV(1), IntV(3)} ELSE {IntV(0), IntV(1), IntV(3)}
DFloat == IF Wide THEN {Fin(-3, 1), FZero, Fin(1, 1), Fin(2, 0)} ELSE {Fin(-3, 1), FZero, Fin(2, 0)}
DomOf(ty) == IF ty = "f" THEN DFloat ELSE DInt

IdsOfTy(seq, ty) == {seq[j].id : j \in {j \in 1..Len(seq) : seq[j].ty = ty}}
Valuations(k) ==
    {fi @@ ff : fi \in [IdsOfTy(Pairs[k].vars, "i") -> DInt], ff \in [IdsOfTy(Pairs[k].vars, "f") -> DFloat]}
Diffs(k) == IF Pairs[k].diffs THEN 0..3 ELSE {0}

VARIABLES i, diff, a, b, phase
vars == <<i, diff, a, b, phase>>

Init ==
    /\ i \in 1..N
    /\ diff \in Diffs(i)
    /\ \E r \in Valuations(i) : a = Start(r, FuelA) /\ b = Start(r, FuelB)
    /\ phase = "run"

StepA == /\ phase = "run" /\ ~Done(a)
         /\ a' = Step(ASrc[i], a, diff) /\ UNCHANGED <<i, diff, b, phase>>
StepB == /\ phase = "run" /\ a.st = "done" /\ ~Done(b)
         /\ b' = Step(AOut[i], b, diff) /\ UNCHANGED <<i, diff, a, phase>>
\* terminal classifications; each bumps a TLC register (single worker) that the POSTCONDITION reports,
\* so that the driver can tell how many runs were actually compared and how many were discarded
ASSUME TLCSet(51, 0) /\ TLCSet(52, 0) /\ TLCSet(53, 0)
Bump(r) == TLCSet(r, TLCGet(r) + 1)
FinCompared == /\ phase = "run" /\ a.st = "done" /\ b.st = "done"
               /\ phase' = "compared" /\ UNCHANGED <<i, diff, a, b>> /\ Bump(51)
FinDiscarded == /\ phase = "run" /\ (a.st = "discard" \/ (a.st = "done" /\ b.st = "discard"))
                /\ phase' = "discarded" /\ UNCHANGED <<i, diff, a, b>> /\ Bump(52)
FinSourceFuel == /\ phase = "run" /\ a.st = "fuel"
                 /\ phase' = "sourcefuel" /\ UNCHANGED <<i, diff, a, b>> /\ Bump(53)
Post == PrintT(<<"COUNTS", TLCGet(51), TLCGet(52), TLCGet(53)>>)
Next == StepA \/ StepB \/ FinCompared \/ FinDiscarded \/ FinSourceFuel
Spec == Init /\ [][Next]_vars

\* ---- what a script does
RegsAgree == \A id \in DOMAIN a.regs : id \in DOMAIN b.regs /\ a.regs[id] = b.regs[id]
ObsEqual == a.log = b.log /\ a.time = b.time /\ a.rt = b.rt /\ RegsAgree

\* the transformed side never performs a call the source side did not perform (checked at every step)
PrefixOk == a.st = "done" => IsPrefix(b.log, a.log)
\* when both finish they agree
SameBehaviour == (a.st = "done" /\ b.st = "done") => ObsEqual
\* the transformed side terminates when the source does
Terminates == ~(a.st = "done" /\ b.st = "fuel")
===========================================================================
