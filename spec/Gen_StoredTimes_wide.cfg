SPECIFICATION Spec
CONSTANTS
  MaxLen = 5
  MaxLenJ = 4
  MaxLenJ2 = 4
INVARIANT Inv
CHECK_DEADLOCK FALSE
