SPECIFICATION Spec
INVARIANT TypeOK
INVARIANT LoweredIsChecked
INVARIANT Layered
CHECK_DEADLOCK FALSE
