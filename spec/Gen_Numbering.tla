--------------------------- MODULE Gen_Numbering ---------------------------
(***************************************************************************)
(* C20, Mode G.  Enumerates every small layout of one family (selected by  *)
(* the environment variable FAMILY; bounds MAXN / MAXE / NAMES / NUMS),    *)
(* one TLC state per layout, together with what Numbering.tla expects the  *)
(* compiler to write.  TLC checks the in-model facts below on every layout *)
(* and writes the layouts + expectations as ndjson (OUT) for replay into   *)
(* the real compiler.                                                      *)
(***************************************************************************)
EXTENDS Numbering, Json, IOUtils, SequencesExt

\* Bounds come from the environment and are handed down as a record B (operators with a parameter
\* are not pre-evaluated by TLC at start-up, so only the selected family is ever built):
\*   B.n   items (sprites / scripts / table slots / subs / timelines / instances)
\*   B.e   ANM entries
\*   B.es  ANM entries for layouts of at most 2 sprites / scripts (cheap, so it may exceed B.e: this is where
\*         entries that own nothing sit *between* entries that own something)
\*   B.all every name sequence (TRUE), or one representative per renaming class (FALSE)
\*   B.nums how many explicit-number options for ANM scripts; for MSG: 1 = fewer defaults / table_len options
Bounds(u) == [n |-> atoi(IOEnv.MAXN), e |-> atoi(IOEnv.MAXE), es |-> atoi(IOEnv.MAXE_SMALL), all |-> IOEnv.NAMES = "all", nums |-> atoi(IOEnv.NUMS)]

\* ------------------------------------------------------------ combinatorics
Sum(s) == LET RECURSIVE S(_) S(n) == IF n = 0 THEN 0 ELSE S(n - 1) + s[n] IN S(Len(s))
Compositions(n, e) == {s \in [1..e -> 0..n] : Sum(s) = n}
Offset(sizes, k) == Sum(SubSeq(sizes, 1, k - 1))
SplitBy(flat, sizes) == Tup([k \in DOMAIN sizes |-> SubSeq(flat, Offset(sizes, k) + 1, Offset(sizes, k) + sizes[k])])

\* name patterns over a pool of 3: all of them, or restricted-growth strings (one per renaming class:
\* every pattern of equal/different names) plus every ordering of pairwise different names
RGS(n) == {p \in [1..n -> 1..3] :
             /\ (n > 0 => p[1] = 1)
             /\ \A i \in 2..n : p[i] <= MaxOf({p[j] : j \in 1..(i - 1)}) + 1}
NamePatterns(B, n) == IF B.all THEN [1..n -> 1..3]
                      ELSE RGS(n) \cup {p \in [1..n -> 1..3] : Distinct(p)}     \* + every order of distinct names
NamesDistinctWithin(entries) == \A k \in DOMAIN entries : Distinct([i \in DOMAIN entries[k] |-> entries[k][i].name])

EBound(B, n) == IF n <= 2 /\ B.es > B.e THEN B.es ELSE B.e
Case(fam, lay, exp) == [fam |-> fam, lay |-> lay, exp |-> exp]

\* ------------------------------------------------------------- anm_sprites
\* pools are deliberately neither sorted nor reverse sorted: a writer that orders by name is visible
SpritePool == <<"c", "a", "b">>
Lit(v) == [k |-> "int", v |-> v]
APlus1 == [k |-> "bin", op |-> "+", a |-> [k |-> "var", id |-> "A", sig |-> ""], b |-> Lit(1)]   \* = 5
IdOpts == <<NoId, Lit(0), Lit(2), Lit(5), APlus1>>

SpriteFlats(B, n) == { Tup([i \in 1..n |-> [name |-> SpritePool[nm[i]], id |-> IdOpts[ic[i]]]]) :
                      nm \in NamePatterns(B, n), ic \in [1..n -> 1..Len(IdOpts)] }
SpriteEntries(B) ==
    { en \in UNION { UNION { { SplitBy(flat, sz) : flat \in SpriteFlats(B, n), sz \in Compositions(n, e) } :
                             e \in 1..EBound(B, n) } : n \in 0..B.n } : NamesDistinctWithin(en) }
SpriteNames(en) == Dedup(LET f == Flatten(en) IN [i \in DOMAIN f |-> f[i].name])
SpriteCases(B) ==
    { Case("anm_sprites", [entries |-> en, uses |-> SpriteNames(en)],
           ExpectWithUses(ExpectSprites(en), SpriteNames(en), SpriteNames(en))) : en \in SpriteEntries(B) }
    \cup
    { Case("anm_sprites", [entries |-> en, uses |-> Append(SpriteNames(en), "zz")],
           ExpectWithUses(ExpectSprites(en), Append(SpriteNames(en), "zz"), SpriteNames(en))) :
        en \in {x \in SpriteEntries(B) : Len(Flatten(x)) <= 1} }

\* ------------------------------------------------------------- anm_scripts
\* entry k (0-based) owns one sprite named "x<k>": the script name "x0" clashes with a sprite name
ScriptPool == <<"t", "x0", "s">>
NumOpts(B) == SubSeq(<<-1, 7, 0, 3>>, 1, B.nums)
ScriptFlats(B, n) == { Tup([i \in 1..n |-> [name |-> ScriptPool[nm[i]], num |-> NumOpts(B)[nc[i]]]]) :
                      nm \in NamePatterns(B, n), nc \in [1..n -> 1..Len(NumOpts(B))] }
ScriptEntries(B) ==
    UNION { UNION { { SplitBy(flat, sz) : flat \in ScriptFlats(B, n), sz \in Compositions(n, e) } : e \in 1..EBound(B, n) } :
            n \in 1..B.n }
ScriptNames(en) == Dedup(LET f == Flatten(en) IN [i \in DOMAIN f |-> f[i].name])
ScriptCases(B) ==
    { Case("anm_scripts", [entries |-> en, uses |-> ScriptNames(en)],
           ExpectWithUses(ExpectScripts(en), ScriptNames(en), ScriptNames(en))) : en \in ScriptEntries(B) }
    \cup
    { Case("anm_scripts", [entries |-> en, uses |-> Append(ScriptNames(en), "zz")],
           ExpectWithUses(ExpectScripts(en), Append(ScriptNames(en), "zz"), ScriptNames(en))) :
        en \in {x \in ScriptEntries(B) : Len(Flatten(x)) <= 1} }

\* --------------------------------------------------------------------- msg
MsgVals == <<"-", "0", "q", "p", "r">>          \* "-": no entry for this key
SlotSeqs(l) == {s \in [1..l -> 1..Len(MsgVals)] : l > 0 => s[l] # 1}
RECURSIVE SparseOf(_, _)
SparseOf(slots, l) ==      \* ascending key order
    IF l = 0 THEN <<>>
    ELSE IF slots[l] = 1 THEN SparseOf(slots, l - 1)
    ELSE Append(SparseOf(slots, l - 1), [key |-> l - 1, script |-> MsgVals[slots[l]]])
Rev(s) == Tup([i \in DOMAIN s |-> s[Len(s) + 1 - i]])
MsgScriptOrders == {<<"q", "p", "r">>, <<"r", "q", "p">>, <<"q", "r">>, <<"r", "p", "q">>, <<"p", "q", "p">>}
MsgLayouts(B) ==
    UNION { { [scripts |-> sc, sparse |-> sp, default |-> d, len |-> ln] :
                sc \in MsgScriptOrders,
                sp \in UNION { {SparseOf(s, l), Rev(SparseOf(s, l))} : s \in SlotSeqs(l) },
                d \in (IF B.nums >= 2 THEN {"", "p", "r"} ELSE {"", "r"}),
                ln \in {-1, l + 2} \cup (IF l >= 2 /\ B.nums >= 2 THEN {l - 1} ELSE {}) } : l \in 0..B.n }
\* a name that is mentioned but not needed by the written table (unused default, key beyond table_len)
\* and does not exist is outside what the statement decides: such layouts are not generated
MsgDecided(t) == (MsgMentionedNames(t) \ MsgUsedNames(t)) \subseteq RangeOf(t.scripts)
MsgCases(B) == { Case("msg", t, ExpectMsg(t)) : t \in {x \in MsgLayouts(B) : MsgDecided(x)} }

\* ---------------------------------------------------------------- ecl_subs
SubPool == <<"g", "f", "h">>
SubNameSeqs(B) == UNION { { Tup([i \in 1..n |-> SubPool[nm[i]]]) : nm \in NamePatterns(B, n) } : n \in 1..B.n }
SubCases(B) ==
    { Case("ecl_subs", [subs |-> s, uses |-> Dedup(s)], ExpectWithUses(ExpectSubs(s), Dedup(s), Dedup(s))) : s \in SubNameSeqs(B) }
    \cup
    { Case("ecl_subs", [subs |-> s, uses |-> Append(Dedup(s), "zz")],
           ExpectWithUses(ExpectSubs(s), Append(Dedup(s), "zz"), Dedup(s))) : s \in {x \in SubNameSeqs(B) : Len(x) <= 2} }

\* --------------------------------------------------------------- timelines
TlNums(B) == {-1} \cup 0..(B.n - 1)
TimelineCases(B) ==
    UNION { { Case("timelines", [tls |-> Tup(t)], ExpectTimelines(Tup(t))) : t \in [1..n -> TlNums(B)] } : n \in 1..B.n }

\* --------------------------------------------------------------------- std
ObjPool == <<"q", "o", "p">>
ObjSeqs == UNION { { Tup(s) : s \in {f \in [1..n -> 1..3] : Distinct(f)} } : n \in 0..3 }
InstSeqs(B) == UNION { [1..n -> 1..3] : n \in 0..B.n }
StdCases(B) ==
    { Case("std", [objects |-> Tup([i \in DOMAIN o |-> ObjPool[o[i]]]), insts |-> Tup([i \in DOMAIN s |-> ObjPool[s[i]]])],
           ExpectStd([i \in DOMAIN o |-> ObjPool[o[i]]], [i \in DOMAIN s |-> ObjPool[s[i]]])) :
        o \in ObjSeqs, s \in InstSeqs(B) }

\* --------------------------------------------------------------------------
Cases(u) ==
    LET B == Bounds(u)
        fam == IOEnv.FAMILY
    IN CASE fam = "anm_sprites" -> SpriteCases(B)
         [] fam = "anm_scripts" -> ScriptCases(B)
         [] fam = "msg" -> MsgCases(B)
         [] fam = "ecl_subs" -> SubCases(B)
         [] fam = "timelines" -> TimelineCases(B)
         [] fam = "std" -> StdCases(B)

VARIABLE c
Init == c \in Cases(0)
Next == UNCHANGED c
Spec == Init /\ [][Next]_c

\* ------------------------------------------------------------ in-model facts
MapIsFunction(exp) == Distinct([i \in DOMAIN exp.map |-> exp.map[i].name])
ValueOfName(exp, nm) == exp.map[CHOOSE i \in DOMAIN exp.map : exp.map[i].name = nm].v
Shape(exp) == /\ exp.ok \in BOOLEAN
              /\ exp.ok <=> exp.err = ""
              /\ ~exp.ok => exp.file = <<>> /\ exp.map = <<>>

SpriteFacts ==
    LET en == c.lay.entries
        flat == Flatten(en)
        ids == SpriteIds(en)
        undefinedUse == ~(RangeOf(c.lay.uses) \subseteq RangeOf(SpriteNames(en)))
    IN /\ Len(ids) = Len(flat)
       \* declarative reading of the rule, position by position
       /\ \A i \in DOMAIN flat :
            /\ HasId(flat[i]) => ids[i] = IdValue(flat[i].id)
            /\ (~HasId(flat[i]) /\ i = 1) => ids[i] = 0
            /\ (~HasId(flat[i]) /\ i > 1) => ids[i] = ids[i - 1] + 1
       \* the counter runs across entries: regrouping the same sprites into one entry changes nothing
       /\ SpriteIds(en) = SpriteIds(<<flat>>)
       /\ \A i \in DOMAIN ids : ids[i] \in Nat
       \* accepted iff every name has one value (equal-valued duplicates are fine) and every use is defined
       /\ c.exp.ok <=> /\ ~undefinedUse
                       /\ \A i, j \in DOMAIN flat : flat[i].name = flat[j].name => ids[i] = ids[j]
       /\ c.exp.ok => /\ MapIsFunction(c.exp)
                      /\ c.exp.file = ids
                      /\ \A i \in DOMAIN flat : ValueOfName(c.exp, flat[i].name) = ids[i]
                      /\ Len(c.exp.map) = Cardinality({flat[i].name : i \in DOMAIN flat})

ScriptFacts ==
    LET en == c.lay.entries
        flat == Flatten(en)
        ids == ScriptIdsFlat(flat)
        names == [i \in DOMAIN flat |-> flat[i].name]
    IN /\ \A i \in DOMAIN flat :
            /\ flat[i].num >= 0 => ids[i] = flat[i].num
            /\ (flat[i].num < 0 /\ i = 1) => ids[i] = 0
            /\ (flat[i].num < 0 /\ i > 1) => ids[i] = ids[i - 1] + 1
       /\ c.exp.ok <=> (Distinct(names) /\ RangeOf(c.lay.uses) \subseteq RangeOf(names))
       /\ c.exp.ok => /\ MapIsFunction(c.exp)
                      /\ c.exp.file = ids
                      \* a name stands for the position, whatever the ids are
                      /\ \A i \in DOMAIN flat : ValueOfName(c.exp, flat[i].name) = i - 1
                      /\ {c.exp.map[i].v : i \in DOMAIN c.exp.map} = 0..(Len(flat) - 1)

MsgFacts ==
    LET t == c.lay
        tb == MsgTable(t)
        keys == {t.sparse[i].key : i \in DOMAIN t.sparse}
    IN /\ Len(tb) = TableLen(t)
       /\ (t.len < 0 /\ t.sparse # <<>>) => Len(tb) = MaxOf(keys) + 1
       /\ \A i \in DOMAIN t.sparse : t.sparse[i].key < Len(tb) => tb[t.sparse[i].key + 1] = t.sparse[i].script
       /\ \A i \in DOMAIN tb : (i - 1) \notin keys => tb[i] = (IF t.default = "" THEN "0" ELSE t.default)
       /\ c.exp.ok <=> (Distinct(t.scripts) /\ \A i \in DOMAIN tb : tb[i] = "0" \/ tb[i] \in RangeOf(t.scripts))
       /\ c.exp.ok => /\ Len(c.exp.map) = Len(tb)
                      /\ \A i \in DOMAIN tb : c.exp.map[i].name = tb[i] /\ c.exp.map[i].v = i - 1

SubFacts ==
    LET s == c.lay.subs
    IN /\ c.exp.ok <=> (Distinct(s) /\ RangeOf(c.lay.uses) \subseteq RangeOf(s))
       /\ c.exp.ok => /\ MapIsFunction(c.exp)
                      /\ \A i \in DOMAIN s : ValueOfName(c.exp, s[i]) = i - 1

TimelineFacts ==
    LET t == c.lay.tls
        idx == TimelineIdx(t)
        n == Len(t)
    IN /\ (\A i \in DOMAIN t : t[i] < 0) => (c.exp.ok /\ \A i \in DOMAIN t : idx[i] = i - 1)
       /\ (\A i \in DOMAIN t : t[i] >= 0) => idx = t
       /\ c.exp.ok <=> (\A k \in 0..(n - 1) : Cardinality({i \in DOMAIN t : idx[i] = k}) = 1)
       /\ c.exp.ok => c.exp.file = idx

StdFacts ==
    LET o == c.lay.objects
        s == c.lay.insts
    IN /\ c.exp.ok <=> \A i \in DOMAIN s : \E j \in DOMAIN o : o[j] = s[i]
       /\ c.exp.ok => /\ Len(c.exp.file) = Len(s)
                      /\ \A i \in DOMAIN s : c.exp.file[i] \in 0..(Len(o) - 1) /\ o[c.exp.file[i] + 1] = s[i]

Inv ==
    /\ Shape(c.exp)
    /\ CASE c.fam = "anm_sprites" -> SpriteFacts
         [] c.fam = "anm_scripts" -> ScriptFacts
         [] c.fam = "msg" -> MsgFacts
         [] c.fam = "ecl_subs" -> SubFacts
         [] c.fam = "timelines" -> TimelineFacts
         [] c.fam = "std" -> StdFacts

ASSUME LET cs == Cases(0)
       IN /\ ndJsonSerialize(IOEnv.OUT, SetToSeq(cs))
          /\ PrintT(<<"GEN", "Gen_Numbering", IOEnv.FAMILY, Cardinality(cs)>>)
=============================================================================
