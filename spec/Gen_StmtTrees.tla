--------------------------- MODULE Gen_StmtTrees ---------------------------
(***************************************************************************)
(* C08, Mode G.  Statement- and item-level ASTs: every statement form of   *)
(* doc/syntax.md (assignments with every operator, declarations, calls     *)
(* with pseudo-arguments @mask/@blob/@arg0, raw jumps with `@ time`,       *)
(* conditions incl. the `--x` form, if/unless chains, loop / while /       *)
(* do-while / times with and without clobber, free blocks, labels,         *)
(* absolute / relative / negative time labels, interrupt labels,           *)
(* difficulty labels, the reserved call-sub forms), each with every        *)
(* expression of a small alphabet in every expression slot, and the item   *)
(* forms (script with and without number, const, functions, meta/entry,    *)
(* files with pragmas).                                                    *)
(* Blocks carry the empty bookend statements the grammar gives them.       *)
(* In-model: every generated statement is one the documented grammar can   *)
(* yield (bookends present; difficulty labels only on instructions-like    *)
(* statements; `async` only together with `@`).                            *)
(***************************************************************************)
EXTENDS C08Leaves, Json, IOUtils, FiniteSets, SequencesExt

I(v) == IntFmt(v, "sDec")
Vx == NamedVar("x")
Nop == [k |-> "nop"]
Blk(body) == <<Nop>> \o body \o <<Nop>>

CallE(name, args) == [k |-> "call", name |-> [id |-> "n:" \o name, name |-> name], pseudos |-> <<>>, args |-> args]
InsE(op, pseudos, args) == [k |-> "call", name |-> [ins |-> op], pseudos |-> pseudos, args |-> args]
Ps(kind, v) == [kind |-> kind, v |-> v]
ExprS(e) == [k |-> "expr", e |-> e]
Assign(v, op, e) == [k |-> "assign", var |-> v, op |-> op, value |-> e]
Decl(ty, vars) == [k |-> "decl", ty |-> ty, vars |-> vars]
DV(n) == [var |-> NamedVar(n)]
DVI(n, e) == [var |-> NamedVar(n), init |-> e]
Goto(l) == [k |-> "jump", jump |-> "goto", label |-> l]
GotoAt(l, tm) == [k |-> "jump", jump |-> "goto", label |-> l, time |-> tm]
Break == [k |-> "jump", jump |-> "break"]
CondOf(kw, c, j) == [j EXCEPT !.k = "condjump"] @@ [kw |-> kw, cond |-> c]
Return0 == [k |-> "return"]
Return1(e) == [k |-> "return", value |-> e]
CB(kw, c, body) == [kw |-> kw, cond |-> c, body |-> body]
Chain(blocks) == [k |-> "chain", blocks |-> blocks]
ChainElse(blocks, els) == [k |-> "chain", blocks |-> blocks, else |-> els]
Loop(body) == [k |-> "loop", body |-> body]
While(c, body) == [k |-> "while", do |-> FALSE, cond |-> c, body |-> body]
DoWhile(c, body) == [k |-> "while", do |-> TRUE, cond |-> c, body |-> body]
Times(n, body) == [k |-> "times", count |-> n, body |-> body]
TimesClobber(v, n, body) == [k |-> "times", count |-> n, body |-> body, clobber |-> v]
Block(body) == [k |-> "block", body |-> body]
AbsT(tm) == [k |-> "abs", t |-> tm]
Rel(e) == [k |-> "rel", e |-> e]
Label(n) == [k |-> "label", name |-> n]
Interrupt(e) == [k |-> "interrupt", e |-> e]
CallSub(f, args) == [k |-> "callsub", at |-> TRUE, func |-> f, args |-> args]
CallSubAsync(f, args) == [k |-> "callsub", at |-> TRUE, func |-> f, args |-> args, async |-> TRUE]
CallSubAsyncId(f, args, e) == [k |-> "callsub", at |-> TRUE, func |-> f, args |-> args, async |-> TRUE, async_id |-> e]
ItemS(it) == [k |-> "item", item |-> it]
ConstI(ty, vars) == [k |-> "const", ty |-> ty, vars |-> vars]
Param(ty, n) == [ty |-> ty, ident |-> "n:" \o n, name |-> n]
FuncDef(qual, ty, n, params, body) ==
    [k |-> "func", ty |-> ty, ident |-> "n:" \o n, name |-> n, params |-> params, body |-> body]
    @@ (IF qual = "" THEN <<>> ELSE [qual |-> qual])
FuncDecl(ty, n, params) == [k |-> "func", ty |-> ty, ident |-> "n:" \o n, name |-> n, params |-> params]
Script(n, body) == [k |-> "script", name |-> n, body |-> body]
ScriptN(num, n, body) == [k |-> "script", number |-> num, name |-> n, body |-> body]
WithDiff(s, d) == s @@ [diff |-> d]

\* ------------------------------------------------------------------ alphabets
Exprs == {
    Vx, I(-3), I(MinI32), FloatLit(-1077936128), StrLit(<<97, 34, 10, 0, 26085>>),
    Bin("+", NamedVar("a"), I(1)), Bin("-", NamedVar("a"), I(-1)), Un("-", Vx), Un("!", NamedVar("E")),
    Tern(NamedVar("c"), NamedVar("a"), NamedVar("b")), Ds(<<NamedVar("a"), Hole, I(4)>>),
    PreDec(Vx), PostDec(Vx), CallE("f", <<I(1), NamedVar("b")>>), RegVar("$", 10000), IntFmt(255, "uHex") }
Conds == {Vx, PreDec(Vx), PreDec(RegVar("$", 10000)), Bin("==", NamedVar("a"), I(-1)), Un("!", Vx), Ds(<<I(1), I(0)>>), I(-3)}
AssignOps == {"=", "+=", "-=", "*=", "/=", "%=", "|=", "^=", "&=", "<<=", ">>=", ">>>="}
Targets == {Vx, RegVar("$", 10000), RegVar("%", 10004), SigVar("%", "F0"), RegVar("", -1)}

Call0 == ExprS(InsE(10, <<>>, <<>>))
Call2 == ExprS(InsE(23, <<>>, <<I(1), FloatLit(1065353216)>>))
LongCall == ExprS(CallE("someLongInstructionName", <<I(100000), I(200000), Bin("+", NamedVar("a"), I(300000)), StrLit(<<104, 105>>)>>))
B0 == Blk(<<>>)
B1 == Blk(<<Call0>>)
B2 == Blk(<<AbsT(10), Call0, Rel(I(5)), Call2, Label("end"), Rel(I(3))>>)
Bodies == {B0, B1, B2}

Simple ==
    {Assign(v, "=", e) : v \in Targets, e \in Exprs}
    \cup {Assign(Vx, op, e) : op \in AssignOps, e \in {I(-3), Bin("+", NamedVar("a"), I(1)), Ds(<<I(1), I(2)>>)}}
    \cup {Decl("int", <<DV("i")>>), Decl("float", <<DV("a"), DV("b")>>), Decl("var", <<DV("w")>>),
          Decl("int", <<DVI("i", I(0)), DV("j"), DVI("k", Bin("*", NamedVar("i"), I(-2)))>>)}
    \cup {Decl("float", <<DVI("y", e)>>) : e \in Exprs}
    \cup {ExprS(e) : e \in Exprs}
    \cup {Call0, Call2, LongCall,
          ExprS(InsE(1011, <<Ps("mask", IntFmt(4, "uBin")), Ps("blob", StrLit(<<48, 48, 53, 48, 49, 99, 52, 54, 32, 48, 48, 48, 48, 48, 48, 52, 48>>))>>, <<>>)),
          ExprS(InsE(3, <<Ps("arg0", I(5)), Ps("blob", StrLit(<<>>))>>, <<>>)),
          ExprS(InsE(4, <<Ps("pop", I(-1)), Ps("nargs", I(2)), Ps("mask", IntFmt(-1, "uHex")), Ps("arg0", Bin("+", NamedVar("a"), I(1)))>>, <<I(1), Vx>>)),
          ExprS(CallE("g", <<>>))}
    \cup {Goto("L"), GotoAt("L", 10), GotoAt("L", -5), GotoAt("E", 0), GotoAt("L", MinI32), GotoAt("L", MaxI32), Break}
    \cup {CondOf(kw, c, j) : kw \in {"if", "unless"}, c \in Conds, j \in {Goto("L"), GotoAt("L", -5), Break}}
    \cup {Return0} \cup {Return1(e) : e \in {Vx, I(-3), Bin("+", NamedVar("a"), I(1)), Ds(<<I(1), I(2)>>)}}
    \cup {CallSub("f", <<>>), CallSub("f", <<I(-1), Vx>>), CallSubAsync("f", <<Vx>>), CallSubAsyncId("f", <<>>, I(3)),
          CallSubAsyncId("f", <<Vx>>, Bin("+", NamedVar("a"), I(1))), CallSubAsyncId("E", <<>>, I(-3))}

Labels ==
    {AbsT(0), AbsT(30), AbsT(-10), AbsT(MinI32), AbsT(MaxI32), Label("L"), Label("E"), Label("entry")}
    \cup {Rel(e) : e \in {I(10), I(0), I(-15), IntFmt(16, "uHex"), Vx, Bin("+", NamedVar("a"), I(1)), Un("-", Vx), CallE("f", <<I(1), I(20000)>>), Tern(Vx, I(1), I(2))}}
    \cup {Interrupt(e) : e \in {I(1), I(-1), Vx, Bin("+", NamedVar("a"), I(1)), CallE("f", <<I(1), I(20000)>>)}}

Compound ==
    {Chain(<<CB(kw, c, b)>>) : kw \in {"if", "unless"}, c \in Conds, b \in {B1}}
    \cup {Chain(<<CB("if", Vx, b)>>) : b \in Bodies}
    \cup {ChainElse(<<CB("if", c, B1)>>, B2) : c \in Conds}
    \cup {Chain(<<CB("if", Vx, B1), CB("unless", PreDec(Vx), B0), CB("if", I(-3), B2)>>),
          ChainElse(<<CB("if", Vx, B0), CB("if", Bin("==", NamedVar("a"), I(-1)), B1)>>, B0)}
    \cup {Loop(b) : b \in Bodies}
    \cup {While(c, B1) : c \in Conds} \cup {DoWhile(c, B1) : c \in Conds} \cup {While(Vx, B2), DoWhile(Vx, B0)}
    \cup {Times(n, B1) : n \in Exprs} \cup {TimesClobber(v, n, B1) : v \in {Vx, RegVar("$", 10000)}, n \in {I(5), Vx, Bin("+", NamedVar("a"), I(1)), I(-3)}}
    \cup {Block(b) : b \in Bodies}
    \cup {Loop(Blk(<<While(Vx, Blk(<<CondOf("if", PreDec(Vx), Break), Times(I(3), B2)>>)), Break>>))}

ItemStmts == {
    ItemS(ConstI("int", <<DVI("x", I(-3))>>)),
    ItemS(ConstI("float", <<DVI("a", FloatLit(1065353216)), DVI("b", Bin("*", NamedVar("a"), FloatLit(-1077936128)))>>)),
    ItemS(ConstI("string", <<DVI("S", StrLit(<<74, 111, 104, 110, 110, 121>>))>>)),
    ItemS(FuncDef("", "int", "foo", <<Param("int", "x"), Param("float", "y")>>, Blk(<<Return1(NamedVar("x"))>>))),
    ItemS(FuncDef("inline", "void", "baz", <<>>, B1)),
    ItemS(FuncDef("const", "float", "qux", <<Param("float", "a")>>, Blk(<<Return1(Bin("*", NamedVar("a"), FloatLit(1073741824)))>>))),
    ItemS(FuncDecl("void", "bar", <<>>)),
    ItemS(FuncDecl("int", "withManyParameters", <<Param("int", "alpha"), Param("float", "beta"), Param("int", "gamma"), Param("var", "delta")>>)) }

DiffStrs == {"EN", "", "*-", "4567", "ENHL"}
Physical == {Call0, Call2, Assign(Vx, "=", I(-3)), Chain(<<CB("if", Vx, B1)>>), Loop(B1), Block(B1), GotoAt("L", 3), CondOf("if", PreDec(Vx), Goto("L")),
             Decl("int", <<DVI("i", I(0))>>), Return0, CallSub("f", <<>>), Times(I(3), B1), Interrupt(I(1))}
Diffed == {WithDiff(st, d) : st \in Physical, d \in DiffStrs}

Stmts == Simple \cup Labels \cup Compound \cup ItemStmts \cup Diffed
\* a block holding the statement between two calls (time labels print flush left, so context matters)
NeedsLoop(st) == st.k \in {"jump", "condjump"} /\ st.jump = "break"        \* `break` only exists inside a loop
BlockOf(st) == IF NeedsLoop(st) THEN Blk(<<Loop(Blk(<<Call0, st, Call2>>))>>) ELSE Blk(<<Call0, st, Call2>>)
Alone(st) == IF NeedsLoop(st) THEN Loop(Blk(<<st>>)) ELSE st
\* consecutive labels and interrupts (the formatter groups interrupt lines)
Sequences3 == {
    Blk(<<Interrupt(I(1)), Interrupt(I(2)), Call0, Interrupt(I(3))>>),
    Blk(<<AbsT(10), Rel(I(5)), AbsT(-1), Label("a"), Label("b"), Rel(I(-15))>>),
    Blk(<<Label("a"), AbsT(MinI32)>>),
    Blk(<<WithDiff(Call0, "E"), WithDiff(Call0, "N"), Rel(I(1)), WithDiff(Call2, "HL")>>) }

MetaF == <<<<"unknown", [k |-> "scalar", e |-> I(0)]>>, <<"stage_name", [k |-> "scalar", e |-> StrLit(<<100, 109>>)]>>,
           <<"pos", [k |-> "array", items |-> <<[k |-> "scalar", e |-> FloatLit(-1029505024)], [k |-> "scalar", e |-> FloatLit(1065353216)]>>]>>>>
ItemsTop == {
    Script("main", B2), ScriptN(3, "script3", B1), ScriptN(-1, "neg", B0), Script("E", B1), Script("entry", Blk(<<Loop(B2)>>)),
    ConstI("int", <<DVI("x", I(-3)), DVI("y", Un("-", NamedVar("x")))>>),
    [k |-> "meta", kw |-> "meta", fields |-> MetaF], [k |-> "meta", kw |-> "entry", fields |-> MetaF],
    FuncDef("", "void", "Sub0", <<Param("int", "x")>>, B2), FuncDecl("void", "Sub1", <<Param("float", "y")>>) }
File(maps, imgs, items) == [mapfiles |-> maps, image_sources |-> imgs, items |-> items]
FilesTop == {
    File(<<>>, <<>>, <<>>),
    File(<<"map/any.anmm">>, <<>>, <<Script("main", B2)>>),
    File(<<"a b.anmm", "second.anmm">>, <<"img dir/x.anm">>, <<[k |-> "meta", kw |-> "entry", fields |-> MetaF], Script("s0", B1), ScriptN(7, "s1", B2)>>),
    File(<<>>, <<"only-images">>, <<ConstI("int", <<DVI("x", I(1))>>), ConstI("float", <<DVI("y", FloatLit(MinI32))>>), FuncDecl("void", "f", <<>>), Script("main", B0)>>) }

\* ------------------------------------------------------------------ in-model: grammar-producible
RECURSIVE StmtOk(_), BlockOk(_)
BlockOk(b) == /\ Len(b) >= 2 /\ b[1] = Nop /\ b[Len(b)] = Nop
              /\ \A j \in DOMAIN b : StmtOk(b[j])
PhysicalKinds == {"expr", "assign", "decl", "jump", "condjump", "return", "chain", "loop", "while", "times", "block", "callsub", "interrupt"}
StmtOk(st) ==
    /\ ("diff" \in DOMAIN st) => st.k \in PhysicalKinds
    /\ (st.k = "callsub" /\ "async" \in DOMAIN st) => st.at
    /\ st.k \in {"loop", "while", "times", "block"} => BlockOk(st.body)
    /\ st.k = "chain" => /\ \A j \in DOMAIN st.blocks : BlockOk(st.blocks[j].body)
                         /\ ("else" \in DOMAIN st) => BlockOk(st.else)
    /\ (st.k = "item" /\ st.item.k = "func" /\ "body" \in DOMAIN st.item) => BlockOk(st.item.body)
\* `break` occurs only inside a loop body
RECURSIVE BreaksOk(_, _)
BreaksIn(b, inLoop) == \A j \in DOMAIN b : BreaksOk(b[j], inLoop)
BreaksOk(st, inLoop) ==
    /\ NeedsLoop(st) => inLoop
    /\ st.k \in {"loop", "while", "times"} => BreaksIn(st.body, TRUE)
    /\ st.k = "block" => BreaksIn(st.body, inLoop)
    /\ st.k = "chain" => /\ \A j \in DOMAIN st.blocks : BreaksIn(st.blocks[j].body, inLoop)
                         /\ ("else" \in DOMAIN st) => BreaksIn(st.else, inLoop)

CaseSeq ==
    LET ss == SetToSeq(Stmts)  sq == SetToSeq(Sequences3)  its == SetToSeq(ItemsTop)  fs == SetToSeq(FilesTop)
        W == "1,8,20,40,99,200"
    IN  [i \in 1..Len(ss) |-> [id |-> i, kind |-> "block", e |-> BlockOf(ss[i]), widths |-> W]]
     \o [i \in 1..Len(ss) |-> [id |-> Len(ss) + i, kind |-> "stmt", e |-> Alone(ss[i]), widths |-> W]]
     \o [i \in 1..Len(sq) |-> [id |-> 2 * Len(ss) + i, kind |-> "block", e |-> sq[i], widths |-> W]]
     \o [i \in 1..Len(its) |-> [id |-> 2 * Len(ss) + Len(sq) + i, kind |-> "item", e |-> its[i], widths |-> W]]
     \o [i \in 1..Len(fs) |-> [id |-> 2 * Len(ss) + Len(sq) + Len(its) + i, kind |-> "file", e |-> fs[i], widths |-> W]]

VARIABLE st
Init == st \in Stmts
Next == UNCHANGED st
Spec == Init /\ [][Next]_st
Inv == StmtOk(st) /\ BlockOk(BlockOf(st)) /\ BreaksIn(BlockOf(st), FALSE) /\ BreaksOk(Alone(st), FALSE)

ASSUME /\ ndJsonSerialize(IOEnv.OUT, CaseSeq)
       /\ PrintT(<<"GEN", "Gen_StmtTrees", Len(CaseSeq), Cardinality(Simple), Cardinality(Labels), Cardinality(Compound), Cardinality(Diffed)>>)
=============================================================================
