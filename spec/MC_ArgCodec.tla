----------------------------- MODULE MC_ArgCodec -----------------------------
(***************************************************************************)
(* C12 in-model, byte level (ASSUME-only; run once per check): the integer *)
(* layouts of ArgCodec are bijections between byte strings and the values  *)
(* that fit, plus the vectors given in the documentation.                  *)
(***************************************************************************)
EXTENDS ArgCodec, TLC

Anm == [name |-> "anm", regs |-> TRUE, arg0 |-> FALSE, hdr |-> 4, tend |-> 30]
P(ch) == Param(ch, FALSE, FALSE, FALSE, FALSE)
A(k, v) == [k |-> k, v |-> v]

\* LE/FromLE are inverse bijections between the byte strings of a width and the values that fit it
ASSUME \A b1 \in 0..255 :
    /\ LE(FromLE(<<b1>>, TRUE), 1) = <<b1>> /\ Fits(FromLE(<<b1>>, TRUE), "c")
    /\ LE(FromLE(<<b1>>, FALSE), 1) = <<b1>> /\ Fits(FromLE(<<b1>>, FALSE), "b")
    /\ \A b2 \in 0..255 :
        /\ LE(FromLE(<<b1, b2>>, TRUE), 2) = <<b1, b2>> /\ Fits(FromLE(<<b1, b2>>, TRUE), "s")
        /\ LE(FromLE(<<b1, b2>>, FALSE), 2) = <<b1, b2>> /\ Fits(FromLE(<<b1, b2>>, FALSE), "u")
ASSUME \A v \in (-32775..-32760) \cup (-300..300) \cup (32760..32775) \cup (65530..65545) :
    /\ (Fits(v, "s") <=> FromLE(LE(v, 2), TRUE) = v) /\ (Fits(v, "u") <=> FromLE(LE(v, 2), FALSE) = v)
    /\ (Fits(v, "c") <=> FromLE(LE(v, 1), TRUE) = v) /\ (Fits(v, "b") <=> FromLE(LE(v, 1), FALSE) = v)
ASSUME \A v \in {MinI32, MaxI32, -1, 0, 1, 305419896, -305419896, 65536, -65536, 16777216} :
    FromLE(LE(v, 4), TRUE) = v
\* doc/syntax.md: ins_1011(@mask=0b100, @blob="00501c46 00000040 00541c46"): "the third argument is a register"
ASSUME LE(10000, 4) = <<16, 39, 0, 0>>          \* "10270000"
ASSUME Decode(<<P("f"), P("f"), P("S")>>, <<0, 80, 28, 70, 0, 0, 0, 64, 16, 39, 0, 0>>, 4, -1, Anm)
        = <<A("fimm", 1176260608), A("fimm", 1073741824), A("reg", 10000)>>
ASSUME Encode(<<P("f"), P("S")>>, <<A("freg", 10004), A("imm", 10000)>>, Anm)
        = [ok |-> TRUE, blob |-> <<0, 80, 28, 70, 16, 39, 0, 0>>, mask |-> 1, arg0 |-> -1]

\* widths and signedness as documented: S s c signed, U u b unsigned; 4 / 2 / 1 bytes; _ = 4, - = 1
ASSUME /\ Width("S") = 4 /\ Width("U") = 4 /\ Width("C") = 4 /\ Width("f") = 4 /\ Width("o") = 4 /\ Width("t") = 4
       /\ Width("n") = 4 /\ Width("N") = 4 /\ Width("E") = 4
       /\ Width("s") = 2 /\ Width("u") = 2 /\ Width("c") = 1 /\ Width("b") = 1 /\ Width("_") = 4 /\ Width("-") = 1
       /\ IsSigned("s") /\ IsSigned("c") /\ ~IsSigned("u") /\ ~IsSigned("b")
\* a `u` argument of 40000 and a `s` argument of -25536 are the same two bytes and read back differently
ASSUME /\ LE(40000, 2) = LE(-25536, 2)
       /\ FromLE(LE(40000, 2), FALSE) = 40000 /\ FromLE(LE(40000, 2), TRUE) = -25536
\* padding takes space but no argument and no mask bit: S _ S with a register second
ASSUME Encode(<<P("S"), P("_"), P("S")>>, <<A("imm", 1), A("reg", 10000)>>, Anm)
        = [ok |-> TRUE, blob |-> <<1, 0, 0, 0, 0, 0, 0, 0, 16, 39, 0, 0>>, mask |-> 2, arg0 |-> -1]
ASSUME Encode(<<P("S"), P("-"), P("s")>>, <<A("imm", 1), A("imm", -2)>>, Anm)
        = [ok |-> TRUE, blob |-> <<1, 0, 0, 0, 0, 254, 255>>, mask |-> 0, arg0 |-> -1]
ASSUME PrintT(<<"MC", "MC_ArgCodec", "ok">>)
=============================================================================
