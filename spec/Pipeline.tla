------------------------------ MODULE Pipeline ------------------------------
(***************************************************************************)
(* The compile pipeline as a state machine over *established facts*.       *)
(*                                                                         *)
(* Every compiler pass of truth documents what it needs (doc comments and  *)
(* the messages of its `expect`s: "Requires name resolution", "must run    *)
(* assign_languages pass!", "already type-checked", "It is required for    *)
(* const simplification, which only looks at the cache", "a break/continue *)
(* made it to the lowering stage", "should be handled earlier").  A pass   *)
(* is an action that is enabled when the facts it requires have been       *)
(* established for the file being compiled, and establishes its own.       *)
(*                                                                         *)
(* Each format (ANM, STD, MSG, mission MSG, old ECL, modern ECL) strings   *)
(* the passes together by hand in its own `compile` function; nothing in   *)
(* the type system relates them (only `evaluate_const_vars::Proof`).  The  *)
(* real order is recorded through the cfg(truth_verif) pass hooks and      *)
(* validated against this machine by Trace_Pipeline: a recorded sequence   *)
(* is a behaviour iff every pass started with its requirements met.        *)
(* (mission.msg used to skip assign_languages and panicked in the type     *)
(* checker on `REG[1]` -- fixed in d396502; that is the kind of slip this  *)
(* machine rejects for every input, not only for the inputs that panic.)   *)
(***************************************************************************)
EXTENDS Naturals, Sequences, FiniteSets, TLC

Passes == {"assign_languages", "resolve_names", "type_check", "evaluate_const_vars", "const_simplify",
           "validate_difficulty", "forbid_difficulty", "desugar_blocks", "lower_sub", "lower_finish"}

Req(p) ==
    CASE p = "assign_languages"    -> {}
      [] p = "resolve_names"       -> {"languages"}              \* defs.rs: "must run assign_languages pass!"
      [] p = "type_check"          -> {"names"}                  \* type_check.rs: "Requires name resolution"
      [] p = "evaluate_const_vars" -> {"names", "types"}         \* consts are expressions: resolved and well-typed
      [] p = "const_simplify"      -> {"types", "consts"}        \* "already type-checked"; "only looks at the cache"
      [] p = "validate_difficulty" -> {"names"}
      [] p = "forbid_difficulty"   -> {"names"}
      [] p = "desugar_blocks"      -> {"names", "difficulty"}    \* difficulty validation looks at blocks and switches as written
      [] p = "lower_sub"           -> {"languages", "names", "types", "consts", "simplified", "difficulty", "flat"}
      [] p = "lower_finish"        -> {}

Prov(p) ==
    CASE p = "assign_languages"    -> {"languages"}
      [] p = "resolve_names"       -> {"names"}
      [] p = "type_check"          -> {"types"}
      [] p = "evaluate_const_vars" -> {"consts"}
      [] p = "const_simplify"      -> {"simplified"}
      [] p = "validate_difficulty" -> {"difficulty"}
      [] p = "forbid_difficulty"   -> {"difficulty"}
      [] p = "desugar_blocks"      -> {"flat"}
      [] p = "lower_sub"           -> {"lowered"}
      [] p = "lower_finish"        -> {"finished"}

AllFacts == UNION {Prov(p) : p \in Passes}

VARIABLE facts
Init == facts = {}
Run(p) == Req(p) \subseteq facts /\ facts' = facts \cup Prov(p)
Next == \E p \in Passes : Run(p)
Spec == Init /\ [][Next]_facts

TypeOK == facts \subseteq AllFacts
\* what instructions are made from has been through every front-end pass
LoweredIsChecked == "lowered" \in facts => {"languages", "names", "types", "consts", "simplified", "difficulty", "flat"} \subseteq facts
\* nothing is typed before it is named, nothing is named before it has a language
Layered == /\ "types" \in facts => "names" \in facts
           /\ "names" \in facts => "languages" \in facts
           /\ "simplified" \in facts => "consts" \in facts /\ "types" \in facts

\* ---- sequences of pass starts (what the hooks record)
RECURSIVE Fold(_, _, _)
\* index of the first pass that starts without its requirements, 0 if none
Fold(seq, i, f) ==
    IF i > Len(seq) THEN 0
    ELSE IF seq[i] \notin Passes \/ ~(Req(seq[i]) \subseteq f) THEN i
    ELSE Fold(seq, i + 1, f \cup Prov(seq[i]))
FirstBad(seq) == Fold(seq, 1, {})
RECURSIVE FactsAfter(_, _, _)
FactsAfter(seq, i, f) == IF i > Len(seq) THEN f ELSE FactsAfter(seq, i + 1, f \cup Prov(seq[i]))
Accepts(seq) == FirstBad(seq) = 0

\* the machine is not vacuous: the documented order is a behaviour, orders with a missing pass are not
ASSUME Accepts(<<"assign_languages", "resolve_names", "type_check", "evaluate_const_vars", "const_simplify",
                 "validate_difficulty", "desugar_blocks", "lower_sub", "lower_sub", "lower_finish">>)
ASSUME Accepts(<<"assign_languages", "resolve_names", "type_check", "evaluate_const_vars", "const_simplify">>)   \* mission.msg
ASSUME FirstBad(<<"resolve_names", "type_check">>) = 1                                                           \* mission.msg before d396502
ASSUME FirstBad(<<"assign_languages", "resolve_names", "evaluate_const_vars">>) = 3
ASSUME FirstBad(<<"assign_languages", "resolve_names", "type_check", "evaluate_const_vars", "const_simplify",
                  "desugar_blocks">>) = 6
=============================================================================
