--------------------------- MODULE Trace_FmtParse ---------------------------
(***************************************************************************)
(* C08, Mode H.  The toolchain-level contract of the two actions           *)
(*     Format(a, w) = text          Parse(text) = a' | Err                 *)
(* and a judge of recorded histories of them.  A history (one per case)    *)
(* is what the harness observed when it drove the real formatter and the   *)
(* real parser: `fmt` events (a, widths, text), `parse` events (text ->    *)
(* a' or error), and, where a' is not literally a, the differing           *)
(* expression subtrees as `pair` events (both sides exported from the real *)
(* ASTs).  ASTs and texts are identified by interned ids: equal id <=>     *)
(* equal exported tree / equal characters.                                 *)
(*                                                                         *)
(* Contract (the state is what has been observed so far):                  *)
(*   Determinism  Format and Parse are functions.                          *)
(*   ParseBack    Parse(Format(a, w)) = a' with Norm(a') = Norm(a): the    *)
(*                text is accepted, nothing differs outside expressions,   *)
(*                and every differing pair of expression subtrees is       *)
(*                equal under Norm (Syntax.tla; Norm is a congruence, so   *)
(*                equality of the first differing subtrees is equality of  *)
(*                the whole).                                              *)
(*   Idempotent   Format(Parse(Format(a, w)), w) = Format(a, w).           *)
(*   ModelText    the minimal spelling the model printer chose for a tree  *)
(*                (Gen_ExprTrees `toks`) is read by the real parser as     *)
(*                that tree.                                               *)
(*   NoPanic      neither action panics.                                   *)
(* The judge does not stop at the first rejected event: it records a       *)
(* verdict per event (`bad`) so that one run names every rejected event.   *)
(***************************************************************************)
EXTENDS Syntax, Json, IOUtils, FiniteSets

Hist == ndJsonDeserialize(IOEnv.TRACE)
N == Len(Hist)

VARIABLES c,        \* which history
          i,        \* next event
          fmts,     \* observed Format: set of [a, ws, t] (Format(a, w) = t for every w in ws)
          parses,   \* observed Parse: set of [t, ok, a]
          good,     \* pair ids judged equal under Norm
          bad       \* verdicts: set of <<event index, rule>>
vars == <<c, i, fmts, parses, good, bad>>

Evs == Hist[c].evs
Ev == Evs[i]

Init == /\ c \in 1..N
        /\ i = 1 /\ fmts = {} /\ parses = {} /\ good = {} /\ bad = {}

Widths(e) == {e.ws[j] : j \in DOMAIN e.ws}

\* ---- actions, one per kind of event
Pair ==
    /\ Ev.ev = "pair"
    /\ LET eq == NormEq(Ev.a, Ev.b) IN
       /\ good' = IF eq THEN good \cup {Ev.p} ELSE good
       /\ bad' = IF eq THEN bad ELSE bad \cup {<<i, "NormDiffers">>}
    /\ UNCHANGED <<fmts, parses>>

\* Format observations are kept per group of widths: [a, ws, t]
Overlaps(f, e) == \E w \in Widths(e) : w \in f.ws
Fmt ==
    /\ Ev.ev = "fmt"
    /\ LET nondet == \E f \in fmts : f.a = Ev.a /\ f.t # Ev.t /\ Overlaps(f, Ev)
           \* this tree was obtained by re-reading the text f.t = Format(f.a, w); printing it at w must give f.t again
           notidem == \E f \in fmts : /\ f.t # Ev.t /\ Overlaps(f, Ev)
                                      /\ \E p \in parses : p.t = f.t /\ p.ok /\ p.a = Ev.a /\ p.vs = f.a
       IN /\ fmts' = fmts \cup {[a |-> Ev.a, ws |-> Widths(Ev), t |-> Ev.t]}
          /\ bad' = bad \cup (IF nondet THEN {<<i, "FormatDeterministic">>} ELSE {})
                        \cup (IF notidem THEN {<<i, "Idempotent">>} ELSE {})
    /\ UNCHANGED <<parses, good>>

Parse ==
    /\ Ev.ev = "parse"
    /\ LET model == "model" \in DOMAIN Ev
           fromFormat == \E f \in fmts : f.a = Ev.vs /\ f.t = Ev.t
           nondet == \E p \in parses : p.t = Ev.t /\ (p.ok # Ev.ok \/ (p.ok /\ p.a # Ev.a))
           same == Ev.ok /\ ~Ev.struct /\ \A j \in DOMAIN Ev.pairs : Ev.pairs[j] \in good
       IN /\ parses' = parses \cup {[t |-> Ev.t, ok |-> Ev.ok, a |-> (IF Ev.ok THEN Ev.a ELSE 0), vs |-> Ev.vs]}
          /\ bad' = bad \cup (IF nondet THEN {<<i, "ParseDeterministic">>} ELSE {})
                        \cup (IF ~model /\ ~fromFormat THEN {<<i, "Stray">>} ELSE {})     \* the history itself is malformed
                        \cup (IF ~model /\ ~Ev.ok THEN {<<i, "ParseBack:rejected">>} ELSE {})
                        \cup (IF ~model /\ Ev.ok /\ ~same THEN {<<i, "ParseBack:different">>} ELSE {})
                        \cup (IF model /\ ~Ev.ok THEN {<<i, "ModelText:rejected">>} ELSE {})
                        \cup (IF model /\ Ev.ok /\ ~same THEN {<<i, "ModelText:different">>} ELSE {})
    /\ UNCHANGED <<fmts, good>>

Panic ==
    /\ Ev.ev = "panic"
    /\ bad' = bad \cup {<<i, "NoPanic">>}
    /\ UNCHANGED <<fmts, parses, good>>

Unsupported ==       \* the exporter failed closed on a node it does not know: never "equal"
    /\ Ev.ev = "unsupported"
    /\ bad' = bad \cup {<<i, "Unsupported">>}
    /\ UNCHANGED <<fmts, parses, good>>

Next == /\ i <= Len(Evs)
        /\ (Pair \/ Fmt \/ Parse \/ Panic \/ Unsupported)
        /\ i' = i + 1 /\ UNCHANGED c
Spec == Init /\ [][Next]_vars

\* ---- the verdicts, printed once per finished history
Finished == i > Len(Evs)
Report == (Finished /\ bad # {}) => \A b \in bad : PrintT(<<"VERDICT", Hist[c].id, b[1], b[2]>>)

\* ---- sanity of the judge itself (checked on every state)
\* every event is consumed by exactly the action of its kind; the observation sets only grow
TypeOK == /\ i \in 1..(Len(Evs) + 1)
          /\ \A f \in fmts : f.ws \subseteq 1..200
          /\ \A b \in bad : b[1] < i
KnownEvent == ~Finished => Ev.ev \in {"pair", "fmt", "parse", "panic", "unsupported"}
=============================================================================
