---------------------------- MODULE DebugLayout ----------------------------
(***************************************************************************)
(* C18 — what the debug-info document (`--output-debug-info`, schema in    *)
(* the doc comments of src/debug_info/mod.rs) may say about a script that  *)
(* was written to the output file:                                         *)
(*                                                                         *)
(*   Instr.offset  "Byte offset into script for this instruction."         *)
(*   Label.offset  "will always be equal to one of the offsets of one of   *)
(*                  the Instrs, or to Script::end_offset"; Label.time is   *)
(*                  the label's time (doc/syntax.md: the running time at   *)
(*                  the place the label is written)                        *)
(*   end_offset    "Offset (in bytes) from the first instruction to the    *)
(*                  position after the last instruction."                  *)
(*   Local         the register the variable is bound to                   *)
(*   Const         the value of the constant                               *)
(*                                                                         *)
(* The layout machine walks the instructions of ONE script as they are in  *)
(* the binary: `sizes` is the sequence of instruction sizes read from the  *)
(* size fields of the written file.  `off` is the running byte offset,     *)
(* `idx` the number of instructions placed.                                *)
(***************************************************************************)
EXTENDS TimeLabels, Sequences, FiniteSets

VARIABLES sizes,      \* instruction sizes of the current script (facts from the binary)
          src,        \* the script's source statements annotated with their times (TimeLabels.Annotate)
          off, idx,   \* running offset, instructions placed
          phase,      \* "idle" (between scripts) | "code" (placing) | "ended" (End seen: locals may follow)
          cenv        \* values of the constants seen so far (name -> value)
dlvars == <<sizes, src, off, idx, phase, cenv>>

DLInit ==
    /\ sizes = <<>> /\ src = <<>> /\ off = 0 /\ idx = 0 /\ phase = "idle"
    /\ cenv = [x \in {} |-> Undef]

BeginScript(binarySizes, source) ==
    /\ phase \in {"idle", "ended"}
    /\ sizes' = binarySizes /\ src' = Annotate(source)
    /\ off' = 0 /\ idx' = 0 /\ phase' = "code"
    /\ UNCHANGED cenv

\* the next instruction of the debug info starts exactly where the previous one ended in the file
PlaceInstr(o) ==
    /\ phase = "code" /\ idx < Len(sizes)
    /\ o = off
    /\ off' = off + sizes[idx + 1]
    /\ idx' = idx + 1
    /\ UNCHANGED <<sizes, src, phase, cenv>>

\* times of the label statements called `name` in an annotated block tree
RECURSIVE LabelTimesIn(_, _)
LabelTimesIn(ablk, name) ==
    UNION { LET s == ablk[i] IN
            (IF s.k = "label" /\ s.name = name THEN {s.tm} ELSE {})
            \cup (IF s.k \in {"loop", "while", "times", "block"} THEN LabelTimesIn(s.body, name) ELSE {})
            \cup (IF s.k = "chain"
                  THEN UNION {LabelTimesIn(s.blocks[j].body, name) : j \in 1..Len(s.blocks)}
                       \cup (IF HasField(s, "else") THEN LabelTimesIn(s.else, name) ELSE {})
                  ELSE {})
          : i \in 1..Len(ablk) }
LabelTime(name) == LabelTimesIn(src, name)

\* a label sits on an instruction boundary (the current one: labels are replayed in offset order between the
\* instructions), after every instruction of the statements written before it and not after any instruction
\* of a statement written after it; a label the source contains has the time the source gives it.
\*   before / after: offsets of instructions the debug info attributes to plain statements written
\*   before / after the label in the same script.
PlaceLabel(o, t, name, inSource, before, after) ==
    /\ phase = "code"
    /\ o = off
    /\ \A x \in before : x < o
    /\ \A x \in after : x >= o
    /\ inSource => LabelTime(name) = {t}
    /\ UNCHANGED dlvars

\* end_offset is the position after the last instruction: everything placed, nothing left over
End(o) ==
    /\ phase = "code"
    /\ o = off /\ idx = Len(sizes)
    /\ phase' = "ended"
    /\ UNCHANGED <<sizes, src, off, idx, cenv>>

\* a local's register is one the emitted instructions of its witness statement really use
\* (used: the register operands of those instructions as found in the binary; whether a register operand is
\* stored as an integer or as a float is a matter of the instruction's signature, not of the variable's type)
Local(reg, used) ==
    /\ phase = "ended"
    /\ reg \in used
    /\ UNCHANGED dlvars

\* a constant's value is the value of its defining expression (earlier constants may be used in it)
Const(name, v, e) ==
    /\ phase = "idle"
    /\ LET val == Eval(e, cenv, 0)
       IN /\ ~Bad(val)
          /\ ValueOut(val) = v
          /\ cenv' = (name :> val) @@ cenv
    /\ UNCHANGED <<sizes, src, off, idx, phase>>

\* invariants of the machine
TypeOK == off >= 0 /\ idx \in 0..Len(sizes) /\ phase \in {"idle", "code", "ended"}
OffsetIsPrefixSum == LET RECURSIVE Sum(_)
                         Sum(n) == IF n = 0 THEN 0 ELSE Sum(n - 1) + sizes[n]
                     IN off = Sum(idx)
===========================================================================
