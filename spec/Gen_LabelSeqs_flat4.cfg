SPECIFICATION Spec
CONSTANTS
  MaxItems = 4
  MaxBlocks = 0
  MaxDepth = 0
  Small = FALSE
INVARIANT Inv
CHECK_DEADLOCK FALSE
