--------------------------- MODULE Gen_ConstOps ---------------------------
(***************************************************************************)
(* C11, Mode G.  Enumerates every operator on boundary operands together   *)
(* with the value ExprSem assigns, as one state per case (so TLC really    *)
(* explores the domain and checks the in-model facts on each case), and    *)
(* writes the cases as ndjson for replay into the real compile-time        *)
(* evaluators.                                                             *)
(***************************************************************************)
EXTENDS ExprSem, TLC, Json, IOUtils

IB == << 0, 1, -1, 2, -2, 3, 7, -8, 31, 32, 33, -33, 255, 65536, 46341,
         MinI32, MaxI32, MaxI32 - 1, MinI32 + 1, 1431655765, -1431655766 >>
IntBinOps == << "+", "-", "*", "/", "%", "==", "!=", "<", "<=", ">", ">=", "|", "^", "&", "||", "&&", "<<", ">>", ">>>" >>
IntUnOps == << "-", "!", "~", "int", "float" >>

FB == << FZero, FNZero, Fin(1, 1), Fin(-1, 1), Fin(3, 1), Fin(-3, 1), Fin(3, 0), Fin(-2, 0), Fin(5, 2),
         Fin(1, 6), Fin(8388607, 0), Fin(-16777215, 0), Fin(1, 20), FInf, FNInf, FNaN >>
FloatBinOps == << "+", "-", "*", "/", "%", "==", "!=", "<", "<=", ">", ">=" >>
FloatUnOps == << "-", "int", "float" >>

ILit(v) == [k |-> "int", v |-> v]
FLit(f) == [k |-> "float", cls |-> f.c, n |-> f.n, s |-> f.s]

NI == Len(IB)
NF == Len(FB)
NIntBin == Len(IntBinOps) * NI * NI
NIntUn == Len(IntUnOps) * NI
NFloatBin == Len(FloatBinOps) * NF * NF
NFloatUn == Len(FloatUnOps) * NF
\* ternaries: cond in {0, 1, -8} x two branch values
NTern == 3 * 2
N == NIntBin + NIntUn + NFloatBin + NFloatUn + NTern

ExprOf(i) ==
    IF i <= NIntBin THEN
        LET j == i - 1
            o == IntBinOps[(j \div (NI * NI)) + 1]
            a == IB[((j \div NI) % NI) + 1]
            b == IB[(j % NI) + 1]
        IN [k |-> "bin", op |-> o, a |-> ILit(a), b |-> ILit(b)]
    ELSE IF i <= NIntBin + NIntUn THEN
        LET j == i - NIntBin - 1
        IN [k |-> "un", op |-> IntUnOps[(j \div NI) + 1], x |-> ILit(IB[(j % NI) + 1])]
    ELSE IF i <= NIntBin + NIntUn + NFloatBin THEN
        LET j == i - NIntBin - NIntUn - 1
            o == FloatBinOps[(j \div (NF * NF)) + 1]
            a == FB[((j \div NF) % NF) + 1]
            b == FB[(j % NF) + 1]
        IN [k |-> "bin", op |-> o, a |-> FLit(a), b |-> FLit(b)]
    ELSE IF i <= NIntBin + NIntUn + NFloatBin + NFloatUn THEN
        LET j == i - NIntBin - NIntUn - NFloatBin - 1
        IN [k |-> "un", op |-> FloatUnOps[(j \div NF) + 1], x |-> FLit(FB[(j % NF) + 1])]
    ELSE
        LET j == i - NIntBin - NIntUn - NFloatBin - NFloatUn - 1
            c == << 0, 1, -8 >>[(j \div 2) + 1]
        IN IF j % 2 = 0
           THEN [k |-> "tern", c |-> ILit(c), a |-> ILit(10), b |-> ILit(20)]
           ELSE [k |-> "tern", c |-> ILit(c), a |-> FLit(Fin(1, 1)), b |-> FLit(FNZero)]

\* static type of the case (which `const T X = e` / which instruction signature the harness uses)
CmpOps == {"==", "!=", "<", "<=", ">", ">="}
TyOf(i) ==
    IF i <= NIntBin THEN "i"
    ELSE IF i <= NIntBin + NIntUn THEN (IF ExprOf(i).op = "float" THEN "f" ELSE "i")
    ELSE IF i <= NIntBin + NIntUn + NFloatBin THEN (IF ExprOf(i).op \in CmpOps THEN "i" ELSE "f")
    ELSE IF i <= NIntBin + NIntUn + NFloatBin + NFloatUn THEN (IF ExprOf(i).op = "int" THEN "i" ELSE "f")
    ELSE (IF ExprOf(i).a.k = "int" THEN "i" ELSE "f")

CaseOf(i) == [id |-> i, ty |-> TyOf(i), e |-> ExprOf(i), exp |-> ValueOut(ConstEval(ExprOf(i)))]

VARIABLE idx
Init == idx \in 1..N
Next == UNCHANGED idx
Spec == Init /\ [][Next]_idx

\* in-model facts, evaluated on every case
IntClosed ==
    LET c == CaseOf(idx) IN
    (idx <= NIntBin + NIntUn /\ c.exp.t = "i") => IsI32(c.exp.v)
IntOpsDecided ==   \* every integer operator is decided (never Opaque), undefined exactly for x/0 and x%0
    LET c == CaseOf(idx) IN
    idx <= NIntBin =>
        /\ c.exp.t # "opaque"
        /\ (c.exp.t = "undef") <=> (c.e.op \in {"/", "%"} /\ c.e.b.v = 0)
ComparisonsBoolean ==
    LET c == CaseOf(idx) IN
    (c.e.k = "bin" /\ c.e.op \in {"==", "!=", "<", "<=", ">", ">=", "||", "&&"} /\ c.exp.t = "i") => c.exp.v \in {0, 1}
Inv == IntClosed /\ IntOpsDecided /\ ComparisonsBoolean

ASSUME ndJsonSerialize(IOEnv.OUT, [i \in 1..N |-> CaseOf(i)])
ASSUME PrintT(<<"GEN", "Gen_ConstOps", N>>)
===========================================================================
