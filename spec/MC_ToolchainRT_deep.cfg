SPECIFICATION Spec
CONSTANTS
  MaxLen = 4
  Fmts = {"truanm"}
INVARIANTS TypeOK RoundTripHolds DeterministicHolds MemoIsHistory StoreIsHistory PendingIsLast RejectsAreReal
CHECK_DEADLOCK FALSE
POSTCONDITION Post
