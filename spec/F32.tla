------------------------------- MODULE F32 -------------------------------
(***************************************************************************)
(* IEEE-754 single floats, on the subset where the result of an operation  *)
(* is exact and can therefore be *computed* rather than rounded:           *)
(*                                                                         *)
(*   fin(n, s)  = n / 2^s,  n # 0 normalised (n odd or s = 0)              *)
(*   zero, nzero, inf, ninf, nan   (IEEE specials, tables below)           *)
(*   opaque     = "a float this specification does not decide"            *)
(*                                                                         *)
(* An operation is decided only if its operands are inside the envelope    *)
(* (|n| < 2^23, s <= 6; for * and /: |n| < 2^15) so that no intermediate   *)
(* leaves TLC's 32-bit integers, and only if the exact result has          *)
(* |n| < 2^24 and s <= 24 (then it is an f32 and IEEE = exact arithmetic). *)
(* Everything else is `Opaque`; runs that produce it are discarded and     *)
(* counted, never judged.  Rounding is NOT modelled.                       *)
(***************************************************************************)
EXTENDS Integers

Fin(n, s)  == [t |-> "f", c |-> "fin", n |-> n, s |-> s]
FZero      == [t |-> "f", c |-> "zero", n |-> 0, s |-> 0]
FNZero     == [t |-> "f", c |-> "nzero", n |-> 0, s |-> 0]
FInf       == [t |-> "f", c |-> "inf", n |-> 0, s |-> 0]
FNInf      == [t |-> "f", c |-> "ninf", n |-> 0, s |-> 0]
FNaN       == [t |-> "f", c |-> "nan", n |-> 0, s |-> 0]
FOpaque    == [t |-> "f", c |-> "opaque", n |-> 0, s |-> 0]

IsFin(x) == x.c = "fin"
IsZeroF(x) == x.c \in {"zero", "nzero"}
IsInfF(x) == x.c \in {"inf", "ninf"}
IsNaN(x) == x.c = "nan"
IsOpaqueF(x) == x.c = "opaque"
\* sign bit: TRUE = negative
NegSign(x) == x.c \in {"nzero", "ninf"} \/ (x.c = "fin" /\ x.n < 0)

SignedZero(neg) == IF neg THEN FNZero ELSE FZero
SignedInf(neg) == IF neg THEN FNInf ELSE FInf

RECURSIVE Norm(_, _)
Norm(n, s) == IF s > 0 /\ n % 2 = 0 THEN Norm(n \div 2, s - 1) ELSE <<n, s>>

AbsI(n) == IF n < 0 THEN -n ELSE n
P2(k) == 2^k

\* build a result from an exact n / 2^s  (n # 0)
Mk(n, s) ==
    LET p == Norm(n, s)
    IN IF AbsI(p[1]) < 16777216 /\ p[2] <= 24 THEN Fin(p[1], p[2]) ELSE FOpaque

InAdd(x) == AbsI(x.n) < 8388608 /\ x.s <= 6
InMul(x) == AbsI(x.n) < 32768 /\ x.s <= 6

FNeg(x) ==
    CASE x.c = "fin" -> Fin(-x.n, x.s)
      [] x.c = "zero" -> FNZero
      [] x.c = "nzero" -> FZero
      [] x.c = "inf" -> FNInf
      [] x.c = "ninf" -> FInf
      [] OTHER -> x         \* nan (sign of NaN not modelled), opaque

FAdd(a, b) ==
    IF IsOpaqueF(a) \/ IsOpaqueF(b) THEN FOpaque
    ELSE IF IsNaN(a) \/ IsNaN(b) THEN FNaN
    ELSE IF IsInfF(a) /\ IsInfF(b) THEN (IF a.c = b.c THEN a ELSE FNaN)
    ELSE IF IsInfF(a) THEN a
    ELSE IF IsInfF(b) THEN b
    ELSE IF IsZeroF(a) /\ IsZeroF(b) THEN (IF a.c = "nzero" /\ b.c = "nzero" THEN FNZero ELSE FZero)
    ELSE IF IsZeroF(a) THEN b
    ELSE IF IsZeroF(b) THEN a
    ELSE IF ~(InAdd(a) /\ InAdd(b)) THEN FOpaque
    ELSE LET s == IF a.s > b.s THEN a.s ELSE b.s
             n == a.n * P2(s - a.s) + b.n * P2(s - b.s)
         IN IF n = 0 THEN FZero ELSE Mk(n, s)       \* x + (-x) = +0 in round-to-nearest

FSub(a, b) == FAdd(a, FNeg(b))

FMul(a, b) ==
    IF IsOpaqueF(a) \/ IsOpaqueF(b) THEN FOpaque
    ELSE IF IsNaN(a) \/ IsNaN(b) THEN FNaN
    ELSE IF (IsInfF(a) /\ IsZeroF(b)) \/ (IsZeroF(a) /\ IsInfF(b)) THEN FNaN
    ELSE IF IsInfF(a) \/ IsInfF(b) THEN SignedInf(NegSign(a) # NegSign(b))
    ELSE IF IsZeroF(a) \/ IsZeroF(b) THEN SignedZero(NegSign(a) # NegSign(b))
    ELSE IF ~(InMul(a) /\ InMul(b)) THEN FOpaque
    ELSE Mk(a.n * b.n, a.s + b.s)

IsPow2(m) == m > 0 /\ \E k \in 0..30 : m = P2(k)
Log2(m) == CHOOSE k \in 0..30 : m = P2(k)

FDiv(a, b) ==
    IF IsOpaqueF(a) \/ IsOpaqueF(b) THEN FOpaque
    ELSE IF IsNaN(a) \/ IsNaN(b) THEN FNaN
    ELSE IF (IsInfF(a) /\ IsInfF(b)) \/ (IsZeroF(a) /\ IsZeroF(b)) THEN FNaN
    ELSE IF IsInfF(a) THEN SignedInf(NegSign(a) # NegSign(b))
    ELSE IF IsInfF(b) THEN SignedZero(NegSign(a) # NegSign(b))
    ELSE IF IsZeroF(b) THEN SignedInf(NegSign(a) # NegSign(b))
    ELSE IF IsZeroF(a) THEN SignedZero(NegSign(a) # NegSign(b))
    ELSE IF ~(InMul(a) /\ InMul(b)) THEN FOpaque
    ELSE IF ~IsPow2(AbsI(b.n)) THEN FOpaque      \* quotient generally not dyadic: rounding, not decided
    ELSE \* a / b = (a.n / 2^a.s) * (2^b.s / (+-2^j)) = +- a.n * 2^b.s / 2^(a.s + j)
         LET j == Log2(AbsI(b.n))
             n == (IF b.n < 0 THEN -a.n ELSE a.n) * P2(b.s)
         IN Mk(n, a.s + j)

\* C fmod (Rust `%` on f32): exact; result has the sign of the dividend
FRem(a, b) ==
    IF IsOpaqueF(a) \/ IsOpaqueF(b) THEN FOpaque
    ELSE IF IsNaN(a) \/ IsNaN(b) \/ IsInfF(a) \/ IsZeroF(b) THEN FNaN
    ELSE IF IsInfF(b) \/ IsZeroF(a) THEN a
    ELSE IF ~(InAdd(a) /\ InAdd(b)) THEN FOpaque
    ELSE LET s == IF a.s > b.s THEN a.s ELSE b.s
             A == a.n * P2(s - a.s)
             B == AbsI(b.n * P2(s - b.s))
             r == AbsI(A) % B
         IN IF r = 0 THEN SignedZero(A < 0) ELSE Mk(IF A < 0 THEN -r ELSE r, s)

\* total order helper on non-NaN, non-opaque values: compare as exact rationals
\* returns -1, 0, 1
FCmp(a, b) ==
    LET rank(x) == CASE x.c = "ninf" -> -1 [] x.c = "inf" -> 1 [] OTHER -> 0
    IN IF rank(a) # rank(b) THEN (IF rank(a) < rank(b) THEN -1 ELSE 1)
       ELSE IF rank(a) # 0 THEN 0
       ELSE \* both finite (zeros have n = 0)
            LET s == IF a.s > b.s THEN a.s ELSE b.s
                A == a.n * P2(s - a.s)
                B == b.n * P2(s - b.s)
            IN IF A < B THEN -1 ELSE IF A > B THEN 1 ELSE 0

CmpDecidable(a, b) ==
    /\ ~IsOpaqueF(a) /\ ~IsOpaqueF(b)
    /\ (IsFin(a) => InAdd(a)) /\ (IsFin(b) => InAdd(b))

\* IEEE comparisons: every ordered comparison with a NaN is false, != is true
FEq(a, b) == ~IsNaN(a) /\ ~IsNaN(b) /\ FCmp(a, b) = 0
FNe(a, b) == ~FEq(a, b)
FLt(a, b) == ~IsNaN(a) /\ ~IsNaN(b) /\ FCmp(a, b) < 0
FLe(a, b) == ~IsNaN(a) /\ ~IsNaN(b) /\ FCmp(a, b) <= 0
FGt(a, b) == ~IsNaN(a) /\ ~IsNaN(b) /\ FCmp(a, b) > 0
FGe(a, b) == ~IsNaN(a) /\ ~IsNaN(b) /\ FCmp(a, b) >= 0

\* int -> float: exact when |i| < 2^24
IntToF(i) == IF i = 0 THEN FZero ELSE IF i > -16777216 /\ i < 16777216 THEN Fin(i, 0) ELSE FOpaque
FloatToIntDecidable(x) == IsZeroF(x) \/ (IsFin(x) /\ x.s <= 24)
\* float -> int: truncation toward zero (only for in-range finite values; |n| < 2^24 always is)
FloatToInt(x) ==
    IF IsZeroF(x) THEN 0
    ELSE LET q == AbsI(x.n) \div P2(x.s) IN IF x.n < 0 THEN -q ELSE q
==========================================================================
