---------------------------- MODULE Gen_IllFormed ----------------------------
(***************************************************************************)
(* C04 (a), Mode G half: TLC enumerates small script files that contain    *)
(* exactly ONE defect, placed at EVERY nesting position, for the script    *)
(* syntax of each format.  Each case is a token list (the driver joins the *)
(* tokens with blanks -- it knows nothing about the grammar) plus the tool *)
(* and the `home' game whose built-in signatures the surrounding, valid    *)
(* part of the file uses.                                                  *)
(*                                                                         *)
(* The expectation attached to every case is the L3 contract only (the     *)
(* real compile command ends in Ok or Err(>=1 diagnostic) -- judged by     *)
(* Trace_Outcomes); which diagnostic is C09/C10/C11's business.            *)
(*                                                                         *)
(* Domain:                                                                 *)
(*   statement defects  x  Positions                                       *)
(*   expression defects x  (all Slots at top level                         *)
(*                          + slots "rhs","arg" at every other Position)   *)
(*   item defects       x  ItemPositions                                   *)
(*   x Formats {anm, std, msg, ecl};  mission: expression defects x        *)
(*   mission slots + item defects.                                         *)
(* (quick tier: a fixed-stride sample of this domain, see `Stride'.)        *)
(* The defect "none" is a member of every defect list: those cases are the *)
(* valid base lines.                                                       *)
(*                                                                         *)
(* In-model facts checked by TLC on every case (one state per case):       *)
(* braces / parentheses / brackets are balanced unless the defect is the   *)
(* unbalancing one; the case contains its defect's tokens contiguously;    *)
(* every token is a non-empty string.                                      *)
(***************************************************************************)
EXTENDS Naturals, Sequences, SequencesExt, FiniteSets, TLC, Json, IOUtils

Q(s) == "\"" \o s \o "\""          \* a string literal token

-----------------------------------------------------------------------------
(* per-format vocabulary *)

ScriptFormats == <<"anm", "std", "msg", "ecl">>

Voc(f) ==
    CASE f = "anm" ->
        [tool |-> "truanm", game |-> "th12",
         head |-> <<"entry", "{", "path", ":", Q("a.png"), ",", "has_data", ":", "false", ",",
                    "rt_width", ":", "16", ",", "rt_height", ":", "16", ",", "rt_format", ":", "1", ",",
                    "memory_priority", ":", "0", ",",
                    "sprites", ":", "{", "sp0", ":", "{", "x", ":", "0.0", ",", "y", ":", "0.0", ",",
                    "w", ":", "1.0", ",", "h", ":", "1.0", "}", "}", "}">>,
         open |-> <<"script", "s0", "{">>, close |-> <<"}">>,
         V |-> "$REG[10000]", W |-> "$REG[10001]", F |-> "%REG[10004]",
         call0 |-> "ins_0", call1 |-> "ins_101",
         item2 |-> <<"script", "s0", "{", "}">>]
    [] f = "std" ->
        [tool |-> "trustd", game |-> "th12",
         head |-> <<"meta", "{", "unknown", ":", "0", ",", "anm_path", ":", Q("stage01.anm"), ",",
                    "objects", ":", "{", "}", ",", "instances", ":", "[", "]", "}">>,
         open |-> <<"script", "main", "{">>, close |-> <<"}">>,
         V |-> "$REG[10000]", W |-> "$REG[10001]", F |-> "%REG[10004]",
         call0 |-> "ins_0", call1 |-> "ins_17",
         item2 |-> <<"script", "main", "{", "}">>]
    [] f = "msg" ->
        [tool |-> "trumsg", game |-> "th06",
         head |-> <<"meta", "{", "table", ":", "{", "0", ":", "{", "script", ":", Q("s0"), "}", "}", "}">>,
         open |-> <<"script", "s0", "{">>, close |-> <<"}">>,
         V |-> "$REG[10000]", W |-> "$REG[10001]", F |-> "%REG[10004]",
         call0 |-> "ins_0", call1 |-> "ins_4",
         item2 |-> <<"script", "s0", "{", "}">>]
    [] f = "ecl" ->
        [tool |-> "truecl", game |-> "th06",
         head |-> <<"script", "timeline0", "{", "}">>,
         open |-> <<"void", "sub0", "(", ")", "{">>, close |-> <<"}">>,
         V |-> "$REG[-10001]", W |-> "$REG[-10002]", F |-> "%REG[-10005]",
         call0 |-> "ins_0", call1 |-> "ins_10",
         item2 |-> <<"void", "sub0", "(", ")", "{", "}">>]

Call0(v) == <<v.call0, "(", ")", ";">>
Call1(v, e) == <<v.call1, "(">> \o e \o <<")", ";">>
Cond(v) == <<v.V, "<", "3">>

-----------------------------------------------------------------------------
(* statement defects: [n |-> name, t |-> tokens of one or more statements] *)

StmtDefects(v) == <<
    [n |-> "none",              t |-> Call0(v)],
    [n |-> "redefinition",      t |-> <<"int", "dup0", "=", "1", ";", "int", "dup0", "=", "2", ";", v.V, "=", "dup0", ";">>],
    [n |-> "break-outside-loop", t |-> <<"break", ";">>],
    [n |-> "arity-too-many",    t |-> <<v.call1, "(", "1", ",", "2", ",", "3", ",", "4", ",", "5", ",", "6", ",", "7", ",", "8", ",", "9", ")", ";">>],
    [n |-> "arity-too-few",     t |-> <<v.call1, "(", ")", ";">>],
    [n |-> "duplicate-label",   t |-> <<"dl0", ":", v.call0, "(", ")", ";", "dl0", ":", "goto", "dl0", ";">>],
    [n |-> "missing-label",     t |-> <<"goto", "nolabel0", ";">>],
    [n |-> "missing-label-cond", t |-> <<"if", "(", v.V, "==", "1", ")", "goto", "nolabel0", ";">>],
    [n |-> "nonconst-const",    t |-> <<"const", "int", "nc0", "=", v.V, ";", v.V, "=", "nc0", ";">>],
    [n |-> "time-label-huge",   t |-> <<"99999999999", ":">> \o Call0(v)],
    [n |-> "time-label-overflow", t |-> <<"+", "2147483647", ":", "+", "2147483647", ":">> \o Call0(v)],
    [n |-> "time-label-float",  t |-> <<"+", "1.5", ":">> \o Call0(v)],
    [n |-> "time-label-negative-rel", t |-> <<"+", "-", "5", ":">> \o Call0(v)],
    [n |-> "difficulty-label-unknown", t |-> <<"{", Q("ZZ"), "}", ":">> \o Call0(v)],
    [n |-> "difficulty-label-empty", t |-> <<"{", Q(""), "}", ":">> \o Call0(v)],
    [n |-> "difficulty-label-on-block", t |-> <<"{", Q("*-0"), "}", ":", "{">> \o Call0(v) \o <<"}">>],
    [n |-> "ill-typed-decl-and-assign", t |-> <<"int", "it0", "=", "1.5", ";", v.V, "=", "2.0", "+", "3", ";">>],
    [n |-> "ill-typed-float-to-int-var", t |-> <<"int", "it1", ";", "it1", "=", v.F, ";">>],
    [n |-> "ill-typed-compound",  t |-> <<v.V, "+=", "1.5", ";">>],
    [n |-> "ill-typed-int-to-float-reg", t |-> <<v.F, "=", v.V, ";">>],
    [n |-> "assign-to-const",   t |-> <<"const", "int", "ac0", "=", "1", ";", "ac0", "=", "2", ";">>],
    [n |-> "assign-to-literal", t |-> <<"1", "=", v.V, ";">>],
    [n |-> "return-value-in-void", t |-> <<"return", "5", ";">>],
    [n |-> "interrupt-float",   t |-> <<"interrupt", "[", "1.5", "]", ":">> \o Call0(v)],
    [n |-> "interrupt-negative", t |-> <<"interrupt", "[", "-", "1", "]", ":">> \o Call0(v)],
    [n |-> "unknown-function",  t |-> <<"nosuchfunc0", "(", ")", ";">>],
    [n |-> "unknown-instruction", t |-> <<"ins_9999", "(", "1", ")", ";">>],
    [n |-> "empty-rhs",         t |-> <<v.V, "=", ";">>],
    [n |-> "times-float-count", t |-> <<"times", "(", "2.5", ")", "{">> \o Call0(v) \o <<"}">>],
    [n |-> "times-string-count", t |-> <<"times", "(", Q("x"), ")", "{">> \o Call0(v) \o <<"}">>],
    [n |-> "goto-time-float",   t |-> <<"gt0", ":", "goto", "gt0", "@", "1.5", ";">>],
    [n |-> "goto-time-nonconst", t |-> <<"gt1", ":", "goto", "gt1", "@", v.V, ";">>],
    [n |-> "nested-function",   t |-> <<"void", "nf0", "(", ")", "{", "}">>],
    [n |-> "nested-script",     t |-> <<"script", "ns0", "{", "}">>],
    [n |-> "string-to-int-param", t |-> Call1(v, <<Q("str")>>)],
    [n |-> "float-to-int-param", t |-> Call1(v, <<"1.5">>)],
    [n |-> "pseudo-arg-unknown", t |-> <<v.call1, "(", "@", "nosuch", "=", "1", ")", ";">>],
    [n |-> "pseudo-blob-odd",   t |-> <<v.call1, "(", "@", "blob", "=", Q("00"), ")", ";">>],
    [n |-> "pseudo-blob-not-hex", t |-> <<v.call1, "(", "@", "blob", "=", Q("zz zz"), ")", ";">>],
    [n |-> "pseudo-mask-float", t |-> <<v.call1, "(", "@", "mask", "=", "1.5", ",", "1", ")", ";">>],
    [n |-> "pseudo-blob-and-args", t |-> <<v.call1, "(", "@", "blob", "=", Q("00000000"), ",", "1", ")", ";">>],
    [n |-> "self-initialiser",  t |-> <<"int", "si0", "=", "si0", ";">>],
    [n |-> "uninitialised-use", t |-> <<"int", "un0", ";">> \o Call1(v, <<"un0">>)],
    [n |-> "use-out-of-scope",  t |-> <<"{", "int", "os0", "=", "1", ";", "}", v.V, "=", "os0", ";">>],
    [n |-> "string-variable",   t |-> <<"string", "sv0", "=", Q("a"), ";">>],
    [n |-> "var-untyped",       t |-> <<"var", "vu0", "=", "1", ";">>],
    [n |-> "predecrement-float", t |-> <<"if", "(", "--", v.F, ")", "goto", "pd0", ";", "pd0", ":">>],
    [n |-> "unless-else",       t |-> <<"unless", "(", v.V, "==", "1", ")", "{">> \o Call0(v) \o <<"}", "else", "{", "break", ";", "}">>],
    [n |-> "too-many-locals",   t |-> <<"int", "l0", "=", "1", ",", "l1", "=", "2", ",", "l2", "=", "3", ",", "l3", "=", "4", ",",
                                       "l4", "=", "5", ",", "l5", "=", "6", ",", "l6", "=", "7", ",", "l7", "=", "8", ",",
                                       "l8", "=", "9", ",", "l9", "=", "10", ",", "l10", "=", "11", ",", "l11", "=", "12", ";">>
                                       \o Call1(v, <<"l0", "+", "l1", "+", "l2", "+", "l3", "+", "l4", "+", "l5", "+", "l6", "+", "l7", "+",
                                                     "l8", "+", "l9", "+", "l10", "+", "l11">>)],
    [n |-> "unbalanced-close",  t |-> <<"}">>],
    [n |-> "unbalanced-open",   t |-> <<"{">>]
>>

Unbalancing == {"unbalanced-close", "unbalanced-open"}

-----------------------------------------------------------------------------
(* expression defects: tokens of ONE expression (an int is expected in every slot) *)

ExprDefects(v) == <<
    [n |-> "none",              t |-> <<"7">>],
    [n |-> "ill-typed-operand", t |-> <<"1", "+", "2.0">>],
    [n |-> "unknown-name",      t |-> <<"nosuchname0">>],
    [n |-> "div-by-zero",       t |-> <<"1", "/", "0">>],
    [n |-> "rem-by-zero",       t |-> <<"1", "%", "0">>],
    [n |-> "div-by-zero-folded", t |-> <<"5", "/", "(", "3", "-", "3", ")">>],
    [n |-> "min-div-minus-one", t |-> <<"(", "0", "-", "2147483647", "-", "1", ")", "/", "(", "0", "-", "1", ")">>],
    [n |-> "unknown-function",  t |-> <<"nosuchfunc0", "(", "1", ")">>],
    [n |-> "string-operand",    t |-> <<Q("abc"), "+", "1">>],
    [n |-> "string-alone",      t |-> <<Q("abc")>>],
    [n |-> "float-bitop",       t |-> <<"1.5", "&", "2">>],
    [n |-> "float-in-int-slot", t |-> <<"2.5">>],
    [n |-> "literal-too-large", t |-> <<"99999999999">>],
    [n |-> "hex-too-large",     t |-> <<"0xFFFFFFFFF">>],
    [n |-> "cast-of-string",    t |-> <<"float", "(", Q("x"), ")">>],
    [n |-> "ternary-mismatch",  t |-> <<v.V, "?", "2", ":", "3.0">>],
    [n |-> "ternary-float-cond", t |-> <<"1.5", "?", "2", ":", "3">>],
    [n |-> "diffswitch-mismatch", t |-> <<"1", ":", "2.0", ":", ":", "3">>],
    [n |-> "diffswitch-too-many", t |-> <<"1", ":", "2", ":", "3", ":", "4", ":", "5", ":", "6", ":", "7", ":", "8", ":", "9", ":", "10">>],
    [n |-> "unary-on-float",    t |-> <<"~", "1.0">>],
    [n |-> "not-on-string",     t |-> <<"!", Q("s")>>],
    [n |-> "shift-huge",        t |-> <<"1", "<<", "99999">>],
    [n |-> "offsetof-missing",  t |-> <<"offsetof", "(", "nolabel1", ")">>],
    [n |-> "timeof-missing",    t |-> <<"timeof", "(", "nolabel1", ")">>],
    [n |-> "register-out-of-range", t |-> <<"$REG[99999999]">>],
    [n |-> "register-float-sigil-in-int", t |-> <<"%REG[1]", "+", "1">>],
    [n |-> "sin-of-int",        t |-> <<"sin", "(", "1", ")">>],
    [n |-> "sin-no-args",       t |-> <<"sin", "(", ")">>],
    [n |-> "int-cast-of-int",   t |-> <<"int", "(", "1", ")">>],
    [n |-> "sigil-on-literal",  t |-> <<"$", "1.5">>],
    [n |-> "float-sigil-on-int-var", t |-> <<"%", v.V, "+", "1.0">>],
    [n |-> "nested-ill-typed",  t |-> <<"(", "1", "+", "(", "2", "*", "(", "3", "-", "(", "4.0", ")", ")", ")", ")">>],
    [n |-> "call-as-value",     t |-> <<v.call0, "(", ")">>],
    [n |-> "instr-call-with-bad-arg", t |-> <<v.call1, "(", "1.5", ")">>],
    [n |-> "enum-const-unknown", t |-> <<"NoEnum0", ".", "Foo">>],
    [n |-> "empty-parens",      t |-> <<"(", ")">>],
    [n |-> "dangling-operator", t |-> <<"1", "+">>]
>>

-----------------------------------------------------------------------------
(* nesting positions of a statement (list) D inside a function body *)

Positions == <<"top", "block", "block2", "block-siblings", "loop", "while", "dowhile", "times",
               "if", "else", "elseif", "if-in-loop", "after-label", "under-difficulty">>

Place(p, D, v) ==
    CASE p = "top"     -> D
      [] p = "block"   -> <<"{">> \o D \o <<"}">>
      [] p = "block2"  -> <<"{", "{">> \o D \o <<"}", "}">>
      [] p = "block-siblings" -> <<"{">> \o Call0(v) \o <<"{">> \o D \o <<"}">> \o Call0(v) \o <<"}">>
      [] p = "loop"    -> <<"loop", "{">> \o D \o <<"}">>
      [] p = "while"   -> <<"while", "(">> \o Cond(v) \o <<")", "{">> \o D \o <<"}">>
      [] p = "dowhile" -> <<"do", "{">> \o D \o <<"}", "while", "(">> \o Cond(v) \o <<")", ";">>
      [] p = "times"   -> <<"times", "(", "3", ")", "{">> \o D \o <<"}">>
      [] p = "if"      -> <<"if", "(">> \o Cond(v) \o <<")", "{">> \o D \o <<"}">>
      [] p = "else"    -> <<"if", "(">> \o Cond(v) \o <<")", "{">> \o Call0(v) \o <<"}", "else", "{">> \o D \o <<"}">>
      [] p = "elseif"  -> <<"if", "(">> \o Cond(v) \o <<")", "{">> \o Call0(v) \o <<"}", "else", "if", "(">> \o Cond(v)
                          \o <<")", "{">> \o D \o <<"}", "else", "{">> \o Call0(v) \o <<"}">>
      [] p = "if-in-loop" -> <<"loop", "{", "if", "(">> \o Cond(v) \o <<")", "{">> \o D \o <<"}", "}">>
      [] p = "after-label" -> <<"+", "10", ":", "pl0", ":">> \o D \o <<"goto", "pl0", ";">>
      [] p = "under-difficulty" -> <<"{", Q("*"), "}", ":", "{">> \o D \o <<"}">>

(* expression slots: a statement (list) with a hole for the expression E *)

Slots == <<"rhs", "arg", "cond", "while-cond", "init", "times-count", "const-init", "goto-time",
           "ternary-cond", "compound", "nested", "unary", "arg-nested", "diffswitch-case", "predecrement-rhs">>
\* quick tier: only the assignment slot is repeated at every nesting position
Quick == IOEnv.TIER = "quick"
SlotsEverywhere == IF Quick THEN <<"rhs">> ELSE <<"rhs", "arg">>

Slot(s, E, v) ==
    CASE s = "rhs"      -> <<v.V, "=">> \o E \o <<";">>
      [] s = "arg"      -> Call1(v, E)
      [] s = "cond"     -> <<"if", "(">> \o E \o <<")", "{">> \o Call0(v) \o <<"}">>
      [] s = "while-cond" -> <<"while", "(">> \o E \o <<")", "{">> \o Call0(v) \o <<"}">>
      [] s = "init"     -> <<"int", "in0", "=">> \o E \o <<";">> \o Call1(v, <<"in0">>)
      [] s = "times-count" -> <<"times", "(">> \o E \o <<")", "{">> \o Call0(v) \o <<"}">>
      [] s = "const-init" -> <<"const", "int", "ci0", "=">> \o E \o <<";">> \o Call1(v, <<"ci0">>)
      [] s = "goto-time" -> <<"sg0", ":", "goto", "sg0", "@">> \o E \o <<";">>
      [] s = "ternary-cond" -> <<v.V, "=", "(">> \o E \o <<")", "?", "1", ":", "2", ";">>
      [] s = "compound" -> <<v.V, "+=">> \o E \o <<";">>
      [] s = "nested"   -> <<v.V, "=", "(", "1", "+", "(">> \o E \o <<")", ")", "*", "2", ";">>
      [] s = "unary"    -> <<v.V, "=", "-", "(">> \o E \o <<")", ";">>
      [] s = "arg-nested" -> Call1(v, <<"1", "+", "(">> \o E \o <<")">>)
      [] s = "diffswitch-case" -> <<v.V, "=", "1", ":", "(">> \o E \o <<")", ";">>
      [] s = "predecrement-rhs" -> <<v.W, "=">> \o E \o <<";", "ps0", ":", "if", "(", "--", v.W, ")", "goto", "ps0", ";">>

-----------------------------------------------------------------------------
(* item-level defects and where they are put in the file *)

ItemDefects(v) == <<
    [n |-> "none",              t |-> <<"const", "int", "IA", "=", "1", ";">>],
    [n |-> "const-cycle",       t |-> <<"const", "int", "IA", "=", "IB", ";", "const", "int", "IB", "=", "IA", ";">>],
    [n |-> "const-self-cycle",  t |-> <<"const", "int", "IA", "=", "IA", "+", "1", ";">>],
    [n |-> "const-duplicate",   t |-> <<"const", "int", "IA", "=", "1", ";", "const", "int", "IA", "=", "2", ";">>],
    [n |-> "const-ill-typed",   t |-> <<"const", "int", "IA", "=", "1.5", ";">>],
    [n |-> "const-string-to-float", t |-> <<"const", "float", "IA", "=", Q("s"), ";">>],
    [n |-> "const-div-zero",    t |-> <<"const", "int", "IA", "=", "1", "/", "0", ";">>],
    [n |-> "const-unknown-name", t |-> <<"const", "int", "IA", "=", "nosuchname1", ";">>],
    [n |-> "const-string-arith", t |-> <<"const", "string", "IS", "=", Q("a"), ";", "const", "int", "IA", "=", "IS", "+", "1", ";">>],
    [n |-> "const-register",    t |-> <<"const", "int", "IA", "=", v.V, ";">>],
    [n |-> "duplicate-item",    t |-> v.item2 \o v.item2],
    [n |-> "meta-unknown-key",  t |-> <<"meta", "{", "bogus", ":", "1", "}">>],
    [n |-> "meta-duplicate-key", t |-> <<"meta", "{", "bogus", ":", "1", ",", "bogus", ":", "2", "}">>],
    [n |-> "meta-bad-value",    t |-> <<"meta", "{", "table", ":", "1.5", ",", "unknown", ":", Q("s"), "}">>],
    [n |-> "entry-empty",       t |-> <<"entry", "{", "}">>],
    [n |-> "entry-ill-typed-field", t |-> <<"entry", "{", "path", ":", "1", ",", "has_data", ":", Q("x"), ",", "sprites", ":", "3", "}">>],
    [n |-> "entry-dummy-without-source", t |-> <<"entry", "{", "path", ":", Q("b.png"), ",", "has_data", ":", Q("dummy"), "}">>],
    [n |-> "entry-sprite-duplicate-id", t |-> <<"entry", "{", "path", ":", Q("c.png"), ",", "has_data", ":", "false", ",",
                                          "rt_width", ":", "16", ",", "rt_height", ":", "16", ",", "rt_format", ":", "1", ",",
                                          "memory_priority", ":", "0", ",", "sprites", ":", "{",
                                          "da", ":", "{", "id", ":", "5", ",", "x", ":", "0.0", ",", "y", ":", "0.0", ",", "w", ":", "1.0", ",", "h", ":", "1.0", "}", ",",
                                          "db", ":", "{", "id", ":", "5", ",", "x", ":", "0.0", ",", "y", ":", "0.0", ",", "w", ":", "1.0", ",", "h", ":", "1.0", "}",
                                          "}", "}">>],
    [n |-> "script-number-huge", t |-> <<"script", "99999999999", "sh0", "{", "}">>],
    [n |-> "script-number-negative", t |-> <<"script", "-", "5", "sn0", "{", "}">>],
    [n |-> "function-with-params", t |-> <<"void", "fp0", "(", "int", "a", ",", "float", "b", ")", "{", v.V, "=", "a", ";", "}">>],
    [n |-> "function-called-with-expr-args", t |-> <<"void", "fq1", "(", "int", "a", ",", "float", "b", ")", "{", "}",
                                              "void", "fq2", "(", "int", "a", ")", "{", "fq1", "(", "(", "(", "a", "-", "100", ")", "%", "(", v.V, "/", v.W, ")", ")", ",", v.F, ")", ";", "}">>],
    [n |-> "function-called-wrong-arity", t |-> <<"void", "fq3", "(", "int", "a", ")", "{", "}", "void", "fq4", "(", ")", "{", "fq3", "(", ")", ";", "fq3", "(", "1", ",", "2", ")", ";", "}">>],
    [n |-> "function-recursive", t |-> <<"void", "fq5", "(", "int", "a", ")", "{", "fq5", "(", "a", "+", "1", ")", ";", "}">>],
    [n |-> "function-duplicate-param", t |-> <<"void", "fd0", "(", "int", "a", ",", "int", "a", ")", "{", "}">>],
    [n |-> "function-returning-int", t |-> <<"int", "fr0", "(", ")", "{", "return", "1", ";", "}">>],
    [n |-> "inline-function",   t |-> <<"inline", "void", "fi0", "(", ")", "{", "}">>],
    [n |-> "const-function",    t |-> <<"const", "int", "fc0", "(", ")", "{", "return", "1", ";", "}">>],
    [n |-> "stray-statement",   t |-> Call0(v)],
    [n |-> "stray-close",       t |-> <<"}">>],
    [n |-> "stray-open",        t |-> <<"{">>]
>>
ItemUnbalancing == {"stray-close", "stray-open"}

ItemPositions == <<"first", "between", "last">>

-----------------------------------------------------------------------------
(* assembling whole files *)

File(v, body) == v.head \o v.open \o body \o v.close
FileWithItem(v, ip, I) ==
    CASE ip = "first"   -> I \o v.head \o v.open \o Call0(v) \o v.close
      [] ip = "between" -> v.head \o I \o v.open \o Call0(v) \o v.close
      [] ip = "last"    -> v.head \o v.open \o Call0(v) \o v.close \o I

Case(f, v, kind, d, pos, slot, toks) ==
    [fmt |-> f, tool |-> v.tool, game |-> v.game, kind |-> kind, defect |-> d.n, pos |-> pos, slot |-> slot,
     dtoks |-> d.t, toks |-> toks, map |-> <<>>]

StmtCases(f) ==
    LET v == Voc(f) ds == StmtDefects(v) IN
    FlattenSeq([i \in 1..Len(ds) |->
        [j \in 1..Len(Positions) |->
            Case(f, v, "stmt", ds[i], Positions[j], "-", File(v, Place(Positions[j], ds[i].t, v)))]])

ExprCases(f) ==
    LET v == Voc(f) ds == ExprDefects(v) IN
    FlattenSeq([i \in 1..Len(ds) |->
        [j \in 1..Len(Slots) |->
            Case(f, v, "expr", ds[i], "top", Slots[j], File(v, Slot(Slots[j], ds[i].t, v)))]
        \o FlattenSeq([j \in 1..(Len(Positions) - 1) |->
            [k \in 1..Len(SlotsEverywhere) |->
                Case(f, v, "expr", ds[i], Positions[j + 1], SlotsEverywhere[k],
                     File(v, Place(Positions[j + 1], Slot(SlotsEverywhere[k], ds[i].t, v), v)))]])])

ItemCases(f) ==
    LET v == Voc(f) ds == ItemDefects(v) IN
    FlattenSeq([i \in 1..Len(ds) |->
        [j \in 1..Len(ItemPositions) |->
            Case(f, v, "item", ds[i], ItemPositions[j], "-", FileWithItem(v, ItemPositions[j], ds[i].t))]])

(* parameter lists: a sub with every list of int / float parameters up to length 6, in every old-ECL game (each
   has its own calling convention and its own limit per type) and in modern ECL; the sub is also called *)
RECURSIVE TySeqs(_)
TySeqs(n) == IF n = 0 THEN {<<>>} ELSE {Append(ts, t) : ts \in TySeqs(n - 1), t \in {"int", "float"}}
ParamLists == SetToSeq(UNION {TySeqs(n) : n \in 0..6})
RECURSIVE ParamToks(_, _), ArgToks(_, _), SigName(_, _)
ParamToks(ts, i) == IF i > Len(ts) THEN <<>>
                    ELSE (IF i > 1 THEN <<",">> ELSE <<>>) \o <<ts[i], "pa" \o ToString(i)>> \o ParamToks(ts, i + 1)
ArgToks(ts, i) == IF i > Len(ts) THEN <<>>
                  ELSE (IF i > 1 THEN <<",">> ELSE <<>>) \o <<IF ts[i] = "int" THEN "1" ELSE "1.5">> \o ArgToks(ts, i + 1)
SigName(ts, i) == IF i > Len(ts) THEN "" ELSE (IF ts[i] = "int" THEN "i" ELSE "f") \o SigName(ts, i + 1)
ParamDefect(ts) ==
    [n |-> "params:" \o SigName(ts, 1),
     t |-> <<"void", "fpl", "(">> \o ParamToks(ts, 1) \o <<")", "{", "}",
             "void", "fpc", "(", ")", "{", "fpl", "(">> \o ArgToks(ts, 1) \o <<")", ";", "}">>]
EclGames == <<"th06", "th07", "th08", "th09", "th095">>
ModernEclVoc == [tool |-> "truecl", game |-> "th10", head |-> <<>>, open |-> <<"void", "main", "(", ")", "{">>, close |-> <<"}">>,
                 V |-> "$REG[-9985]", W |-> "$REG[-9984]", F |-> "%REG[-9981]", call0 |-> "ins_10", call1 |-> "ins_23",
                 item2 |-> <<"void", "main", "(", ")", "{", "}">>]
ParamListCases ==
    FlattenSeq([g \in 1..(Len(EclGames) + 1) |->
        LET v == IF g <= Len(EclGames) THEN [Voc("ecl") EXCEPT !.game = EclGames[g]] ELSE ModernEclVoc IN
        [i \in 1..Len(ParamLists) |->
            Case("ecl", v, "item", ParamDefect(ParamLists[i]), "last", "-", FileWithItem(v, "last", ParamDefect(ParamLists[i]).t))]])

(* literal spellings: every form the lexer has a token for (decimal / hex / binary ints, floats with and without
   fraction and `f` suffix, the radian form `rad(..)` with every combination of sign, fraction and suffix, INF/NAN/PI,
   strings with escapes), well- and ill-typed for its slot -- in an assignment, a call argument, a float variable and a
   const initialiser *)
LiteralSpellings == <<
    "0", "7", "2147483647", "4294967295", "0x10", "0XfF", "0xFFFFFFFF", "0b101", "0B11", "00012",
    "1.5", "1.", ".5", "1.5f", "1.f", "2f", "1e5", "1.5e-3", "0.0", "-0.0",
    "rad(90)", "rad(90f)", "rad(1.5)", "rad(1.5f)", "rad(1.f)", "rad(1.)", "rad(-45)", "rad(-45f)", "rad(+3)", "rad(+3.25f)", "rad(0f)",
    "INF", "NAN", "PI", "true", "false",
    "\"\"", "\"a\\n\\t\\0\\\\\\\"b\"", "\"\\x41\"", "\"\\u3042\"", "\"unterminated"
>>
LiteralSlots == <<"rhs", "arg", "const-init">>
LiteralCases(f) ==
    LET v == Voc(f) IN
    FlattenSeq([i \in 1..Len(LiteralSpellings) |->
        [j \in 1..(Len(LiteralSlots) + 1) |->
            LET d == [n |-> "literal:" \o LiteralSpellings[i], t |-> <<LiteralSpellings[i]>>] IN
            IF j <= Len(LiteralSlots)
            THEN Case(f, v, "expr", d, "top", LiteralSlots[j], File(v, Slot(LiteralSlots[j], d.t, v)))
            ELSE Case(f, v, "expr", d, "top", "float-rhs", File(v, <<v.F, "=">> \o d.t \o <<";">>))]])

(* mission.msg: only `entry' metas and consts; the expression defects go into meta fields *)
MissionVoc == [tool |-> "trumsg-mission", game |-> "th095", V |-> "$REG[0]", W |-> "$REG[1]", F |-> "%REG[2]",
               call0 |-> "ins_0", call1 |-> "ins_1", item2 |-> <<"script", "s0", "{", "}">>,
               head |-> <<>>, open |-> <<>>, close |-> <<>>]
MissionEntry(stage, text0) ==
    <<"entry", "{", "stage", ":">> \o stage \o <<",", "scene", ":", "1", ",", "face", ":", "0", ",", "point", ":", "0", ",",
      "text", ":", "[">> \o text0 \o <<",", Q("b"), ",", Q("c"), "]", "}">>
MissionSlots == <<"field", "field-nested", "const-init", "list-element", "second-entry">>
MissionSlot(s, E) ==
    CASE s = "field"        -> MissionEntry(E, <<Q("a")>>)
      [] s = "field-nested" -> MissionEntry(<<"(", "1", "+", "(">> \o E \o <<")", ")">>, <<Q("a")>>)
      [] s = "const-init"   -> <<"const", "int", "MK", "=">> \o E \o <<";">> \o MissionEntry(<<"MK">>, <<Q("a")>>)
      [] s = "list-element" -> MissionEntry(<<"1">>, E)
      [] s = "second-entry" -> MissionEntry(<<"1">>, <<Q("a")>>) \o MissionEntry(E, <<Q("z")>>)
MissionCases ==
    LET v == MissionVoc ds == ExprDefects(v) is == ItemDefects(v) IN
    FlattenSeq([i \in 1..Len(ds) |->
        [j \in 1..Len(MissionSlots) |->
            Case("mission", v, "expr", ds[i], "meta", MissionSlots[j], MissionSlot(MissionSlots[j], ds[i].t))]])
    \o [i \in 1..Len(is) |->
            Case("mission", v, "item", is[i], "first", "-", is[i].t \o MissionEntry(<<"1">>, <<Q("a")>>))]

EveryKth(seq, k) == [i \in 1..((Len(seq) + k - 1) \div k) |-> seq[(i - 1) * k + 1]]

-----------------------------------------------------------------------------
(* templates with a hole, for the driver's grammar-level inputs (deep nesting, extreme literals):
   the driver substitutes generated text for the single token @BODY@ / @EXPR@ *)
TemplateCases ==
    FlattenSeq([i \in 1..Len(ScriptFormats) |->
        LET f == ScriptFormats[i] v == Voc(f) IN
        << Case(f, v, "template", [n |-> "body-hole", t |-> <<"@BODY@">>], "top", "-", File(v, <<"@BODY@">>)),
           Case(f, v, "template", [n |-> "expr-hole", t |-> <<"@EXPR@">>], "top", "rhs", File(v, Slot("rhs", <<"@EXPR@">>, v))),
           Case(f, v, "template", [n |-> "item-hole", t |-> <<"@BODY@">>], "first", "-", FileWithItem(v, "first", <<"@BODY@">>)) >>])
    \o << Case("mission", MissionVoc, "template", [n |-> "expr-hole", t |-> <<"@EXPR@">>], "meta", "field",
               MissionSlot("field", <<"@EXPR@">>)),
          Case("mission", MissionVoc, "template", [n |-> "item-hole", t |-> <<"@BODY@">>], "first", "-",
               <<"@BODY@">> \o MissionEntry(<<"1">>, <<Q("a")>>)) >>

-----------------------------------------------------------------------------
(* C04 (d): mapfile texts from a small grammar.  A case = the lines of a user mapfile (passed
   with -m; the driver joins them with newlines) + a script that uses what the mapfile declares.
   Opcode 99 is (re)declared by the mapfile. *)

Magic(f) == CASE f = "anm" -> "!anmmap" [] f = "std" -> "!stdmap" [] f = "msg" -> "!msgmap" [] f = "ecl" -> "!eclmap"

IntChars == <<"S", "s", "c", "U", "u", "b", "n", "N", "E", "C">>
IntAttrs == <<"", "(imm)", "(hex)", "(enum=\"Foo\")", "(arg0)", "(bs=4)", "(imm;hex)", "(imm;imm)", "(enum=)", "(imm=1)">>
StrChars == <<"z", "m", "p", "P">>
StrAttrs == <<"", "(bs=4)", "(bs=0)", "(bs=1)", "(len=8)", "(len=0)", "(len=1)", "(len=8;nulless)", "(len=2;nulless)",
              "(bs=4;len=8)", "(mask=0x77,7,16)", "(bs=4;mask=0x77,7,16)", "(bs=4;mask=1,2)", "(bs=4;mask=256,0,0)",
              "(bs=4;furibug)", "(bs=4;bs=8)", "(bs=-1)", "(bs=99999999999)", "(bs=4294967295)", "(len=4294967295)",
              "(bs=4;unknown=1)", "(bs=\"x\")", "(bs=)", "(bs=4;)", "(;)">>
StrArgs == << <<Q("abc")>>, <<Q("")>>, <<Q("0123456789abcdef0123456789abcdef")>> >>
OtherSigs == <<  \* [sig, args]
    [s |-> "o", a |-> <<"offsetof", "(", "lab0", ")">>], [s |-> "t", a |-> <<"timeof", "(", "lab0", ")">>],
    [s |-> "ot", a |-> <<"offsetof", "(", "lab0", ")", ",", "timeof", "(", "lab0", ")">>],
    [s |-> "to", a |-> <<"timeof", "(", "lab0", ")", ",", "offsetof", "(", "lab0", ")">>],
    [s |-> "oo", a |-> <<"offsetof", "(", "lab0", ")", ",", "offsetof", "(", "lab0", ")">>],
    [s |-> "ot", a |-> <<"lab0", ",", "5">>], [s |-> "o", a |-> <<"nolabel2">>], [s |-> "o", a |-> <<"7">>],
    [s |-> "_", a |-> <<>>], [s |-> "-", a |-> <<>>], [s |-> "S_", a |-> <<"1">>], [s |-> "__S", a |-> <<"1">>],
    [s |-> "S-", a |-> <<"1">>], [s |-> "-S", a |-> <<"1">>], [s |-> "_", a |-> <<"1">>],
    [s |-> "q", a |-> <<"1">>], [s |-> "S(", a |-> <<"1">>], [s |-> "S)", a |-> <<"1">>], [s |-> "(imm)", a |-> <<"1">>],
    [s |-> "", a |-> <<>>], [s |-> "", a |-> <<"1">>], [s |-> "SS", a |-> <<"1">>], [s |-> "S", a |-> <<"1", ",", "2">>],
    [s |-> "f", a |-> <<"1.0">>], [s |-> "f(imm)", a |-> <<"1.0">>], [s |-> "f(hex)", a |-> <<"1.0">>], [s |-> "f", a |-> <<"1">>],
    [s |-> "S(imm)", a |-> <<"$REG[10000]">>], [s |-> "f(imm)", a |-> <<"%REG[10004]">>],
    [s |-> "s", a |-> <<"40000">>], [s |-> "b", a |-> <<"256">>], [s |-> "c", a |-> <<"-", "129">>], [s |-> "u", a |-> <<"-", "1">>],
    [s |-> "zS", a |-> <<Q("abc"), ",", "1">>], [s |-> "z(bs=4)z(bs=4)", a |-> <<Q("a"), ",", Q("b")>>],
    [s |-> "SSSSSSSSSSSSSSSSSS", a |-> <<"1", ",", "2", ",", "3", ",", "4", ",", "5", ",", "6", ",", "7", ",", "8", ",", "9", ",",
                                          "10", ",", "11", ",", "12", ",", "13", ",", "14", ",", "15", ",", "16", ",", "17", ",", "18">>],
    [s |-> "S S", a |-> <<"1", ",", "2">>], [s |-> "S,S", a |-> <<"1", ",", "2">>]
>>

SigBody(v, args) == <<"lab0", ":", "ins_99", "(">> \o args \o <<")", ";">>
MapCase(f, v, name, lines, body) ==
    [fmt |-> f, tool |-> v.tool, game |-> v.game, kind |-> "map", defect |-> name, pos |-> "mapfile", slot |-> "-",
     dtoks |-> body, toks |-> File(v, body), map |-> lines]
SigLines(f, sig) == <<Magic(f), "!ins_signatures", "99 " \o sig>>

SigCases(f) ==
    LET v == Voc(f) IN
    FlattenSeq([i \in 1..Len(IntChars) |-> [j \in 1..Len(IntAttrs) |->
        MapCase(f, v, "sig:" \o IntChars[i] \o IntAttrs[j], SigLines(f, IntChars[i] \o IntAttrs[j]), SigBody(v, <<"1">>))]])
    \o FlattenSeq([i \in 1..Len(StrChars) |-> FlattenSeq([j \in 1..Len(StrAttrs) |-> [k \in 1..Len(StrArgs) |->
        MapCase(f, v, "sig:" \o StrChars[i] \o StrAttrs[j], SigLines(f, StrChars[i] \o StrAttrs[j]), SigBody(v, StrArgs[k]))]])])
    \o [i \in 1..Len(OtherSigs) |->
        MapCase(f, v, "sig:" \o OtherSigs[i].s, SigLines(f, OtherSigs[i].s), SigBody(v, OtherSigs[i].a))]

\* intrinsic strings x signatures; the body uses every construct an intrinsic can serve
Intrinsics == <<
    [i |-> "Jmp()", s |-> "ot"], [i |-> "Jmp()", s |-> "to"], [i |-> "Jmp()", s |-> "o"], [i |-> "Jmp()", s |-> "S"], [i |-> "Jmp()", s |-> ""],
    [i |-> "Jmp()", s |-> "otS"],
    [i |-> "CountJmp()", s |-> "Sot"], [i |-> "CountJmp(op=\">\")", s |-> "Sot"], [i |-> "CountJmp(op=\"!=\")", s |-> "Sot"],
    [i |-> "CountJmp(op=\"==\")", s |-> "Sot"], [i |-> "CountJmp()", s |-> "ot"], [i |-> "CountJmp()", s |-> "fot"], [i |-> "CountJmp()", s |-> "otS"],
    [i |-> "CondJmp(op=\"==\";type=\"int\")", s |-> "SSot"], [i |-> "CondJmp(op=\"==\";type=\"float\")", s |-> "ffot"],
    [i |-> "CondJmp(op=\"==\";type=\"int\")", s |-> "ffot"], [i |-> "CondJmp(op=\"??\";type=\"int\")", s |-> "SSot"],
    [i |-> "CondJmp(op=\"==\")", s |-> "SSot"], [i |-> "CondJmp()", s |-> "SSot"], [i |-> "CondJmp(op=\"+\";type=\"int\")", s |-> "SSot"],
    [i |-> "CondJmp(op=\"==\";type=\"int\")", s |-> "ot"], [i |-> "CondJmp(op=\"==\";type=\"string\")", s |-> "SSot"],
    [i |-> "AssignOp(op=\"=\";type=\"int\")", s |-> "SS"], [i |-> "AssignOp(op=\"+=\";type=\"float\")", s |-> "ff"],
    [i |-> "AssignOp(op=\"=\";type=\"int\")", s |-> "S"], [i |-> "AssignOp(op=\"=\";type=\"string\")", s |-> "SS"],
    [i |-> "AssignOp(op=\"=\";type=\"int\")", s |-> "Sf"], [i |-> "AssignOp(op=\"=\";type=\"int\")", s |-> "S(imm)S"],
    [i |-> "BinOp(op=\"+\";type=\"int\")", s |-> "SSS"], [i |-> "BinOp(op=\"+\";type=\"float\")", s |-> "fff"],
    [i |-> "BinOp(op=\"+\";type=\"int\")", s |-> "SS"], [i |-> "BinOp(op=\"<\";type=\"int\")", s |-> "SSS"], [i |-> "BinOp(op=\"+=\";type=\"int\")", s |-> "SSS"],
    [i |-> "UnOp(op=\"-\";type=\"int\")", s |-> "SS"], [i |-> "UnOp(op=\"sin\";type=\"float\")", s |-> "ff"], [i |-> "UnOp(op=\"!\";type=\"float\")", s |-> "ff"],
    [i |-> "UnOp(op=\"-\";type=\"int\")", s |-> "S"],
    [i |-> "Interrupt()", s |-> "S"], [i |-> "Interrupt()", s |-> "f"], [i |-> "Interrupt()", s |-> ""],
    [i |-> "DedicatedCmp(type=\"int\")", s |-> "SS"], [i |-> "DedicatedCmpJmp(op=\"==\")", s |-> "ot"], [i |-> "DedicatedCmpJmp(op=\"==\")", s |-> "S"],
    [i |-> "CallEosd()", s |-> "ESf"], [i |-> "CallEosd()", s |-> "S"], [i |-> "CallReg()", s |-> "E"], [i |-> "CallReg()", s |-> ""],
    [i |-> "Bogus()", s |-> "S"], [i |-> "Jmp", s |-> "ot"], [i |-> "Jmp(", s |-> "ot"], [i |-> "Jmp())", s |-> "ot"], [i |-> "", s |-> "S"],
    [i |-> "Jmp(op=\"==\")", s |-> "ot"], [i |-> "jmp()", s |-> "ot"], [i |-> "Jmp() Jmp()", s |-> "ot"]
>>
IntrinsicBody(v) ==
    <<v.V, "=", v.V, "+", "1", ";", v.F, "=", "-", v.F, ";", v.V, "=", v.W, ";",
      "if", "(", v.V, "==", "2", ")", "{">> \o Call0(v) \o <<"}",
      "loop", "{">> \o Call0(v) \o <<"break", ";", "}", "times", "(", "2", ")", "{">> \o Call0(v) \o <<"}",
      "interrupt", "[", "1", "]", ":">> \o Call0(v)
IntrinsicCases(f) ==
    LET v == Voc(f) IN
    [k \in 1..Len(Intrinsics) |->
        MapCase(f, v, "intrinsic:" \o Intrinsics[k].i \o "/" \o Intrinsics[k].s,
                <<Magic(f), "!ins_signatures", "99 " \o Intrinsics[k].s, "!ins_intrinsics", "99 " \o Intrinsics[k].i>>, IntrinsicBody(v))]

\* every layout of the jump arguments: each jump-carrying intrinsic x every signature of 1..3
\* characters over {o, t, S, _} (offset first / last / absent, time adjacent / apart / absent / twice)
RECURSIVE SigsOver(_, _)
SigsOver(alpha, n) == IF n = 0 THEN {""} ELSE {s \o a : s \in SigsOver(alpha, n - 1), a \in alpha}
JumpLayouts == SetToSeq(UNION {SigsOver({"o", "t", "S", "_"}, n) : n \in 1..3})
JumpIntrinsics == <<"Jmp()", "CountJmp()", "CondJmp(op=\"==\";type=\"int\")", "DedicatedCmpJmp(op=\"==\")">>
JumpLayoutCases(f) ==
    LET v == Voc(f) IN
    FlattenSeq([k \in 1..Len(JumpIntrinsics) |-> [j \in 1..Len(JumpLayouts) |->
        MapCase(f, v, "intrinsic:" \o JumpIntrinsics[k] \o "/" \o JumpLayouts[j],
                <<Magic(f), "!ins_signatures", "99 " \o JumpLayouts[j], "!ins_intrinsics", "99 " \o JumpIntrinsics[k]>>, IntrinsicBody(v))]])

\* other sections: [n, l (lines after the magic), b (body)]
SectionCases(f) ==
    LET v == Voc(f)
        names(b) == <<"!ins_signatures", "99 S">> \o b
        list == <<
        [n |-> "names-duplicate-key", l |-> names(<<"!ins_names", "99 foo", "99 bar">>), b |-> <<"bar", "(", "1", ")", ";", "foo", "(", "1", ")", ";">>],
        [n |-> "names-duplicate-name", l |-> names(<<"98 S", "!ins_names", "99 foo", "98 foo">>), b |-> <<"foo", "(", "1", ")", ";">>],
        [n |-> "names-keyword", l |-> names(<<"!ins_names", "99 int">>), b |-> <<"int", "(", "1", ")", ";">>],
        [n |-> "names-ins-alias", l |-> names(<<"98 f", "!ins_names", "99 ins_98">>), b |-> <<"ins_98", "(", "1", ")", ";">>],
        [n |-> "names-not-identifier", l |-> names(<<"!ins_names", "99 3abc">>), b |-> Call0(v)],
        [n |-> "names-key-huge", l |-> names(<<"!ins_names", "99999999999 foo">>), b |-> Call0(v)],
        [n |-> "names-key-negative", l |-> names(<<"!ins_names", "-5 foo">>), b |-> <<"foo", "(", ")", ";">>],
        [n |-> "names-missing-value", l |-> names(<<"!ins_names", "99">>), b |-> Call0(v)],
        [n |-> "names-swapped", l |-> names(<<"!ins_names", "foo 99">>), b |-> Call0(v)],
        [n |-> "names-extra-word", l |-> names(<<"!ins_names", "99 foo bar">>), b |-> Call0(v)],
        [n |-> "names-non-ascii", l |-> names(<<"!ins_names", "99 f\\u00e9">>), b |-> Call0(v)],
        [n |-> "sig-key-too-big-for-opcode", l |-> <<"!ins_signatures", "70000 S">>, b |-> <<"ins_70000", "(", "1", ")", ";">>],
        [n |-> "sig-key-negative", l |-> <<"!ins_signatures", "-2 S">>, b |-> <<"ins_0", "(", ")", ";">>],
        [n |-> "gvar-duplicate", l |-> <<"!gvar_names", "10000 GX", "10000 GY">>, b |-> <<"GX", "=", "1", ";", "GY", "=", "2", ";">>],
        [n |-> "gvar-typed", l |-> <<"!gvar_names", "10000 GX", "!gvar_types", "10000 $">>, b |-> <<"GX", "=", "1", ";">>],
        [n |-> "gvar-float", l |-> <<"!gvar_names", "10000 GX", "!gvar_types", "10000 %">>, b |-> <<"GX", "=", "1", ";">>],
        [n |-> "gvar-bad-type", l |-> <<"!gvar_names", "10000 GX", "!gvar_types", "10000 ?">>, b |-> <<"GX", "=", "1", ";">>],
        [n |-> "gvar-empty-type", l |-> <<"!gvar_names", "10000 GX", "!gvar_types", "10000">>, b |-> <<"GX", "=", "1", ";">>],
        [n |-> "gvar-type-only", l |-> <<"!gvar_types", "-77 %">>, b |-> <<"$REG[-77]", "=", "1", ";">>],
        [n |-> "gvar-ins-clash", l |-> names(<<"!gvar_names", "10000 foo", "!ins_names", "99 foo">>), b |-> <<"foo", "(", "foo", ")", ";">>],
        [n |-> "gvar-key-huge", l |-> <<"!gvar_names", "2147483648 GX">>, b |-> Call0(v)],
        [n |-> "flags-plain", l |-> <<"!difficulty_flags", "0 E-", "1 N-", "2 H+", "3 L+">>, b |-> <<"{", Q("EN"), "}", ":">> \o Call0(v)],
        [n |-> "flags-duplicate-name", l |-> <<"!difficulty_flags", "0 N-", "1 N-">>, b |-> <<"{", Q("N"), "}", ":">> \o Call0(v)],
        [n |-> "flags-index-8", l |-> <<"!difficulty_flags", "8 X+">>, b |-> <<"{", Q("X"), "}", ":">> \o Call0(v)],
        [n |-> "flags-index-negative", l |-> <<"!difficulty_flags", "-1 Q+">>, b |-> Call0(v)],
        [n |-> "flags-two-letters", l |-> <<"!difficulty_flags", "0 EE-">>, b |-> Call0(v)],
        [n |-> "flags-no-suffix", l |-> <<"!difficulty_flags", "0 E">>, b |-> <<"{", Q("E"), "}", ":">> \o Call0(v)],
        [n |-> "flags-bad-suffix", l |-> <<"!difficulty_flags", "0 E*">>, b |-> Call0(v)],
        [n |-> "flags-empty", l |-> <<"!difficulty_flags", "0">>, b |-> Call0(v)],
        [n |-> "flags-digit-name", l |-> <<"!difficulty_flags", "0 1-", "1 0-">>, b |-> <<"{", Q("01"), "}", ":">> \o Call0(v)],
        [n |-> "flags-star-name", l |-> <<"!difficulty_flags", "0 *-">>, b |-> <<"{", Q("*"), "}", ":">> \o Call0(v)],
        [n |-> "flags-dash-name", l |-> <<"!difficulty_flags", "0 --">>, b |-> <<"{", Q("*--"), "}", ":">> \o Call0(v)],
        [n |-> "section-unknown", l |-> <<"!bogus_section", "1 x">>, b |-> Call0(v)],
        [n |-> "section-empty", l |-> <<"!ins_names">>, b |-> Call0(v)],
        [n |-> "section-twice", l |-> names(<<"!ins_names", "99 a", "!ins_names", "99 b">>), b |-> <<"b", "(", "1", ")", ";">>],
        [n |-> "section-no-bang", l |-> <<"ins_names", "99 a">>, b |-> Call0(v)],
        [n |-> "line-before-section", l |-> <<"99 a", "!ins_names">>, b |-> Call0(v)],
        [n |-> "enum-duplicate-value", l |-> <<"!ins_signatures", "99 S(enum=\"Foo\")", "!enum(name=\"Foo\")", "1 A", "1 B">>, b |-> <<"ins_99", "(", "Foo", ".", "A", ")", ";", "ins_99", "(", "B", ")", ";">>],
        [n |-> "enum-duplicate-name", l |-> <<"!ins_signatures", "99 S(enum=\"Foo\")", "!enum(name=\"Foo\")", "1 A", "2 A">>, b |-> <<"ins_99", "(", "A", ")", ";">>],
        [n |-> "enum-ambiguous-across", l |-> <<"!ins_signatures", "99 S", "!enum(name=\"Foo\")", "1 A", "!enum(name=\"Bar\")", "2 A">>, b |-> <<"ins_99", "(", "A", ")", ";">>],
        [n |-> "enum-no-name-value", l |-> <<"!enum(name=)", "1 A">>, b |-> Call0(v)],
        [n |-> "enum-unclosed-quote", l |-> <<"!enum(name=\")", "1 A">>, b |-> Call0(v)],
        [n |-> "enum-unclosed-paren", l |-> <<"!enum(name=\"Foo\"", "1 A">>, b |-> Call0(v)],
        [n |-> "enum-empty-name", l |-> <<"!enum(name=\"\")", "1 A">>, b |-> Call0(v)],
        [n |-> "enum-name-not-identifier", l |-> <<"!enum(name=\"3 x\")", "1 A">>, b |-> Call0(v)],
        [n |-> "enum-no-attrs", l |-> <<"!enum()", "1 A">>, b |-> Call0(v)],
        [n |-> "enum-bare", l |-> <<"!enum", "1 A">>, b |-> Call0(v)],
        [n |-> "enum-builtin-bool", l |-> <<"!enum(name=\"bool\")", "5 true", "6 maybe">>, b |-> <<"ins_99", "(", "maybe", ")", ";">>],
        [n |-> "enum-name-twice", l |-> <<"!enum(name=\"Foo\";name=\"Bar\")", "1 A">>, b |-> Call0(v)],
        [n |-> "enum-undeclared-in-sig", l |-> <<"!ins_signatures", "99 S(enum=\"Nope\")">>, b |-> <<"ins_99", "(", "Nope", ".", "A", ")", ";">>],
        [n |-> "enum-clash-with-gvar", l |-> <<"!gvar_names", "10000 A", "!enum(name=\"Foo\")", "1 A">>, b |-> <<"A", "=", "A", ";">>],
        [n |-> "rets", l |-> <<"!ins_signatures", "99 S", "!ins_rets", "99 S">>, b |-> <<v.V, "=", "ins_99", "(", "1", ")", ";">>],
        [n |-> "timeline-sig-arg0", l |-> <<"!timeline_ins_signatures", "99 s(arg0)S", "!timeline_ins_names", "99 tl">>, b |-> Call0(v)],
        [n |-> "timeline-sig-arg0-wide", l |-> <<"!timeline_ins_signatures", "99 S(arg0)">>, b |-> Call0(v)],
        [n |-> "timeline-sig-arg0-second", l |-> <<"!timeline_ins_signatures", "99 Ss(arg0)">>, b |-> Call0(v)]
        >>
    IN [k \in 1..Len(list) |-> MapCase(f, v, "section:" \o list[k].n, <<Magic(f)>> \o list[k].l, list[k].b)]

\* the magic line / game maps
MagicCases(f) ==
    LET v == Voc(f)
        list == <<
        [n |-> "empty-file", l |-> <<>>],
        [n |-> "no-magic", l |-> <<"!ins_names", "99 a">>],
        [n |-> "wrong-language", l |-> <<(IF f = "std" THEN "!anmmap" ELSE "!stdmap"), "!ins_signatures", "0 SSSS">>],
        [n |-> "unknown-magic", l |-> <<"!foomap", "!ins_names", "99 a">>],
        [n |-> "magic-twice", l |-> <<Magic(f), Magic(f), "!ins_names", "99 a">>],
        [n |-> "magic-only", l |-> <<Magic(f)>>],
        [n |-> "magic-trailing", l |-> <<Magic(f) \o " extra">>],
        [n |-> "gamemap-self", l |-> <<"!gamemap", "!game_files", "6 @SELF@", "12 @SELF@">>],
        [n |-> "gamemap-no-files", l |-> <<"!gamemap">>],
        [n |-> "gamemap-missing-file", l |-> <<"!gamemap", "!game_files", "6 nonexistent.map", "12 nonexistent.map">>],
        [n |-> "gamemap-no-entry", l |-> <<"!gamemap", "!game_files", "185 @SELF@">>],
        [n |-> "gamemap-bad-game", l |-> <<"!gamemap", "!game_files", "77 @SELF@", "-1 @SELF@">>],
        [n |-> "gamemap-empty-path", l |-> <<"!gamemap", "!game_files", "6", "12">>],
        [n |-> "gamemap-directory", l |-> <<"!gamemap", "!game_files", "6 .", "12 .">>],
        [n |-> "crlf-lines", l |-> <<Magic(f) \o "\r", "!ins_names\r", "99 a\r">>],
        [n |-> "comment-lines", l |-> <<Magic(f), "# comment", "!ins_names # trailing", "99 a # trailing">>],
        [n |-> "tabs", l |-> <<Magic(f), "!ins_names", "99\ta">>]
        >>
    IN [k \in 1..Len(list) |-> MapCase(f, v, "magic:" \o list[k].n, list[k].l, Call0(v))]

MapFormatsSig == IF Quick THEN <<"anm", "msg">> ELSE ScriptFormats
MapFormatsOther == IF Quick THEN <<"anm", "ecl">> ELSE ScriptFormats
MapCases ==
    FlattenSeq([i \in 1..Len(MapFormatsSig) |-> EveryKth(SigCases(MapFormatsSig[i]), IF Quick THEN 3 ELSE 1)])
    \o FlattenSeq([i \in 1..Len(MapFormatsOther) |->
        IntrinsicCases(MapFormatsOther[i]) \o SectionCases(MapFormatsOther[i]) \o MagicCases(MapFormatsOther[i])])
    \o JumpLayoutCases("anm") \o (IF Quick THEN <<>> ELSE JumpLayoutCases("ecl") \o JumpLayoutCases("msg"))

\* Tiers.  thorough = the whole domain.  quick = the whole domain for ANM (the format whose
\* language supports every construct used here), and a fixed-stride sample of it for the others;
\* the strides 3 and 9 are coprime to the number of positions (14) and of slots per defect
\* (28 / 41), so every defect still meets positions of every residue.  No randomness anywhere.
Stride(f, kind) ==
    IF ~Quick THEN 1
    ELSE CASE f = "anm" -> (IF kind = "expr" THEN 3 ELSE 1)
           [] f = "ecl" -> (IF kind = "item" THEN 1 ELSE 3)
           [] OTHER -> 9

AllCases ==
    FlattenSeq([i \in 1..Len(ScriptFormats) |->
        LET f == ScriptFormats[i] IN
        EveryKth(StmtCases(f), Stride(f, "stmt")) \o EveryKth(ExprCases(f), Stride(f, "expr"))
        \o EveryKth(ItemCases(f), Stride(f, "item"))])
    \o MissionCases \o TemplateCases \o MapCases \o EveryKth(ParamListCases, IF Quick THEN 1 ELSE 1)
    \o FlattenSeq([i \in 1..Len(ScriptFormats) |-> LiteralCases(ScriptFormats[i])])

\* built once, parked in a register (see BUILDING.md: definitions are re-evaluated at every use)
ASSUME TLCSet(63, <<>> \o AllCases)
Cases == TLCGet(63)
N == Len(Cases)

-----------------------------------------------------------------------------
(* one TLC state per case; the in-model facts *)

VARIABLE idx
Init == idx \in 1..N
Next == UNCHANGED idx
Spec == Init /\ [][Next]_idx

Count(toks, s) == Cardinality({i \in 1..Len(toks) : toks[i] = s})
Balanced(toks) ==
    /\ Count(toks, "{") = Count(toks, "}")
    /\ Count(toks, "(") = Count(toks, ")")
    /\ Count(toks, "[") = Count(toks, "]")

\* the defect's tokens occur contiguously in the file
HasInfix(toks, d) ==
    \E o \in 0..(Len(toks) - Len(d)) : \A i \in 1..Len(d) : toks[o + i] = d[i]

BalancedUnlessMeantNot ==
    LET c == Cases[idx] IN
    (c.defect \notin Unbalancing \cup ItemUnbalancing) => Balanced(c.toks)
DefectIsThere == LET c == Cases[idx] IN HasInfix(c.toks, c.dtoks)
TokensAreStrings == LET c == Cases[idx] IN \A i \in 1..Len(c.toks) : c.toks[i] \in STRING /\ c.toks[i] # ""
MapLinesAreStrings == LET c == Cases[idx] IN \A i \in 1..Len(c.map) : c.map[i] \in STRING
Inv == BalancedUnlessMeantNot /\ DefectIsThere /\ TokensAreStrings /\ MapLinesAreStrings

\* written out for the driver
ASSUME ndJsonSerialize(IOEnv.OUT, [i \in 1..N |->
            [id |-> i, fmt |-> Cases[i].fmt, tool |-> Cases[i].tool, game |-> Cases[i].game,
             kind |-> Cases[i].kind, defect |-> Cases[i].defect, pos |-> Cases[i].pos, slot |-> Cases[i].slot,
             toks |-> Cases[i].toks, map |-> Cases[i].map]])
ASSUME PrintT(<<"GEN", "Gen_IllFormed", N>>)
=============================================================================
