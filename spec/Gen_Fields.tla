----------------------------- MODULE Gen_Fields -----------------------------
(***************************************************************************)
(* C03, Mode G.  One behaviour per (field, boundary value): the initial    *)
(* state requests value v in field f, the action CompileField decides the  *)
(* outcome the contract allows.  TLC checks the in-model facts on every    *)
(* row and writes the rows (with the expected outcome) as ndjson (OUT) for *)
(* replay into the real compiler.                                          *)
(***************************************************************************)
EXTENDS Fields, TLC, Json, IOUtils, SequencesExt

Rows == UNION { { [f |-> FieldTable[i], v |-> v] : v \in {x \in Boundary(FieldTable[i]) : Requestable(x, FieldTable[i])} } :
                i \in DOMAIN FieldTable }

VARIABLES row, outcome
vars == <<row, outcome>>

Pending == [ok |-> FALSE, readback |-> -1]
Init == row \in Rows /\ outcome = Pending
CompileField ==
    /\ outcome = Pending
    /\ outcome' = Outcome(row.f, row.v)
    /\ UNCHANGED row
Next == CompileField
Spec == Init /\ [][Next]_vars

\* ---------------------------------------------------------------- in-model facts
Decided == outcome # Pending
Inv ==
    LET f == row.f
        v == row.v
    IN /\ Requestable(v, f)
       /\ Decided =>
            /\ outcome.ok <=> Fits(v, f)
            /\ outcome.ok => outcome.readback = v
            \* numeric fields: fitting is exactly "min <= v <= max", a fitting value survives a narrowing
            \* conversion unchanged, and a non-fitting one never does (so an unchecked cast is always visible)
            /\ f.kind # "cstr" => /\ Fits(v, f) <=> (Min(f) <= v /\ v <= Max(f))
                                  /\ Fits(v, f) => Wrap(v, f) = v
                                  /\ ~Fits(v, f) => Wrap(v, f) # v /\ Fits(Wrap(v, f), f)
            /\ f.kind = "cstr" => (Fits(v, f) <=> v < f.w)
            /\ f.w = 32 /\ f.kind = "int" => Fits(v, f)

\* every field narrower than a source integer has rows on both sides of the contract
BothSides ==
    \A i \in DOMAIN FieldTable :
        LET f == FieldTable[i]
            vs == {x \in Boundary(f) : Requestable(x, f)}
        IN /\ \E x \in vs : Fits(x, f)
           /\ (f.w < 32 \/ f.kind = "cstr") => \E x \in vs : ~Fits(x, f)
UniqueIds == \A i, j \in DOMAIN FieldTable : FieldTable[i].id = FieldTable[j].id => i = j

RowOut(r) == [id |-> r.f.id, w |-> r.f.w, signed |-> r.f.signed, kind |-> r.f.kind, base |-> r.f.base, heavy |-> r.f.heavy,
              v |-> r.v, fits |-> Fits(r.v, r.f), wrap |-> Wrap(r.v, r.f),
              exp |-> Outcome(r.f, r.v)]

ASSUME BothSides /\ UniqueIds
ASSUME ndJsonSerialize(IOEnv.OUT, SetToSeq({RowOut(r) : r \in Rows}))
ASSUME PrintT(<<"GEN", "Gen_Fields", Len(FieldTable), Cardinality(Rows)>>)
=============================================================================
