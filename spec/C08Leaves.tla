------------------------------ MODULE C08Leaves ------------------------------
(***************************************************************************)
(* C08: the boundary alphabet of expression leaves shared by the           *)
(* generators: int literals in every radix/sign hint incl. i32::MIN,       *)
(* every f32 class (zero, -0.0, subnormal, huge, inf, NaN canonical and    *)
(* not), strings with every escape and multi-byte text, names that collide *)
(* with lexer tokens (E, N, f, true, INF), registers, in-place operators.  *)
(***************************************************************************)
EXTENDS Syntax

Ints == {
    IntFmt(0, "sDec"), IntFmt(1, "sDec"), IntFmt(-1, "sDec"), IntFmt(-3, "sDec"), IntFmt(4, "sDec"), IntFmt(7, "sDec"),
    IntFmt(MaxI32, "sDec"), IntFmt(MinI32, "sDec"),
    IntFmt(255, "uHex"), IntFmt(-1, "uHex"), IntFmt(-16, "sHex"), IntFmt(MinI32, "sHex"), IntFmt(MinI32, "uHex"),
    IntFmt(5, "uBin"), IntFmt(-2, "sBin"), IntFmt(-2, "uBin"),
    IntFmt(0, "sBool"), IntFmt(1, "sBool"), IntFmt(2, "sBool"), IntFmt(1, "uBool"), IntFmt(-2, "uBool"), IntFmt(-2, "sBool"),
    IntFmt(-1, "uDec"), IntFmt(3, "uDec") }
Floats == {
    FloatLit(1065353216),       \* 1.0
    FloatLit(-1077936128),      \* -1.5
    FloatLit(0),                \* 0.0
    FloatLit(MinI32),           \* -0.0
    FloatLit(1),                \* smallest subnormal
    FloatLit(71362),            \* about 1e-40 (subnormal)
    FloatLit(MinI32 + 1),       \* negative subnormal
    FloatLit(1036831949),       \* 0.1
    FloatLit(1266679808),       \* 16777216.0
    FloatLit(1343554297),       \* 1e10
    FloatLit(2139095039),       \* f32::MAX
    FloatLit(PlusInf), FloatLit(-8388608),                \* inf, -inf
    FloatLit(CanonicalNaN), FloatLit(2143289345), FloatLit(2139095041), FloatLit(-4194304) }  \* NaN: canonical, payload, signalling, negative
Strs == {
    StrLit(<<>>), StrLit(<<97, 98, 99>>), StrLit(<<0>>), StrLit(<<97, 10, 98, 13>>), StrLit(<<92, 34>>), StrLit(<<113, 34>>),
    StrLit(<<92, 48>>), StrLit(<<92, 110>>), StrLit(<<9, 32>>), StrLit(<<47, 47, 32, 47, 42>>), StrLit(<<33, 69>>),
    StrLit(<<26085, 26412, 35486>>), StrLit(<<233>>), StrLit(<<128512, 0, 10>>) }
Vars == {
    NamedVar("E"), NamedVar("N"), NamedVar("f"), NamedVar("x"), NamedVar("Ex"), NamedVar("true"), NamedVar("INF"),
    SigVar("$", "E"), SigVar("%", "x"),
    RegVar("", 10000), RegVar("$", 10001), RegVar("%", 10000), RegVar("", -1) }
X == NamedVar("x")
Others == {
    PreDec(X), PostDec(X), [k |-> "xcr", op |-> "++", order |-> "pre", var |-> RegVar("$", 10000)],
    [k |-> "labelprop", label |-> "lbl", kw |-> "offsetof"], [k |-> "labelprop", label |-> "E", kw |-> "timeof"],
    [k |-> "enum", enum |-> "bool", ident |-> "true"],
    [k |-> "call", name |-> [id |-> "n:f", name |-> "f"], pseudos |-> <<>>, args |-> <<>>],
    [k |-> "call", name |-> [ins |-> 23], pseudos |-> <<>>, args |-> <<IntFmt(-1, "sDec"), NamedVar("E")>>] }
Leaves == Ints \cup Floats \cup Strs \cup Vars \cup Others

SignLeaves == {
    IntFmt(-1, "sDec"), IntFmt(-3, "sDec"), IntFmt(MinI32, "sDec"), IntFmt(3, "uDec"), IntFmt(4, "sDec"), IntFmt(7, "sDec"),
    IntFmt(-1, "uHex"), IntFmt(-16, "sHex"),
    FloatLit(MinI32), FloatLit(-1077936128), FloatLit(1065353216), FloatLit(-8388608), FloatLit(CanonicalNaN),
    NamedVar("E"), NamedVar("N"), NamedVar("x"), RegVar("$", 10001), PreDec(X), PostDec(X) }
=============================================================================
