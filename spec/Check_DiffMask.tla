--------------------------- MODULE Check_DiffMask ---------------------------
(***************************************************************************)
(* C14 (a), binding.  ROWS = what the real code did for every definition   *)
(* set of Gen_DiffMask: for each mask byte 0..255 the label the real       *)
(* decompiler printed (as it appears in the formatted script, split into   *)
(* characters) and the difficulty byte the real compiler gave that         *)
(* statement when the printed script was compiled again.                   *)
(*                                                                         *)
(* The real printer is judged through LabelToMask only:                    *)
(*     LabelToMask(printed label, defs) = mask  /\  recompiled byte = mask *)
(* One TLC state per (row, mask).  Rows whose definition set binds one     *)
(* name to two bits (dup = TRUE, DESIGN section 6 F7) are judged outside   *)
(* the invariant: their verdicts are written to OUT so that the driver can *)
(* report them under their own key (explain = TRUE does the same for a row *)
(* in which the invariant was found violated, to obtain all its bad masks).*)
(***************************************************************************)
EXTENDS DiffMask, TLC, Json, IOUtils

Rows == ndJsonDeserialize(IOEnv.ROWS)
\* rows kept out of the invariant: duplicate-name definition sets, and rows the driver wants explained
Outside(row) == row.dup \/ row.explain

\* the mask the printed statement denotes: its label read by the specification, or "everything"
\* when the statement was printed without a label
Denoted(has, label, t) == IF has THEN TLabelToMask(label, t) ELSE [ok |-> TRUE, mask |-> NoLabelMask]
MaskOk(has, label, reparsed, t, mm) ==
    /\ Denoted(has, label, t) = [ok |-> TRUE, mask |-> BitsOf(mm)]
    /\ reparsed = mm
RowOk(row, t, mm) == MaskOk(row.has_label[mm + 1], row.labels[mm + 1], row.reparsed[mm + 1], t, mm)

\* State graph: a root holding the rows (mentioned once), one state per row with its flag table,
\* one state per (row, mask byte) holding just that mask's observation.
VARIABLES lvl, all, id, tab, m, obs
vars == <<lvl, all, id, tab, m, obs>>
None == [has |-> FALSE, label |-> << >>, reparsed |-> -1]
Init == lvl = 0 /\ all = SelectSeq(Rows, LAMBDA row : ~Outside(row)) /\ id = 0 /\ tab = << >> /\ m = -1 /\ obs = None
Next == \/ /\ lvl = 0 /\ lvl' = 1 /\ m' = -1 /\ obs' = None
           /\ \E j \in 1..Len(all) : all' = << all[j] >> /\ id' = all[j].id /\ tab' = TableOf(all[j].defs)
        \/ /\ lvl = 1 /\ lvl' = 2 /\ all' = << >> /\ UNCHANGED <<id, tab>>
           /\ \E mm \in 0..255 : m' = mm /\ obs' = [has |-> all[1].has_label[mm + 1], label |-> all[1].labels[mm + 1],
                                                         reparsed |-> all[1].reparsed[mm + 1]]
Spec == Init /\ [][Next]_vars

Bijection == lvl = 2 => MaskOk(obs.has, obs.label, obs.reparsed, tab, m)
\* the definition sets inside the invariant are well-formed (the generator's classification is the
\* one this module derives)
Classified == lvl = 1 => ~THasDuplicateName(tab)

\* verdicts for the rows outside the invariant (few): the masks that do not come back
Verdict(row) ==
    LET t == TableOf(row.defs)
        bad == SelectSeq(<< >> \o [j \in 1..256 |-> j - 1], LAMBDA mm : ~RowOk(row, t, mm))
        badrep == SelectSeq(<< >> \o [j \in 1..256 |-> j - 1], LAMBDA mm : row.reparsed[mm + 1] # mm)
    IN [id |-> row.id, dup |-> THasDuplicateName(t), nbad |-> Len(bad), bad |-> SubSeq(bad, 1, IF Len(bad) < 4 THEN Len(bad) ELSE 4),
        nrecompiled |-> Len(badrep), recompiled |-> SubSeq(badrep, 1, IF Len(badrep) < 4 THEN Len(badrep) ELSE 4)]
ASSUME LET out == SelectSeq(Rows, Outside) IN
       /\ ndJsonSerialize(IOEnv.OUT, << >> \o [j \in 1..Len(out) |-> Verdict(out[j])])
       /\ PrintT(<<"CHECK", "Check_DiffMask", Len(Rows), Len(out)>>)
=============================================================================
