--------------------------- MODULE Check_DiffMask ---------------------------
(***************************************************************************)
(* C14 (a), binding.  ROWS = what the real code did for every definition   *)
(* set of Gen_DiffMask: for each mask byte 0..255 the label the real       *)
(* decompiler printed (as it appears in the formatted script, split into   *)
(* characters) and the difficulty byte the real compiler gave that         *)
(* statement when the printed script was compiled again.                   *)
(*                                                                         *)
(* The real printer is judged through LabelToMask only:                    *)
(*     LabelToMask(printed label, defs) = mask  /\  recompiled byte = mask *)
(* One TLC state per (row, mask).  Rows whose definition set binds one     *)
(* name to two bits (dup = TRUE, DESIGN section 6 F7) are not part of the  *)
(* invariant; their verdicts are written to OUT so that the driver can     *)
(* report them under their own key.                                        *)
(***************************************************************************)
EXTENDS DiffMask, TLC, Json, IOUtils

Rows == ndJsonDeserialize(IOEnv.ROWS)
N == Len(Rows)
Strict == {r \in 1..N : ~Rows[r].dup}
Dups == {r \in 1..N : Rows[r].dup}

\* the mask the printed statement denotes: its label read by the specification, or "everything"
\* when the statement was printed without a label
Denoted(row, t, m) ==
    IF row.has_label[m + 1] THEN TLabelToMask(row.labels[m + 1], t)
    ELSE [ok |-> TRUE, mask |-> NoLabelMask]

RowOk(row, t, m) ==
    /\ Denoted(row, t, m) = [ok |-> TRUE, mask |-> BitsOf(m)]
    /\ row.reparsed[m + 1] = m

VARIABLES r, m, tab
vars == <<r, m, tab>>
Init == r \in Strict /\ m = -1 /\ tab = TableOf(Rows[r].defs)
Next == m = -1 /\ m' \in 0..255 /\ UNCHANGED <<r, tab>>
Spec == Init /\ [][Next]_vars

Bijection == m >= 0 => RowOk(Rows[r], tab, m)
\* the flag table the specification derives is the one the row was produced under: the row's
\* definitions are well-formed exactly when the generator said so
Classified == m = -1 => ~THasDuplicateName(tab)

\* verdicts for the duplicate-name rows (few): the masks that do not come back
DupVerdict(k) ==
    LET row == Rows[k]
        t == TableOf(row.defs)
        bad == SelectSeq(<< >> \o [j \in 1..256 |-> j - 1], LAMBDA mm : ~RowOk(row, t, mm))
    IN [id |-> row.id, dup |-> THasDuplicateName(t), nbad |-> Len(bad),
        first |-> IF Len(bad) = 0 THEN -1 ELSE bad[1]]
DupSeq == SelectSeq(<< >> \o [k \in 1..N |-> k], LAMBDA k : k \in Dups)
ASSUME ndJsonSerialize(IOEnv.OUT, << >> \o [j \in 1..Len(DupSeq) |-> DupVerdict(DupSeq[j])])
ASSUME PrintT(<<"CHECK", "Check_DiffMask", N, Cardinality(Strict), Cardinality(Dups)>>)
=============================================================================
