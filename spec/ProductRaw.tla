---------------------------- MODULE ProductRaw ----------------------------
(***************************************************************************)
(* Mode P for C02: the product of the script machine on a source body      *)
(* (AstSem, on the tree the real parser produced) and on the instructions  *)
(* the real lowering emitted for it (RawSem).  Observables: the call log   *)
(* (with script time and real time of every call, opcode, argument         *)
(* values) and the final value of every watched register (registers the    *)
(* source mentions and registers not available as scratch).                *)
(* Run with -workers 1 (per-run data is parked in TLC registers).          *)
(***************************************************************************)
EXTENDS AstSem, RawSem, Json, IOUtils, SequencesExt

CONSTANTS FuelA, FuelB, Wide

Pairs == ndJsonDeserialize(IOEnv.PAIRS)
N == Len(Pairs)
ASSUME TLCSet(41, <<>> \o [k \in 1..N |-> Annotate(Pairs[k].src)])
ASrc == TLCGet(41)

DInt == IF Wide THEN {IntV(-2), IntV(0), IntV(1), IntV(3)} ELSE {IntV(0), IntV(1), IntV(3)}
DFloat == IF Wide THEN {Fin(-3, 1), FZero, Fin(1, 1), Fin(2, 0)} ELSE {Fin(-3, 1), FZero, Fin(2, 0)}
DomOf(ty) == IF ty = "f" THEN DFloat ELSE DInt
Canary(ty) == IF ty = "f" THEN Fin(77, 0) ELSE IntV(77)

IdsOfTy(seq, ty) == {seq[j].id : j \in {j \in 1..Len(seq) : seq[j].ty = ty}}
\* valuations: the mentioned registers range over the domain, the others hold a canary value
Valuations(k) ==
    {(fi @@ ff) @@ (ci @@ cf) :
        fi \in [IdsOfTy(Pairs[k].vars, "i") -> DInt], ff \in [IdsOfTy(Pairs[k].vars, "f") -> DFloat],
        ci \in {[x \in IdsOfTy(Pairs[k].fixed, "i") |-> Canary("i")]},
        cf \in {[x \in IdsOfTy(Pairs[k].fixed, "f") |-> Canary("f")]}}
Diffs(k) == IF Pairs[k].diffs THEN 0..3 ELSE {0}

VARIABLES i, diff, a, b, phase
vars == <<i, diff, a, b, phase>>

Init ==
    /\ i \in 1..N
    /\ diff \in Diffs(i)
    /\ \E r \in Valuations(i) : a = Start(r, FuelA) /\ b = RStart(r, FuelB)
    /\ phase = "run"

ASSUME TLCSet(51, 0) /\ TLCSet(52, 0) /\ TLCSet(53, 0)
Bump(r) == TLCSet(r, TLCGet(r) + 1)

\* Domain restriction (DESIGN C02): a run is decided only while the source machine is never *ahead* of
\* the time label of the statement it reaches (script time > label time happens only with negative or
\* decreasing time labels; there a fall-through and a jump to the same place differ and the
\* documentation does not say which the source means).  Such runs are discarded and counted.
Ahead(prog, c) == c.st = "run" /\ ~AtEnd(prog, c.pos) /\ c.time > StmtAt(prog, c.pos).tm
StepA == /\ phase = "run" /\ ~Done(a)
         /\ a' = (LET n == Step(ASrc[i], a, diff) IN IF Ahead(ASrc[i], n) THEN Discard(n) ELSE n)
         /\ UNCHANGED <<i, diff, b, phase>>
StepB == /\ phase = "run" /\ a.st = "done" /\ b.st = "run"
         /\ b' = RStep(Pairs[i].instrs, Pairs[i].endoff, Pairs[i].intr, CountGt, b, diff)
         /\ UNCHANGED <<i, diff, a, phase>>
FinCompared == /\ phase = "run" /\ a.st = "done" /\ b.st = "done"
               /\ phase' = "compared" /\ UNCHANGED <<i, diff, a, b>> /\ Bump(51)
FinDiscarded == /\ phase = "run" /\ (a.st = "discard" \/ (a.st = "done" /\ b.st = "discard"))
                /\ phase' = "discarded" /\ UNCHANGED <<i, diff, a, b>> /\ Bump(52)
FinSourceFuel == /\ phase = "run" /\ a.st = "fuel"
                 /\ phase' = "sourcefuel" /\ UNCHANGED <<i, diff, a, b>> /\ Bump(53)
Next == StepA \/ StepB \/ FinCompared \/ FinDiscarded \/ FinSourceFuel
Spec == Init /\ [][Next]_vars
Post == PrintT(<<"COUNTS", TLCGet(51), TLCGet(52), TLCGet(53)>>)

Watched(k) == {Pairs[k].watched[j] : j \in 1..Len(Pairs[k].watched)}
RegsAgree == \A id \in Watched(i) : id \in DOMAIN a.regs /\ id \in DOMAIN b.regs /\ a.regs[id] = b.regs[id]
ObsEqual == a.log = b.log /\ RegsAgree

PrefixOk == a.st = "done" => IsPrefix(b.log, a.log)
SameBehaviour == (a.st = "done" /\ b.st = "done") => ObsEqual
Terminates == ~(a.st = "done" /\ b.st = "fuel")
===========================================================================
