SPECIFICATION Spec
CONSTANTS
  CountGt = TRUE
  MaxLen = 4
  CheckAll = FALSE
  MaxDepth = 2
INVARIANT DocumentedDesugaringAgrees
POSTCONDITION Post
CHECK_DEADLOCK FALSE
