SPECIFICATION Spec
CONSTANTS
  CountGt = FALSE
  MaxLen = 5
  CheckAll = TRUE
  MaxDepth = 3
INVARIANT DocumentedDesugaringAgrees
POSTCONDITION Post
CHECK_DEADLOCK FALSE
