--------------------------- MODULE Gen_ExprTrees ---------------------------
(***************************************************************************)
(* C08, Mode G.  The family of expression trees on which printing and      *)
(* re-reading is decided, one TLC state per tree:                          *)
(*   A  every tree of depth <= 3 over one binary operator per precedence   *)
(*      level, the prefix operators - ! ~ and a cast, with a distinct      *)
(*      variable at every leaf (grouping, associativity, operand order);   *)
(*   B  ternaries and 3-case difficulty switches (with holes) over         *)
(*      operands of every relevant level, and C: both under every          *)
(*      operator;                                                          *)
(*   D  every boundary literal / hazardous name at every operand position  *)
(*      of every operator;                                                 *)
(*   E  sign and gluing hazards at depth 3 (`- -3`, `-(-3)`, `- --x`,      *)
(*      `! E`, `a - -b`, ...).                                             *)
(* In-model (invariants, every tree): the model printer of Syntax.tla      *)
(* (minimal parentheses, minimal spacing) read back by the model parser    *)
(* gives the tree again up to Norm -- so the printer is unambiguous on the *)
(* family and the family contains the trees where parentheses / spaces     *)
(* matter (counted and exported as `cls`).                                 *)
(* Export: every tree with its hazard classes and, where the model can     *)
(* spell all leaves, its minimal token sequence (replayed into the real    *)
(* lexer/parser).                                                          *)
(***************************************************************************)
EXTENDS C08Leaves, Json, IOUtils, FiniteSets, SequencesExt

CONSTANT Thorough

\* ------------------------------------------------------------------ alphabets
BinReps == IF Thorough THEN BinOps ELSE {"||", "&&", "|", "^", "&", "==", "<", "<<", "-", "*"}
PrefixReps == {"-", "!", "~"}
Funcs == IF Thorough THEN {"int", "float", "$", "sin"} ELSE {"int"}
FuncsD == {"int", "float", "$", "%", "sqrt"}

V(p) == NamedVar("v" \o p)

\* ------------------------------------------------------------------ family A: all shapes
RECURSIVE Shapes(_, _)
Shapes(d, p) ==
    IF d = 1 THEN {V(p)}
    ELSE {V(p)}
         \cup {Bin(o, a, b) : o \in BinReps, a \in Shapes(d - 1, p \o "a"), b \in Shapes(d - 1, p \o "b")}
         \cup {Un(u, x) : u \in PrefixReps \cup Funcs, x \in Shapes(d - 1, p \o "x")}
FamA == Shapes(3, "")

\* ------------------------------------------------------------------ family B/C: colons
Small(p) == {V(p), Bin("||", V(p \o "a"), V(p \o "b")), Bin("-", V(p \o "a"), V(p \o "b")), Un("-", V(p \o "x")),
             Tern(V(p \o "c"), V(p \o "a"), V(p \o "b")), Ds(<<V(p \o "1"), V(p \o "2"), V(p \o "3")>>),
             Ds(<<V(p \o "1"), Hole, V(p \o "3")>>)}
          \cup (IF Thorough THEN {IntFmt(-3, "sDec"), Bin("*", V(p \o "a"), V(p \o "b")), Un("int", V(p \o "x")), Ds(<<V(p \o "1"), Hole>>)} ELSE {})
FamB ==
    {Tern(c, a, b) : c \in Small("c"), a \in Small("a"), b \in Small("b")}
    \cup {Ds(<<x, y, z>>) : x \in Small("1"), y \in Small("2"), z \in Small("3")}
    \cup {Ds(<<x, Hole, z>>) : x \in Small("1"), z \in Small("3")}
    \cup {Ds(<<x, y, Hole>>) : x \in Small("1"), y \in Small("2")}
    \cup {Ds(<<x, Hole, Hole>>) : x \in Small("1")}
    \cup {Ds(<<x, y>>) : x \in Small("1"), y \in Small("2")}
    \cup {Ds(<<x, Hole, Hole, z>>) : x \in Small("1"), z \in Small("4")}
Colons == {Tern(V("c"), V("a"), V("b")), Ds(<<V("1"), V("2"), V("3")>>), Ds(<<V("1"), Hole, Hole>>)}
FamC ==
    {Bin(o, t, V("r")) : o \in BinReps, t \in Colons} \cup {Bin(o, V("l"), t) : o \in BinReps, t \in Colons}
    \cup {Un(u, t) : u \in PrefixReps \cup FuncsD, t \in Colons}

\* ------------------------------------------------------------------ family D: every leaf at every position
L == V("l")
R == V("r")
Ctx1(l) ==
    {l}
    \cup {Bin(o, l, R) : o \in BinReps} \cup {Bin(o, L, l) : o \in BinReps}
    \cup {Un(u, l) : u \in PrefixReps \cup FuncsD}
    \cup {Tern(l, L, R), Tern(L, l, R), Tern(L, R, l)}
    \cup {Ds(<<l, L, R>>), Ds(<<L, l, Hole>>), Ds(<<L, Hole, l>>)}
FamD == UNION {Ctx1(l) : l \in Leaves}

\* ------------------------------------------------------------------ family E: signs and gluing, depth 3
Inner(l) == {Un("-", l), Un("!", l), Un("~", l), Un("int", l)}
Outer(m) == {Un("-", m), Un("!", m), Un("~", m), Bin("-", L, m), Bin("-", m, R), Bin("<", L, m), Bin("*", m, R),
             Un("int", m), Tern(m, L, R), Ds(<<m, L>>)}
FamE == UNION {UNION {Outer(m) : m \in Inner(l)} : l \in (IF Thorough THEN Leaves ELSE SignLeaves)}

Trees == FamA \cup FamB \cup FamC \cup FamD \cup FamE

\* ------------------------------------------------------------------ hazard classes (labels for evidence and finding keys)
RECURSIVE SubTerms(_)
SubSeq2(s) == UNION {SubTerms(s[i]) : i \in DOMAIN s}
SubTerms(e) ==
    {e} \cup
    CASE e.k = "un" -> SubTerms(e.x)
      [] e.k = "bin" -> SubTerms(e.a) \cup SubTerms(e.b)
      [] e.k = "tern" -> SubTerms(e.c) \cup SubTerms(e.a) \cup SubTerms(e.b)
      [] e.k = "ds" -> SubSeq2(e.cases)
      [] e.k = "call" -> SubSeq2(e.args)
      [] OTHER -> {}
IsNaN(bits) == ClearSign(bits) > PlusInf
FirstTok(e) == Head(Toks(e))
Classes(t) ==
    LET s == SubTerms(t) IN
    (IF \E e \in s : e.k = "un" /\ e.op = "-" /\ e.x.k \in {"int", "float"} /\ IsNegLit(e.x) THEN {"minus-negative-literal"} ELSE {})
    \cup (IF \E e \in s : e.k = "un" /\ e.op = "-" /\ e.x.k = "xcr" /\ e.x.order = "pre" /\ e.x.op = "--" THEN {"minus-predecrement"} ELSE {})
    \cup (IF \E e \in s : e.k = "un" /\ e.op = "!" /\ e.x.k \notin {"un", "bin", "tern", "ds", "str", "hole"} /\ StartsWithDiffChar(FirstTok(e.x))
          THEN {"not-difficulty-char"} ELSE {})
    \cup (IF \E e \in s : e.k = "float" /\ IsNaN(e.bits) /\ e.bits # CanonicalNaN THEN {"nan-noncanonical"} ELSE {})
    \cup (IF \E e \in s : e.k = "int" /\ "fmt" \in DOMAIN e /\ e.fmt # "sDec" THEN {"int-hint"} ELSE {})
    \cup (IF \E e \in s : e.k \in {"int", "float"} /\ IsNegLit(e) THEN {"negative-literal"} ELSE {})
    \cup (IF HasParens(t) THEN {"model-parens"} ELSE {})
    \cup (IF HasGlue(t) THEN {"model-glue"} ELSE {})

Spellable(t) == LET ts == Toks(t) IN \A i \in 1..Len(ts) : ts[i].c # "leaf"

CaseOf(i, fam, t) ==
    [id |-> i, kind |-> "expr", fam |-> fam, e |-> t, cls |-> SetToSeq(Classes(t))]
    @@ (IF Spellable(t) THEN [toks |-> MinTokens(t)] ELSE <<>>)

\* ------------------------------------------------------------------ one state per tree
VARIABLE t
Init == t \in FamA \/ t \in FamB \/ t \in FamC \/ t \in FamD \/ t \in FamE
Next == UNCHANGED t
Spec == Init /\ [][Next]_t

\* the model printer is unambiguous: reading the minimal spelling gives the tree back (up to Norm)
RoundTrip == Norm(ParseModel(Toks(t))) = Norm(t)
\* Norm is a normal form
NormIdempotent == Norm(Norm(t)) = Norm(t)
\* parentheses are minimal in the sense that matters here: a tree without nested operators has none
NoSpuriousParens == (\A e \in SubTerms(t) \ {t} : e.k \notin {"un", "bin", "tern", "ds", "int", "float"}) => ~HasParens(t)
Inv == RoundTrip /\ NormIdempotent /\ NoSpuriousParens

\* each family is evaluated once here (definitions that depend on RECURSIVE operators are not cached)
\* (the families are pairwise disjoint: their leaves are named differently)
ASSUME LET sa == SetToSeq(FamA)  sb == SetToSeq(FamB)  sc == SetToSeq(FamC)  sd == SetToSeq(FamD)  se == SetToSeq(FamE)
           na == Len(sa)  nb == Len(sb)  nc == Len(sc)  nd == Len(sd)  ne == Len(se)
       IN
       /\ ndJsonSerialize(IOEnv.OUT,
              [i \in 1..na |-> CaseOf(i, "A", sa[i])]
              \o [i \in 1..nb |-> CaseOf(na + i, "B", sb[i])]
              \o [i \in 1..nc |-> CaseOf(na + nb + i, "C", sc[i])]
              \o [i \in 1..nd |-> CaseOf(na + nb + nc + i, "D", sd[i])]
              \o [i \in 1..ne |-> CaseOf(na + nb + nc + nd + i, "E", se[i])])
       /\ PrintT(<<"GEN", "Gen_ExprTrees", na + nb + nc + nd + ne, na, nb, nc, nd, ne>>)
=============================================================================
