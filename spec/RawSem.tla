------------------------------ MODULE RawSem ------------------------------
(***************************************************************************)
(* L1 on emitted instructions: the script machine on a decoded instruction *)
(* list.  An instruction is                                                *)
(*   [time, opcode, diff, off, args]                                       *)
(* with args a sequence of  [l, reg, v]  (l: signature letter "S" "f" "o"  *)
(* "t"; reg: TRUE when the parameter-mask bit says "register", then key is  *)
(* the register's name "r<number>"; otherwise v is the immediate: an int,  *)
(* or a float literal record for "f").  `off` = byte offset of the instr.  *)
(*                                                                         *)
(* `intr` maps ToString(opcode) to [kind, op, ty] for the opcodes that the *)
(* language configuration declares as intrinsics (the same declaration the *)
(* harness wrote into the mapfile); every other opcode is an observable    *)
(* call.  Intrinsic meanings are those of the syntax they stand for        *)
(* (`a = b`, `a = b + c`, `if (a < b) goto L @ t`, `if (--x) goto L @ t`,  *)
(* compare-then-jump with a hidden compare register).                      *)
(***************************************************************************)
EXTENDS ExprSem, TLC

RStart(regs0, fuel0) ==
    [pc |-> 1, time |-> 0, rt |-> 0, regs |-> regs0, cmp |-> <<>>, log |-> <<>>, st |-> "run", fuel |-> fuel0]

RSetReg(regs, id, v) == [x \in DOMAIN regs \cup {id} |-> IF x = id THEN v ELSE regs[x]]

\* value of an argument read through a slot of type l ("S" reads as int, "f" as float)
ArgVal(a, regs) ==
    IF a.reg THEN
        LET raw == IF a.key \in DOMAIN regs THEN regs[a.key] ELSE Opaque
        IN IF a.l = "f" THEN CastToFloat(raw) ELSE CastToInt(raw)
    ELSE IF a.l = "f" THEN LitFloat(a.v) ELSE IntV(a.v)

\* positional (non-jump) arguments, and the jump arguments
RECURSIVE PlainArgs(_, _)
PlainArgs(args, i) ==
    IF i > Len(args) THEN <<>>
    ELSE IF args[i].l \in {"o", "t"} THEN PlainArgs(args, i + 1)
    ELSE <<args[i]>> \o PlainArgs(args, i + 1)
JumpOff(args) == LET i == CHOOSE j \in 1..Len(args) : args[j].l = "o" IN args[i].v
HasTimeArg(args) == \E j \in 1..Len(args) : args[j].l = "t"
JumpTime(args) == LET i == CHOOSE j \in 1..Len(args) : args[j].l = "t" IN args[i].v

\* index of the instruction at byte offset o; Len+1 for the end of the script; 0 if no instruction starts there
IndexOfOffset(prog, endoff, o) ==
    IF o = endoff THEN Len(prog) + 1
    ELSE IF \E j \in 1..Len(prog) : prog[j].off = o THEN CHOOSE j \in 1..Len(prog) : prog[j].off = o
    ELSE 0

RDiscard(c) == [c EXCEPT !.st = "discard"]

\* `goto L @ t` encoded in the arguments; a jump without a time argument uses the time of its target
DoRawJump(prog, endoff, c, args) ==
    LET j == IndexOfOffset(prog, endoff, JumpOff(args))
    IN IF j = 0 THEN RDiscard(c)
       ELSE [c EXCEPT !.pc = j,
                      !.time = IF HasTimeArg(args) THEN JumpTime(args)
                               ELSE IF j <= Len(prog) THEN prog[j].time ELSE c.time]

CmpHolds(op, a, b) ==     \* a, b values of the same numeric type; returns value IntV(0/1) or Opaque
    BinOp(op, a, b)

RExec(prog, endoff, intr, countGt, c0, diff) ==
    LET ins == prog[c0.pc]
        w == IF c0.time < ins.time THEN ins.time - c0.time ELSE 0
        c == [c0 EXCEPT !.time = c0.time + w, !.rt = c0.rt + w]
        next == [c EXCEPT !.pc = c.pc + 1]
        maskBit == (ins.diff \div (2^diff)) % 2 = 1
        key == ToString(ins.opcode)
    IN
    IF ~maskBit THEN next
    ELSE IF key \notin DOMAIN intr THEN
        \* an observable call
        LET vals == [i \in 1..Len(ins.args) |-> ValueOut(ArgVal(ins.args[i], c.regs))]
        IN IF \E i \in 1..Len(vals) : vals[i].t \in {"undef", "opaque"} THEN RDiscard(c)
           ELSE [next EXCEPT !.log = Append(c.log, << c.rt, c.time, ins.opcode, vals >>)]
    ELSE
        LET k == intr[key]
            pa == PlainArgs(ins.args, 1)
        IN CASE k.kind = "Jmp" -> DoRawJump(prog, endoff, c, ins.args)
             [] k.kind = "Interrupt" -> next
             [] k.kind = "AssignOp" ->
                    IF ~pa[1].reg THEN RDiscard(c)
                    ELSE LET b == ArgVal(pa[2], c.regs)
                             v == IF k.op = "=" THEN b
                                  ELSE BinOp(k.op, ArgVal(pa[1], c.regs), b)
                         IN IF Bad(v) THEN RDiscard(c) ELSE [next EXCEPT !.regs = RSetReg(c.regs, pa[1].key, v)]
             [] k.kind = "BinOp" ->
                    IF ~pa[1].reg THEN RDiscard(c)
                    ELSE LET v == BinOp(k.op, ArgVal(pa[2], c.regs), ArgVal(pa[3], c.regs))
                         IN IF Bad(v) THEN RDiscard(c) ELSE [next EXCEPT !.regs = RSetReg(c.regs, pa[1].key, v)]
             [] k.kind = "UnOp" ->
                    IF ~pa[1].reg THEN RDiscard(c)
                    ELSE LET v == UnOp(k.op, ArgVal(pa[2], c.regs))
                         IN IF Bad(v) THEN RDiscard(c) ELSE [next EXCEPT !.regs = RSetReg(c.regs, pa[1].key, v)]
             [] k.kind = "CountJmp" ->
                    IF ~pa[1].reg THEN RDiscard(c)
                    ELSE LET old == ArgVal(pa[1], c.regs)
                         IN IF Bad(old) \/ ~IsInt(old) THEN RDiscard(c)
                            ELSE LET new == Sub(old.v, 1)
                                     c1 == [c EXCEPT !.regs = RSetReg(c.regs, pa[1].key, IntV(new))]
                                 IN IF (IF countGt THEN new > 0 ELSE new # 0)
                                    THEN DoRawJump(prog, endoff, c1, ins.args)
                                    ELSE [c1 EXCEPT !.pc = c.pc + 1]
             [] k.kind = "CondJmp" ->
                    LET r == CmpHolds(k.op, ArgVal(pa[1], c.regs), ArgVal(pa[2], c.regs))
                    IN IF Bad(r) \/ ~IsInt(r) THEN RDiscard(c)
                       ELSE IF Truthy(r) THEN DoRawJump(prog, endoff, c, ins.args) ELSE next
             [] k.kind = "DedicatedCmp" ->
                    LET a == ArgVal(pa[1], c.regs)  b == ArgVal(pa[2], c.regs)
                    IN IF Bad(a) \/ Bad(b) THEN RDiscard(c) ELSE [next EXCEPT !.cmp = <<a, b>>]
             [] k.kind = "DedicatedCmpJmp" ->
                    IF c.cmp = <<>> THEN RDiscard(c)
                    ELSE LET r == CmpHolds(k.op, c.cmp[1], c.cmp[2])
                         IN IF Bad(r) \/ ~IsInt(r) THEN RDiscard(c)
                            ELSE IF Truthy(r) THEN DoRawJump(prog, endoff, c, ins.args) ELSE next
             [] OTHER -> RDiscard(c)

RStep(prog, endoff, intr, countGt, c, diff) ==
    IF c.st # "run" THEN c
    ELSE IF c.fuel = 0 THEN [c EXCEPT !.st = "fuel"]
    ELSE LET c1 == [c EXCEPT !.fuel = c.fuel - 1]
         IN IF c1.pc > Len(prog) THEN [c1 EXCEPT !.st = "done"]
            ELSE RExec(prog, endoff, intr, countGt, c1, diff)
===========================================================================
