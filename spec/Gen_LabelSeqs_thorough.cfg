SPECIFICATION Spec
CONSTANTS
  Families = {"flat5", "nest1w", "nest2w"}
INVARIANT Inv
CHECK_DEADLOCK FALSE
