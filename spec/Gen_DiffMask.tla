---------------------------- MODULE Gen_DiffMask ----------------------------
(***************************************************************************)
(* C14 (a), Mode G.  Enumerates the family of flag-definition sets that    *)
(* are replayed into the real mapfile reader / Raiser / Lowerer, checks    *)
(* the in-model facts about DiffMask on every (definition set, mask) pair  *)
(* (one TLC state each) and writes the family as ndjson.                   *)
(***************************************************************************)
EXTENDS DiffMask, TLC, Json, IOUtils

CONSTANT Thorough

Def(b, n, on) == [bit |-> b, name |-> n, on |-> on]
\* all eight bits defined, bit b called names[b+1], default-on iff b \in O
Named(names, O) == << >> \o [k \in 1..8 |-> Def(k - 1, names[k], (k - 1) \in O)]
\* only the bits in N defined (ascending), the others keep their digit
Partial(names, N, O) == SelectSeq(Named(names, O), LAMBDA d : d.bit \in N)
Reverse(s) == << >> \o [k \in 1..Len(s) |-> s[Len(s) + 1 - k]]

Lower == << "a", "b", "c", "d", "e", "f", "g", "h" >>
Th08N == << "E", "N", "H", "L", "4", "F", "U", "7" >>
Mixed == << "E", "N", "H", "L", "X", "e", "n", "h" >>
Rot(k) == << >> \o [j \in 1..8 |-> DigitName[((j - 1 + k) % 8) + 1]]      \* bit b called digit (b+k) mod 8
RevDig == << "7", "6", "5", "4", "3", "2", "1", "0" >>
Odd == << "8", "9", "A", "Z", "z", "q", "0", "1" >>

Th06 == Named(<< "E", "N", "H", "L", "4", "5", "6", "7" >>, {})          \* map/th06.eclm, map/th07.eclm
Th08 == Named(Th08N, {4, 5, 6, 7})                                        \* map/th08.eclm
ENHL == << Def(0, "E", FALSE), Def(1, "N", FALSE), Def(2, "H", FALSE), Def(3, "L", FALSE) >>

F(fam, defs) == [fam |-> fam, defs |-> defs]

Core == <<
    F("builtin-digits", << >>),
    F("th06.eclm", Th06),
    F("th08.eclm", Th08),
    F("letters", Named(Lower, {})),
    F("letters", Named(Lower, Bits)),
    F("letters", Named(Lower, {0})),
    F("letters", Named(Lower, {7})),
    F("letters", Named(Lower, {1, 3, 5, 7})),
    F("letters", Named(Lower, {0, 1, 2, 3})),
    F("letters", Named(Lower, {2, 5})),
    F("mixed-case", Named(Mixed, {4, 6})),
    F("digits-rotated", Named(Rot(1), {4, 5, 6, 7})),
    F("digits-reversed", Named(RevDig, {0, 7})),
    F("digits-and-letters", Named(Odd, {1, 6})),
    F("partial", << Def(0, "E", FALSE), Def(5, "F", TRUE) >>),
    F("partial", << Def(1, "n", TRUE), Def(6, "u", TRUE) >>),
    F("partial", << Def(3, "x", TRUE) >>),
    F("redefined", << Def(0, "E", FALSE), Def(0, "A", TRUE) >>),
    F("digit-moved", << Def(0, "E", FALSE), Def(3, "0", FALSE) >>),
    F("descending-lines", Reverse(Th08)),
    \* ---- a name bound to two bits (DESIGN section 6, F7)
    F("duplicate-name", ENHL \o << Def(0, "N", FALSE) >>),
    F("duplicate-name", << Def(3, "5", FALSE) >>),
    F("duplicate-name", << Def(0, "a", TRUE), Def(4, "a", FALSE) >>)
>>

\* thorough: every default-on set under two alphabets, every set of defined bits, all rotations,
\* every pair of bits sharing a name
AllOn(names, fam) == << >> \o [k \in 1..256 |-> F(fam, Named(names, BitsOf(k - 1)))]
AllPartial(pat, fam) == << >> \o [k \in 1..256 |-> F(fam, Partial(Lower, BitsOf(k - 1), BitsOf(k - 1) \cap pat))]
AllRot == << >> \o [k \in 1..7 |-> F("digits-rotated", Named(Rot(k), {k - 1, 7}))]
PairAt(k) == LET a == (k - 1) \div 8  b == (k - 1) % 8 IN <<a, b>>
DupPairs == SelectSeq(<< >> \o [k \in 1..64 |-> PairAt(k)], LAMBDA p : p[1] < p[2])
AllDup == << >> \o [k \in 1..Len(DupPairs) |->
            F("duplicate-name", Named(Lower, {1, 6}) \o << Def(DupPairs[k][2], Lower[DupPairs[k][1] + 1], DupPairs[k][2] % 2 = 0) >>)]

DefSets == IF Thorough
           THEN Core \o AllOn(Lower, "letters") \o AllOn(Th08N, "th08-names") \o AllPartial({1, 3, 4, 6}, "partial")
                     \o AllPartial(Bits, "partial") \o AllRot \o AllDup
           ELSE Core

\* State graph: one root holding the whole family (TLC re-evaluates a definition like DefSets every
\* time it is mentioned in a state-level formula, so it is mentioned once, here); its successors are
\* one state per definition set holding that set's flag table; their successors one state per mask
\* byte.  The last two levels are explored -- and their invariants evaluated -- by all workers.
VARIABLES lvl, all, i, m, tab
vars == <<lvl, all, i, m, tab>>
Init == lvl = 0 /\ all = TLCGet(41) /\ i = 0 /\ m = -1 /\ tab = << >>
Next == \/ /\ lvl = 0 /\ lvl' = 1 /\ i' \in 1..Len(all) /\ tab' = TableOf(all[i'].defs) /\ all' = << >> /\ m' = -1
        \/ /\ lvl = 1 /\ lvl' = 2 /\ m' \in 0..255 /\ UNCHANGED <<all, i, tab>>
Spec == Init /\ [][Next]_vars

S == BitsOf(m)
Ok(mask) == [ok |-> TRUE, mask |-> mask]

\* ---- in-model facts (T = the flag table of definition set i)
ByteRoundTrip == ByteOf(S) = m /\ BitsOf(ByteOf(S)) = S
\* the label syntax can express every mask, for every well-formed definition set
PrintRoundTrip(T) == TLabelToMask(TPrintLabel(S, T), T) = Ok(S)
\* reading a printed label twice in a row changes nothing; an explicit leading `+` changes nothing
Idempotent(T) ==
    /\ TLabelToMask(TPrintLabel(S, T) \o << "+" >> \o TPrintLabel(S, T), T) = Ok(S)
    /\ TLabelToMask(<< "+" >> \o TPrintLabel(S, T), T) = Ok(S)
\* fixed points of the syntax (checked once per definition set, in its root state)
SyntaxFacts(T) ==
    /\ TLabelToMask(<< >>, T) = Ok(TDefaultOn(T))
    /\ TLabelToMask(<< "*" >>, T) = Ok(AllBits)
    /\ TLabelToMask(<< "-", "*" >>, T) = Ok({})
    /\ TLabelToMask(<< "-", "*", "+", "*" >>, T) = Ok(AllBits)
    /\ ~THasDuplicateName(T) => \A b \in Bits :
          /\ TLabelToMask(<< "-", "*", "+", DigitName[b + 1] >>, T).ok      \* digits are always available
          /\ TLabelToMask(<< "-", "*", "+", T[b + 1].name >>, T) = Ok({b})
          /\ TLabelToMask(<< "*", "-", T[b + 1].name >>, T) = Ok(AllBits \ {b})
\* with a duplicated name no printer of this shape can be inverted: some mask does not come back
DupIsFatal(T) == THasDuplicateName(T) =>
    \E mm \in 0..255 : TLabelToMask(TPrintLabel(BitsOf(mm), T), T) # Ok(BitsOf(mm))
Inv == CASE lvl = 0 -> TRUE
         [] lvl = 1 -> SyntaxFacts(tab) /\ DupIsFatal(tab)
         [] lvl = 2 -> /\ ByteRoundTrip
                       /\ ~THasDuplicateName(tab) => (PrintRoundTrip(tab) /\ (m % 17 = 0 => Idempotent(tab)))

ASSUME LET DS == DefSets IN
       /\ TLCSet(41, DS)           \* read once, by Init
       /\ ndJsonSerialize(IOEnv.OUT, << >> \o [k \in 1..Len(DS) |->
              [id |-> k, fam |-> DS[k].fam, defs |-> DS[k].defs, dup |-> HasDuplicateName(DS[k].defs)]])
       /\ PrintT(<<"GEN", "Gen_DiffMask", Len(DS)>>)
=============================================================================
