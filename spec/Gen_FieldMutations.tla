------------------------- MODULE Gen_FieldMutations -------------------------
(***************************************************************************)
(* C16 (c), Mode G half: TLC enumerates the (field class, storage width,   *)
(* boundary value) triples that the driver writes into every located field *)
(* instance of every seed binary.  The driver's layout walkers only say    *)
(* WHERE a field of which class and width is; WHAT is written comes from   *)
(* here.                                                                   *)
(*                                                                         *)
(* For a field stored in `w' bytes the values are, for every logical width *)
(* lw <= 8w in {8,16,32} and both signednesses, the boundary set           *)
(*     { min-1, min, -1, 0, 1, max, max+1, 2^lw }                          *)
(* reduced modulo 2^(8w) (a 32-bit slot that holds a count which the code  *)
(* narrows to u16 must also meet 65535 / 65536), as little-endian bytes.   *)
(* 32-bit values are kept as (hi, lo) 16-bit halves because TLC integers   *)
(* are 32-bit and trap on overflow.                                        *)
(*                                                                         *)
(* Besides absolute values there are *relative* rows (cur+1, cur-1, 2*cur, *)
(* cur/2, cur+4, cur-4, file length, file length +-1) for the classes that *)
(* are compared with other parts of the file (sizes, counts, offsets, jump *)
(* targets, dimensions): the driver evaluates them against the current     *)
(* field value / file length (pure arithmetic on the seed file).           *)
(* Special classes: IEEE bit patterns for float fields, lead/trail bytes   *)
(* for string bytes, small enumerations for format numbers, magic bytes.   *)
(***************************************************************************)
EXTENDS Integers, Sequences, FiniteSets, TLC, Json, IOUtils

Pow2(n) == 2 ^ n     \* n <= 16 only

\* boundary values of a logical width lw in {8, 16}, as integers
Boundary(lw, signed) ==
    LET mn == IF signed THEN -Pow2(lw - 1) ELSE 0
        mx == IF signed THEN Pow2(lw - 1) - 1 ELSE Pow2(lw) - 1
    IN << [n |-> "min-1", v |-> mn - 1], [n |-> "min", v |-> mn], [n |-> "-1", v |-> -1], [n |-> "0", v |-> 0],
          [n |-> "1", v |-> 1], [n |-> "max", v |-> mx], [n |-> "max+1", v |-> mx + 1], [n |-> "2^w", v |-> Pow2(lw)] >>

\* a small integer (|v| <= 65536) as the (hi, lo) halves of its 32-bit two's complement pattern
Halves(v) == IF v >= 0 THEN <<v \div 65536, v % 65536>>
             ELSE <<65535, (v + 65536) % 65536>>          \* -65536 <= v < 0

\* boundary values of logical width 32 as (hi, lo) halves (wrapping at 2^32 where they do not fit)
Boundary32(signed) ==
    IF signed
    THEN << [n |-> "min-1", h |-> <<32767, 65535>>], [n |-> "min", h |-> <<32768, 0>>], [n |-> "-1", h |-> <<65535, 65535>>],
            [n |-> "0", h |-> <<0, 0>>], [n |-> "1", h |-> <<0, 1>>], [n |-> "max", h |-> <<32767, 65535>>],
            [n |-> "max+1", h |-> <<32768, 0>>], [n |-> "2^w", h |-> <<0, 0>>] >>
    ELSE << [n |-> "min-1", h |-> <<65535, 65535>>], [n |-> "min", h |-> <<0, 0>>], [n |-> "-1", h |-> <<65535, 65535>>],
            [n |-> "0", h |-> <<0, 0>>], [n |-> "1", h |-> <<0, 1>>], [n |-> "max", h |-> <<65535, 65535>>],
            [n |-> "max+1", h |-> <<0, 0>>], [n |-> "2^w", h |-> <<0, 0>>] >>

\* little-endian bytes of the low `w' bytes of a pattern given as halves
BytesOf(h, w) ==
    LET all == <<h[2] % 256, h[2] \div 256, h[1] % 256, h[1] \div 256>>
    IN SubSeq(all, 1, w)

Sg(signed) == IF signed THEN "s" ELSE "u"
Str(lw) == CASE lw = 8 -> "8" [] lw = 16 -> "16" [] lw = 32 -> "32"

\* all absolute integer rows for storage width w (bytes)
IntValues(w) ==
    LET small(lw) == [k \in 1..16 |->
            LET signed == k <= 8
                b == Boundary(lw, signed)[((k - 1) % 8) + 1]
            IN [name |-> Sg(signed) \o Str(lw) \o ":" \o b.n, bytes |-> BytesOf(Halves(b.v), w)]]
        wide == [k \in 1..16 |->
            LET signed == k <= 8
                b == Boundary32(signed)[((k - 1) % 8) + 1]
            IN [name |-> Sg(signed) \o "32:" \o b.n, bytes |-> BytesOf(b.h, w)]]
    IN CASE w = 1 -> small(8)
         [] w = 2 -> small(8) \o small(16)
         [] w = 4 -> small(8) \o small(16) \o wide

\* field classes located by the driver's walkers, with the storage widths in which they occur
IntClasses == << [c |-> "size", ws |-> {1, 2, 4}], [c |-> "count", ws |-> {2, 4}], [c |-> "offset", ws |-> {4}],
                 [c |-> "jump_target", ws |-> {4}], [c |-> "jump_time", ws |-> {4}], [c |-> "time", ws |-> {2, 4}],
                 [c |-> "opcode", ws |-> {1, 2}], [c |-> "register", ws |-> {4}], [c |-> "int_arg", ws |-> {1, 2, 4}],
                 [c |-> "mask", ws |-> {1, 2}], [c |-> "id", ws |-> {2, 4}], [c |-> "dim", ws |-> {2, 4}],
                 [c |-> "format", ws |-> {2, 4}], [c |-> "version", ws |-> {4}], [c |-> "flag", ws |-> {1, 2, 4}],
                 [c |-> "difficulty", ws |-> {1}], [c |-> "pad", ws |-> {1, 2, 4}], [c |-> "strlen", ws |-> {4}] >>

Relative == {"size", "count", "offset", "jump_target", "dim", "strlen", "time", "jump_time"}
RelOps == <<"cur+1", "cur-1", "cur*2", "cur/2", "cur+4", "cur-4", "filelen", "filelen-1", "filelen+1", "filelen-cur", "cur+filelen">>

FloatPatterns == << [name |-> "f32:+0", bytes |-> <<0, 0, 0, 0>>], [name |-> "f32:-0", bytes |-> <<0, 0, 0, 128>>],
                    [name |-> "f32:+inf", bytes |-> <<0, 0, 128, 127>>], [name |-> "f32:-inf", bytes |-> <<0, 0, 128, 255>>],
                    [name |-> "f32:qnan", bytes |-> <<0, 0, 192, 127>>], [name |-> "f32:snan", bytes |-> <<1, 0, 128, 127>>],
                    [name |-> "f32:nan-payload", bytes |-> <<255, 255, 255, 255>>], [name |-> "f32:denormal", bytes |-> <<1, 0, 0, 0>>],
                    [name |-> "f32:max", bytes |-> <<255, 255, 127, 127>>], [name |-> "f32:-max", bytes |-> <<255, 255, 127, 255>>],
                    [name |-> "f32:2^31", bytes |-> <<0, 0, 0, 79>>], [name |-> "f32:-2^31-", bytes |-> <<1, 0, 0, 207>>],
                    [name |-> "f32:1e10", bytes |-> <<249, 2, 21, 80>>], [name |-> "f32:tiny", bytes |-> <<0, 0, 128, 0>>] >>

StringBytes == << 0, 1, 9, 10, 13, 34, 92, 127, 128, 129, 160, 223, 224, 239, 252, 253, 255 >>
FormatNumbers == << 0, 1, 2, 3, 4, 5, 6, 7, 8, 9, 10, 11, 255, 256, 65535 >>

Rows ==
    LET ints == [i \in 1..Len(IntClasses) |-> IntClasses[i]]
        absRows(c, w) == [k \in 1..Len(IntValues(w)) |->
            [class |-> c, width |-> w, kind |-> "abs", name |-> IntValues(w)[k].name, bytes |-> IntValues(w)[k].bytes]]
        relRows(c, w) == IF c \in Relative
                         THEN [k \in 1..Len(RelOps) |-> [class |-> c, width |-> w, kind |-> "rel", name |-> RelOps[k], bytes |-> <<>>]]
                         ELSE <<>>
        perClass(r) == LET ws == r.ws IN
            (IF 1 \in ws THEN absRows(r.c, 1) \o relRows(r.c, 1) ELSE <<>>)
            \o (IF 2 \in ws THEN absRows(r.c, 2) \o relRows(r.c, 2) ELSE <<>>)
            \o (IF 4 \in ws THEN absRows(r.c, 4) \o relRows(r.c, 4) ELSE <<>>)
        RECURSIVE cat(_)
        cat(i) == IF i > Len(ints) THEN <<>> ELSE perClass(ints[i]) \o cat(i + 1)
    IN cat(1)
       \o [k \in 1..Len(FloatPatterns) |-> [class |-> "float", width |-> 4, kind |-> "abs", name |-> FloatPatterns[k].name, bytes |-> FloatPatterns[k].bytes]]
       \o [k \in 1..Len(StringBytes) |-> [class |-> "string_byte", width |-> 1, kind |-> "abs", name |-> "byte", bytes |-> <<StringBytes[k]>>]]
       \o [k \in 1..Len(FormatNumbers) |-> [class |-> "format", width |-> 2, kind |-> "abs", name |-> "format-number",
                                             bytes |-> <<FormatNumbers[k] % 256, FormatNumbers[k] \div 256>>]]
       \o << [class |-> "magic", width |-> 4, kind |-> "abs", name |-> "zero", bytes |-> <<0, 0, 0, 0>>],
             [class |-> "magic", width |-> 4, kind |-> "abs", name |-> "ones", bytes |-> <<255, 255, 255, 255>>],
             [class |-> "magic", width |-> 4, kind |-> "rel", name |-> "cur+1", bytes |-> <<>>],
             [class |-> "magic", width |-> 4, kind |-> "rel", name |-> "swapcase", bytes |-> <<>>] >>

ASSUME TLCSet(64, <<>> \o Rows)
R == TLCGet(64)
N == Len(R)

VARIABLE idx
Init == idx \in 1..N
Next == UNCHANGED idx
Spec == Init /\ [][Next]_idx

\* ---- in-model facts, checked on every row
WellFormed ==
    LET r == R[idx] IN
    /\ r.width \in {1, 2, 4}
    /\ (r.kind = "abs") => (Len(r.bytes) = r.width /\ \A i \in 1..r.width : r.bytes[i] \in 0..255)
    /\ (r.kind = "rel") => r.bytes = <<>>

\* decoding the low bytes gives back the value modulo 2^(8w)  (checked where TLC's integers suffice: w <= 2)
Decode(bytes) == IF Len(bytes) = 1 THEN bytes[1] ELSE bytes[1] + 256 * bytes[2]
RoundTrip ==
    \A lw \in {8, 16} : \A signed \in BOOLEAN : \A k \in 1..8 : \A w \in {1, 2} :
        LET v == Boundary(lw, signed)[k].v IN
        Decode(BytesOf(Halves(v), w)) = v % Pow2(8 * w)

\* every class/width pair that the walkers may report meets the extreme patterns of its width
Extremes ==
    \A i \in 1..Len(IntClasses) : \A w \in IntClasses[i].ws :
        LET bs == {R[k].bytes : k \in {k \in 1..N : R[k].class = IntClasses[i].c /\ R[k].width = w /\ R[k].kind = "abs"}} IN
        /\ [j \in 1..w |-> 0] \in bs
        /\ [j \in 1..w |-> 255] \in bs
        /\ [j \in 1..w |-> IF j = w THEN 128 ELSE 0] \in bs     \* sign bit alone (signed min)
        /\ [j \in 1..w |-> IF j = w THEN 127 ELSE 255] \in bs   \* signed max
        /\ [j \in 1..w |-> IF j = 1 THEN 1 ELSE 0] \in bs

Inv == WellFormed
ASSUME RoundTrip
ASSUME Extremes

ASSUME ndJsonSerialize(IOEnv.OUT, [i \in 1..N |-> R[i]])
ASSUME PrintT(<<"GEN", "Gen_FieldMutations", N>>)
=============================================================================
