SPECIFICATION Spec
CONSTANTS
  NPaths = 3
  MaxDest = 3
  MaxSrcs = 2
  MaxAnmLen = 3
INVARIANT StepInv
INVARIANT Property
INVARIANT Export
CHECK_DEADLOCK FALSE
