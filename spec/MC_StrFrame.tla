---------------------------- MODULE MC_StrFrame ----------------------------
(***************************************************************************)
(* C15 in-model, part 1: consecutive string arguments as a state machine.  *)
(* The state is what a MSG script writer carries from one instruction to   *)
(* the next: the block left behind by the last furigana line.  TLC         *)
(* explores every sequence of <= MaxSteps strings over SeqSpecs x          *)
(* SeqPayloads and checks, in every reachable state, that every block      *)
(* written so far reads back as its text and that the carried block is     *)
(* exactly "the last furibug string, if it was a furigana line".           *)
(*                                                                         *)
(* The ASSUMEs pin the transcription to the bundled game-format samples    *)
(* (tests/integration/bits-2-bits/th1{1,2,7}-*.msg) and to the closed form *)
(* of the accelerating mask.                                               *)
(***************************************************************************)
EXTENDS StrFrame, TLC
CONSTANT Deep      \* FALSE: 5 sequence payloads (quick), TRUE: 8

MsgMask == <<119, 7, 16>>          \* 0x77, 7, 16 : TH11+ MSG text
Th12 == StrSpec("block", 4, FALSE, MsgMask, TRUE)
Th11 == StrSpec("block", 4, FALSE, MsgMask, FALSE)

\* ---- test vectors: argument bytes of ins_17 in the bundled files ----
Furi == <<124, 52, 44, 57, 44, 97, 98, 99, 100, 101, 102, 103, 104, 105, 106, 107, 108, 109, 110>>  \* "|4,9,abcdefghijklmn"
T12 == <<65, 66, 67, 68, 95, 69, 70, 71, 72, 73, 74, 75>>                  \* "ABCD_EFGHIJK"
T15 == <<65, 66, 67, 68, 95, 69, 70, 71, 72, 73, 74, 75, 76, 77, 78>>      \* "ABCD_EFGHIJKLMN"
FuriBlock == <<11, 74, 185, 133, 223, 91, 243, 155, 11, 147, 235, 83, 131, 219, 227, 27, 11, 3, 235, 172>>
Th12Second == <<54, 60, 214, 248, 172, 127, 215, 191, 39, 191, 199, 127, 235, 185, 195, 201, 226, 177, 222, 95,
                120, 33, 18, 3, 12, 101, 166, 199, 192, 169, 122, 139, 251, 94, 117, 156>>
Clean12 == <<54, 60, 214, 248, 172, 127, 215, 191, 39, 191, 199, 127, 235, 178, 137, 112>>
Th17Second == <<54, 60, 214, 248, 172, 127, 215, 191, 39, 191, 199, 127, 167, 255, 199, 112, 108, 36, 60, 41,
                60, 113, 114, 115, 84, 117, 150, 119, 88, 121, 154, 123, 92, 93, 158, 48>>
Clean15 == <<54, 60, 214, 248, 172, 127, 215, 191, 39, 191, 199, 127, 167, 255, 199, 112>>

\* th12-furibug.msg : furigana line, then the same text twice
ASSUME LET a == EncodeStr(Th12, Furi, NoCarry)
           b == EncodeStr(Th12, T12, a.carry)
           c == EncodeStr(Th12, T12, b.carry)
       IN /\ a.ok /\ b.ok /\ c.ok
          /\ a.bytes = FuriBlock /\ b.bytes = Th12Second /\ c.bytes = Clean12
          /\ c.carry = NoCarry
\* th17-furibug-ex-regression.msg : text + NUL is already a multiple of 4
ASSUME LET a == EncodeStr(Th12, Furi, NoCarry)
           b == EncodeStr(Th12, T15, a.carry)
           c == EncodeStr(Th12, T15, b.carry)
       IN a.bytes = FuriBlock /\ b.bytes = Th17Second /\ c.bytes = Clean15
\* th11-furibug-not-applicable.msg : same texts, no quirk
ASSUME LET a == EncodeStr(Th11, Furi, NoCarry)
           b == EncodeStr(Th11, T12, a.carry)
       IN a.bytes = FuriBlock /\ b.bytes = Clean12 /\ b.carry = NoCarry
\* doc/syntax.md: "every byte XORed with 0x77" (TH08 MSG, constant mask)
ASSUME XorMask(<<65, 66, 0, 0>>, <<119, 0, 0>>) = <<54, 53, 119, 119>>
\* tests/integration/strings.rs: z(len=8) / z(len=8;nulless)
ASSUME LET f == StrSpec("fixed", 8, FALSE, <<0, 0, 0>>, FALSE)
           g == StrSpec("fixed", 8, TRUE, <<0, 0, 0>>, FALSE)
           s8 == <<97, 98, 99, 100, 101, 102, 103, 104>>
       IN /\ ~EncodeStr(f, s8, NoCarry).ok
          /\ EncodeStr(g, s8, NoCarry).ok /\ EncodeStr(g, s8, NoCarry).bytes = s8
          /\ ~EncodeStr(g, s8 \o <<105>>, NoCarry).ok
          /\ EncodeStr(f, <<97, 98, 99>>, NoCarry).bytes = <<97, 98, 99, 0, 0, 0, 0, 0>>

\* the accelerating stream has the closed form m + i v + a i(i-1)/2 (mod 256), for every mask
\* used anywhere in the checks and for a sweep over all (v, a) pairs of a coarse grid
MaskGrid == {0, 1, 7, 16, 119, 128, 255}
ASSUME \A m \in MaskGrid, v \in MaskGrid, a \in MaskGrid :
    LET s == MaskStream(m, v, a, 40) IN \A i \in 1..40 : s[i] = MaskAt(m, v, a, i - 1)
ASSUME MaskStream(119, 7, 16, 4) = <<119, 126, 149, 188>>
\* XOR masking is an involution on every block
ASSUME \A m \in MaskGrid, v \in {0, 7}, a \in {0, 16} :
    LET b == <<0, 65, 124, 255, 119, 126, 1>> IN XorMask(XorMask(b, <<m, v, a>>), <<m, v, a>>) = b

\* ------------------------------------------------------------------------
\* the state machine
MaxSteps == 3
SeqSpecs == << Th12,                                                   \* the MSG signature
               Th11,                                                   \* same framing, no quirk
               StrSpec("block", 1, FALSE, <<0, 0, 0>>, TRUE),          \* quirk without padding/mask
               StrSpec("block", 16, FALSE, <<65, 0, 0>>, TRUE) >>      \* mask byte = 'A' : masked zeros
SeqPayloadsDeep == << <<>>, <<124>>, <<124, 65, 66>>, <<65, 66, 67>>, <<119, 126, 65, 65>>,
                      <<65>>, <<65, 124, 66>>, <<124, 119, 126, 65, 66, 67, 68>> >>
SeqPayloads == IF Deep THEN SeqPayloadsDeep ELSE SubSeq(SeqPayloadsDeep, 1, 5)

VARIABLES steps,    \* <<[sp, payload]>> : the strings written so far
          carry,    \* block left behind by the last furigana line
          outs      \* the blocks written
vars == <<steps, carry, outs>>

Init == steps = <<>> /\ carry = NoCarry /\ outs = <<>>

Write(sp, p) ==
    LET r == EncodeStr(sp, p, carry)
    IN /\ r.ok
       /\ steps' = Append(steps, [sp |-> sp, payload |-> p])
       /\ outs' = Append(outs, r.bytes)
       /\ carry' = r.carry

Next == /\ Len(steps) < MaxSteps
        /\ \E i \in 1..Len(SeqSpecs), j \in 1..Len(SeqPayloads) : Write(SeqSpecs[i], SeqPayloads[j])
Spec == Init /\ [][Next]_vars

\* every block reads back as the text it was written for
ReadBack == \A k \in 1..Len(steps) : DecodeStr(steps[k].sp, outs[k]) = steps[k].payload

\* block sizes: a multiple of bs, and no larger than text + NUL + carried block rounded up
Sized == \A k \in 1..Len(steps) :
    LET bs == steps[k].sp.n IN
    /\ Len(outs[k]) % bs = 0
    /\ Len(outs[k]) >= Len(steps[k].payload) + 1

\* index of the last furibug string written, 0 if none
RECURSIVE LastFuribug(_)
LastFuribug(k) == IF k = 0 THEN 0 ELSE IF steps[k].sp.furibug THEN k ELSE LastFuribug(k - 1)

\* the carried block is exactly the last furibug string's block if that was a furigana line, else nothing
CarryIsLastFurigana ==
    LET k == LastFuribug(Len(steps))
    IN carry = IF k > 0 /\ IsFurigana(steps[k].payload) THEN outs[k] ELSE NoCarry

\* a block is longer than "text + NUL rounded up" exactly when the string has the quirk and the
\* previous furibug string was a furigana line (the carry is used exactly once)
QuirkOnlyAfterFurigana == \A k \in 1..Len(steps) :
    LET sp == steps[k].sp
        clean == RoundUp(Len(steps[k].payload) + 1, sp.n)
        j == LastFuribug(k - 1)
        dirty == sp.furibug /\ j > 0 /\ IsFurigana(steps[j].payload)
    IN /\ (~dirty => (Len(outs[k]) = clean /\ outs[k] = EncodeStr(sp, steps[k].payload, NoCarry).bytes))
       /\ (dirty => Len(outs[k]) = RoundUp(Len(steps[k].payload) + 1 + Len(outs[j]), sp.n))

Inv == ReadBack /\ Sized /\ CarryIsLastFurigana /\ QuirkOnlyAfterFurigana
=============================================================================
