SPECIFICATION Spec
CONSTANT MaxLen = 4
INVARIANT Inv
POSTCONDITION Post
CHECK_DEADLOCK FALSE
