----------------------------- MODULE ExprSem -----------------------------
(***************************************************************************)
(* Evaluation of truth expressions (the JSON interchange form, see         *)
(* DESIGN.md section 3) to values, written from doc/syntax.md and the      *)
(* statement of C11: 32-bit wrapping ints, truncating division and casts,  *)
(* shift counts modulo 32, >> arithmetic / >>> logical, IEEE single        *)
(* floats (F32.tla envelope), C-style logical operators.                   *)
(*                                                                         *)
(* Values:  [t |-> "i", v |-> n]   F32 float records (t = "f")             *)
(*          [t |-> "s", v |-> str] Undef (no defined value: x/0, x%0)      *)
(*          Opaque (outside what this specification decides)               *)
(***************************************************************************)
EXTENDS I32, F32, Sequences

IntV(n) == [t |-> "i", v |-> n]
StrV(s) == [t |-> "s", v |-> s]
Undef  == [t |-> "undef"]
Opaque == [t |-> "opaque"]

IsInt(x) == x.t = "i"
IsFloat(x) == x.t = "f"
Bad(x) == x.t \in {"undef", "opaque"}
ChkF(f) == IF f.c = "opaque" THEN Opaque ELSE f
TypeTag(x) == x.t

\* poison propagation: Undef dominates Opaque (an undefined operand makes the whole thing undefined)
Poison(a, b) == IF a.t = "undef" \/ b.t = "undef" THEN Undef ELSE Opaque

LitFloat(e) ==
    CASE e.cls = "fin" -> Fin(e.n, e.s)
      [] e.cls = "zero" -> FZero
      [] e.cls = "nzero" -> FNZero
      [] e.cls = "inf" -> FInf
      [] e.cls = "ninf" -> FNInf
      [] e.cls = "nan" -> FNaN
      [] OTHER -> Opaque

Truthy(x) == x.v # 0

IntBin(op, a, b) ==
    CASE op = "+" -> IntV(Add(a, b))
      [] op = "-" -> IntV(Sub(a, b))
      [] op = "*" -> IntV(Mul(a, b))
      [] op = "/" -> IF b = 0 THEN Undef ELSE IntV(DivT(a, b))
      [] op = "%" -> IF b = 0 THEN Undef ELSE IntV(RemT(a, b))
      [] op = "==" -> IntV(BoolI(a = b))
      [] op = "!=" -> IntV(BoolI(a # b))
      [] op = "<" -> IntV(BoolI(a < b))
      [] op = "<=" -> IntV(BoolI(a <= b))
      [] op = ">" -> IntV(BoolI(a > b))
      [] op = ">=" -> IntV(BoolI(a >= b))
      [] op = "|" -> IntV(BOr(a, b))
      [] op = "^" -> IntV(BXor(a, b))
      [] op = "&" -> IntV(BAnd(a, b))
      [] op = "||" -> IntV(BoolI(a # 0 \/ b # 0))      \* C-style: 0 or 1
      [] op = "&&" -> IntV(BoolI(a # 0 /\ b # 0))
      [] op = "<<" -> IntV(Shl(a, b))
      [] op = ">>" -> IntV(ShrA(a, b))
      [] op = ">>>" -> IntV(ShrL(a, b))
      [] OTHER -> Opaque

FloatBin(op, a, b) ==
    IF op \in {"+", "-", "*", "/", "%"} THEN
        ChkF(CASE op = "+" -> FAdd(a, b) [] op = "-" -> FSub(a, b) [] op = "*" -> FMul(a, b)
               [] op = "/" -> FDiv(a, b) [] op = "%" -> FRem(a, b))
    ELSE IF op \in {"==", "!=", "<", "<=", ">", ">="} THEN
        IF ~CmpDecidable(a, b) THEN Opaque
        ELSE IntV(BoolI(CASE op = "==" -> FEq(a, b) [] op = "!=" -> FNe(a, b) [] op = "<" -> FLt(a, b)
                          [] op = "<=" -> FLe(a, b) [] op = ">" -> FGt(a, b) [] op = ">=" -> FGe(a, b)))
    ELSE Opaque

BinOp(op, a, b) ==
    IF Bad(a) \/ Bad(b) THEN Poison(a, b)
    ELSE IF IsInt(a) /\ IsInt(b) THEN IntBin(op, a.v, b.v)
    ELSE IF IsFloat(a) /\ IsFloat(b) THEN FloatBin(op, a, b)
    ELSE Opaque          \* ill-typed: not the evaluator's business

CastToInt(x) ==
    IF Bad(x) THEN x
    ELSE IF IsInt(x) THEN x
    ELSE IF IsFloat(x) THEN (IF FloatToIntDecidable(x) THEN IntV(FloatToInt(x)) ELSE Opaque)
    ELSE Opaque
CastToFloat(x) ==
    IF Bad(x) THEN x
    ELSE IF IsFloat(x) THEN x
    ELSE IF IsInt(x) THEN ChkF(IntToF(x.v))
    ELSE Opaque

UnOp(op, x) ==
    IF Bad(x) THEN x
    ELSE CASE op = "-" -> (IF IsInt(x) THEN IntV(Neg(x.v)) ELSE IF IsFloat(x) THEN ChkF(FNeg(x)) ELSE Opaque)
           [] op = "!" -> (IF IsInt(x) THEN IntV(BoolI(x.v = 0)) ELSE Opaque)
           [] op = "~" -> (IF IsInt(x) THEN IntV(BNot(x.v)) ELSE Opaque)
           [] op \in {"int", "$"} -> CastToInt(x)
           [] op \in {"float", "%"} -> CastToFloat(x)
           [] OTHER -> Opaque           \* sin cos tan asin acos atan sqrt: not decided

\* reading a variable through a sigil performs a cast ("I0 = $F0 performs a truncating cast")
ReadVar(var, env) ==
    LET raw == IF var.id \in DOMAIN env THEN env[var.id] ELSE Opaque
    IN CASE var.sig = "$" -> CastToInt(raw)
         [] var.sig = "%" -> CastToFloat(raw)
         [] OTHER -> raw

\* difficulty switch (a:b::d): the nearest explicit case at or below the difficulty
RECURSIVE SelectCase(_, _)
SelectCase(cases, i) == IF cases[i].k = "hole" THEN SelectCase(cases, i - 1) ELSE cases[i]

RECURSIVE Eval(_, _, _)
Eval(e, env, diff) ==
    CASE e.k = "int" -> IntV(e.v)
      [] e.k = "float" -> LitFloat(e)
      [] e.k = "str" -> StrV(e.v)
      [] e.k = "var" -> ReadVar(e, env)
      [] e.k = "bin" -> BinOp(e.op, Eval(e.a, env, diff), Eval(e.b, env, diff))
      [] e.k = "un" -> UnOp(e.op, Eval(e.x, env, diff))
      [] e.k = "tern" ->
            LET c == Eval(e.c, env, diff)
            IN IF Bad(c) THEN c
               ELSE IF ~IsInt(c) THEN Opaque
               ELSE IF Truthy(c) THEN Eval(e.a, env, diff) ELSE Eval(e.b, env, diff)
      [] e.k = "ds" ->
            IF diff + 1 > Len(e.cases) THEN Opaque
            ELSE Eval(SelectCase(e.cases, diff + 1), env, diff)
      [] OTHER -> Opaque

EmptyEnv == [x \in {} |-> Undef]
\* compile-time evaluation of an expression with constant leaves
ConstEval(e) == Eval(e, EmptyEnv, 0)

\* canonical JSON-able rendering of a value (for generators / comparison with the implementation)
ValueOut(x) ==
    CASE x.t = "i" -> [t |-> "i", v |-> x.v]
      [] x.t = "f" -> [t |-> "f", c |-> x.c, n |-> x.n, s |-> x.s]
      [] x.t = "s" -> [t |-> "s", v |-> x.v]
      [] OTHER -> [t |-> x.t]
==========================================================================
