---------------------------- MODULE Obs_StrFrame ----------------------------
(***************************************************************************)
(* C15, observations of the real write path judged by the specification.   *)
(* The harness compiled scripts of consecutive string instructions whose   *)
(* texts come from the Shift-JIS repertoire sweep; each row carries the     *)
(* string encodings, the texts as bytes (trusted Shift-JIS table of the    *)
(* driver: characters on which Python's shift_jis and cp932 codecs agree), *)
(* and what the real compiler did: the argument blobs, or an error.        *)
(* One TLC state per row; the invariant demands that the real compiler     *)
(* wrote exactly the blocks StrFrame specifies (hence also: the same       *)
(* Shift-JIS bytes), and failed exactly when a text does not fit.          *)
(***************************************************************************)
EXTENDS StrFrame, TLC, Json, IOUtils

\* parked in a TLC register (run with -workers 1): read the file once
ASSUME TLCSet(41, ndJsonDeserialize(IOEnv.ROWS))
Rows == TLCGet(41)
\* row = [id, steps |-> <<[kind, n, nulless, mask, furibug, payload]>>, ok |-> BOOLEAN, blobs |-> <<bytes>>]

Steps(r) == <<>> \o [k \in 1..Len(r.steps) |->
    [sp |-> StrSpec(r.steps[k].kind, r.steps[k].n, r.steps[k].nulless, r.steps[k].mask, r.steps[k].furibug),
     payload |-> r.steps[k].payload]]

VARIABLE i
Init == i \in 1..Len(Rows)
Next == UNCHANGED i
Spec == Init /\ [][Next]_i

Conforms ==
    LET r == Rows[i]
        rs == RunSeq(Steps(r), 1, NoCarry)
        fits == \A k \in 1..Len(rs) : rs[k].ok
    IN /\ r.ok <=> fits
       /\ r.ok => \A k \in 1..Len(rs) : r.blobs[k] = rs[k].bytes
ASSUME PrintT(<<"OBS", "Obs_StrFrame", Len(Rows)>>)
=============================================================================
