SPECIFICATION Spec
CONSTANTS
  CountGt = TRUE
  MaxLen = 5
  CheckAll = TRUE
  MaxDepth = 3
INVARIANT DocumentedDesugaringAgrees
POSTCONDITION Post
CHECK_DEADLOCK FALSE
