SPECIFICATION Spec
CONSTANTS
  MaxItems = 2
  MaxBlocks = 2
  MaxDepth = 2
  Small = TRUE
INVARIANT Inv
CHECK_DEADLOCK FALSE
