------------------------------ MODULE DiffMask ------------------------------
(***************************************************************************)
(* C14 (a): difficulty masks, flag definitions and the label syntax.       *)
(*                                                                         *)
(* Sources (documentation, not the code under test):                       *)
(*  - CHANGELOG.md "Difficulty flags.  {"ENH"}: ins_10();" and             *)
(*    "Difficulty flag names. (!difficulty_flags)";                        *)
(*  - the prepackaged map/th06.eclm .. th08.eclm `!difficulty_flags`       *)
(*    sections: one line `<bit> <name><+|->` per flag, `+` = the flag is   *)
(*    enabled by default (th08: `4+ F+ U+ 7+`), and the diagnostic text    *)
(*    "the definition must consist of a ASCII alphanumeric character and   *)
(*    a +/- (+ means enabled by default)";                                 *)
(*  - tests/integration/difficulty.rs: {"ENH"} = 0b111, {"HL"} = 0b1100    *)
(*    (th06 names), and with the th08 style flags {"*-F"} = 0b1101_1111,   *)
(*    {"EN-F"} / {"HL-F"}, and no label = 0xFF.                            *)
(*                                                                         *)
(* A mask is a set of bits 0..7 (ByteOf/BitsOf convert to the byte in the  *)
(* file).  The digit names "0".."7" are always predefined for bits 0..7.   *)
(***************************************************************************)
EXTENDS Integers, Sequences, FiniteSets

Bits == 0..7
DigitName == << "0", "1", "2", "3", "4", "5", "6", "7" >>
Pow2 == << 1, 2, 4, 8, 16, 32, 64, 128 >>

BitsOf(m) == {b \in Bits : (m \div Pow2[b + 1]) % 2 = 1}
Bit(S, b) == IF b \in S THEN Pow2[b + 1] ELSE 0
ByteOf(S) == Bit(S, 0) + Bit(S, 1) + Bit(S, 2) + Bit(S, 3) + Bit(S, 4) + Bit(S, 5) + Bit(S, 6) + Bit(S, 7)

(***************************************************************************)
(* Flag definitions: the lines of the `!difficulty_flags` sections in the  *)
(* order they are read, defs = << [bit |-> 0..7, name |-> "E", on |-> BOOLEAN] >>, *)
(* on top of the built-in table (bit b is called DigitName[b+1], off by    *)
(* default).  A later line for the same bit replaces the earlier one.      *)
(***************************************************************************)
LinesFor(defs, b) == {i \in 1..Len(defs) : defs[i].bit = b}
\* the resulting flag table, bit b at position b+1: [name, on].  The operators below take the table
\* so that reading a label does not rescan the definition lines for every character.
TableOf(defs) ==
    << >> \o [k \in 1..8 |->
        LET lines == LinesFor(defs, k - 1) IN
        IF lines = {} THEN [name |-> DigitName[k], on |-> FALSE]
        ELSE LET last == CHOOSE i \in lines : \A j \in lines : j <= i
             IN [name |-> defs[last].name, on |-> defs[last].on]]
NameOf(defs, b) == TableOf(defs)[b + 1].name
OnOf(defs, b) == TableOf(defs)[b + 1].on

TDefaultOn(tab) == {b \in Bits : tab[b + 1].on}
DefaultOn(defs) == TDefaultOn(TableOf(defs))         \* "aux" flags
DiffBits(defs) == Bits \ DefaultOn(defs)             \* the difficulty levels proper
AllBits == Bits

\* which bits a character denotes: the flags that carry it as their name; a digit that no flag
\* carries still denotes its own bit ("the digit names are always available")
TBitsNamed(tab, c) == {b \in Bits : tab[b + 1].name = c}
TDenotes(tab, c) ==
    LET named == TBitsNamed(tab, c)
    IN IF named # {} THEN named ELSE {b \in Bits : DigitName[b + 1] = c}
Denotes(defs, c) == TDenotes(TableOf(defs), c)

\* a definition set is *well-formed* when no two bits carry the same name
THasDuplicateName(tab) == \E a, b \in Bits : a # b /\ tab[a + 1].name = tab[b + 1].name
HasDuplicateName(defs) == THasDuplicateName(TableOf(defs))

(***************************************************************************)
(* The label syntax.  A label is a sequence of 1-character strings.        *)
(* Start from the default-on bits in "enable" mode; `+` / `-` switch the   *)
(* mode; `*` enables (disables) all eight bits; a flag name enables        *)
(* (disables) its bit.  Result: [ok |-> TRUE, mask |-> set] or             *)
(* [ok |-> FALSE, why |-> ..] (unknown or ambiguous name).                 *)
(***************************************************************************)
Failed(why) == [ok |-> FALSE, why |-> why]
RECURSIVE LabelFold(_, _, _, _, _)
LabelFold(label, i, tab, mask, enable) ==
    IF i > Len(label) THEN [ok |-> TRUE, mask |-> mask]
    ELSE LET c == label[i] IN
         IF c = "+" THEN LabelFold(label, i + 1, tab, mask, TRUE)
         ELSE IF c = "-" THEN LabelFold(label, i + 1, tab, mask, FALSE)
         ELSE IF c = "*" THEN LabelFold(label, i + 1, tab, IF enable THEN AllBits ELSE {}, enable)
         ELSE LET bs == TDenotes(tab, c) IN
              IF bs = {} THEN Failed("unknown flag")
              ELSE IF Cardinality(bs) > 1 THEN Failed("ambiguous flag name")
              ELSE LabelFold(label, i + 1, tab, IF enable THEN mask \cup bs ELSE mask \ bs, enable)

TLabelToMask(label, tab) == LabelFold(label, 1, tab, TDefaultOn(tab), TRUE)
LabelToMask(label, defs) == TLabelToMask(label, TableOf(defs))

\* a statement without a label runs on everything (0xFF)
NoLabelMask == AllBits

(***************************************************************************)
(* A specification-level printer, used only in-model (Gen_DiffMask checks  *)
(* LabelToMask(PrintLabel(S)) = S) and to write labels for generated       *)
(* statements; the real printer is never compared with it -- it is judged  *)
(* through LabelToMask alone.  Shape taken from the examples in            *)
(* difficulty.rs: names of the enabled difficulty bits (or `*` for all of  *)
(* them), then `-` and the names of the disabled default-on flags.         *)
(***************************************************************************)
TNames(tab, S) == LET bs == SelectSeq(<< 0, 1, 2, 3, 4, 5, 6, 7 >>, LAMBDA b : b \in S)
                  IN << >> \o [k \in 1..Len(bs) |-> tab[bs[k] + 1].name]
TPrintLabel(S, tab) ==
    LET on == TDefaultOn(tab)
        pos == IF (Bits \ on) \subseteq S THEN << "*" >> ELSE TNames(tab, S \ on)
        off == on \ S
    IN pos \o (IF off = {} THEN << >> ELSE << "-" >> \o TNames(tab, off))
PrintLabel(S, defs) == TPrintLabel(S, TableOf(defs))
=============================================================================
