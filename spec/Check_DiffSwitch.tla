-------------------------- MODULE Check_DiffSwitch --------------------------
(***************************************************************************)
(* C14 (b), binding.  ROWS = the statements of Gen_DiffSwitch (and the     *)
(* seeded random ones of the driver) together with the instructions the    *)
(* real pipeline emitted for them (`copies`: opcode, difficulty byte,      *)
(* parameter mask, decoded integer arguments).  TLC evaluates ExactlyOne   *)
(* on the real output, one state per row.                                  *)
(*                                                                         *)
(* Rows in which a nested switch is finer than the outermost switches      *)
(* (finer = TRUE) are judged too, but outside the invariant: their         *)
(* verdicts go to OUT and the driver reports them under their own key      *)
(* (explain = TRUE does the same for a row in which the invariant was      *)
(* found violated, to obtain the failing clause).                          *)
(***************************************************************************)
EXTENDS DiffSwitch, TLC, Json, IOUtils

Rows == ndJsonDeserialize(IOEnv.ROWS)

Blk == 64
VARIABLES lvl, all, c, tab
vars == <<lvl, all, c, tab>>
NoCase == [id |-> 0]
Outside(r) == r.finer \/ r.explain
Init == lvl = 0 /\ all = SelectSeq(Rows, LAMBDA r : ~Outside(r)) /\ c = NoCase /\ tab = << >>
Next == \/ /\ lvl = 0 /\ lvl' = 1 /\ c' = NoCase /\ tab' = << >>
           /\ \E b \in 0..((Len(all) - 1) \div Blk) : all' = SubSeq(all, b * Blk + 1, IF (b + 1) * Blk < Len(all) THEN (b + 1) * Blk ELSE Len(all))
        \/ /\ lvl = 1 /\ lvl' = 2 /\ all' = << >> /\ \E j \in 1..Len(all) : c' = all[j] /\ tab' = TableOf(all[j].defs)
Spec == Init /\ [][Next]_vars

Holds == lvl = 2 => ExactlyOne(c.st, tab, c.copies)
\* the classification the generator exported is the one this module derives from the statement
Classified == lvl = 2 => ~NestedFiner(c.st.args)

Verdict(row) ==
    LET t == TableOf(row.defs)
        ok == ExactlyOne(row.st, t, row.copies)
    IN [id |-> row.id, finer |-> NestedFiner(row.st.args), ok |-> ok,
        why |-> IF ok THEN "ok" ELSE Why(row.st, t, row.copies),
        level |-> IF ok THEN -1 ELSE BadLevel(row.st, t, row.copies)]
ASSUME LET fin == SelectSeq(Rows, Outside) IN
       /\ ndJsonSerialize(IOEnv.OUT, << >> \o [j \in 1..Len(fin) |-> Verdict(fin[j])])
       /\ PrintT(<<"CHECK", "Check_DiffSwitch", Len(Rows), Len(fin)>>)

=============================================================================
