\* many entries of ONE path: ANM sources with up to 4 same-path entries against up to 4 destination entries
\* ("the duplicates are matched in order of appearance" beyond the second duplicate)
SPECIFICATION Spec
CONSTANTS
  NPaths = 1
  MaxDest = 4
  MaxSrcs = 2
  MaxAnmLen = 4
INVARIANT StepInv
INVARIANT Property
INVARIANT Export
CHECK_DEADLOCK FALSE
