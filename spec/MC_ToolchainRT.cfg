SPECIFICATION Spec
CONSTANTS
  MaxLen = 3
  Fmts = {"truanm"}
INVARIANTS TypeOK RoundTripHolds DeterministicHolds MemoIsHistory StoreIsHistory PendingIsLast RejectsAreReal
CHECK_DEADLOCK FALSE
POSTCONDITION Post
