SPECIFICATION Spec
INVARIANT RoundTrip
INVARIANT UpIsPixel
INVARIANT FullRange
INVARIANT Injective
CHECK_DEADLOCK FALSE
