SPECIFICATION Spec
INVARIANT PixelInv
INVARIANT FullRange
CHECK_DEADLOCK FALSE
