------------------------------- MODULE Fields -------------------------------
(***************************************************************************)
(* C03.  The on-disk fields that truth's writers fill from values written  *)
(* in a source file, per format/version, and the contract of a compile:    *)
(*                                                                         *)
(*   CompileField(f, v):  Fits(v, f)  => Ok, and the field reads back as v *)
(*                        ~Fits(v, f) => Err (a diagnostic), never a       *)
(*                                       different stored value            *)
(*                                                                         *)
(* The table is data: widths and signedness are those of the binary        *)
(* formats (field order/width as in the read_* / write_* functions and the *)
(* format notes they cite), not of whatever cast a writer happens to use.  *)
(*                                                                         *)
(*  kind "int"    an integer written in the source (time label, argument,  *)
(*                meta number, @mask, @arg0); requestable iff it is a      *)
(*                32-bit source integer                                    *)
(*       "opcode" the N of ins_N; requestable iff N >= 0.  `term` marks    *)
(*                formats whose end-of-script marker is the opcode 0xFFFF: *)
(*                that one value is reserved and not decided here          *)
(*       "size"   byte size of one instruction as stored (base = the part  *)
(*                of the header that is counted); requested through the    *)
(*                length of the argument blob, a multiple of 4             *)
(*       "count"  number of items of a table                               *)
(*       "dim"    an image dimension in pixels (never negative)            *)
(*       "cstr"   NUL-terminated string in a fixed buffer of w BYTES; v is *)
(*                the encoded length; it fits iff the terminator fits too  *)
(*  32-bit fields store any source integer bit for bit (sources write      *)
(*  0xFFFFFFFF for -1), so they are treated as two's-complement words.     *)
(*  heavy: needs > 60000 items in the source; replayed in the thorough tier*)
(***************************************************************************)
EXTENDS Integers, Sequences, FiniteSets

RECURSIVE Pow2(_)
Pow2(n) == IF n = 0 THEN 1 ELSE 2 * Pow2(n - 1)

MinI32 == -2147483647 - 1
MaxI32 == 2147483647

F(id, w, signed, kind) == [id |-> id, w |-> w, signed |-> signed, kind |-> kind, base |-> 0, term |-> FALSE, heavy |-> FALSE]
Sz(id, w, signed, base) == [F(id, w, signed, "size") EXCEPT !.base = base]
Op(id, w, term) == [F(id, w, FALSE, "opcode") EXCEPT !.term = term]
Cnt(id, w, heavy) == [F(id, w, FALSE, "count") EXCEPT !.heavy = heavy]
Str(id, bytes) == F(id, bytes, FALSE, "cstr")
I16 == TRUE
U16 == FALSE

FieldTable == <<
    \* --- MSG (all games share the 4-byte instruction header: time i16, opcode u8, argsize u8)
    F("msg06.instr.time", 16, TRUE, "int"),
    Op("msg06.instr.opcode", 8, FALSE),
    Sz("msg06.instr.argsize", 8, FALSE, 0),
    Sz("msg06.instr.argsize.str", 8, FALSE, 8),        \* requested through a string argument (ssz): 4 + padded text
    F("msg06.arg.s", 16, TRUE, "int"),
    F("msg06.arg.b", 8, FALSE, "int"),
    Cnt("msg06.table_len", 32, FALSE),
    F("msg09.instr.time", 16, TRUE, "int"),
    \* --- ANM v0 (th06): time i16, opcode u8, argsize u8; entry header fields are dwords
    F("anm06.instr.time", 16, TRUE, "int"),
    Op("anm06.instr.opcode", 8, FALSE),
    Sz("anm06.instr.argsize", 8, FALSE, 0),
    F("anm06.arg.s", 16, TRUE, "int"),
    F("anm06.arg.u", 16, FALSE, "int"),
    F("anm06.arg.b", 8, FALSE, "int"),
    F("anm06.header.rt_width", 32, TRUE, "int"),
    \* --- ANM v7 (th12): opcode u16, size u16, time i16, param_mask u16; entry header fields are words
    F("anm12.instr.time", 16, TRUE, "int"),
    Op("anm12.instr.opcode", 16, TRUE),
    Sz("anm12.instr.size", 16, FALSE, 8),
    F("anm12.instr.param_mask", 16, FALSE, "int"),
    F("anm12.header.offset_x", 16, FALSE, "int"),
    F("anm12.header.offset_y", 16, FALSE, "int"),
    F("anm12.header.rt_width", 16, FALSE, "int"),
    F("anm12.header.rt_height", 16, FALSE, "int"),
    F("anm12.header.memory_priority", 32, TRUE, "int"),
    F("anm12.sprite.id", 32, TRUE, "int"),
    F("anm12.thtx.width", 16, FALSE, "dim"),
    F("anm12.thtx.height", 16, FALSE, "dim"),
    F("anm12.arg.c", 8, TRUE, "int"),                   \* argument encodings c b s u through a user mapfile
    F("anm12.arg.b", 8, FALSE, "int"),
    F("anm12.arg.s", 16, TRUE, "int"),
    F("anm12.arg.u", 16, FALSE, "int"),
    F("anm12.arg.S", 32, TRUE, "int"),
    Cnt("anm12.header.num_sprites", 16, TRUE),
    Cnt("anm12.header.num_scripts", 16, TRUE),
    \* --- STD
    F("std06.object.layer", 16, FALSE, "int"),
    F("std06.quad.anm_script", 16, FALSE, "int"),
    F("std06.instance.unknown", 16, FALSE, "int"),
    F("std06.meta.unknown", 32, TRUE, "int"),
    F("std06.instr.time", 32, TRUE, "int"),
    Op("std06.instr.opcode", 16, TRUE),
    Str("std06.stage_name", 128),
    Str("std06.bgm.path", 128),
    F("std12.object.layer", 16, FALSE, "int"),
    Sz("std12.instr.size", 16, FALSE, 8),
    Str("std12.anm_path", 128),
    Cnt("std06.header.num_objects", 16, TRUE),
    Cnt("std06.header.num_quads", 16, TRUE),
    \* --- old ECL (th06-th08): time i32, opcode u16, size i16, difficulty u8, param_mask u16
    F("ecl06.instr.time", 32, TRUE, "int"),
    Op("ecl06.instr.opcode", 16, TRUE),
    Sz("ecl06.instr.size", 16, TRUE, 12),
    F("ecl07.instr.param_mask", 16, FALSE, "int"),
    Cnt("ecl06.header.num_subs", 16, TRUE),
    \* --- timelines th06/th07: time i16, arg0 i16, opcode u16, size u16
    F("timeline06.instr.time", 16, TRUE, "int"),
    F("timeline06.arg0.s", 16, TRUE, "int"),
    F("timeline06.arg0.u", 16, FALSE, "int"),
    Op("timeline06.instr.opcode", 16, FALSE),
    Sz("timeline06.instr.size", 16, FALSE, 8),
    \* --- timelines th08+: time i32, opcode u16, size u8, difficulty u8
    F("timeline08.instr.time", 32, TRUE, "int"),
    Sz("timeline08.instr.size", 8, FALSE, 8),
    F("timeline08.arg.s", 16, TRUE, "int"),
    \* --- mission.msg th095: stage u16, scene u16, three 64-byte text lines
    F("mission095.entry.stage", 16, FALSE, "int"),
    F("mission095.entry.scene", 16, FALSE, "int"),
    Str("mission095.entry.text", 64)
>>

\* ------------------------------------------------------------------ the rule
IsWord32(f) == f.kind # "cstr" /\ f.w = 32
Min(f) == IF IsWord32(f) THEN (IF f.kind = "count" THEN 0 ELSE MinI32)
          ELSE IF f.signed THEN -Pow2(f.w - 1) ELSE 0
Max(f) == IF IsWord32(f) THEN MaxI32
          ELSE IF f.signed THEN Pow2(f.w - 1) - 1 ELSE Pow2(f.w) - 1

Fits(v, f) ==
    IF f.kind = "cstr" THEN v >= 0 /\ v + 1 <= f.w
    ELSE Min(f) <= v /\ v <= Max(f)

\* what an unchecked narrowing conversion would store instead (used to classify observations, and for the in-model facts)
Wrap(v, f) ==
    IF f.kind = "cstr" \/ f.w = 32 THEN v
    ELSE LET m == v % Pow2(f.w)
         IN IF f.signed /\ m >= Pow2(f.w - 1) THEN m - Pow2(f.w) ELSE m

\* largest size <= x that a blob can produce
AlignDown(x, f) == x - ((x - f.base) % 4)

Boundary(f) ==
    CASE f.kind = "cstr" -> {0, 1, f.w - 2, f.w - 1, f.w, f.w + 1, 2 * f.w}
      [] f.kind = "count" /\ f.w = 32 -> {0, 1, 2, 65535, 65536, 70000}
      [] f.kind = "count" -> {0, 1, 2, Max(f), Max(f) + 1, Max(f) + 2}
      [] f.kind = "size" -> {f.base, f.base + 4, AlignDown(Max(f), f), AlignDown(Max(f), f) + 4, AlignDown(Max(f), f) + 8,
                             AlignDown(Pow2(f.w), f) + 4}
      [] f.w = 32 -> {MinI32, -1, 0, 1, MaxI32}
      [] OTHER -> {Min(f) - 1, Min(f), -1, 0, 1, Max(f), Max(f) + 1, Pow2(f.w), Pow2(f.w) + Max(f)}
                  \cup (IF f.term THEN {Max(f) - 1} ELSE {})

\* can a source file ask for v at all?
Requestable(v, f) ==
    CASE f.kind = "opcode" -> v >= 0 /\ ~(f.term /\ v = 65535)
      [] f.kind = "size" -> v >= f.base /\ (v - f.base) % 4 = 0
      [] f.kind \in {"count", "cstr", "dim"} -> v >= 0
      [] OTHER -> MinI32 <= v /\ v <= MaxI32

Ok(v) == [ok |-> TRUE, readback |-> v]
Err == [ok |-> FALSE, readback |-> 0]
Outcome(f, v) == IF Fits(v, f) THEN Ok(v) ELSE Err
=============================================================================
