--------------------------- MODULE Trace_Pipeline ---------------------------
(***************************************************************************)
(* Validates the pass-start sequences recorded from the real compile       *)
(* functions (cfg(truth_verif) hooks, one row per compiled file) against   *)
(* the Pipeline machine.  One TLC state per row; a row is accepted iff     *)
(* every recorded pass was enabled when it started, and -- when the        *)
(* compilation succeeded -- the facts a finished file of that tool needs   *)
(* were established.  Run with -workers 1 (counters in TLC registers).     *)
(***************************************************************************)
EXTENDS Pipeline, Json, IOUtils

ASSUME TLCSet(41, ndJsonDeserialize(IOEnv.OBS))
Rows == TLCGet(41)
N == Len(Rows)
ASSUME TLCSet(51, 0)

VARIABLE r
\* (`facts` is the machine's variable; the rows are judged with its fold `FirstBad`, so it stays put here)
TInit == r \in 1..N /\ facts = {}
TNext == UNCHANGED <<r, facts>>
TSpec == TInit /\ [][TNext]_<<r, facts>>

\* what a successful compilation must have established, per tool
Needed(tool) == IF tool = "mission" THEN {"languages", "names", "types", "consts", "simplified"}
                ELSE {"languages", "names", "types", "consts", "simplified", "difficulty", "flat", "finished"}

RowAccepted ==
    LET row == Rows[r]
        bad == FirstBad(row.passes)
        f == FactsAfter(row.passes, 1, {})
    IN IF bad # 0 THEN PrintT(<<"BAD", r, "pass-without-requirements", bad>>) /\ FALSE
       ELSE IF row.rc = 0 /\ ~(Needed(row.tool) \subseteq f) THEN PrintT(<<"BAD", r, "succeeded-without", 0>>) /\ FALSE
       ELSE TLCSet(51, TLCGet(51) + 1)

Post == PrintT(<<"COUNTS", TLCGet(51), N>>)
=============================================================================
