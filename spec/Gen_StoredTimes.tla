-------------------------- MODULE Gen_StoredTimes --------------------------
(***************************************************************************)
(* C13, decompile direction (Mode G part).  Enumerates what a binary can   *)
(* store: every sequence of instruction times of length <= MaxLen over     *)
(* {-5, -1, 0, 3, 10} (monotone, decreasing, negative, crossing zero), and *)
(* for the shorter ones every choice of one jump (position, target, time   *)
(* argument = time of the target / of the instruction before it / an      *)
(* unrelated value) and of two jumps to the same target.  One TLC state    *)
(* per row; rows are written out for the harness, which builds exactly     *)
(* these instruction lists and runs the real decompiler on them.           *)
(*                                                                         *)
(* In-model (the demand made on the decompiler is satisfiable, and the     *)
(* judge of StoredTimes.tla is neither vacuous nor contradictory): for     *)
(* every row the canonical all-absolute listing is accepted, the listing   *)
(* with relative labels only is accepted (negative deltas are legal        *)
(* constant expressions), and the listing without any time label is        *)
(* accepted iff all stored times are 0.                                    *)
(***************************************************************************)
EXTENDS StoredTimes, Json, IOUtils

CONSTANTS MaxLen,     \* no jump
          MaxLenJ,    \* one jump
          MaxLenJ2    \* two jumps to the same target (times over the smaller set)

TV  == {-5, -1, 0, 3, 10}
TV2 == {-1, 0, 10}
Unrelated == 7

TimeSeqs(S, n) == {<<>> \o f : f \in [1..n -> S]}          \* as tuples
NextT(ts, to) == IF to <= Len(ts) THEN ts[to] ELSE ts[Len(ts)]
PrevT(ts, to) == IF to = 1 THEN 0 ELSE ts[to - 1]
TArgs(ts, to) == {NextT(ts, to), PrevT(ts, to), Unrelated}
Jump(at, to, targ) == [at |-> at, to |-> to, targ |-> targ]
Row(ts, js) == [times |-> ts, jumps |-> js, diffs |-> <<>>]
\* difficulty groups: instructions that differ only in difficulty mask (bits E=1 N=2 H=4 L=8, 255 = every
\* difficulty) and argument; the decompiler may fold consecutive ones into one difficulty switch, which is
\* written once with one time -- legal only when the stored times of the folded copies are equal
TV3 == {0, 3, 10}
MaskSeqs == { <<1, 2, 4, 8>>, <<1, 2, 4>>, <<2, 4, 8>>, <<1, 2, 12>>, <<3, 4, 8>>, <<255, 1, 2, 4>>, <<1, 2, 4, 255>>,
              <<1, 2, 255, 4>>, <<1, 2>>, <<4, 8>> }
Rows3 == UNION {{[times |-> ts, jumps |-> <<>>, diffs |-> ms] : ts \in TimeSeqs(TV3, Len(ms))} : ms \in MaskSeqs}

Rows0 == UNION {{Row(ts, <<>>) : ts \in TimeSeqs(TV, n)} : n \in 1..MaxLen}
OneJump(ts) ==
    UNION {{Row(ts, << Jump(at, to, ta) >>) : at \in 1..Len(ts), ta \in TArgs(ts, to)} : to \in 1..(Len(ts) + 1)}
Rows1 == UNION {UNION {OneJump(ts) : ts \in TimeSeqs(TV, n)} : n \in 1..MaxLenJ}
TwoJumps(ts) ==
    UNION {{Row(ts, << Jump(p[1], to, ta), Jump(p[2], to, tb) >>) :
                p \in {q \in (1..Len(ts)) \X (1..Len(ts)) : q[1] < q[2]}, ta \in TArgs(ts, to), tb \in TArgs(ts, to)}
           : to \in 1..(Len(ts) + 1)}
Rows2 == UNION {UNION {TwoJumps(ts) : ts \in TimeSeqs(TV2, n)} : n \in 2..MaxLenJ2}

VARIABLE row
Init == row \in Rows0 \cup Rows1 \cup Rows2 \cup Rows3
Next == UNCHANGED row
Spec == Init /\ [][Next]_row

\* ---- three listings of a row, written down without looking at any decompiler
Instr == [k |-> "expr", e |-> [k |-> "call", name |-> [ins |-> 100]]]
LabelName(to) == "L" \o ToString(to)
IsTarget(r, i) == \E j \in 1..Len(r.jumps) : r.jumps[j].to = i
StmtAt(r, i) ==
    IF \E j \in 1..Len(r.jumps) : r.jumps[j].at = i
    THEN LET j == CHOOSE j \in 1..Len(r.jumps) : r.jumps[j].at = i
         IN [k |-> "jump", jump |-> "goto", label |-> LabelName(r.jumps[j].to), time |-> r.jumps[j].targ]
    ELSE Instr
LabelIf(r, i) == IF IsTarget(r, i) THEN << [k |-> "label", name |-> LabelName(i)] >> ELSE <<>>
RECURSIVE Listing(_, _, _)
\* mode "abs": `t:` before every instruction; "rel": `+(t - previous):`; "none": no time labels
Listing(r, i, mode) ==
    IF i > Len(r.times) THEN LabelIf(r, i)
    ELSE LET t == r.times[i]
             prev == IF i = 1 THEN 0 ELSE r.times[i - 1]
             lab == CASE mode = "abs" -> << [k |-> "abs", t |-> t] >>
                      [] mode = "rel" -> << [k |-> "rel", e |-> [k |-> "int", v |-> Sub(t, prev)]] >>
                      [] OTHER -> <<>>
         IN LabelIf(r, i) \o lab \o << StmtAt(r, i) >> \o Listing(r, i + 1, mode)

AllZero(r) == \A i \in 1..Len(r.times) : r.times[i] = 0
Inv ==
    LET n == Len(row.times)
        evAbs == Events(Listing(row, 1, "abs"))
    IN
    /\ VerdictEv(evAbs, row.times, row.jumps) = "ok"                                   \* the demand is satisfiable
    /\ Verdict(Listing(row, 1, "rel"), row.times, row.jumps) = "ok"                    \* also with relative labels only
    /\ (Verdict(Listing(row, 1, "none"), row.times, row.jumps) = "ok") <=> AllZero(row) \* the judge is not vacuous
    \* the same listing judged against other stored data is rejected
    /\ VerdictEv(evAbs, [row.times EXCEPT ![n] = @ + 1], row.jumps) = "bad:times"
    /\ VerdictEv(evAbs, Append(row.times, 0), row.jumps) = "bad:count"

\* the judge on the examples of doc/syntax.md: `label:` before / after the `+5:`
DocA == << [k |-> "abs", t |-> 10], Instr, [k |-> "rel", e |-> [k |-> "int", v |-> 5]], [k |-> "label", name |-> "label"], Instr,
           [k |-> "jump", jump |-> "goto", label |-> "label", time |-> 10] >>
DocB == << [k |-> "abs", t |-> 10], Instr, [k |-> "label", name |-> "label"], [k |-> "rel", e |-> [k |-> "int", v |-> 5]], Instr,
           [k |-> "jump", jump |-> "goto", label |-> "label"] >>
DocStored == << 10, 15, 15 >>
ASSUME Verdict(DocA, DocStored, << Jump(3, 2, 10) >>) = "ok"
ASSUME Verdict(DocB, DocStored, << Jump(3, 2, 10) >>) = "ok"      \* "is equivalent to"
ASSUME Verdict(DocB, DocStored, << Jump(3, 2, 15) >>) = "bad:jump-time"
ASSUME Verdict(DocA, DocStored, << Jump(3, 1, 10) >>) = "bad:jump-target"
ASSUME Verdict(DocA, << 10, 15, 10 >>, << Jump(3, 2, 10) >>) = "bad:times"
\* loop { +4: foo(); +6: }  ==  foo at 4, jump back at 10 that sets time 0
DocLoop == << [k |-> "nop"], [k |-> "loop", body |-> << [k |-> "nop"], [k |-> "rel", e |-> [k |-> "int", v |-> 4]], Instr,
                                                        [k |-> "rel", e |-> [k |-> "int", v |-> 6]], [k |-> "nop"] >>], [k |-> "nop"] >>
ASSUME Verdict(DocLoop, << 4, 10 >>, << Jump(2, 1, 0) >>) = "ok"
ASSUME Verdict(DocLoop, << 4, 10 >>, << Jump(2, 1, 4) >>) = "bad:jump-time"

\* the judge on difficulty switches: one written case = one instruction at the statement's time
SwCall(cases) == [k |-> "expr", e |-> [k |-> "call", name |-> [ins |-> 101], args |-> << [k |-> "ds", cases |-> cases] >>]]
Lit(v) == [k |-> "int", v |-> v]
DocSwitch == << [k |-> "abs", t |-> 3], SwCall(<< Lit(1), Lit(2), [k |-> "hole"], Lit(4) >>), [k |-> "rel", e |-> Lit(7)], Instr >>
ASSUME Verdict(DocSwitch, << 3, 3, 3, 10 >>, <<>>) = "ok"
ASSUME Verdict(DocSwitch, << 3, 3, 10, 10 >>, <<>>) = "bad:times"      \* a copy stored at another time was folded in
ASSUME Verdict(DocSwitch, << 3, 3, 10 >>, <<>>) = "bad:count"

ASSUME LET R == SetToSeq(Rows0 \cup Rows1 \cup Rows2 \cup Rows3) IN
       /\ ndJsonSerialize(IOEnv.OUT, R)
       /\ PrintT(<<"GEN", "Gen_StoredTimes", Len(R), Cardinality(Rows0), Cardinality(Rows1), Cardinality(Rows2), Cardinality(Rows3)>>)
===========================================================================
