---------------------------- MODULE MC_Toolchain ----------------------------
(***************************************************************************)
(* In-model exploration of the abstract toolchain (L3 contract): shows     *)
(* that the contract is satisfiable, that every action is exercised, and   *)
(* that the invariants of Toolchain.tla hold in every reachable state when *)
(* commands end in ANY outcome of the contract.  It says nothing about the *)
(* code; it exists so that Trace_Outcomes reuses checked actions.          *)
(***************************************************************************)
EXTENDS Toolchain

Contents == {"c1"}
Keys == {MkKey("truanm", v, "th12", <<>>, <<c>>) : v \in Verbs, c \in Contents}
       \cup {MkKey("truanm", "compile", "th12", <<>>, <<"c1", "missing">>)}     \* an input that does not exist
Outs == {Ok(0), Ok(1), Err(1, 0), Err(2, 1)}

Init == store = {Given(c) : c \in Contents} /\ memo = <<>>
Next == \E k \in Keys, o \in Outs, nf \in BOOLEAN :
            Compile(k, o) \/ Decompile(k, o, nf) \/ Extract(k, o, nf)
Spec == Init /\ [][Next]_tcVars

Inv == ToolchainInv
\* no command whose input is missing ever ran
OnlyOnExistingInputs == \A k \in DOMAIN memo : InputsOf(k) \subseteq store
\* what is remembered is always one of the two kinds of outcome
OnlyContractOutcomes == \A k \in DOMAIN memo : memo[k] \in Outs
\* in every reachable state: a failed decompile / extract that does not name the file has no
\* transition, one that does has (when its input exists); a crash-like record has none at all
FailedMustNameFile ==
    \A k \in Keys : \A o \in Outs :
        /\ (k.verb = "decompile" /\ o.failed) => ~ENABLED Decompile(k, o, FALSE)
        /\ (k.verb = "extract" /\ o.failed) => ~ENABLED Extract(k, o, FALSE)
        /\ (k.verb = "decompile" /\ InputsOf(k) \subseteq store) => ENABLED Decompile(k, o, TRUE)
        /\ (k.verb = "compile" /\ InputsOf(k) \subseteq store) => ENABLED Compile(k, o)
NoTransitionForNonOutcomes ==
    \A k \in Keys : ~ENABLED Compile(k, OutcomeRec(TRUE, 0, 0)) /\ ~ENABLED Decompile(k, OutcomeRec(FALSE, 2, 0), TRUE)

\* records that are not outcomes: the contract predicate rejects them
ASSUME ~IsOutcome(OutcomeRec(TRUE, 0, 0))      \* failure without an error diagnostic
ASSUME ~IsOutcome(OutcomeRec(FALSE, 1, 0))     \* success after an error diagnostic
ASSUME IsOutcome(Ok(3)) /\ IsOutcome(Err(2, 5))
=============================================================================
