--------------------------- MODULE ImageSources ---------------------------
(***************************************************************************)
(* C17 — how `truanm compile -i SRC1 -i SRC2 ...` fills the entries of the *)
(* script being compiled (README.md "Compilation and image sources",       *)
(* comments of tests/integration/image_sources.rs):                        *)
(*                                                                         *)
(*  - "each entry in the current script will pull the image from the entry *)
(*    with the same filepath inside the image source.  This mechanism can  *)
(*    also be used to copy over any missing metadata";                     *)
(*  - "In cases where multiple entries have the same path ... the          *)
(*    duplicates are matched in order of appearance";                      *)
(*  - a directory source supplies `DIR/<path>` "if it exists";             *)
(*  - "The ordering of the image sources is important ...; [the one that]  *)
(*    appears last ... takes top priority when multiple image sources      *)
(*    define the same image";                                              *)
(*  - fields written in the script are never replaced ("overridden from    *)
(*    image source" only applies to fields the script leaves out).         *)
(*                                                                         *)
(* The machine: the working copy of every destination entry holds, per     *)
(* field, Missing | Soft(v) | Explicit(v).  Sources are applied one at a   *)
(* time in command-line order; applying a source sets fields *softly*: a   *)
(* soft value replaces Missing or an older soft value and never an         *)
(* explicit one.  Finalize turns the working copy into the output.         *)
(*                                                                         *)
(* Two fields are modelled: `tex` (the texture, supplied by both kinds of  *)
(* source, never explicit in a script) and `hdr` (stands for every header  *)
(* field of an entry; supplied by ANM sources only; may be explicit).      *)
(* Values are provenance tags: <<i, j>> = entry j of source i (ANM) or     *)
(* <<i, 0>> = the file for that path in directory source i.                *)
(***************************************************************************)
EXTENDS Naturals, Sequences, FiniteSets

Missing == [st |-> "missing"]
Soft(v) == [st |-> "soft", v |-> v]
Explicit(v) == [st |-> "explicit", v |-> v]
SetSoft(old, v) == IF old.st = "explicit" THEN old ELSE Soft(v)

\* ---- sources
\* [kind |-> "anm", entries |-> <<path, ...>>]   (an ANM file: its entries' paths in file order)
\* [kind |-> "dir", paths |-> {path, ...}]       (a directory: the relative paths of the image files in it)
IsAnm(s) == s.kind = "anm"

\* ---- working copy of the destination: a sequence of [path, tex, hdr]
Working(dest, explicitAt, explicitTag) ==
    [e \in 1..Len(dest) |-> [path |-> dest[e], tex |-> Missing,
                              hdr |-> IF e \in explicitAt THEN Explicit(explicitTag) ELSE Missing]]

\* ApplyAnm: per path a FIFO of the source's entries (in file order); walking the destination entries in
\* order, each one whose path has a non-empty queue pops its head and takes it softly.
QueueOf(src, p) == SelectSeq([j \in 1..Len(src.entries) |-> j], LAMBDA j : src.entries[j] = p)

RECURSIVE AnmWalk(_, _, _, _, _)
AnmWalk(w, e, queues, i, acc) ==
    IF e > Len(w) THEN acc
    ELSE LET p == w[e].path IN
         IF queues[p] = <<>>
         THEN AnmWalk(w, e + 1, queues, i, Append(acc, w[e]))
         ELSE LET j == Head(queues[p])
                  ne == [w[e] EXCEPT !.tex = SetSoft(@, <<i, j>>), !.hdr = SetSoft(@, <<i, j>>)]
              IN AnmWalk(w, e + 1, [queues EXCEPT ![p] = Tail(@)], i, Append(acc, ne))

ApplyAnmOp(w, i, src) ==
    LET paths == {w[e].path : e \in 1..Len(w)}
    IN AnmWalk(w, 1, [p \in paths |-> QueueOf(src, p)], i, <<>>)

\* ApplyDir: soft texture by path, nothing else
ApplyDirOp(w, i, src) ==
    [e \in 1..Len(w) |-> IF w[e].path \in src.paths THEN [w[e] EXCEPT !.tex = SetSoft(@, <<i, 0>>)] ELSE w[e]]

ApplyOp(w, i, src) == IF IsAnm(src) THEN ApplyAnmOp(w, i, src) ELSE ApplyDirOp(w, i, src)

\* Finalize: an entry (they all ask for pixel data here) that never received a texture is an error;
\* otherwise the output carries the values, soft or explicit alike; a header nobody set takes its default.
NoneTag == <<0, 0>>
FinalizeOp(w) ==
    IF \E e \in 1..Len(w) : w[e].tex.st = "missing" THEN [ok |-> FALSE]
    ELSE [ok |-> TRUE,
          tex |-> [e \in 1..Len(w) |-> w[e].tex.v],
          hdr |-> [e \in 1..Len(w) |-> IF w[e].hdr.st = "missing" THEN NoneTag ELSE w[e].hdr.v]]

\* ---- the machine
VARIABLES dest,       \* paths of the destination entries (constant during a run)
          expl,       \* set of destination entries whose header field is written in the script
          srcs,       \* the sources applied so far, in command-line order
          work,       \* working copy
          result      \* [ok |-> ...] once finalized, else Pending
vars == <<dest, expl, srcs, work, result>>

ExplicitTag == <<9, 9>>
Pending == [pending |-> TRUE]

InitFor(d, ex) ==
    /\ dest = d /\ expl = ex
    /\ srcs = <<>>
    /\ work = Working(d, ex, ExplicitTag)
    /\ result = Pending

\* the next `-i` argument is an ANM file / a directory
ApplyAnm(src) ==
    /\ result = Pending /\ IsAnm(src)
    /\ work' = ApplyAnmOp(work, Len(srcs) + 1, src)
    /\ srcs' = Append(srcs, src)
    /\ UNCHANGED <<dest, expl, result>>
ApplyDir(src) ==
    /\ result = Pending /\ ~IsAnm(src)
    /\ work' = ApplyDirOp(work, Len(srcs) + 1, src)
    /\ srcs' = Append(srcs, src)
    /\ UNCHANGED <<dest, expl, result>>
\* no more `-i` arguments
Finalize ==
    /\ result = Pending
    /\ result' = FinalizeOp(work)
    /\ UNCHANGED <<dest, expl, srcs, work>>

\* ---- the property, stated without the machine
\* occurrence index of destination entry e among the entries that share its path (0 = first)
Occ(d, e) == Cardinality({x \in 1..(e - 1) : d[x] = d[e]})
\* entries of an ANM source with path p, in order of appearance
Matches(src, p) == SelectSeq([j \in 1..Len(src.entries) |-> j], LAMBDA j : src.entries[j] = p)
\* does source s supply path p for occurrence n ?
Supplies(s, p, n) == IF IsAnm(s) THEN Len(Matches(s, p)) > n ELSE p \in s.paths
TagFrom(s, i, p, n) == IF IsAnm(s) THEN <<i, Matches(s, p)[n + 1]>> ELSE <<i, 0>>
MaxOf(S) == CHOOSE x \in S : \A y \in S : y <= x

TexSuppliers(d, ss, e) == {i \in 1..Len(ss) : Supplies(ss[i], d[e], Occ(d, e))}
HdrSuppliers(d, ss, e) == {i \in TexSuppliers(d, ss, e) : IsAnm(ss[i])}

ExpectedOk(d, ss) == \A e \in 1..Len(d) : TexSuppliers(d, ss, e) # {}
ExpectedTex(d, ss, e) == LET i == MaxOf(TexSuppliers(d, ss, e)) IN TagFrom(ss[i], i, d[e], Occ(d, e))
ExpectedHdr(d, ss, ex, e) ==
    IF e \in ex THEN ExplicitTag
    ELSE IF HdrSuppliers(d, ss, e) = {} THEN NoneTag
    ELSE LET i == MaxOf(HdrSuppliers(d, ss, e)) IN TagFrom(ss[i], i, d[e], Occ(d, e))

Done == result # Pending
\* The four clauses, per destination entry e, given S = the sources that supply e (computed once per entry):
\*  LastWins: the texture comes from the LAST source that supplies e's path for e's occurrence index
LastWinsAt(e, S) == result.tex[e][1] = MaxOf(S)
\*  InOrder: ... and within an ANM source, from the entry with the same occurrence index ("matched in order of appearance")
InOrderAt(e, S) == LET i == MaxOf(S) IN result.tex[e] = TagFrom(srcs[i], i, dest[e], Occ(dest, e))
\*  HeaderRule: explicit values survive, other header fields follow the last ANM source that has the entry
HeaderRuleAt(e, S) ==
    LET A == {i \in S : IsAnm(srcs[i])}
    IN result.hdr[e] = (IF e \in expl THEN ExplicitTag
                        ELSE IF A = {} THEN NoneTag
                        ELSE LET i == MaxOf(A) IN TagFrom(srcs[i], i, dest[e], Occ(dest, e)))
EntryProperty(e) == LET S == TexSuppliers(dest, srcs, e) IN LastWinsAt(e, S) /\ InOrderAt(e, S) /\ HeaderRuleAt(e, S)

LastWins == (Done /\ result.ok) => \A e \in 1..Len(dest) : LastWinsAt(e, TexSuppliers(dest, srcs, e))
InOrder == (Done /\ result.ok) => \A e \in 1..Len(dest) : InOrderAt(e, TexSuppliers(dest, srcs, e))
HeaderRule == (Done /\ result.ok) => \A e \in 1..Len(dest) : HeaderRuleAt(e, TexSuppliers(dest, srcs, e))
\* an entry nobody supplies makes the compilation fail, and only that
Outcome == Done => (result.ok <=> ExpectedOk(dest, srcs))
\* LastWins /\ InOrder /\ HeaderRule /\ Outcome evaluated with the suppliers computed once per entry (what the
\* generator configuration checks on every finalized run; equivalent to the conjunction of the four above)
Property == Done => /\ (result.ok <=> ExpectedOk(dest, srcs))
                    /\ result.ok => \A e \in 1..Len(dest) : EntryProperty(e)
\* at every step: explicit values are never touched, and every soft value names a source already applied
StepInv == \A e \in 1..Len(work) :
    /\ (e \in expl) => work[e].hdr = Explicit(ExplicitTag)
    /\ work[e].tex.st # "explicit"
    /\ (work[e].tex.st = "soft") => work[e].tex.v[1] \in 1..Len(srcs)
    /\ (work[e].hdr.st = "soft") => work[e].hdr.v[1] \in 1..Len(srcs) /\ IsAnm(srcs[work[e].hdr.v[1]])
===========================================================================
