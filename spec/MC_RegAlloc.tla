---------------------------- MODULE MC_RegAlloc ----------------------------
(* In-model: every interleaving of allocation requests over small pools keeps the invariants. *)
EXTENDS RegAlloc

Regs == 1..4
Defs == 1..3
Pools == {[i |-> {}, f |-> {}], [i |-> {1}, f |-> {}], [i |-> {1, 2}, f |-> {3}], [i |-> {1, 2}, f |-> {3, 4}], [i |-> {1, 2, 3}, f |-> {4}]}

Init == /\ General \in Pools /\ Mentioned \in SUBSET Regs /\ Params \in SUBSET {1, 3} /\ Anti \in BOOLEAN
        /\ live = <<>> /\ ever = {} /\ failed = FALSE /\ antiErr = FALSE
Next == \/ \E d \in Defs, ty \in Types, r \in Regs : Alloc(d, ty, r)
        \/ \E d \in Defs, r \in Regs : Free(d, r)
        \/ \E ty \in Types : TooComplex(ty)
        \/ AntiScratchError
Spec == Init /\ [][Next]_avars
\* a request can always be answered: either some register is eligible or TooComplex is enabled
Answerable == \A ty \in Types : Eligible(ty) # {} \/ ENABLED TooComplex(ty)
Inv == NoTwoLive /\ NeverMentioned /\ OnlyGeneral /\ Answerable
=============================================================================
