SPECIFICATION Spec
INVARIANT Inv
INVARIANT OnlyOnExistingInputs
INVARIANT OnlyContractOutcomes
INVARIANT FailedMustNameFile
INVARIANT NoTransitionForNonOutcomes
CHECK_DEADLOCK FALSE
