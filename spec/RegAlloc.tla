----------------------------- MODULE RegAlloc -----------------------------
(***************************************************************************)
(* L2: scratch-register allocation for one script body (C05).              *)
(*                                                                         *)
(* General[ty]  the language's general-purpose registers of type ty        *)
(* Mentioned    registers named anywhere in the script's source            *)
(* Params       parameter registers of the enclosing sub                   *)
(* Anti         the body contains an instruction that forbids scratch use  *)
(*                                                                         *)
(* live : Def -|-> Reg is the only real state; the free pool is derived    *)
(* (`Eligible`), so any allocation order is a refinement of this spec.     *)
(***************************************************************************)
EXTENDS Integers, FiniteSets, TLC

CONSTANTS Types
VARIABLES General, Mentioned, Params, Anti,     \* per-script constants (set by Reset)
          live, ever, failed, antiErr

avars == <<General, Mentioned, Params, Anti, live, ever, failed, antiErr>>

Range(f) == {f[x] : x \in DOMAIN f}
Eligible(ty) == General[ty] \ (Mentioned \cup Params \cup Range(live))

Reset(gen, ment, par, anti) ==
    /\ General' = gen /\ Mentioned' = ment /\ Params' = par /\ Anti' = anti
    /\ live' = <<>> /\ ever' = {} /\ failed' = FALSE /\ antiErr' = FALSE

Alloc(d, ty, r) ==
    /\ ~failed /\ d \notin DOMAIN live
    /\ r \in Eligible(ty)
    /\ live' = [x \in DOMAIN live \cup {d} |-> IF x = d THEN r ELSE live[x]]
    /\ ever' = ever \cup {r}
    /\ UNCHANGED <<General, Mentioned, Params, Anti, failed, antiErr>>

Free(d, r) ==
    /\ d \in DOMAIN live /\ live[d] = r
    /\ live' = [x \in DOMAIN live \ {d} |-> live[x]]
    /\ UNCHANGED <<General, Mentioned, Params, Anti, ever, failed, antiErr>>

\* "too few registers remain": only when really none is eligible
TooComplex(ty) ==
    /\ Eligible(ty) = {}
    /\ failed' = TRUE
    /\ UNCHANGED <<General, Mentioned, Params, Anti, live, ever, antiErr>>

\* "scratch registers are disabled in this script": only when the body forbids scratch and some was used
AntiScratchError ==
    /\ Anti /\ ever # {}
    /\ antiErr' = TRUE
    /\ UNCHANGED <<General, Mentioned, Params, Anti, live, ever, failed>>

\* every register operand of an emitted instruction is one the source names, a parameter, or one we handed out
Use(regs) ==
    /\ regs \subseteq Mentioned \cup Params \cup ever
    /\ UNCHANGED avars

\* the compile finished: success is impossible after a failure, and impossible if scratch was used in
\* a body that forbids it
EndOk ==
    /\ ~failed /\ ~antiErr /\ ~(Anti /\ ever # {})
    /\ UNCHANGED avars
EndErr == UNCHANGED avars       \* any error outcome is acceptable to this machine (other checks judge diagnostics)

\* ---- invariants (the property)
NoTwoLive == \A d1, d2 \in DOMAIN live : live[d1] = live[d2] => d1 = d2
NeverMentioned == \A d \in DOMAIN live : live[d] \notin Mentioned \cup Params
OnlyGeneral == \A d \in DOMAIN live : \E ty \in Types : live[d] \in General[ty]
===========================================================================
