------------------------------ MODULE ArgCodec ------------------------------
(***************************************************************************)
(* C12: how an argument list is laid out in an instruction under a         *)
(* mapfile signature, and how it is read back.                             *)
(*                                                                         *)
(* Sources (documentation, not encode_args/decode_args):                   *)
(*  - doc comments of `ArgEncoding` (src/llir/abi.rs):                     *)
(*      S s c  integer immediate or register, displayed as signed          *)
(*      U u b  integer immediate or register, displayed as unsigned        *)
(*      C      4-byte integer, printed as hex;  n N E = S with an enum     *)
(*      "byte-sized / word-sized / dword integer" = 1 / 2 / 4 bytes        *)
(*      o  jump offset, max one;  t  jump time, max one, requires an `o`   *)
(*      _  unused 4-byte space;   -  unused 1-byte space                   *)
(*      f  single-precision float                                          *)
(*      arg0: "The first argument may have `arg0` if it is two bytes       *)
(*            large ... stored in the arg0 header field of the instruction *)
(*            in EoSD and PCB ECL" (timelines; they have no registers)     *)
(*      z(bs) "can only be the final argument"                             *)
(*  - doc/syntax.md (@mask/@blob): the blob is the exact stream of bytes;  *)
(*    "the bits in a binary integer literal read from right to left, so    *)
(*    ... the third argument is a register"; its example shows a float     *)
(*    register as the float whose value is the register number             *)
(*    (00541c46 = 10005.0) and little-endian dwords (10270000 = 10000)     *)
(*  - `RawInstr.param_mask`: "which arguments are registers" (16 bits)     *)
(*  - CHANGELOG 0.5.0: registers in a format without registers are an      *)
(*    error                                                                *)
(*  - `LanguageHooks::encode_label`: "Most formats encode labels as        *)
(*    offsets from the beginning of the script"                            *)
(*  - the property statement: values that do not fit their declared width  *)
(*    and registers where only immediates are allowed are diagnosed        *)
(*                                                                         *)
(* A parameter is [ch, imm, arg0, hex, en, str] (`str` = a StrFrame spec   *)
(* for z/m/p, "" otherwise); an argument is [k, v]:                        *)
(*   "imm" v = the integer        "reg"  v = register number (int slot)    *)
(*   "fimm" v = IEEE-754 bits     "freg" v = register number (float slot)  *)
(*   "off"/"time" v = 0: a label in front of the instruction, 1: behind it *)
(*   "str" v = payload bytes                                               *)
(***************************************************************************)
EXTENDS I32, Sequences, StrFrame

Param(ch, imm, arg0, hex, en) == [ch |-> ch, imm |-> imm, arg0 |-> arg0, hex |-> hex, en |-> en, str |-> ""]
StrParam(ch, sp) == [ch |-> ch, imm |-> FALSE, arg0 |-> FALSE, hex |-> FALSE, en |-> FALSE, str |-> sp]

IntLetters == {"S", "s", "U", "u", "C", "c", "b", "n", "N", "E"}
PadLetters == {"_", "-"}
StrLetters == {"z", "m", "p"}
IsInt(p) == p.ch \in IntLetters
IsPad(p) == p.ch \in PadLetters
IsStr(p) == p.ch \in StrLetters

Width(ch) == CASE ch \in {"S", "U", "C", "n", "N", "E", "f", "o", "t", "_"} -> 4
               [] ch \in {"s", "u"} -> 2
               [] ch \in {"c", "b", "-"} -> 1
IsSigned(ch) == ch \in {"S", "s", "c", "n", "N", "E", "C", "o", "t"}

\* can the slot hold a register at all?
AlwaysImmediate(p) == p.imm \/ p.arg0 \/ p.ch \in {"o", "t"} \/ IsStr(p) \/ IsPad(p)

\* ---- signatures ----
Count(sig, Test(_)) == Len(SelectSeq(sig, Test))
IsO(p) == p.ch = "o"
IsT(p) == p.ch = "t"
\* lang = [regs |-> BOOLEAN, arg0 |-> BOOLEAN (has the header field), hdr |-> header size, tend |-> time of the label behind]
Valid(sig, lang) ==
    /\ Count(sig, IsO) <= 1 /\ Count(sig, IsT) <= 1
    /\ (Count(sig, IsT) = 1 => Count(sig, IsO) = 1)
    /\ \A i \in 1..Len(sig) :
        /\ sig[i].arg0 => (i = 1 /\ IsInt(sig[i]) /\ Width(sig[i].ch) = 2 /\ lang.arg0)
        /\ (IsStr(sig[i]) /\ sig[i].str.kind = "block") => i = Len(sig)
        /\ (sig[i].imm => (IsInt(sig[i]) \/ sig[i].ch = "f"))

NotPad(p) == ~IsPad(p)
Arity(sig) == Count(sig, NotPad)         \* padding is not an argument

\* ---- integers in bytes ----
Fits(v, ch) ==
    CASE Width(ch) = 4 -> TRUE
      [] ch = "s" -> v >= -32768 /\ v <= 32767
      [] ch = "u" -> v >= 0 /\ v <= 65535
      [] ch = "c" -> v >= -128 /\ v <= 127
      [] ch = "b" -> v >= 0 /\ v <= 255

\* the w low bytes of the two's complement representation, least significant first
LE(v, w) == SubSeq(<< Lo(v) % 256, Lo(v) \div 256, UHi(v) % 256, UHi(v) \div 256 >>, 1, w)
FromLE(b, signed) ==
    CASE Len(b) = 4 -> FromU(b[4] * 256 + b[3], b[2] * 256 + b[1])
      [] Len(b) = 2 -> LET u == b[2] * 256 + b[1] IN IF signed /\ u >= 32768 THEN u - 65536 ELSE u
      [] Len(b) = 1 -> IF signed /\ b[1] >= 128 THEN b[1] - 256 ELSE b[1]

\* IEEE-754 bits of the floats n.0 for the register numbers the checks use
RegFloatBits == [r \in {3, 10000, 10004} |->
    CASE r = 3 -> 1077936128 [] r = 10000 -> 1176256512 [] r = 10004 -> 1176260608]
RegOfFloatBits(bits) == IF \E r \in DOMAIN RegFloatBits : RegFloatBits[r] = bits
                        THEN CHOOSE r \in DOMAIN RegFloatBits : RegFloatBits[r] = bits ELSE -1

\* ---- layout ----
\* 0-based position of parameter i among the arguments (= its bit in the register mask)
RECURSIVE ArgPos(_, _)
ArgPos(sig, i) == IF i = 1 THEN 0 ELSE ArgPos(sig, i - 1) + (IF IsPad(sig[i - 1]) THEN 0 ELSE 1)

IsReg(a) == a.k \in {"reg", "freg"}
MaskBits == 16

\* the dword an `o`/`t` argument stands for, given the size of the finished blob
LabelValue(a, lang, bloblen) ==
    IF a.k = "off" THEN (IF a.v = 0 THEN 0 ELSE lang.hdr + bloblen)
    ELSE (IF a.v = 0 THEN 0 ELSE lang.tend)

\* bytes of one parameter in the blob (arg0 lives in the header: none), ignoring whether the value fits
SlotBytes(p, a, carry) ==
    IF p.arg0 THEN <<>>
    ELSE IF IsPad(p) THEN Zeros(Width(p.ch))
    ELSE IF IsStr(p) THEN EncodeStr(p.str, a.v, carry).bytes
    ELSE IF p.ch = "f" THEN LE(IF a.k = "freg" THEN RegFloatBits[a.v] ELSE a.v, 4)
    ELSE LE(a.v, Width(p.ch))        \* ints; labels are patched in by Candidate

\* the obvious bytes: every parameter in order, low bytes of every value
RECURSIVE RawBlob(_, _, _, _)
RawBlob(sig, args, i, carry) ==
    IF i > Len(sig) THEN <<>>
    ELSE LET p == sig[i]
             a == IF IsPad(p) THEN [k |-> "pad", v |-> 0] ELSE args[ArgPos(sig, i) + 1]
             nc == IF IsStr(p) THEN EncodeStr(p.str, a.v, carry).carry ELSE carry
         IN SlotBytes(p, a, carry) \o RawBlob(sig, args, i + 1, nc)

\* offset of parameter i's bytes in a blob laid out as `blob` (strings make it data dependent): computed by Decode
RECURSIVE PatchLabels(_, _, _, _, _, _)
PatchLabels(sig, args, lang, blob, i, off) ==
    IF i > Len(sig) THEN blob
    ELSE LET p == sig[i]
             w == IF p.arg0 THEN 0
                  ELSE IF IsStr(p) THEN FrameLen(p.str, SubSeq(blob, off + 1, Len(blob)))
                  ELSE Width(p.ch)
         IN IF p.ch \in {"o", "t"}
            THEN LET v == LabelValue(args[ArgPos(sig, i) + 1], lang, Len(blob))
                 IN PatchLabels(sig, args, lang,
                                SubSeq(blob, 1, off) \o LE(v, 4) \o SubSeq(blob, off + 5, Len(blob)), i + 1, off + 4)
            ELSE PatchLabels(sig, args, lang, blob, i + 1, off + w)

RegMask(sig, args) ==
    LET bit(i) == IF ~IsPad(sig[i]) /\ IsReg(args[ArgPos(sig, i) + 1]) /\ ArgPos(sig, i) < MaskBits
                  THEN 2 ^ ArgPos(sig, i) ELSE 0
        RECURSIVE Sum(_)
        Sum(i) == IF i = 0 THEN 0 ELSE bit(i) + Sum(i - 1)
    IN Sum(Len(sig))

\* candidate encoding: [blob, mask, arg0 (16-bit pattern, -1 = the instruction has none)]
Candidate(sig, args, lang) ==
    [blob |-> PatchLabels(sig, args, lang, RawBlob(sig, args, 1, NoCarry), 1, 0),
     mask |-> RegMask(sig, args),
     arg0 |-> IF Len(sig) > 0 /\ sig[1].arg0 THEN FromLE(LE(args[1].v, 2), FALSE) ELSE -1]

\* ---- reading back ----
\* "off"/"time" read back as the position of the label the dword points at, when there is one
LabelArg(kind, v, lang, bloblen) ==
    IF kind = "off" THEN (IF v = 0 THEN [k |-> "off", v |-> 0]
                          ELSE IF v = lang.hdr + bloblen THEN [k |-> "off", v |-> 1] ELSE [k |-> "badoff", v |-> v])
    ELSE (IF v = 0 THEN [k |-> "time", v |-> 0]
          ELSE IF v = lang.tend THEN [k |-> "time", v |-> 1] ELSE [k |-> "badtime", v |-> v])

RECURSIVE DecodeFrom(_, _, _, _, _, _, _)
\* returns the argument list, or <<"short">> \o ... marker record on malformed input
DecodeFrom(sig, blob, mask, arg0, lang, i, off) ==
    IF i > Len(sig) THEN (IF off = Len(blob) THEN <<>> ELSE << [k |-> "leftover", v |-> Len(blob) - off] >>)
    ELSE LET p == sig[i]
             isreg == /\ lang.regs /\ ~AlwaysImmediate(p) /\ ArgPos(sig, i) < MaskBits
                      /\ (mask \div (2 ^ ArgPos(sig, i))) % 2 = 1
         IN IF p.arg0 THEN
                << [k |-> "imm", v |-> FromLE(LE(arg0, 2), IsSigned(p.ch))] >> \o DecodeFrom(sig, blob, mask, arg0, lang, i + 1, off)
            ELSE IF IsStr(p) THEN
                LET n == FrameLen(p.str, SubSeq(blob, off + 1, Len(blob)))
                IN IF n < 0 THEN << [k |-> "short", v |-> i] >>
                   ELSE << [k |-> "str", v |-> DecodeStr(p.str, SubSeq(blob, off + 1, off + n))] >>
                        \o DecodeFrom(sig, blob, mask, arg0, lang, i + 1, off + n)
            ELSE LET w == Width(p.ch) IN
                IF off + w > Len(blob) THEN << [k |-> "short", v |-> i] >>
                ELSE LET bytes == SubSeq(blob, off + 1, off + w)
                         rest == DecodeFrom(sig, blob, mask, arg0, lang, i + 1, off + w)
                     IN IF IsPad(p) THEN rest
                        ELSE IF p.ch \in {"o", "t"} THEN
                            << LabelArg(IF p.ch = "o" THEN "off" ELSE "time", FromLE(bytes, TRUE), lang, Len(blob)) >> \o rest
                        ELSE IF p.ch = "f" THEN
                            << IF isreg THEN [k |-> "freg", v |-> RegOfFloatBits(FromLE(bytes, TRUE))]
                               ELSE [k |-> "fimm", v |-> FromLE(bytes, TRUE)] >> \o rest
                        ELSE << [k |-> IF isreg THEN "reg" ELSE "imm", v |-> FromLE(bytes, IsSigned(p.ch))] >> \o rest

Decode(sig, blob, mask, arg0, lang) == DecodeFrom(sig, blob, mask, arg0, lang, 1, 0)

(***************************************************************************)
(* Encode: the candidate is the encoding exactly when it reads back as the *)
(* argument list (nothing was "silently changed"); otherwise the call has  *)
(* no encoding and must be diagnosed.  `Problems` names the reasons; the   *)
(* model check proves  Encode.ok <=> Problems = {}.                        *)
(***************************************************************************)
StrTooLarge(sig, args) ==
    \E i \in 1..Len(sig) : IsStr(sig[i]) /\ sig[i].str.kind = "fixed"
        /\ TooLarge(sig[i].str, args[ArgPos(sig, i) + 1].v, NoCarry)

Encode(sig, args, lang) ==
    IF StrTooLarge(sig, args) THEN [ok |-> FALSE]
    ELSE LET c == Candidate(sig, args, lang)
         IN IF Decode(sig, c.blob, c.mask, c.arg0, lang) = args
            THEN [ok |-> TRUE, blob |-> c.blob, mask |-> c.mask, arg0 |-> c.arg0]
            ELSE [ok |-> FALSE]

\* reasons why a call has no encoding; each is [kind, at (parameter index), ch]
Problems(sig, args, lang) ==
    LET A(i) == args[ArgPos(sig, i) + 1]
        real == {i \in 1..Len(sig) : ~IsPad(sig[i])}
    IN  { [kind |-> "nofit", at |-> i, ch |-> sig[i].ch] :
            i \in {j \in real : IsInt(sig[j]) /\ A(j).k \in {"imm", "reg"} /\ ~Fits(A(j).v, sig[j].ch)} }
   \cup { [kind |-> "reg_in_imm", at |-> i, ch |-> sig[i].ch] :
            i \in {j \in real : IsReg(A(j)) /\ AlwaysImmediate(sig[j])} }
   \cup { [kind |-> "no_registers", at |-> i, ch |-> sig[i].ch] :
            i \in {j \in real : IsReg(A(j)) /\ ~lang.regs} }
   \cup { [kind |-> "no_mask_bit", at |-> i, ch |-> sig[i].ch] :
            i \in {j \in real : IsReg(A(j)) /\ ArgPos(sig, j) >= MaskBits} }
   \cup { [kind |-> "too_large", at |-> i, ch |-> sig[i].ch] :
            i \in {j \in real : IsStr(sig[j]) /\ sig[j].str.kind = "fixed" /\ TooLarge(sig[j].str, A(j).v, NoCarry)} }
=============================================================================
