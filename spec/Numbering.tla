----------------------------- MODULE Numbering -----------------------------
(***************************************************************************)
(* C20.  The numbering rules that decide which number a *name* stands for  *)
(* in a compiled file, transcribed from the statement of the property, the *)
(* README (entry/sprite syntax, "sprites: {sprite0: {id: 0, ...}}"),       *)
(* doc/syntax.md (meta syntax: objects are *ordered* maps; consts may be   *)
(* used before their definition) and the user-facing wording of the        *)
(* compiler's own warnings ("implicitly has index N").                     *)
(*                                                                         *)
(*   sprite id      explicit `id:` (a constant expression) else the id of  *)
(*                  the previous sprite + 1; the counter runs across       *)
(*                  entries; the very first sprite without `id:` gets 0    *)
(*   ANM script     a script *name* stands for the script's position in    *)
(*                  file order over all entries (0-based); the id stored   *)
(*                  in the script table is the explicit number else the    *)
(*                  previous script's id + 1                               *)
(*   MSG table      the sparse table is made dense: slot i holds entry i   *)
(*                  if given, else the default (else 0); its length is     *)
(*                  `table_len` if given, else largest key + 1; a slot     *)
(*                  holds the offset of the script it *names*              *)
(*   ECL sub        position of the sub in file order (0-based)            *)
(*   timeline       explicit number, else the count of earlier timelines   *)
(*                  without a number; the result must be exactly 0..n-1    *)
(*   STD instance   position of the named object in `objects` (0-based)    *)
(*                                                                         *)
(* One name with two different values, and a reference to a name that does *)
(* not exist, are errors.                                                  *)
(*                                                                         *)
(* Every Expect* operator returns a record with the same fields so that    *)
(* the generator can export them uniformly:                                *)
(*   ok   : BOOLEAN      err : "" or the kind of error                     *)
(*   file : sequence of numbers as they must appear in the file's table    *)
(*   map  : sequence of [name, v]: the number each distinct name stands for*)
(***************************************************************************)
EXTENDS ExprSem, FiniteSets, TLC

\* ---------------------------------------------------------------- helpers
RECURSIVE Flatten(_)
Flatten(ss) == IF ss = <<>> THEN <<>> ELSE Flatten(SubSeq(ss, 1, Len(ss) - 1)) \o ss[Len(ss)]

RangeOf(s) == {s[i] : i \in DOMAIN s}

\* first occurrences, in order
RECURSIVE Dedup(_)
Dedup(s) ==
    IF s = <<>> THEN <<>>
    ELSE LET f == Dedup(SubSeq(s, 1, Len(s) - 1))
         IN IF s[Len(s)] \in RangeOf(f) THEN f ELSE Append(f, s[Len(s)])

Distinct(s) == \A i, j \in DOMAIN s : s[i] = s[j] => i = j
IndexOf(s, x) == CHOOSE i \in DOMAIN s : s[i] = x          \* first is not needed: only used on Distinct(s)
MaxOf(S) == CHOOSE x \in S : \A y \in S : y <= x

Tup(f) == <<>> \o f                  \* force a function with domain 1..n into a tuple (for export)
Ok(file, map) == [ok |-> TRUE, err |-> "", file |-> Tup(file), map |-> Tup(map)]
Error(kind) == [ok |-> FALSE, err |-> kind, file |-> <<>>, map |-> <<>>]

\* a reference to a name that does not exist is an error, whatever else the layout says
ExpectWithUses(exp, uses, defined) ==
    IF ~exp.ok THEN exp
    ELSE IF ~(RangeOf(uses) \subseteq RangeOf(defined)) THEN Error("missing-name")
    ELSE exp

\* ------------------------------------------------------------ ANM sprites
\* a sprite is [name |-> STRING, id |-> NoId or an ExprSem expression]
NoId == [k |-> "none"]
HasId(sp) == sp.id.k # "none"

\* the constants a layout's id expressions may mention (`const int A = 4;`)
ConstA == 4
ConstEnv == ("A" :> IntV(ConstA))
IdValue(e) == Eval(e, ConstEnv, 0).v

\* flat : all sprites in file order, entry boundaries forgotten
RECURSIVE SpriteIdsFlat(_)
SpriteIdsFlat(flat) ==
    IF flat = <<>> THEN <<>>
    ELSE LET n == Len(flat)
             before == SpriteIdsFlat(SubSeq(flat, 1, n - 1))
             id == IF HasId(flat[n]) THEN IdValue(flat[n].id)
                   ELSE IF n = 1 THEN 0
                   ELSE before[n - 1] + 1
         IN Append(before, id)

\* entries : sequence of sequences of sprites
SpriteIds(entries) == SpriteIdsFlat(Flatten(entries))

ExpectSprites(entries) ==
    LET flat == Flatten(entries)
        ids == SpriteIds(entries)
        names == Dedup([i \in DOMAIN flat |-> flat[i].name])
        ValuesOf(nm) == {ids[i] : i \in {j \in DOMAIN flat : flat[j].name = nm}}
    IN IF \E i \in DOMAIN names : Cardinality(ValuesOf(names[i])) > 1
       THEN Error("ambiguous-sprite")
       ELSE Ok(ids, [i \in DOMAIN names |-> [name |-> names[i], v |-> CHOOSE v \in ValuesOf(names[i]) : TRUE]])

\* ------------------------------------------------------------ ANM scripts
\* a script is [name |-> STRING, num |-> Int]   (num < 0: no explicit number)
RECURSIVE ScriptIdsFlat(_)
ScriptIdsFlat(flat) ==
    IF flat = <<>> THEN <<>>
    ELSE LET n == Len(flat)
             before == ScriptIdsFlat(SubSeq(flat, 1, n - 1))
             id == IF flat[n].num >= 0 THEN flat[n].num
                   ELSE IF n = 1 THEN 0
                   ELSE before[n - 1] + 1
         IN Append(before, id)

\* the number a script name stands for: its position in file order over all entries
ScriptIndex(flat, nm) == IndexOf([i \in DOMAIN flat |-> flat[i].name], nm) - 1

ExpectScripts(entries) ==
    LET flat == Flatten(entries)
        names == [i \in DOMAIN flat |-> flat[i].name]
    IN IF ~Distinct(names) THEN Error("duplicate-script")
       ELSE Ok(ScriptIdsFlat(flat), [i \in DOMAIN names |-> [name |-> names[i], v |-> i - 1]])

\* -------------------------------------------------------------- MSG table
\* t = [scripts |-> sequence of names in file order,
\*      sparse  |-> sequence of [key |-> Nat, script |-> name or "0"] in source order, keys distinct,
\*      default |-> name, "0", or "" (no default given),
\*      len     |-> Int (< 0: no table_len given)]
ImplicitLen(sparse) == IF sparse = <<>> THEN 0 ELSE MaxOf({sparse[i].key : i \in DOMAIN sparse}) + 1
TableLen(t) == IF t.len >= 0 THEN t.len ELSE ImplicitLen(t.sparse)
DefaultOf(t) == IF t.default = "" THEN "0" ELSE t.default
DenseSlot(t, i) ==      \* i is 0-based
    IF \E e \in DOMAIN t.sparse : t.sparse[e].key = i
    THEN t.sparse[CHOOSE e \in DOMAIN t.sparse : t.sparse[e].key = i].script
    ELSE DefaultOf(t)
MsgTable(t) == [i \in 1..TableLen(t) |-> DenseSlot(t, i - 1)]

\* names that the written table really needs
MsgUsedNames(t) == RangeOf(MsgTable(t)) \ {"0"}
\* names mentioned in the source table (used or not)
MsgMentionedNames(t) == ({t.sparse[i].script : i \in DOMAIN t.sparse} \cup {DefaultOf(t)}) \ {"0"}

ExpectMsg(t) ==
    IF ~Distinct(t.scripts) THEN Error("duplicate-script")
    ELSE IF ~(MsgUsedNames(t) \subseteq RangeOf(t.scripts)) THEN Error("missing-name")
    ELSE Ok(<<>>, LET tb == MsgTable(t) IN [i \in DOMAIN tb |-> [name |-> tb[i], v |-> i - 1]])
\* for MSG `map` lists, per slot v (0-based), the script the slot must point at ("0": offset 0)

\* --------------------------------------------------------------- ECL subs
ExpectSubs(subs) ==      \* subs : sequence of names in file order
    IF ~Distinct(subs) THEN Error("duplicate-sub")
    ELSE Ok([i \in DOMAIN subs |-> i - 1], [i \in DOMAIN subs |-> [name |-> subs[i], v |-> i - 1]])

\* -------------------------------------------------------------- timelines
\* tls : sequence of Int, the explicit numbers in source order (< 0: none)
TimelineIdx(tls) ==
    [i \in DOMAIN tls |-> IF tls[i] >= 0 THEN tls[i]
                          ELSE Cardinality({j \in 1..(i - 1) : tls[j] < 0})]

ExpectTimelines(tls) ==
    LET idx == TimelineIdx(tls)
        n == Len(tls)
    IN IF ~Distinct(idx) THEN Error("duplicate-timeline")
       ELSE IF RangeOf(idx) # 0..(n - 1) THEN Error("missing-timeline")
       ELSE Ok(idx, [i \in DOMAIN tls |-> [name |-> ToString(i - 1), v |-> idx[i]]])
\* for timelines `map` lists, per source position (as a string), the index in the file

\* -------------------------------------------------------------------- STD
\* objects : sequence of distinct names (an ordered map); insts : sequence of names
ExpectStd(objects, insts) ==
    IF ~(RangeOf(insts) \subseteq RangeOf(objects)) THEN Error("missing-name")
    ELSE Ok([i \in DOMAIN insts |-> IndexOf(objects, insts[i]) - 1],
            [i \in DOMAIN objects |-> [name |-> objects[i], v |-> i - 1]])
=============================================================================
