SPECIFICATION Spec
CONSTANTS
  FullDepth = 0
  MaxDepth = 2
  StrideA = 5
  StrideB = 40
INVARIANT Inv
CHECK_DEADLOCK FALSE
