SPECIFICATION Spec
INVARIANTS StaticDynamic ValuesSane
CHECK_DEADLOCK FALSE
POSTCONDITION Post
