SPECIFICATION Spec
CONSTANT Thorough = TRUE
INVARIANT Inv
CHECK_DEADLOCK FALSE
