------------------------------- MODULE Syntax -------------------------------
(***************************************************************************)
(* C08 -- the documented concrete syntax of expressions, as far as it      *)
(* matters for printing a tree and reading it back.                        *)
(*                                                                         *)
(* Sources (never src/fmt.rs or the LALRPOP grammar):                      *)
(*  doc/syntax.md "Expressions": the binary operators "have the same       *)
(*    levels of precedence as in C"; ternary `a ? b : c` right             *)
(*    associative; unary negation; special functions / casts written       *)
(*    f(x).                                                                *)
(*  doc/syntax.md "Literals": integers `123`, `0x123`, `-0b00101`,         *)
(*    `true`, `false`; floats `1.0`, `-1.3f`; no leading plus.             *)
(*  CHANGELOG: difficulty switches `I0 = A + (3:4:4:5);`, unary `~`,       *)
(*    `INF`, `NAN`, `PI` constants, `true`/`false` members of the builtin  *)
(*    enum bool, `+-15:` accepted.                                         *)
(*                                                                         *)
(* Trees use the interchange shape of harness/src/export.rs (`k` = kind).  *)
(* Floats are `[k |-> "float", bits |-> i32]`, strings                     *)
(* `[k |-> "str", cps |-> <<code points>>]` (TLC strings are not           *)
(* multi-byte clean, and the property compares strings by characters).     *)
(***************************************************************************)
EXTENDS Integers, Sequences, TLC, I32

\* ------------------------------------------------------------------ constructors
IntLit(v) == [k |-> "int", v |-> v]
IntFmt(v, f) == [k |-> "int", v |-> v, fmt |-> f]
FloatLit(b) == [k |-> "float", bits |-> b]
StrLit(c) == [k |-> "str", cps |-> c]
NamedVar(n) == [k |-> "var", sig |-> "", id |-> "n:" \o n, name |-> n]
SigVar(s, n) == [k |-> "var", sig |-> s, id |-> "n:" \o n, name |-> n]
RegVar(s, r) == [k |-> "var", sig |-> s, id |-> "r" \o ToString(r)]
Un(op, x) == [k |-> "un", op |-> op, x |-> x]
Bin(op, a, b) == [k |-> "bin", op |-> op, a |-> a, b |-> b]
Tern(c, a, b) == [k |-> "tern", c |-> c, a |-> a, b |-> b]
Ds(cases) == [k |-> "ds", cases |-> cases]
Hole == [k |-> "hole"]
PreDec(v) == [k |-> "xcr", op |-> "--", order |-> "pre", var |-> v]
PostDec(v) == [k |-> "xcr", op |-> "--", order |-> "post", var |-> v]

\* ------------------------------------------------------------------ operator table
BinOps == {"||", "&&", "|", "^", "&", "==", "!=", "<", "<=", ">", ">=", "<<", ">>", ">>>", "+", "-", "*", "/", "%"}
PrefixOps == {"-", "!", "~"}
FuncOps == {"int", "float", "$", "%", "sin", "cos", "tan", "asin", "acos", "atan", "sqrt"}

\* levels: larger binds tighter.  0 = difficulty switch, 1 = ternary, 2..11 = the ten C levels of the
\* binary operators, 12 = prefix operators, 13 = primary (literals, names, f(x), `--x`, parenthesised)
LevelSwitch == 0
LevelTernary == 1
BinLevel(op) ==
    CASE op = "||" -> 2
      [] op = "&&" -> 3
      [] op = "|" -> 4
      [] op = "^" -> 5
      [] op = "&" -> 6
      [] op \in {"==", "!="} -> 7
      [] op \in {"<", "<=", ">", ">="} -> 8
      [] op \in {"<<", ">>", ">>>"} -> 9
      [] op \in {"+", "-"} -> 10
      [] op \in {"*", "/", "%"} -> 11
LevelPrefix == 12
LevelPrimary == 13

\* a numeric literal that is written with a leading minus sign
SignBit(bits) == bits < 0
IsNegLit(e) == (e.k = "int" /\ e.v < 0) \/ (e.k = "float" /\ SignBit(e.bits))

Level(e) ==
    CASE e.k = "ds" -> LevelSwitch
      [] e.k = "tern" -> LevelTernary
      [] e.k = "bin" -> BinLevel(e.op)
      [] e.k = "un" -> (IF e.op \in PrefixOps THEN LevelPrefix ELSE LevelPrimary)
      [] IsNegLit(e) -> LevelPrefix            \* `-3` is a minus sign followed by digits
      [] OTHER -> LevelPrimary

\* Does `child`, standing at `side` of `parent`, need parentheses?   Binary operators are left
\* associative; the ternary is right associative and a difficulty switch may only contain
\* colon-free operands; whether prefix operators may be stacked without parentheses is not
\* documented, so the model printer parenthesises them (it never relies on it).
NeedsParens(parent, child, side) ==
    CASE parent.k = "bin" ->
            IF side = "a" THEN Level(child) < BinLevel(parent.op) ELSE Level(child) <= BinLevel(parent.op)
      [] parent.k = "un" -> (IF parent.op \in PrefixOps THEN Level(child) <= LevelPrefix ELSE FALSE)
      [] parent.k = "tern" -> (IF side = "c" THEN Level(child) <= LevelTernary ELSE Level(child) < LevelTernary)
      [] parent.k = "ds" -> Level(child) <= LevelTernary
      [] OTHER -> FALSE

\* ------------------------------------------------------------------ tokens
\* [c |-> class, s |-> text]: classes "op" (operators and punctuation), "id" (identifiers and
\* keywords), "num" (digits; carries its 32-bit value v), "leaf" (a literal the model does not spell:
\* carries the tree e).
Op(s) == [c |-> "op", s |-> s]
Id(s) == [c |-> "id", s |-> s]
Num(s, v) == [c |-> "num", s |-> s, v |-> v]
LeafTok(e) == [c |-> "leaf", e |-> e]
FOpen == [c |-> "op", s |-> "(", f |-> TRUE]      \* the parenthesis of f(x): not a grouping parenthesis

\* floats the model knows how to spell (doc: `1.0`, `-1.3f`, `2f`): bits |-> text of the magnitude
FloatSpelling(bits) ==
    CASE bits = 1065353216 -> "1.0"        \* 0x3F800000
      [] bits = 1069547520 -> "1.5"        \* 0x3FC00000
      [] bits = 0 -> "0.0"
      [] bits = 1073741824 -> "2f"         \* 0x40000000
      [] OTHER -> ""
ClearSign(bits) == IF bits < 0 THEN (bits + MaxI32) + 1 ELSE bits
SetSign(bits) == IF bits < 0 THEN bits ELSE (bits - MaxI32) - 1

\* registers and names of the generator alphabet (TLC cannot take strings apart)
RegOfId(id) ==
    CASE id = "r10000" -> 10000 [] id = "r10001" -> 10001 [] id = "r-1" -> -1 [] id = "r0" -> 0 [] OTHER -> -999

VarToks(v) ==
    (IF v.sig = "" THEN <<>> ELSE <<Op(v.sig)>>) \o
    (IF "name" \in DOMAIN v THEN <<Id(v.name)>>
     ELSE LET r == RegOfId(v.id) IN
          <<Id("REG"), Op("[")>> \o (IF r < 0 THEN <<Op("-"), Num(ToString(-r), -r)>> ELSE <<Num(ToString(r), r)>>) \o <<Op("]")>>)

\* magnitude of a negative int as the digits that follow the minus sign (2^31 does not fit a TLC
\* int: its token carries the wrapped value, which is what a 32-bit reader makes of it)
MagTok(v) == IF v = MinI32 THEN Num("2147483648", MinI32) ELSE Num(ToString(-v), -v)

RECURSIVE Toks(_)
Wrap(parent, child, side) ==
    IF NeedsParens(parent, child, side) THEN <<Op("(")>> \o Toks(child) \o <<Op(")")>> ELSE Toks(child)
RECURSIVE CaseToks(_, _, _)
CaseToks(e, cases, i) ==
    IF i > Len(cases) THEN <<>>
    ELSE (IF i > 1 THEN <<Op(":")>> ELSE <<>>) \o
         (IF cases[i].k = "hole" THEN <<>> ELSE Wrap(e, cases[i], "case")) \o CaseToks(e, cases, i + 1)
RECURSIVE ArgToks(_, _)
ArgToks(args, i) ==
    IF i > Len(args) THEN <<>>
    ELSE (IF i > 1 THEN <<Op(",")>> ELSE <<>>) \o Toks(args[i]) \o ArgToks(args, i + 1)

\* PrintModel: the minimally parenthesised spelling of a tree, as a token sequence
Toks(e) ==
    CASE e.k = "int" -> (IF e.v < 0 THEN <<Op("-"), MagTok(e.v)>> ELSE <<Num(ToString(e.v), e.v)>>)
      [] e.k = "float" ->
            LET m == ClearSign(e.bits) IN
            (IF SignBit(e.bits) THEN <<Op("-")>> ELSE <<>>) \o
            (IF FloatSpelling(m) # "" THEN <<[c |-> "flt", s |-> FloatSpelling(m), bits |-> m]>> ELSE <<LeafTok(FloatLit(m))>>)
      [] e.k = "str" -> <<LeafTok(e)>>
      [] e.k = "var" -> VarToks(e)
      [] e.k = "xcr" -> (IF e.order = "pre" THEN <<Op(e.op)>> \o VarToks(e.var) ELSE VarToks(e.var) \o <<Op(e.op)>>)
      [] e.k = "un" ->
            IF e.op \in PrefixOps THEN <<Op(e.op)>> \o Wrap(e, e.x, "x")
            ELSE <<(IF e.op \in {"$", "%"} THEN Op(e.op) ELSE Id(e.op)), FOpen>> \o Toks(e.x) \o <<Op(")")>>
      [] e.k = "bin" -> Wrap(e, e.a, "a") \o <<Op(e.op)>> \o Wrap(e, e.b, "b")
      [] e.k = "tern" -> Wrap(e, e.c, "c") \o <<Op("?")>> \o Wrap(e, e.a, "a") \o <<Op(":")>> \o Wrap(e, e.b, "b")
      [] e.k = "ds" -> CaseToks(e, e.cases, 1)
      [] e.k = "call" ->
            IF "name" \in DOMAIN e.name /\ e.pseudos = <<>>
            THEN <<Id(e.name.name), FOpen>> \o ArgToks(e.args, 1) \o <<Op(")")>>
            ELSE <<LeafTok(e)>>
      [] OTHER -> <<LeafTok(e)>>          \* labelprop, enum: not spelled by the model

\* ------------------------------------------------------------------ token gluing
\* Two adjacent tokens that would read as something else when written without a space
\* (maximal munch over the documented operator set  + - * / % & ^ | && || == != < <= > >= << >> >>>
\* ! ~ -- ++ ? : ( ) , $ and the compound assignments).  `!` directly followed by one of
\* -*ENHLWXYZO4567 is the thecl-style difficulty string that the lexer still knows.
DiffChars == {"-", "*", "E", "N", "H", "L", "W", "X", "Y", "Z", "O", "4", "5", "6", "7"}
\* first character of the tokens of the generator alphabet that start with a difficulty character
StartsWithDiffChar(t) ==
    \/ t.c = "op" /\ t.s \in {"-", "--", "*"}
    \/ t.c = "id" /\ t.s \in {"E", "N", "Ex", "H", "L", "O", "X"}
    \/ t.c = "num" /\ t.s \in {"4", "7", "42", "5", "6"}
OpPairGlues(a, b) ==      \* a \o b (or a prefix of it) is itself an operator
    \/ a = "-" /\ b \in {"-", "--"}
    \/ a = "--" /\ b \in {"-", "--"}
    \/ a = "+" /\ b \in {"+", "++"}
    \/ a = "<" /\ b \in {"<", "<=", "<<", "=", "=="}
    \/ a = ">" /\ b \in {">", ">=", ">>", ">>>", "=", "=="}
    \/ a = "&" /\ b \in {"&", "&&"}
    \/ a = "|" /\ b \in {"|", "||"}
    \/ a = "!" /\ b \in {"=", "=="}
    \/ a \in {"=", "==", "!=", "<=", ">=", "+", "-", "*", "/", "%", "^", "<<", ">>", ">>>"} /\ b \in {"=", "=="}
    \/ a = "/" /\ b \in {"/", "*"}                  \* comments
GlueHazard(t1, t2) ==
    \/ t1.c \in {"id", "num", "flt"} /\ t2.c \in {"id", "num", "flt"}
    \/ t1.c = "op" /\ t2.c = "op" /\ OpPairGlues(t1.s, t2.s)
    \/ t1.c = "op" /\ t1.s = "!" /\ StartsWithDiffChar(t2)
    \/ t1.c = "leaf" \/ t2.c = "leaf"                \* not spelled by the model: keep apart

\* tokens with the `sp` flag: a space is required before this token
RECURSIVE Spaced(_, _)
Spaced(toks, i) ==
    IF i > Len(toks) THEN <<>>
    ELSE <<toks[i] @@ [sp |-> (i > 1 /\ GlueHazard(toks[i - 1], toks[i]))]>> \o Spaced(toks, i + 1)
MinTokens(e) == Spaced(Toks(e), 1)
HasGlue(e) == LET t == Toks(e) IN \E i \in 2..Len(t) : GlueHazard(t[i - 1], t[i]) /\ t[i - 1].c # "leaf" /\ t[i].c # "leaf"
HasParens(e) == LET t == Toks(e) IN \E i \in 1..Len(t) : t[i] = Op("(")

\* ------------------------------------------------------------------ ParseModel
\* A precedence-climbing reader of token sequences for the same table (as liberal as C: prefix
\* operators may be stacked).  Results are [e |-> tree, p |-> next position]; p = 0 is failure.
Fail == [e |-> Hole, p |-> 0]
IsOp(toks, p, s) == p <= Len(toks) /\ toks[p].c = "op" /\ toks[p].s = s
IsBinOpAt(toks, p) == p <= Len(toks) /\ toks[p].c = "op" /\ toks[p].s \in BinOps
IsId(toks, p, s) == p <= Len(toks) /\ toks[p].c = "id" /\ toks[p].s = s

RECURSIVE PSwitch(_, _), PSwitchRest(_, _, _), PTern(_, _), PBin(_, _, _), PBinLoop(_, _, _), PUnary(_, _), PPrimary(_, _), PVar(_, _), PArgs(_, _, _)

\* name or register, after an optional sigil
PVarName(toks, p, sig) ==
    IF IsId(toks, p, "REG") /\ IsOp(toks, p + 1, "[")
    THEN IF IsOp(toks, p + 2, "-") /\ p + 4 <= Len(toks) /\ toks[p + 3].c = "num" /\ IsOp(toks, p + 4, "]")
         THEN [e |-> RegVar(sig, -toks[p + 3].v), p |-> p + 5]
         ELSE IF p + 3 <= Len(toks) /\ toks[p + 2].c = "num" /\ IsOp(toks, p + 3, "]")
         THEN [e |-> RegVar(sig, toks[p + 2].v), p |-> p + 4]
         ELSE Fail
    ELSE IF p <= Len(toks) /\ toks[p].c = "id" /\ toks[p].s \notin FuncOps
    THEN [e |-> SigVar(sig, toks[p].s), p |-> p + 1]
    ELSE Fail
PVar(toks, p) ==
    IF (IsOp(toks, p, "$") \/ IsOp(toks, p, "%")) /\ ~IsOp(toks, p + 1, "(") THEN PVarName(toks, p + 1, toks[p].s)
    ELSE PVarName(toks, p, "")

PArgs(toks, p, acc) ==
    IF IsOp(toks, p, ")") THEN [e |-> acc, p |-> p + 1]
    ELSE LET r == PSwitch(toks, p) IN
         IF r.p = 0 THEN Fail
         ELSE IF IsOp(toks, r.p, ",") THEN PArgs(toks, r.p + 1, Append(acc, r.e))
         ELSE IF IsOp(toks, r.p, ")") THEN [e |-> Append(acc, r.e), p |-> r.p + 1]
         ELSE Fail

PPrimary(toks, p) ==
    IF p > Len(toks) THEN Fail
    ELSE LET t == toks[p] IN
    IF t.c = "num" THEN [e |-> IntLit(t.v), p |-> p + 1]
    ELSE IF t.c = "flt" THEN [e |-> FloatLit(t.bits), p |-> p + 1]
    ELSE IF t.c = "leaf" THEN [e |-> t.e, p |-> p + 1]
    ELSE IF IsOp(toks, p, "(") THEN
        LET r == PSwitch(toks, p + 1) IN
        IF r.p # 0 /\ IsOp(toks, r.p, ")") THEN [e |-> r.e, p |-> r.p + 1] ELSE Fail
    ELSE IF ((t.c = "id" /\ t.s \in FuncOps) \/ (t.c = "op" /\ t.s \in {"$", "%"})) /\ IsOp(toks, p + 1, "(") THEN
        LET r == PSwitch(toks, p + 2) IN
        IF r.p # 0 /\ IsOp(toks, r.p, ")") THEN [e |-> Un(t.s, r.e), p |-> r.p + 1] ELSE Fail
    ELSE IF IsOp(toks, p, "--") \/ IsOp(toks, p, "++") THEN
        LET r == PVar(toks, p + 1) IN
        IF r.p = 0 THEN Fail ELSE [e |-> [k |-> "xcr", op |-> t.s, order |-> "pre", var |-> r.e], p |-> r.p]
    ELSE IF t.c = "id" /\ t.s # "REG" /\ IsOp(toks, p + 1, "(") THEN
        LET r == PArgs(toks, p + 2, <<>>) IN
        IF r.p = 0 THEN Fail
        ELSE [e |-> [k |-> "call", name |-> [id |-> "n:" \o t.s, name |-> t.s], pseudos |-> <<>>, args |-> r.e], p |-> r.p]
    ELSE LET r == PVar(toks, p) IN
        IF r.p = 0 THEN Fail
        ELSE IF IsOp(toks, r.p, "--") \/ IsOp(toks, r.p, "++")
        THEN [e |-> [k |-> "xcr", op |-> toks[r.p].s, order |-> "post", var |-> r.e], p |-> r.p + 1]
        ELSE r

PUnary(toks, p) ==
    IF p <= Len(toks) /\ toks[p].c = "op" /\ toks[p].s \in PrefixOps
    THEN LET r == PUnary(toks, p + 1) IN IF r.p = 0 THEN Fail ELSE [e |-> Un(toks[p].s, r.e), p |-> r.p]
    ELSE PPrimary(toks, p)

\* left-associative climbing: operands of an operator at level L are read at level L+1
PBinLoop(toks, lhs, min) ==
    IF lhs.p = 0 THEN Fail
    ELSE IF IsBinOpAt(toks, lhs.p) /\ BinLevel(toks[lhs.p].s) >= min
    THEN LET op == toks[lhs.p].s
             rhs == PBin(toks, lhs.p + 1, BinLevel(op) + 1)
         IN IF rhs.p = 0 THEN Fail ELSE PBinLoop(toks, [e |-> Bin(op, lhs.e, rhs.e), p |-> rhs.p], min)
    ELSE lhs
PBin(toks, p, min) == PBinLoop(toks, PUnary(toks, p), min)

\* c ? a : b with a, b again ternaries (right associative); a switch never stands in a ternary
PTern(toks, p) ==
    LET c == PBin(toks, p, 2) IN
    IF c.p = 0 THEN Fail
    ELSE IF IsOp(toks, c.p, "?") THEN
        LET a == PTern(toks, c.p + 1) IN
        IF a.p = 0 \/ ~IsOp(toks, a.p, ":") THEN Fail
        ELSE LET b == PTern(toks, a.p + 1) IN
             IF b.p = 0 THEN Fail ELSE [e |-> Tern(c.e, a.e, b.e), p |-> b.p]
    ELSE c

\* e (":" [e])+ : a difficulty switch; only the first case is mandatory
PSwitchRest(toks, p, acc) ==
    IF IsOp(toks, p, ":") THEN
        IF p + 1 > Len(toks) \/ IsOp(toks, p + 1, ":") \/ IsOp(toks, p + 1, ")") \/ IsOp(toks, p + 1, ",")
        THEN PSwitchRest(toks, p + 1, Append(acc, Hole))
        ELSE LET r == PBin(toks, p + 1, 2) IN
             IF r.p = 0 THEN Fail ELSE PSwitchRest(toks, r.p, Append(acc, r.e))
    ELSE [e |-> acc, p |-> p]
PSwitch(toks, p) ==
    LET first == PTern(toks, p) IN
    IF first.p = 0 THEN Fail
    ELSE IF IsOp(toks, first.p, ":") THEN
        LET r == PSwitchRest(toks, first.p, <<first.e>>) IN
        IF r.p = 0 THEN Fail ELSE [e |-> Ds(r.e), p |-> r.p]
    ELSE first

ParseModel(toks) ==
    LET r == PSwitch(toks, 1) IN
    IF r.p = Len(toks) + 1 THEN r.e ELSE [k |-> "fail", at |-> r.p]

\* ------------------------------------------------------------------ Norm
\* The ONE normalisation C08 allows: a unary minus applied to a numeric literal and the negative
\* literal are the same thing (the real parser reads `-3` as minus applied to 3; both sides are
\* brought to the folded form, with 32-bit wrap-around: -(-2147483648) is -2147483648).  Literals
\* that have no spelling of their own are written with the documented built-in constants
\* (`true`, `false`, `INF`, `NAN`) and come back as those names; Norm reads the names as the
\* literals.  The radix/sign *hint* of an int literal is not part of its value ("literals with the
\* same bits").
CanonicalNaN == 2143289344      \* 0x7FC00000
PlusInf == 2139095040           \* 0x7F800000
BuiltinLit(v) ==
    CASE v.sig = "" /\ v.id = "n:true" -> IntLit(1)
      [] v.sig = "" /\ v.id = "n:false" -> IntLit(0)
      [] v.sig = "" /\ v.id = "n:INF" -> FloatLit(PlusInf)
      [] v.sig = "" /\ v.id = "n:NAN" -> FloatLit(CanonicalNaN)
      [] OTHER -> v
FlipSign(bits) == IF bits < 0 THEN ClearSign(bits) ELSE SetSign(bits)

RECURSIVE Norm(_)
NormSeq(s) == [i \in DOMAIN s |-> Norm(s[i])]
Norm(e) ==
    CASE e.k = "int" -> IntLit(e.v)
      [] e.k = "float" -> FloatLit(e.bits)
      [] e.k = "var" -> BuiltinLit(e)
      [] e.k = "un" ->
            LET x == Norm(e.x) IN
            IF e.op = "-" /\ x.k = "int" THEN IntLit(Neg(x.v))
            ELSE IF e.op = "-" /\ x.k = "float" THEN FloatLit(FlipSign(x.bits))
            ELSE [e EXCEPT !.x = x]
      [] e.k = "bin" -> [e EXCEPT !.a = Norm(@), !.b = Norm(@)]
      [] e.k = "tern" -> [e EXCEPT !.c = Norm(@), !.a = Norm(@), !.b = Norm(@)]
      [] e.k = "ds" -> [e EXCEPT !.cases = NormSeq(@)]
      [] e.k = "call" ->
            LET ps == e.pseudos IN
            [e EXCEPT !.args = NormSeq(@), !.pseudos = [i \in DOMAIN ps |-> [kind |-> ps[i].kind, v |-> Norm(ps[i].v)]]]
      [] OTHER -> e            \* str, xcr, hole, labelprop, enum: no numeric literal inside
NormEq(a, b) == Norm(a) = Norm(b)
=============================================================================
