--------------------------- MODULE Gen_MetaTrees ---------------------------
(***************************************************************************)
(* C08, Mode G.  Metadata trees (doc/syntax.md "Metadata": scalars,        *)
(* arrays, objects with identifier keys, variants = identifier + object),  *)
(* depth <= 3 with 0..3 children.  The formatter decides per list between  *)
(* one-line and one-item-per-line layout depending on the target width, so *)
(* these are the shapes that exercise every inline-vs-block decision; the  *)
(* harness prints each of them at every width from 1 to (longest line + 3) *)
(* and 200.                                                                *)
(*   shapes  : every container of 0..n children over the depth-1 alphabet, *)
(*             then every container whose children are one depth-2 tree    *)
(*             repeated / followed / preceded by scalars;                  *)
(*   scalars : every boundary leaf of C08Leaves in an array and an object; *)
(*   items   : objects as `meta {..}` / `entry {..}` items and files.      *)
(* In-model: every generated tree is well-formed for the documented        *)
(* syntax (distinct keys; depth and fan-out bounds).                       *)
(***************************************************************************)
EXTENDS C08Leaves, Json, IOUtils, FiniteSets, SequencesExt

CONSTANT Thorough

Sc(e) == [k |-> "scalar", e |-> e]
Arr(items) == [k |-> "array", items |-> items]
Obj(fields) == [k |-> "object", fields |-> fields]
Vnt(name, fields) == [k |-> "variant", name |-> name, fields |-> fields]

Keys == <<"k1", "k2", "k3">>
Fields(ms) == [i \in 1..Len(ms) |-> <<Keys[i], ms[i]>>]

S1 == Sc(IntFmt(10, "sDec"))
S2 == Sc(StrLit(<<100, 101, 108, 105, 99, 105, 111, 117, 115>>))        \* "delicious"
D1 == {S1, S2, Arr(<<>>), Obj(<<>>), Vnt("rect", <<>>)}

MaxKids == IF Thorough THEN 3 ELSE 2
Lists(S, n) == UNION {[1..m -> S] : m \in 1..n}
Containers(ms) == {Arr(ms), Obj(Fields(ms)), Vnt("rect", Fields(ms))}
D2 == D1 \cup UNION {Containers(ms) : ms \in Lists(D1, MaxKids)}
\* depth 3: one depth-2 child in the company of scalars
Company(c) == {<<c>>, <<c, c>>, <<c, c, c>>, <<c, S1, S2>>, <<S2, c>>}
D3 == D2 \cup UNION {UNION {Containers(ms) : ms \in Company(c)} : c \in D2}

\* every boundary leaf as a scalar
ScalarCases == UNION {{Arr(<<Sc(l), S1>>), Obj(Fields(<<S1, Sc(l)>>))} : l \in Leaves}
\* expressions that are not leaves, and numeric keys
Misc == {
    Arr(<<Sc(Bin("+", IntFmt(1, "sDec"), IntFmt(2, "sDec"))), Sc(Un("-", NamedVar("x"))), Sc(Ds(<<IntFmt(1, "sDec"), IntFmt(2, "sDec")>>))>>),
    Arr(<<Sc(Tern(NamedVar("c"), IntFmt(1, "sDec"), IntFmt(2, "sDec"))), Sc([k |-> "call", name |-> [id |-> "n:f", name |-> "f"], pseudos |-> <<>>,
                                                                                 args |-> <<IntFmt(1, "sDec"), IntFmt(20000, "sDec"), IntFmt(300000, "sDec")>>])>>),
    Obj(<<<<"0", S1>>, <<"10", S2>>, <<"entry", S1>>, <<"E", Sc(NamedVar("E"))>>>>),
    Vnt("E", <<<<"N", Sc(IntFmt(-1, "sDec"))>>>>),
    Obj(<<<<"pos", Arr(<<Sc(FloatLit(-1029505024)), Sc(FloatLit(1065353216)), Sc(FloatLit(MinI32))>>)>>,
          <<"quads", Arr(<<Vnt("rect", <<<<"anm_script", Sc(IntFmt(2, "sDec"))>>, <<"size", Arr(<<Sc(FloatLit(1065353216)), Sc(FloatLit(-1029505024))>>)>>>>),
                           Vnt("strip", <<<<"width", Sc(FloatLit(1065353216))>>>>)>>)>>>>) }

Metas == D3 \cup ScalarCases \cup Misc

\* objects as items and files
ObjFields == {m.fields : m \in {x \in D2 \cup Misc : x.k = "object"}}
MetaItem(kw, f) == [k |-> "meta", kw |-> kw, fields |-> f]
Items == {MetaItem(kw, f) : kw \in {"meta", "entry"}, f \in ObjFields}
Files == {[mapfiles |-> <<>>, image_sources |-> <<>>, items |-> <<MetaItem("meta", f), MetaItem("entry", f)>>] : f \in ObjFields}

\* ------------------------------------------------------------------ in-model
RECURSIVE Depth(_), WellFormed(_)
FieldMetas(f) == [i \in DOMAIN f |-> f[i][2]]
Kids(m) == CASE m.k = "scalar" -> <<>> [] m.k = "array" -> m.items [] OTHER -> FieldMetas(m.fields)
MaxOf(S) == IF S = {} THEN 0 ELSE CHOOSE x \in S : \A y \in S : y <= x
Depth(m) == 1 + MaxOf({Depth(Kids(m)[i]) : i \in DOMAIN Kids(m)})
DistinctKeys(f) == \A i, j \in DOMAIN f : i # j => f[i][1] # f[j][1]
WellFormed(m) ==
    /\ m.k \in {"scalar", "array", "object", "variant"}
    /\ m.k \in {"object", "variant"} => DistinctKeys(m.fields)
    /\ \A i \in DOMAIN Kids(m) : WellFormed(Kids(m)[i])

CaseSeq ==
    LET ms == SetToSeq(Metas)  its == SetToSeq(Items)  fs == SetToSeq(Files) IN
    [i \in 1..Len(ms) |-> [id |-> i, kind |-> "meta", e |-> ms[i], widths |-> "auto"]]
    \o [i \in 1..Len(its) |-> [id |-> Len(ms) + i, kind |-> "item", e |-> its[i], widths |-> "auto"]]
    \o [i \in 1..Len(fs) |-> [id |-> Len(ms) + Len(its) + i, kind |-> "file", e |-> fs[i], widths |-> "auto"]]

VARIABLE m
Init == m \in Metas
Next == UNCHANGED m
Spec == Init /\ [][Next]_m
Inv == WellFormed(m) /\ Depth(m) <= 5 /\ Len(Kids(m)) <= 4

ASSUME /\ ndJsonSerialize(IOEnv.OUT, CaseSeq)
       /\ PrintT(<<"GEN", "Gen_MetaTrees", Len(CaseSeq), Cardinality(D2), Cardinality(D3), Cardinality(ScalarCases), Cardinality(Items)>>)
=============================================================================
