-------------------------- MODULE Obs_StoredTimes --------------------------
(***************************************************************************)
(* C13, decompile direction (judgement of observations, Mode P/H style).   *)
(* The harness built instruction lists with the stored times / jumps of    *)
(* Gen_StoredTimes, ran the real decompiler and exported the statement     *)
(* tree it printed (as the real parser reads the printed text).  One TLC   *)
(* state per observed row; the invariant is the documented meaning of the  *)
(* printed labels (StoredTimes!Verdict): it must reproduce exactly the     *)
(* stored times and the stored jump time arguments.                        *)
(*                                                                         *)
(* Run with -workers 1 (rows and counters are parked in TLC registers).    *)
(***************************************************************************)
EXTENDS StoredTimes, Json, IOUtils

ASSUME TLCSet(41, ndJsonDeserialize(IOEnv.OBS))
Rows == TLCGet(41)
N == Len(Rows)

ASSUME TLCSet(51, 0) /\ TLCSet(52, 0)
Bump(reg) == TLCSet(reg, TLCGet(reg) + 1)

VARIABLE r
Init == r \in 1..N
Next == UNCHANGED r
Spec == Init /\ [][Next]_r

VerdictOf(k) == Verdict(Rows[k].tree, Rows[k].times, Rows[k].jumps)

LabelsReproduceStoredTimes ==
    LET v == VerdictOf(r) IN
    IF v = "ok" THEN Bump(51)
    ELSE IF v = "unsupported" THEN Bump(52)
    ELSE PrintT(<<"BAD", r, v>>) /\ FALSE

Post == PrintT(<<"COUNTS", TLCGet(51), TLCGet(52)>>)
===========================================================================
