---------------------------- MODULE TimeLabels ----------------------------
(***************************************************************************)
(* The lexical time/difficulty rules of doc/syntax.md ("Time labels"):     *)
(*   a function body starts at time 0; `N:` sets the time, `+N:` adds to   *)
(*   it (32-bit wrap; N any constant expression); a statement without a    *)
(*   label inherits the previous statement's time; labels at the start or  *)
(*   end of a block take effect there.  Time is one running value per      *)
(*   function body: entering or leaving a nested block does not save or    *)
(*   restore it.  A difficulty label applies to its statement and to       *)
(*   everything nested in it unless an inner label overrides it.           *)
(*                                                                         *)
(* Annotate(block, t, dm) returns the same tree with two extra fields on   *)
(* every statement: tm (its time) and dm (its effective difficulty mask).  *)
(***************************************************************************)
EXTENDS ExprSem, TLC

HasField(r, f) == f \in DOMAIN r

\* effect of a statement's own label on the running time
LabelEffect(s, t) ==
    CASE s.k = "abs" -> s.t
      [] s.k = "rel" -> LET d == ConstEval(s.e) IN IF d.t = "i" THEN Add(t, d.v) ELSE t
      [] OTHER -> t

OwnMask(s, dm) == IF HasField(s, "diffmask") THEN s.diffmask ELSE dm

RECURSIVE AnnBlock(_, _, _), AnnStmts(_, _, _, _, _), AnnChain(_, _, _, _, _)

\* annotate statements i..Len of `blk`, accumulating into `acc`
AnnStmts(blk, i, t, dm, acc) ==
    IF i > Len(blk) THEN [b |-> acc, t |-> t]
    ELSE
        LET s == blk[i]
            t1 == LabelEffect(s, t)
            m == OwnMask(s, dm)
            base == [tm |-> t1, dm |-> m] @@ s
        IN  IF s.k \in {"loop", "while", "times", "block"} THEN
                LET r == AnnBlock(s.body, t1, m)
                IN AnnStmts(blk, i + 1, r.t, dm, Append(acc, [base EXCEPT !.body = r.b]))
            ELSE IF s.k = "chain" THEN
                LET r == AnnChain(s.blocks, 1, t1, m, <<>>)
                    withBlocks == [base EXCEPT !.blocks = r.b]
                IN IF HasField(s, "else")
                   THEN LET re == AnnBlock(s.else, r.t, m)
                        IN AnnStmts(blk, i + 1, re.t, dm, Append(acc, [withBlocks EXCEPT !.else = re.b]))
                   ELSE AnnStmts(blk, i + 1, r.t, dm, Append(acc, withBlocks))
            ELSE AnnStmts(blk, i + 1, t1, dm, Append(acc, base))

AnnChain(blocks, j, t, dm, acc) ==
    IF j > Len(blocks) THEN [b |-> acc, t |-> t]
    ELSE LET r == AnnBlock(blocks[j].body, t, dm)
         IN AnnChain(blocks, j + 1, r.t, dm, Append(acc, [blocks[j] EXCEPT !.body = r.b]))

AnnBlock(blk, t, dm) == AnnStmts(blk, 1, t, dm, <<>>)

Annotate(blk) == AnnBlock(blk, 0, 255).b

\* lexical start / end times of an annotated block (the times of its first / last statement;
\* the parser bookends every block with no-op statements, so these are "the time at `{`" and
\* "the time at `}`")
StartT(ablk) == ablk[1].tm
EndT(ablk) == ablk[Len(ablk)].tm

\* the times of all instruction-producing statements, in lexical order (used by C13)
RECURSIVE InstrTimes(_), ITS(_, _)
ITS(ablk, i) ==
    IF i > Len(ablk) THEN <<>>
    ELSE LET s == ablk[i]
             here == IF s.k = "expr" THEN << s.tm >> ELSE <<>>
             inner == IF s.k \in {"loop", "while", "times", "block"} THEN InstrTimes(s.body) ELSE <<>>
         IN here \o inner \o ITS(ablk, i + 1)
InstrTimes(ablk) == ITS(ablk, 1)
==========================================================================
