SPECIFICATION Spec
INVARIANTS Report TypeOK KnownEvent
CHECK_DEADLOCK FALSE
