SPECIFICATION Spec
CONSTANTS
  MaxItems = 3
  MaxBlocks = 1
  MaxDepth = 1
  Small = TRUE
INVARIANT Inv
CHECK_DEADLOCK FALSE
