----------------------------- MODULE Gen_Blocks -----------------------------
(***************************************************************************)
(* C06: the TLC-enumerated family of structured programs and the in-model  *)
(* check MC_Desugar.                                                       *)
(*                                                                         *)
(* A program is built one token at a time (every prefix is a program: a    *)
(* missing `}` closes implicitly), so TLC visits every nesting of          *)
(* if / if-else / while / do-while / times(n) / times(x = n) / loop+break  *)
(* / free block up to MaxLen tokens and MaxDepth levels, with a time label *)
(* allowed at every position (block start, between statements, block end). *)
(*                                                                         *)
(* In-model (invariant DocumentedDesugaringAgrees): on every complete      *)
(* program and every valuation of the two registers, the script machine    *)
(* on the block tree and on the *documented* flat form (Desugar.tla)       *)
(* perform the same calls at the same times and end with the same time,    *)
(* real time and registers.  Complete programs are also exported (ndjson)  *)
(* for replay into the real desugar_blocks (Mode G feeding Mode P).        *)
(* Run with -workers 1 (the export accumulates in a TLC register).         *)
(***************************************************************************)
EXTENDS Desugar, Json, IOUtils

CONSTANTS MaxLen, MaxDepth, CheckAll

R == [k |-> "var", sig |-> "", id |-> "r1000"]
S == [k |-> "var", sig |-> "", id |-> "r1001"]
ILit(v) == [k |-> "int", v |-> v]
Nop == [k |-> "nop"]
CallR == [k |-> "expr", e |-> [k |-> "call", name |-> [ins |-> 101], pseudos |-> <<>>, args |-> << R >>]]
IncR == [k |-> "assign", var |-> R, op |-> "+=", value |-> ILit(1)]
RelT == [k |-> "rel", e |-> ILit(5)]
CondLt == [k |-> "bin", op |-> "<", a |-> R, b |-> ILit(2)]
Break == [k |-> "jump", jump |-> "break"]

Simple == {"I", "A", "T"}
Openers == {"if{", "wh{", "do{", "tm{", "tc{", "lp{", "{"}
LoopOpeners == {"wh{", "do{", "tm{", "tc{", "lp{"}
Tokens == Simple \cup Openers \cup {"}", "}else{", "bk"}

\* the stack of open constructs after reading toks (top is last); "else{" marks an else block
RECURSIVE StackOf(_, _, _)
StackOf(toks, i, st) ==
    IF i > Len(toks) THEN st
    ELSE LET x == toks[i] IN
         IF x \in Openers THEN StackOf(toks, i + 1, Append(st, x))
         ELSE IF x = "}" THEN StackOf(toks, i + 1, SubSeq(st, 1, Len(st) - 1))
         ELSE IF x = "}else{" THEN StackOf(toks, i + 1, Append(SubSeq(st, 1, Len(st) - 1), "else{"))
         ELSE StackOf(toks, i + 1, st)
Stack(toks) == StackOf(toks, 1, <<>>)

CanAppend(toks, x) ==
    LET st == Stack(toks) IN
    CASE x \in Simple -> TRUE
      [] x \in Openers -> Len(st) < MaxDepth
      [] x = "}" -> Len(st) > 0
      [] x = "}else{" -> Len(st) > 0 /\ st[Len(st)] = "if{"
      [] x = "bk" -> \E j \in 1..Len(st) : st[j] \in LoopOpeners

\* ---- tokens -> tree (bookend no-ops as the real parser inserts them)
RECURSIVE ParseBody(_, _)
\* parses statements from position i until the matching close; returns [b, i (position after the close), how]
\* how = "}" | "}else{" | "eof"
MkStmt(x, body) ==
    CASE x = "wh{" -> [k |-> "while", do |-> FALSE, cond |-> CondLt, body |-> body]
      [] x = "do{" -> [k |-> "while", do |-> TRUE, cond |-> CondLt, body |-> body]
      [] x = "tm{" -> [k |-> "times", count |-> ILit(2), body |-> body]
      [] x = "tc{" -> [k |-> "times", count |-> R, clobber |-> S, body |-> body]
      [] x = "lp{" -> [k |-> "loop", body |-> body]
      [] x = "{" -> [k |-> "block", body |-> body]
Book(b) == << Nop >> \o b \o << Nop >>
ParseBody(toks, i) ==
    IF i > Len(toks) THEN [b |-> <<>>, i |-> i, how |-> "eof"]
    ELSE LET x == toks[i] IN
         IF x = "}" \/ x = "}else{" THEN [b |-> <<>>, i |-> i + 1, how |-> x]
         ELSE IF x \in Simple \cup {"bk"} THEN
              LET s == CASE x = "I" -> CallR [] x = "A" -> IncR [] x = "T" -> RelT [] x = "bk" -> Break
                  r == ParseBody(toks, i + 1)
              IN [r EXCEPT !.b = << s >> \o r.b]
         ELSE IF x = "if{" THEN
              LET t == ParseBody(toks, i + 1)
                  e == IF t.how = "}else{" THEN ParseBody(toks, t.i) ELSE [b |-> <<>>, i |-> t.i, how |-> "none"]
                  base == [k |-> "chain", blocks |-> << [kw |-> "if", cond |-> CondLt, body |-> Book(t.b)] >>]
                  stmt == IF t.how = "}else{" THEN [else |-> Book(e.b)] @@ base ELSE base
                  r == ParseBody(toks, e.i)
              IN [r EXCEPT !.b = << stmt >> \o r.b]
         ELSE \* another opener
              LET t == ParseBody(toks, i + 1)
                  r == ParseBody(toks, t.i)
              IN [r EXCEPT !.b = << MkStmt(x, Book(t.b)) >> \o r.b]
TreeOf(toks) == Book(ParseBody(toks, 1).b)

\* ---- running a machine to the end (bounded by fuel)
RECURSIVE Run(_, _)
Run(prog, c) == IF Done(c) THEN c ELSE Run(prog, Step(prog, c, 0))

DVals == {IntV(0), IntV(1), IntV(3)}
Valuations == {[r1000 |-> a, r1001 |-> b] : a \in DVals, b \in DVals}
AgreeOn(toks, r) ==
    LET src == Annotate(TreeOf(toks))
        flat == Annotate(Desugar(TreeOf(toks)))
        a == Run(src, Start(r, 120))
        b == Run(flat, Start(r, 1200))
    IN a.st = "done" =>
          /\ b.st = "done"
          /\ a.log = b.log /\ a.time = b.time /\ a.rt = b.rt
          /\ a.regs["r1000"] = b.regs["r1000"] /\ a.regs["r1001"] = b.regs["r1001"]

VARIABLE toks
Complete(t) == Stack(t) = <<>>

ASSUME TLCSet(45, <<>>)
Init == toks = <<>>
Next == /\ Len(toks) < MaxLen
        /\ \E x \in Tokens : CanAppend(toks, x) /\ toks' = Append(toks, x)
        \* every prefix is a program (open blocks close implicitly), so every state is exported
        /\ TLCSet(45, Append(TLCGet(45), [toks |-> toks', body |-> TreeOf(toks')]))
Spec == Init /\ [][Next]_toks

\* CheckAll = FALSE: the in-model check runs on the programs whose blocks are all closed explicitly (quick)
DocumentedDesugaringAgrees == (CheckAll \/ Complete(toks)) => \A r \in Valuations : AgreeOn(toks, r)

Post == /\ ndJsonSerialize(IOEnv.OUT, TLCGet(45))
        /\ PrintT(<<"GEN", "Gen_Blocks", Len(TLCGet(45))>>)
=============================================================================
