----------------------------- MODULE DiffSwitch -----------------------------
(***************************************************************************)
(* C14 (b): what a statement containing difficulty switches means, and the *)
(* predicate ExactlyOne that the instructions emitted for it must satisfy. *)
(*                                                                         *)
(* Sources: CHANGELOG.md "Difficulty switches.  I0 = A + (3:4:4:5);";      *)
(* tests/integration/difficulty.rs (`3::5:` = 3 on the first two levels,   *)
(* 5 on the last two; two switches in one statement; `{"*-F"}:` on a       *)
(* switch statement keeps bit F off in every copy; a label inside a        *)
(* labelled block replaces the outer label); the doc comments of           *)
(* src/diff_switch_utils.rs ("`(a:::b:)` will produce two masks, 0b111     *)
(* (for a) and 0b11000 (for b)"; "two switches `(a:b)` and `(a:::d:)`:     *)
(* difficulties 0, 1 and 3 are all explicit").                             *)
(*                                                                         *)
(* Expressions use the interchange shape of the harness:                   *)
(*   [k |-> "int", v |-> n]   [k |-> "var", id |-> "r1001", sig |-> "$"]   *)
(*   [k |-> "bin", op |-> "+", a |-> e, b |-> e]                           *)
(*   [k |-> "ds", cases |-> << e | [k |-> "hole"] >>]   position p = level p-1 *)
(***************************************************************************)
EXTENDS DiffMask

Hole == [k |-> "hole"]
IsHole(c) == c.k = "hole"
IsSwitch(e) == e.k = "ds"

MaxOf(S) == CHOOSE x \in S : \A y \in S : y <= x
\* positions 0..Len-1 of a switch that carry a value
ExplicitAt(cases) == {p \in 0..(Len(cases) - 1) : ~IsHole(cases[p + 1])}
\* the case a switch takes on level d: the nearest explicit case at or below d
Select(cases, d) == cases[MaxOf({p \in ExplicitAt(cases) : p <= d}) + 1]

\* the switch-free expression an expression denotes on level d; a case that is itself a switch
\* is read on the same level
RECURSIVE ValueAt(_, _)
ValueAt(e, d) ==
    IF IsSwitch(e) THEN ValueAt(Select(e.cases, d), d)
    ELSE IF e.k = "bin" THEN [k |-> "bin", op |-> e.op, a |-> ValueAt(e.a, d), b |-> ValueAt(e.b, d)]
    ELSE e

\* all switches of an expression (outermost first), all explicit positions, number of levels
RECURSIVE SwitchesOf(_)
SwitchesOf(e) ==
    IF IsSwitch(e)
    THEN LET RECURSIVE Inner(_)
             Inner(p) == IF p > Len(e.cases) THEN << >>
                         ELSE (IF IsHole(e.cases[p]) THEN << >> ELSE SwitchesOf(e.cases[p])) \o Inner(p + 1)
         IN << e >> \o Inner(1)
    ELSE IF e.k = "bin" THEN SwitchesOf(e.a) \o SwitchesOf(e.b)
    ELSE << >>
RECURSIVE SwitchesOfArgs(_, _)
SwitchesOfArgs(args, j) == IF j > Len(args) THEN << >> ELSE SwitchesOf(args[j]) \o SwitchesOfArgs(args, j + 1)
AllSwitches(args) == SwitchesOfArgs(args, 1)
NumLevels(args) == LET sw == AllSwitches(args) IN IF Len(sw) = 0 THEN 0 ELSE MaxOf({Len(sw[j].cases) : j \in 1..Len(sw)})
AllExplicit(args) == LET sw == AllSwitches(args) IN UNION {ExplicitAt(sw[j].cases) : j \in 1..Len(sw)}
\* explicit positions of the switches that are not inside another switch
TopSwitches(args) == LET RECURSIVE Top(_)
                         Top(e) == IF IsSwitch(e) THEN << e >> ELSE IF e.k = "bin" THEN Top(e.a) \o Top(e.b) ELSE << >>
                         RECURSIVE Go(_)
                         Go(j) == IF j > Len(args) THEN << >> ELSE Top(args[j]) \o Go(j + 1)
                     IN Go(1)
TopExplicit(args) == LET sw == TopSwitches(args) IN UNION {ExplicitAt(sw[j].cases) : j \in 1..Len(sw)}
\* a nested switch distinguishes two levels that no outer switch distinguishes
NestedFiner(args) == AllExplicit(args) # TopExplicit(args)

(***************************************************************************)
(* Statements.  st = [form |-> "call" | "assign", args |-> << e >>,        *)
(*                    outer, own |-> [has |-> BOOLEAN, chars |-> label]]   *)
(* `own` is the label on the statement itself, `outer` the label of the    *)
(* block it sits in (if any).  The nearest label counts, not the           *)
(* intersection (difficulty.rs, diff_label_nesting_semantics).             *)
(***************************************************************************)
StmtMask(st, tab) ==
    IF st.own.has THEN TLabelToMask(st.own.chars, tab).mask
    ELSE IF st.outer.has THEN TLabelToMask(st.outer.chars, tab).mask
    ELSE NoLabelMask

(***************************************************************************)
(* The instruction a switch-free statement compiles to, as the harness     *)
(* decodes it: [op, args |-> << [v |-> Int, reg |-> BOOLEAN] >>].          *)
(* The harness's mapfile: ins_<100+n>(n ints); 10 = `a = b`; 11 = `a = b + c`;*)
(* register r<N> is encoded as the integer N with its parameter-mask bit set.*)
(***************************************************************************)
RegNo == [r1000 |-> 1000, r1001 |-> 1001, r1002 |-> 1002, r1003 |-> 1003, r1004 |-> 1004, r1005 |-> 1005]
Enc(t) == IF t.k = "int" THEN [v |-> t.v, reg |-> FALSE] ELSE [v |-> RegNo[t.id], reg |-> TRUE]
OutReg == [v |-> 1000, reg |-> TRUE]
InstrAt(st, d) ==
    IF st.form = "call"
    THEN [op |-> 100 + Len(st.args), args |-> << >> \o [j \in 1..Len(st.args) |-> Enc(ValueAt(st.args[j], d))]]
    ELSE LET t == ValueAt(st.args[1], d) IN
         IF t.k = "bin" THEN [op |-> 11, args |-> << OutReg, Enc(t.a), Enc(t.b) >>]
         ELSE [op |-> 10, args |-> << OutReg, Enc(t) >>]

\* an emitted copy as exported: [op, mask (byte), pm (param mask), args |-> << Int >>]
CopyInstr(c) == [op |-> c.op, args |-> << >> \o [j \in 1..Len(c.args) |-> [v |-> c.args[j], reg |-> (c.pm \div Pow2[j]) % 2 = 1]]]
Applies(c, d) == d \in BitsOf(c.mask)

(***************************************************************************)
(* ExactlyOne.  Levels = the difficulty bits (not default-on) the switches *)
(* have a position for.                                                    *)
(*  (1) on every level the label permits exactly one copy applies and it   *)
(*      is the instruction of the statement read on that level;            *)
(*  (2) on difficulty bits the label does not permit, no copy applies;     *)
(*  (3) every default-on bit of every copy equals that bit of the label.   *)
(***************************************************************************)
LevelsOf(args, on) == {d \in 0..(NumLevels(args) - 1) : d \notin on}
Levels(st, tab) == LevelsOf(st.args, TDefaultOn(tab))
Applying(copies, d) == {j \in 1..Len(copies) : Applies(copies[j], d)}

OneOnLevel(st, copies, d) ==
    LET app == Applying(copies, d) IN
    /\ Cardinality(app) = 1
    /\ CopyInstr(copies[CHOOSE j \in app : TRUE]) = InstrAt(st, d)
\* sm = the statement's mask, on = the default-on bits
LabelRespectedM(sm, on, copies) == \A d \in (Bits \ on) \ sm : Applying(copies, d) = {}
AuxKeptM(sm, on, copies) == \A j \in 1..Len(copies) : BitsOf(copies[j].mask) \cap on = sm \cap on
LabelRespected(st, tab, copies) == LabelRespectedM(StmtMask(st, tab), TDefaultOn(tab), copies)
AuxKept(st, tab, copies) == AuxKeptM(StmtMask(st, tab), TDefaultOn(tab), copies)

ExactlyOne(st, tab, copies) ==
    LET sm == StmtMask(st, tab)
        on == TDefaultOn(tab)
    IN /\ \A d \in LevelsOf(st.args, on) \cap sm : OneOnLevel(st, copies, d)
       /\ LabelRespectedM(sm, on, copies)
       /\ AuxKeptM(sm, on, copies)

\* for messages: the first clause that fails
Why(st, tab, copies) ==
    IF ~AuxKept(st, tab, copies) THEN "default-on bits of a copy differ from the label"
    ELSE IF ~LabelRespected(st, tab, copies) THEN "a copy applies on a difficulty the label excludes"
    ELSE IF \E d \in Levels(st, tab) \cap StmtMask(st, tab) : Cardinality(Applying(copies, d)) # 1
         THEN "not exactly one copy on some level"
    ELSE IF ~ExactlyOne(st, tab, copies) THEN "the copy on some level carries the wrong case values"
    ELSE "ok"
BadLevel(st, tab, copies) ==
    LET bad == {d \in Levels(st, tab) \cap StmtMask(st, tab) : ~OneOnLevel(st, copies, d)}
    IN IF bad = {} THEN -1 ELSE CHOOSE d \in bad : \A e \in bad : d <= e

(***************************************************************************)
(* The documented expansion: one copy per maximal run of levels between    *)
(* explicit cases (explicit in any switch of the statement), restricted to *)
(* the difficulty bits the label permits, runs that become empty dropped,  *)
(* default-on bits copied from the label.  `explicit` is a parameter so    *)
(* that the in-model check can also evaluate the variant that only looks   *)
(* at the outermost switches.                                              *)
(***************************************************************************)
RunFrom(explicit, n, p) == {q \in p..(n - 1) : \A x \in explicit : ~(p < x /\ x <= q)}
ExpandWith(st, tab, explicit) ==
    LET n == NumLevels(st.args)
        sm == StmtMask(st, tab)
        starts == SelectSeq(<< 0, 1, 2, 3, 4, 5, 6, 7 >>, LAMBDA p : p \in explicit /\ p < n)
        maskOf(p) == ((RunFrom(explicit, n, p) \cap sm) \ TDefaultOn(tab))
        live == SelectSeq(starts, LAMBDA p : maskOf(p) # {})
    IN << >> \o [j \in 1..Len(live) |->
          LET ins == InstrAt(st, live[j])
          IN [op |-> ins.op, mask |-> ByteOf(maskOf(live[j]) \cup (sm \cap TDefaultOn(tab))),
              pm |-> LET bit(k) == IF ins.args[k].reg THEN Pow2[k] ELSE 0
                         RECURSIVE Sum(_)
                         Sum(k) == IF k > Len(ins.args) THEN 0 ELSE bit(k) + Sum(k + 1)
                     IN Sum(1),
              args |-> << >> \o [k \in 1..Len(ins.args) |-> ins.args[k].v]]]
Expand(st, tab) == ExpandWith(st, tab, AllExplicit(st.args))
=============================================================================
