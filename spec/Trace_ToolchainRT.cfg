SPECIFICATION Spec
INVARIANT InOrder
CHECK_DEADLOCK FALSE
