SPECIFICATION Spec
CONSTANTS
  FullDepth = 2
  MaxDepth = 3
  StrideA = 40
  StrideB = 40
INVARIANT Inv
CHECK_DEADLOCK FALSE
