SPECIFICATION Spec
CONSTANT Types = {"i", "f"}
INVARIANT Inv
CHECK_DEADLOCK FALSE
