------------------------- MODULE Trace_ToolchainRT -------------------------
(***************************************************************************)
(* Mode H: a recorded history of *real* tool invocations (one event per    *)
(* launch of the real `truth-core` binary, files content-addressed by      *)
(* sha-256; written by checks/c01.py and checks/c19.py) is validated       *)
(* against the L3 contract ToolchainRT.  The history is accepted iff every *)
(* event is an allowed transition of the contract:                         *)
(*     import / reset           bookkeeping (files entering the store)     *)
(*     decompile                Decompile(e), and Total for trusted input  *)
(*     compile                  Compile(e)  (RoundTrip is a guard of it)   *)
(* An event that is not an allowed transition is *rejected*: a line        *)
(*     <<"REJECT", index, id, reasons>>                                    *)
(* is printed (the first one printed is the first unmatched event), the    *)
(* files the event claims to have written still enter the store (so that   *)
(* one bad event does not cascade), the memo keeps what it knew, and the   *)
(* run continues, so that one TLC run lists every unmatched event.  When   *)
(* the whole history has been consumed <<"DONE", events, rejected>> is     *)
(* printed.  Accepted  <=>  DONE with 0 rejected.                          *)
(* Single behaviour, deterministic: run with -workers 1.                   *)
(***************************************************************************)
EXTENDS ToolchainRT, Json, IOUtils

Hist == ndJsonDeserialize(IOEnv.HIST)
N == Len(Hist)

VARIABLES l, rejected
vars == <<store, memo, pending, l, rejected>>

Guard(e) ==
    CASE e.cmd = "decompile" -> DecompileGuard(e) /\ TotalOK(e)
      [] e.cmd = "compile" -> CompileGuard(e)
      [] e.cmd \in {"import", "reset"} -> TRUE
      [] OTHER -> FALSE

Effect(e) ==
    CASE e.cmd = "decompile" -> DecompileEffect(e)
      [] e.cmd = "compile" -> CompileEffect(e)
      [] e.cmd = "import" -> Import(e)
      [] e.cmd = "reset" -> Reset(e)

\* names of the violated parts of the contract (for the report)
Why(e) ==
    IF ~IsTool(e) THEN {"unknown-event"} ELSE
      (IF InputsKnown(e) THEN {} ELSE {"InputsKnown"})
      \cup (IF OutcomeShape(e) THEN {} ELSE {"OutcomeShape"})
      \cup (IF DeterministicOK(e) THEN {} ELSE {"Deterministic"})
      \cup (IF e.cmd = "compile" /\ ~RoundTripOK(e) THEN {"RoundTrip"} ELSE {})
      \cup (IF e.cmd = "decompile" /\ ~TotalOK(e) THEN {"Total"} ELSE {})

Init == TInit /\ l = 1 /\ rejected = 0

Accept ==
    /\ l <= N /\ Guard(Hist[l])
    /\ Effect(Hist[l])
    /\ l' = l + 1 /\ UNCHANGED rejected

Reject ==
    /\ l <= N /\ ~Guard(Hist[l])
    /\ PrintT(<<"REJECT", l, Hist[l].id, Why(Hist[l])>>)
    /\ LET e == Hist[l] IN
       /\ store' = IF IsTool(e) /\ e.out # "" THEN Put(store, e.out, IF e.cmd = "compile" THEN "bin" ELSE "text") ELSE store
       /\ memo' = IF IsTool(e) /\ Key(e) \notin DOMAIN memo THEN Put(memo, Key(e), Outcome(e)) ELSE memo
       /\ pending' = NoPending
    /\ l' = l + 1 /\ rejected' = rejected + 1

Finish ==
    /\ l = N + 1
    /\ PrintT(<<"DONE", N, rejected>>)
    /\ l' = N + 2 /\ UNCHANGED <<store, memo, pending, rejected>>

Next == Accept \/ Reject \/ Finish
Spec == Init /\ [][Next]_vars

\* sanity of the run itself (never expected to fail): the history is consumed in order
InOrder == l \in 1..(N + 2) /\ rejected < l
=============================================================================
