SPECIFICATION Spec
CONSTANTS
  NPaths = 2
  MaxDest = 3
  MaxSrcs = 3
  MaxAnmLen = 2
INVARIANT StepInv
INVARIANT LastWins
INVARIANT InOrder
INVARIANT HeaderRule
INVARIANT Outcome
INVARIANT Export
CHECK_DEADLOCK FALSE
