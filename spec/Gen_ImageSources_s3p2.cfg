SPECIFICATION Spec
CONSTANTS
  NPaths = 2
  MaxDest = 3
  MaxSrcs = 3
  MaxAnmLen = 2
INVARIANT StepInv
INVARIANT Property
INVARIANT Export
CHECK_DEADLOCK FALSE
