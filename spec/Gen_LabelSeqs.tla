--------------------------- MODULE Gen_LabelSeqs ---------------------------
(***************************************************************************)
(* C13, compile direction (Mode G).                                        *)
(*                                                                         *)
(* A program is a sequence of tokens: time labels, the instruction `I`,    *)
(* block openers `{`, `loop {`, `if (..) {` and `}`.  The machine below    *)
(* appends one token at a time; TLC explores every token sequence within   *)
(* the bounds (every prefix is a state), checks the in-model facts on each *)
(* and the complete programs (all blocks closed, at least one instruction) *)
(* are written out with the time TimeLabels.tla gives every instruction.   *)
(* The harness renders the tree, compiles it with the real pipeline and    *)
(* reports RawInstr.time of the instructions.                              *)
(*                                                                         *)
(* In-model: the tree-recursive reading of doc/syntax.md (Annotate) and a  *)
(* plain left-to-right fold over the tokens that ignores the braces agree  *)
(* (times commute with block nesting: the times of a block are the times   *)
(* of its flattening), and all times are 32-bit values.                    *)
(***************************************************************************)
EXTENDS TimeLabels, FiniteSets, SequencesExt, Json, IOUtils

CONSTANT Families     \* which bounded families this run enumerates (names below)

\* bounds of a family: n = labels + instructions, b = blocks, d = nesting depth,
\* small = reduced label alphabet (used for the nested families)
Bounds(f) ==
    CASE f = "flat4"  -> [n |-> 4, b |-> 0, d |-> 0, small |-> FALSE]
      [] f = "flat5"  -> [n |-> 5, b |-> 0, d |-> 0, small |-> FALSE]
      [] f = "nest1"  -> [n |-> 3, b |-> 1, d |-> 1, small |-> TRUE]
      [] f = "nest1w" -> [n |-> 4, b |-> 1, d |-> 1, small |-> TRUE]
      [] f = "nest2"  -> [n |-> 2, b |-> 2, d |-> 2, small |-> TRUE]
      [] f = "nest2w" -> [n |-> 3, b |-> 2, d |-> 2, small |-> TRUE]

ILit(v) == [k |-> "int", v |-> v]

AllAbs == {"a-1", "a0", "a10", "amin"}      \* "amin": close to i32::MIN, so that a negative delta wraps downwards
AllRel == {"r0", "r5", "rmul", "rneg", "rmax"}
AbsToks(small) == IF small THEN {"a-1", "a10"} ELSE AllAbs
RelToks(small) == IF small THEN {"r5", "rneg"} ELSE AllRel
ContentOf(small) == AbsToks(small) \cup RelToks(small) \cup {"I"}
AnyContent == AllAbs \cup AllRel \cup {"I"}
Opens   == {"{", "L{", "F{"}

\* the value a label token denotes, written down directly (not through ExprSem)
AbsVal(x) == CASE x = "a-1" -> -1 [] x = "a0" -> 0 [] x = "a10" -> 10 [] x = "amin" -> -2147483647
RelVal(x) == CASE x = "r0" -> 0 [] x = "r5" -> 5 [] x = "rmul" -> 6 [] x = "rneg" -> -3 [] x = "rmax" -> 2147483647

\* the statement a content token stands for (interchange form, rendered by vh::render)
Instr == [k |-> "expr", e |-> [k |-> "call", name |-> [ins |-> 100]]]
StmtOf(x) ==
    CASE x = "I"    -> Instr
      [] x = "a-1"  -> [k |-> "abs", t |-> -1]
      [] x = "a0"   -> [k |-> "abs", t |-> 0]
      [] x = "a10"  -> [k |-> "abs", t |-> 10]
      [] x = "amin" -> [k |-> "abs", t |-> -2147483647]
      [] x = "r0"   -> [k |-> "rel", e |-> ILit(0)]
      [] x = "r5"   -> [k |-> "rel", e |-> ILit(5)]
      [] x = "rmul" -> [k |-> "rel", e |-> [k |-> "bin", op |-> "*", a |-> ILit(2), b |-> ILit(3)]]       \* +(2 * 3):
      [] x = "rneg" -> [k |-> "rel", e |-> [k |-> "bin", op |-> "-", a |-> ILit(0), b |-> ILit(3)]]       \* +(0 - 3):
      [] x = "rmax" -> [k |-> "rel", e |-> ILit(2147483647)]                                              \* wraps

Cond == [k |-> "bin", op |-> "==", a |-> [k |-> "var", sig |-> "", id |-> "r1000"], b |-> ILit(0)]
BlockOf(x, body) ==
    CASE x = "{"  -> [k |-> "block", body |-> body]
      [] x = "L{" -> [k |-> "loop", body |-> body]
      [] x = "F{" -> [k |-> "chain", blocks |-> << [kw |-> "if", cond |-> Cond, body |-> body] >>]

\* ---- tokens -> tree (a missing `}` at the end closes implicitly, so every prefix has a tree)
RECURSIVE ParseFrom(_, _)
ParseFrom(toks, i) ==
    IF i > Len(toks) THEN [b |-> <<>>, i |-> i]
    ELSE LET x == toks[i] IN
         IF x = "}" THEN [b |-> <<>>, i |-> i + 1]
         ELSE IF x \in Opens THEN
             LET inner == ParseFrom(toks, i + 1)
                 rest == ParseFrom(toks, inner.i)
             IN [b |-> << BlockOf(x, inner.b) >> \o rest.b, i |-> rest.i]
         ELSE LET rest == ParseFrom(toks, i + 1)
              IN [b |-> << StmtOf(x) >> \o rest.b, i |-> rest.i]
Tree(toks) == ParseFrom(toks, 1).b

\* ---- times of the instructions of an annotated tree, in lexical order (all block kinds)
RECURSIVE ITimes(_), ITimesChain(_, _)
ITimes(ablk) ==
    IF Len(ablk) = 0 THEN <<>>
    ELSE LET s == ablk[1]
             here == IF s.k = "expr" THEN << s.tm >>
                     ELSE IF s.k \in {"loop", "while", "times", "block"} THEN ITimes(s.body)
                     ELSE IF s.k = "chain" THEN ITimesChain(s.blocks, 1) \o (IF HasField(s, "else") THEN ITimes(s.else) ELSE <<>>)
                     ELSE <<>>
         IN here \o ITimes(Tail(ablk))
ITimesChain(blocks, j) == IF j > Len(blocks) THEN <<>> ELSE ITimes(blocks[j].body) \o ITimesChain(blocks, j + 1)

Expected(toks) == ITimes(Annotate(Tree(toks)))

\* ---- the same rule as a left-to-right fold over the tokens that does not look at braces
RECURSIVE Fold(_, _, _)
Fold(toks, i, cur) ==
    IF i > Len(toks) THEN <<>>
    ELSE LET x == toks[i] IN
         IF x \in AllAbs THEN Fold(toks, i + 1, AbsVal(x))
         ELSE IF x \in AllRel THEN Fold(toks, i + 1, Add(cur, RelVal(x)))
         ELSE IF x = "I" THEN << cur >> \o Fold(toks, i + 1, cur)
         ELSE Fold(toks, i + 1, cur)

\* ---- the token machine.  A node carries its family, the token sequence and its counters
\*      (n = labels + instructions, b = blocks opened, d = current depth).
Root(f) == [f |-> f, t |-> <<>>, n |-> 0, b |-> 0, d |-> 0]
Succ(p) ==
    LET B == Bounds(p.f) IN
    (IF p.n < B.n THEN {[p EXCEPT !.t = Append(p.t, x), !.n = p.n + 1] : x \in ContentOf(B.small)} ELSE {})
    \cup (IF p.b < B.b /\ p.d < B.d
          THEN {[p EXCEPT !.t = Append(p.t, x), !.b = p.b + 1, !.d = p.d + 1] : x \in Opens} ELSE {})
    \cup (IF p.d > 0 THEN {[p EXCEPT !.t = Append(p.t, "}"), !.d = p.d - 1]} ELSE {})
Complete(p) == p.d = 0 /\ \E i \in 1..Len(p.t) : p.t[i] = "I"

VARIABLE prog
toks == prog.t
Init == prog \in {Root(f) : f \in Families}
Next == prog' \in Succ(prog)
Spec == Init /\ [][Next]_prog

\* ---- in-model facts, checked on every reachable token sequence
Inv ==
    LET E == Expected(toks) IN
    /\ E = Fold(toks, 1, 0)                                          \* nesting commutes with the label rules
    /\ (prog.b > 0 => E = Expected(SelectSeq(toks, LAMBDA x : x \in AnyContent)))   \* times of a tree = times of its flattening
    /\ \A i \in 1..Len(E) : IsI32(E[i])                              \* closed under wrap-around
    /\ Len(E) = Cardinality({i \in 1..Len(toks) : toks[i] = "I"})    \* exactly one time per instruction

\* the two examples of doc/syntax.md ("Time labels")
DocExample1 == << Instr, [k |-> "abs", t |-> 30], Instr, Instr, [k |-> "rel", e |-> ILit(27)], Instr, [k |-> "abs", t |-> -10], Instr >>
ASSUME ITimes(Annotate(DocExample1)) = << 0, 30, 30, 57, -10 >>
DocExample2 == << [k |-> "loop", body |-> << [k |-> "rel", e |-> ILit(4)], Instr, [k |-> "rel", e |-> ILit(6)] >>], Instr >>
ASSUME ITimes(Annotate(DocExample2)) = << 4, 10 >>

\* ---- export: the complete programs of the same machine, collected depth-first
RECURSIVE Below(_), BelowAll(_, _)
Below(p) == (IF Complete(p) THEN << p >> ELSE <<>>) \o BelowAll(SetToSeq(Succ(p)), 1)
BelowAll(ps, i) == IF i > Len(ps) THEN <<>> ELSE Below(ps[i]) \o BelowAll(ps, i + 1)
CaseOf(p) == [fam |-> p.f, toks |-> p.t, body |-> Tree(p.t), exp |-> Expected(p.t)]
ASSUME LET P == BelowAll(SetToSeq({Root(f) : f \in Families}), 1) IN
       /\ ndJsonSerialize(IOEnv.OUT, [i \in 1..Len(P) |-> CaseOf(P[i])])
       /\ PrintT(<<"GEN", "Gen_LabelSeqs", Len(P)>>)
===========================================================================
