SPECIFICATION Spec
CONSTANTS
  Families = {"flat4", "nest1", "nest2"}
INVARIANT Inv
CHECK_DEADLOCK FALSE
