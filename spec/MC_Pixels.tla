----------------------------- MODULE MC_Pixels -----------------------------
(***************************************************************************)
(* C17, in-model: TLC visits EVERY pixel value of the three narrow formats *)
(* (65 536 + 65 536 + 256 states) and checks on each that extraction       *)
(* followed by compilation gives the value back.                           *)
(*                                                                         *)
(* Also (for the conformance check against the real tool) writes the       *)
(* complete Up table and the Down value of sample pixels the driver        *)
(* supplies; the driver compares them with the bytes of real extracted     *)
(* PNGs / real compiled textures.                                          *)
(***************************************************************************)
EXTENDS Pixels, Sequences, TLC, Json, IOUtils

VARIABLES fmt, p
\* the walk over the value domain: 256 independent strands per format (so that TLC's workers share the work),
\* each strand counts through one block of 256 consecutive values; together they cover Domain(fmt) exactly
Init == fmt \in Formats /\ p \in {q \in Domain(fmt) : q % 256 = 0}
Next == (p + 1) % 256 # 0 /\ p' = p + 1 /\ UNCHANGED fmt
Spec == Init /\ [][Next]_<<fmt, p>>

RoundTrip == Lossless(fmt, p)
UpIsPixel == IsPixel(Up(fmt, p))
\* the widening covers the full range: nothing -> 0, everything -> 255
FullRange ==
    /\ (fmt = "RGB_565" /\ p = 65535) => Up(fmt, p) = Px(255, 255, 255, 255)
    /\ (fmt = "RGB_565" /\ p = 0) => Up(fmt, p) = Px(255, 0, 0, 0)
    /\ (fmt = "ARGB_4444" /\ p = 65535) => Up(fmt, p) = Px(255, 255, 255, 255)
    /\ (fmt = "ARGB_4444" /\ p = 0) => Up(fmt, p) = Px(0, 0, 0, 0)
\* RoundTrip /\ UpIsPixel /\ (gray is stored in all three channels) with Up evaluated once per state
PixelInv == LET u == Up(fmt, p)
            IN /\ Down(fmt, u) = p
               /\ IsPixel(u)
               /\ (fmt = "GRAY_8") => u = Px(255, p, p, p)
               /\ (fmt # "ARGB_4444") => u.a = 255

Tup(q) == <<q.a, q.r, q.g, q.b>>
\* the table is written in chunks of 256 values (row c holds the values 256*(c-1) .. 256*c - 1)
UpRow(f) == [fmt |-> f,
             up |-> <<>> \o [c \in 1..(IF f = "GRAY_8" THEN 1 ELSE 256) |->
                        <<>> \o [j \in 1..256 |-> Tup(Up(f, 256 * (c - 1) + j - 1))]]]
ASSUME ndJsonSerialize(IOEnv.UP_OUT, << UpRow("RGB_565"), UpRow("ARGB_4444"), UpRow("GRAY_8") >>)

Samples == ndJsonDeserialize(IOEnv.SAMPLES)      \* rows [fmt, px: <<a, r, g, b>>...]
DownRow(s) == [fmt |-> s.fmt,
               down |-> <<>> \o [i \in 1..Len(s.px) |-> Down(s.fmt, Px(s.px[i][1], s.px[i][2], s.px[i][3], s.px[i][4]))]]
ASSUME ndJsonSerialize(IOEnv.DOWN_OUT, <<>> \o [i \in 1..Len(Samples) |-> DownRow(Samples[i])])
ASSUME PrintT(<<"GEN", "MC_Pixels", Len(Samples)>>)
============================================================================
