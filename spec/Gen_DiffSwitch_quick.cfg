SPECIFICATION Spec
CONSTANT Thorough = FALSE
INVARIANT Inv
CHECK_DEADLOCK FALSE
