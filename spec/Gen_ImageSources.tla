------------------------- MODULE Gen_ImageSources -------------------------
(***************************************************************************)
(* C17, Mode G.  TLC explores the ImageSources machine over                *)
(*   every destination script of <= MaxDest entries over <= NPaths paths   *)
(*       (up to renaming of paths; duplicate paths included),              *)
(*   x two choices of which header fields the script writes explicitly,    *)
(*   x every command line of <= MaxSrcs image sources, each an ANM file    *)
(*       with 1..MaxAnmLen entries over the paths (duplicates included)    *)
(*       or a directory holding a non-empty subset of the paths            *)
(*       -- all orderings, since the command lines are sequences --        *)
(* checks LastWins /\ InOrder /\ HeaderRule /\ Outcome on every finalized  *)
(* run, and prints every finalized run with its expected provenance; the   *)
(* driver replays them into the real CLI.                                  *)
(***************************************************************************)
EXTENDS ImageSources, TLC, Json

CONSTANTS NPaths, MaxDest, MaxSrcs, MaxAnmLen

PathSeq == << "a", "b", "c" >>
PathSet == {PathSeq[i] : i \in 1..NPaths}
PIdx(p) == CHOOSE i \in 1..3 : PathSeq[i] = p

SeqsUpTo(S, n) == UNION {[1..k -> S] : k \in 1..n}
MaxNat(S) == IF S = {} THEN 0 ELSE CHOOSE x \in S : \A y \in S : y <= x
\* destination scripts up to renaming: paths are introduced in the order a, b, c
Canonical(d) == \A e \in 1..Len(d) : PIdx(d[e]) <= 1 + MaxNat({PIdx(d[x]) : x \in 1..(e - 1)})
Dests == {d \in SeqsUpTo(PathSet, MaxDest) : Canonical(d)}
ExplChoices(d) == {{}, {1}}

AnmShapes == {[kind |-> "anm", entries |-> s] : s \in SeqsUpTo(PathSet, MaxAnmLen)}
DirShapes == {[kind |-> "dir", paths |-> P] : P \in (SUBSET PathSet) \ {{}}}

Init == \E d \in Dests : \E ex \in ExplChoices(d) : InitFor(d, ex)
GenNext ==
    \/ /\ Len(srcs) < MaxSrcs
       /\ \/ \E s \in AnmShapes : ApplyAnm(s)
          \/ \E s \in DirShapes : ApplyDir(s)
    \/ Finalize
Spec == Init /\ [][GenNext]_vars

SrcOut(s) == IF IsAnm(s) THEN [kind |-> "anm", entries |-> s.entries] ELSE [kind |-> "dir", paths |-> s.paths]
CaseOut ==
    [dest |-> dest, expl |-> expl, srcs |-> [i \in 1..Len(srcs) |-> SrcOut(srcs[i])], ok |-> result.ok,
     tex |-> IF result.ok THEN result.tex ELSE <<>>, hdr |-> IF result.ok THEN result.hdr ELSE <<>>]
\* every finalized run is printed once (TLC evaluates invariants once per distinct state)
Export == Done => PrintT(<<"CASE", ToJson(CaseOut)>>)
===========================================================================
