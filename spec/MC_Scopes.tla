----------------------------- MODULE MC_Scopes -----------------------------
(***************************************************************************)
(* C10: model-checks the rib-stack machine of Scopes against the           *)
(* declarative resolution on every tree of one vocabulary of               *)
(* Gen_ScopeTrees (environment: FAM, MAX), and writes the rows that are    *)
(* replayed into the real resolver (environment: OUT).                     *)
(*                                                                         *)
(* One behaviour per (tree, language): Init picks the case, Next runs the  *)
(* machine to completion; Disciplined holds in every state, Agreement in   *)
(* the final one.                                                          *)
(***************************************************************************)
EXTENDS Gen_ScopeTrees

Fam == IOEnv.FAM
Max == atoi(IOEnv.MAX)

Init == \E c \in Cases(Fam, Max) : Start(c[1], c[2])
Spec == Init /\ [][Next]_vars

\* sanity of the declarative side on every case (checked in the initial state of each behaviour)
DeclarativeSane ==
    (todo = << TBlock(tree, <<>>, base) >>) =>
        LET O == Occs(tree, base)
            D == Declarative(tree, base)
        IN /\ \A o1, o2 \in O : o1.p = o2.p => o1 = o2                   \* paths name occurrences
           /\ \A o \in O : D[o.p].t = "def" =>                            \* a use refers to a declaration
                  \E d \in O : d.p = D[o.p].d /\ d.role = "decl" /\ d.n = o.n /\ d.ns = o.ns
           /\ \A o \in O : (o.role = "decl") <=> (D[o.p].t \in {"self", "redef"})
           /\ \A o \in O : D[o.p].t = "alias" => Core(o.lang) = "own"
           /\ \A o \in O : D[o.p].t = "enum" => WithEnum(o.lang) /\ o.n = AliasVar /\ o.ns = "v"
           \* an enum const of the alias's spelling hides the alias everywhere
           /\ WithEnum(base) => \A o \in O : ~(D[o.p].t = "alias" /\ o.ns = "v")

ASSUME ndJsonSerialize(IOEnv.OUT, <<>> \o Rows(Fam, Max))
ASSUME PrintT(<<"GEN", Fam, Max, Cardinality(Cases(Fam, Max))>>)
=============================================================================
