------------------------------ MODULE Pixels ------------------------------
(***************************************************************************)
(* C17 — pixel formats of embedded textures (README "image sources",       *)
(* doc comments of the colour formats: ARGB_8888 = 0xAARRGGBB,             *)
(* RGB_565 = 0bRRRRR_GGGGGG_BBBBB, ARGB_4444 = 0xARGB, GRAY_8 = one        *)
(* luminosity byte).                                                       *)
(*                                                                         *)
(* Extraction widens every channel to 8 bits by bit replication (shift     *)
(* left, fill the vacated low bits with the channel's own top bits, so     *)
(* that 0 -> 0 and all-ones -> 255); compilation narrows by truncation     *)
(* (drop the low bits).  Formats without alpha extract as opaque.  Gray is *)
(* stored in all three colour channels; going back uses the Rec.709 luma   *)
(* weights 0.2126/0.7152/0.0722 plus a 0.001 guard, truncated: written     *)
(* here in integers scaled by 10000.                                       *)
(*                                                                         *)
(* A pixel is a record [a, r, g, b] of channel values 0..255.              *)
(***************************************************************************)
EXTENDS Naturals

Pow2T == << 1, 2, 4, 8, 16, 32, 64, 128, 256, 512, 1024, 2048, 4096, 8192, 16384, 32768, 65536 >>
Pow2(n) == Pow2T[n + 1]

\* widen an n-bit channel value (4 <= n <= 8) to 8 bits by bit replication
Widen(x, n) == x * Pow2(8 - n) + x \div Pow2(2 * n - 8)
\* narrow an 8-bit channel value to n bits by truncation
Narrow(x, n) == x \div Pow2(8 - n)

Px(a, r, g, b) == [a |-> a, r |-> r, g |-> g, b |-> b]

\* ---- RGB_565: p = r5 * 2^11 + g6 * 2^5 + b5
Up565(p) == Px(255, Widen(p \div 2048, 5), Widen((p \div 32) % 64, 6), Widen(p % 32, 5))
Down565(q) == Narrow(q.r, 5) * 2048 + Narrow(q.g, 6) * 32 + Narrow(q.b, 5)

\* ---- ARGB_4444: p = a4 * 2^12 + r4 * 2^8 + g4 * 2^4 + b4
Up4444(p) == Px(Widen(p \div 4096, 4), Widen((p \div 256) % 16, 4), Widen((p \div 16) % 16, 4), Widen(p % 16, 4))
Down4444(q) == Narrow(q.a, 4) * 4096 + Narrow(q.r, 4) * 256 + Narrow(q.g, 4) * 16 + Narrow(q.b, 4)

\* ---- GRAY_8
UpGray(p) == Px(255, p, p, p)
DownGray(q) == LET y == (2126 * q.r + 7152 * q.g + 722 * q.b + 10) \div 10000
               IN IF y > 255 THEN 255 ELSE y

\* ---- ARGB_8888 is the interchange format itself
Formats == {"RGB_565", "ARGB_4444", "GRAY_8"}
Domain(f) == IF f = "GRAY_8" THEN 0..255 ELSE 0..65535
Up(f, p) == CASE f = "RGB_565" -> Up565(p) [] f = "ARGB_4444" -> Up4444(p) [] f = "GRAY_8" -> UpGray(p)
Down(f, q) == CASE f = "RGB_565" -> Down565(q) [] f = "ARGB_4444" -> Down4444(q) [] f = "GRAY_8" -> DownGray(q)

IsPixel(q) == q.a \in 0..255 /\ q.r \in 0..255 /\ q.g \in 0..255 /\ q.b \in 0..255

\* the property of C17 at pixel level: extraction followed by compilation is the identity
Lossless(f, p) == Down(f, Up(f, p)) = p
===========================================================================
