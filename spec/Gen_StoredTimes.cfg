SPECIFICATION Spec
CONSTANTS
  MaxLen = 5
  MaxLenJ = 3
  MaxLenJ2 = 2
INVARIANT Inv
CHECK_DEADLOCK FALSE
