SPECIFICATION Spec
CONSTANTS
  MaxLen = 5
  MaxLenJ = 3
  MaxLenJ2 = 3
INVARIANT Inv
CHECK_DEADLOCK FALSE
