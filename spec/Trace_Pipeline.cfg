SPECIFICATION TSpec
INVARIANT RowAccepted
POSTCONDITION Post
CHECK_DEADLOCK FALSE
