SPECIFICATION Spec
INVARIANT Conforms
CHECK_DEADLOCK FALSE
