---------------------------- MODULE ToolchainRT ----------------------------
(***************************************************************************)
(* L3 contract of the truth toolchain (DESIGN §0 layer L3, §4 C01, C19):   *)
(* what a user observes when running `compile` / `decompile` commands on   *)
(* files.  Files are identified by content (sha-256 of the bytes), a       *)
(* command by its *key* (everything that is an input of the invocation),   *)
(* its result by its *outcome* (everything that is an output).             *)
(*                                                                         *)
(*   store : ContentId -|-> kind            ("bin", "text", "map")         *)
(*   memo  : CmdKey    -|-> Outcome         (what each command answered)   *)
(*   pending : the last event, when it was a successful decompile without  *)
(*             a loss warning (the antecedent of RoundTrip)                *)
(*                                                                         *)
(* An event `e` is a record                                                *)
(*   [cmd, fmt, game, opts, width, map, in, img,        -- the key         *)
(*    rc, out, so, se,                                  -- the outcome     *)
(*    loss, trusted]                                                       *)
(* cmd  : "import" | "decompile" | "compile" | "reset"                     *)
(* fmt  : the sub-command ("truanm", "trumsg --mission", ...)              *)
(* opts : the decompile option subset, as one canonical string             *)
(* width: the formatter width (-1 where the command has none)              *)
(* map  : content id of the user mapfile ("" = none)                       *)
(* in   : content id of the input file (for import: the imported file)     *)
(* img  : content id of the image source handed to compile ("" = none)     *)
(* rc   : process exit status;  out : content id of the output file ("" if *)
(*        none was written);  so / se : content ids of stdout / stderr     *)
(* loss : decompile's stderr contains a warning from the closed list of    *)
(*        *loss warnings* (a function of `se`; see design_notes/C01.md)    *)
(* trusted : the decompiled binary was emitted by a compile command or is  *)
(*        a bundled game file (the domain of property C01)                 *)
(*                                                                         *)
(* Properties (as guards of the actions, and declaratively over a history  *)
(* at the end of the module; MC_ToolchainRT checks guards => declarative): *)
(*   Deterministic : an event whose key is already in `memo` carries the   *)
(*                   remembered outcome                          (C19)     *)
(*   RoundTrip     : Decompile(b,g,o,w,m) = Ok(t, lossWarn = FALSE)        *)
(*                   directly followed by Compile(t,g,m,img=b) = r         *)
(*                   implies r = Ok(b)                           (C01)     *)
(*   Total         : decompiling a trusted binary succeeds       (C01)     *)
(***************************************************************************)
EXTENDS Naturals, Integers, Sequences, FiniteSets, TLC

VARIABLES store, memo, pending
tvars == <<store, memo, pending>>

Empty == [x \in {} |-> ""]
NoPending == [some |-> FALSE, b |-> "", t |-> "", game |-> "", fmt |-> "", map |-> ""]

Put(f, k, v) == [x \in (DOMAIN f) \cup {k} |-> IF x = k THEN v ELSE f[x]]
InStore(c, kind) == c \in DOMAIN store /\ store[c] = kind

Key(e) == <<e.cmd, e.fmt, e.game, e.opts, e.width, e.map, e.in, e.img>>
Outcome(e) == <<e.rc, e.out, e.so, e.se>>
Ok(e) == e.rc = 0 /\ e.out # ""

\* formats whose compile command needs the original as image source to reproduce embedded images
NeedsImage(fmt) == fmt = "truanm"
\* "the original supplied as image source where the format needs one"
ImgIsOriginal(fmt, img, b) == img = b \/ (~NeedsImage(fmt) /\ img = "")

TInit == store = Empty /\ memo = Empty /\ pending = NoPending

(* ------------------------------ guards ------------------------------ *)
InputsKnown(e) ==
    /\ InStore(e.in, IF e.cmd = "decompile" THEN "bin" ELSE "text")
    /\ e.map = "" \/ InStore(e.map, "map")
    /\ e.img = "" \/ InStore(e.img, "bin")
    /\ e.cmd = "decompile" => e.img = ""

DeterministicOK(e) == Key(e) \in DOMAIN memo => memo[Key(e)] = Outcome(e)

\* the antecedent of RoundTrip holds for compile event e in the current state
Recompiles(e) ==
    /\ pending.some
    /\ pending.t = e.in /\ pending.game = e.game /\ pending.fmt = e.fmt /\ pending.map = e.map
    /\ ImgIsOriginal(e.fmt, e.img, pending.b)
RoundTripOK(e) == Recompiles(e) => (e.rc = 0 /\ e.out = pending.b)

TotalOK(e) == e.trusted => e.rc = 0 /\ e.out # ""

\* an outcome is well formed: success writes a file, failure says why
OutcomeShape(e) == (e.rc = 0 => e.out # "") /\ (e.rc # 0 => e.out = "")

(* ------------------------------ actions ----------------------------- *)
Remember(e) == memo' = Put(memo, Key(e), Outcome(e))

Import(e) ==
    /\ e.cmd = "import"
    /\ store' = Put(store, e.in, e.kind)
    /\ UNCHANGED <<memo, pending>>

Reset(e) ==
    /\ e.cmd = "reset"
    /\ store' = Empty /\ memo' = Empty /\ pending' = NoPending

DecompileGuard(e) == InputsKnown(e) /\ OutcomeShape(e) /\ DeterministicOK(e)
DecompileEffect(e) ==
    /\ Remember(e)
    /\ store' = IF Ok(e) THEN Put(store, e.out, "text") ELSE store
    /\ pending' = IF Ok(e) /\ ~e.loss
                  THEN [some |-> TRUE, b |-> e.in, t |-> e.out, game |-> e.game, fmt |-> e.fmt, map |-> e.map]
                  ELSE NoPending
Decompile(e) == e.cmd = "decompile" /\ DecompileGuard(e) /\ DecompileEffect(e)

CompileGuard(e) == InputsKnown(e) /\ OutcomeShape(e) /\ DeterministicOK(e) /\ RoundTripOK(e)
CompileEffect(e) ==
    /\ Remember(e)
    /\ store' = IF Ok(e) THEN Put(store, e.out, "bin") ELSE store
    /\ pending' = NoPending
Compile(e) == e.cmd = "compile" /\ CompileGuard(e) /\ CompileEffect(e)

ToolStep(e) == Import(e) \/ Reset(e) \/ Decompile(e) \/ Compile(e)

(* --------------- the same properties, over a history --------------- *)
\* (a history is a sequence of events since the last reset)
IsTool(e) == e.cmd \in {"decompile", "compile"}

Deterministic(h) ==
    \A i, j \in 1..Len(h) :
        (IsTool(h[i]) /\ IsTool(h[j]) /\ Key(h[i]) = Key(h[j])) => Outcome(h[i]) = Outcome(h[j])

\* the tool events of h, in order (imports are not tool invocations)
RECURSIVE ToolEvents(_)
ToolEvents(h) == IF h = <<>> THEN <<>>
                 ELSE IF IsTool(Head(h)) THEN <<Head(h)>> \o ToolEvents(Tail(h)) ELSE ToolEvents(Tail(h))

RoundTrip(h) ==
    LET t == ToolEvents(h) IN
    \A i \in 1..(Len(t) - 1) :
        LET d == t[i]  c == t[i + 1] IN
        ( /\ d.cmd = "decompile" /\ d.rc = 0 /\ d.out # "" /\ ~d.loss
          /\ c.cmd = "compile" /\ c.in = d.out /\ c.game = d.game /\ c.fmt = d.fmt /\ c.map = d.map
          /\ ImgIsOriginal(c.fmt, c.img, d.in) )
        => (c.rc = 0 /\ c.out = d.in)

Total(h) == \A i \in 1..Len(h) : (h[i].cmd = "decompile" /\ h[i].trusted) => (h[i].rc = 0 /\ h[i].out # "")
=============================================================================
