--------------------------- MODULE Gen_DiffSwitch ---------------------------
(***************************************************************************)
(* C14 (b), Mode G.  Enumerates the family of statements with difficulty   *)
(* switches (hole patterns are enumerated exhaustively for the stated      *)
(* sizes), checks in-model that the documented expansion satisfies         *)
(* ExactlyOne on every one of them, and writes them as ndjson; the harness *)
(* compiles each with the real pipeline and Check_DiffSwitch evaluates     *)
(* ExactlyOne on what was really emitted.                                  *)
(*                                                                         *)
(* A hole pattern of an n-case switch is an integer e in 0..2^(n-1)-1:     *)
(* position 0 is always explicit (the grammar requires the first case),    *)
(* position p >= 1 is explicit iff bit p-1 of e is set.                    *)
(***************************************************************************)
EXTENDS DiffSwitch, TLC, Json, IOUtils, SequencesExt

CONSTANT Thorough

Def(b, n, on) == [bit |-> b, name |-> n, on |-> on]
Named(names, O) == << >> \o [k \in 1..8 |-> Def(k - 1, names[k], (k - 1) \in O)]
Cfgs == <<
    [name |-> "th06", defs |-> Named(<< "E", "N", "H", "L", "4", "5", "6", "7" >>, {})],
    [name |-> "th08", defs |-> Named(<< "E", "N", "H", "L", "4", "F", "U", "7" >>, {4, 5, 6, 7})],
    \* default-on flags in the middle of the switch positions
    [name |-> "mixaux", defs |-> << Def(0, "E", FALSE), Def(1, "a", TRUE), Def(2, "H", FALSE), Def(3, "L", FALSE), Def(6, "u", TRUE) >>]
>>
Tabs == << >> \o [c \in 1..Len(Cfgs) |-> TableOf(Cfgs[c].defs)]

NoL == [has |-> FALSE, chars |-> << >>]
L(chars) == [has |-> TRUE, chars |-> chars]
\* labels used per configuration (index 1 = no label)
Labels == <<
    << NoL, L(<< "N", "H" >>), L(<< "*" >>), L(<< "H", "L" >>), L(<< "E" >>), L(<< "E", "N", "H", "L" >>), L(<< "L" >>), L(<< >>), L(<< "*", "-", "N" >>) >>,
    << NoL, L(<< "*", "-", "F" >>), L(<< "E", "N", "-", "4", "F", "U", "7" >>), L(<< "E", "N" >>), L(<< "H", "L", "-", "U" >>), L(<< "*" >>), L(<< "-", "*", "H" >>), L(<< "-", "F", "7", "+", "N", "L" >>) >>,
    << NoL, L(<< "E", "L", "-", "a" >>), L(<< "*", "-", "u" >>), L(<< "H", "5" >>) >>
>>

\* ---- terms and switches
PatBit(e, k) == (e \div Pow2[k + 1]) % 2 = 1                 \* k in 0..6
RegIds == << "r1001", "r1002", "r1003", "r1004", "r1005" >>
IntTerm(s, p) == [k |-> "int", v |-> 100 * s + 10 + p]
RegTerm(s, p) == IF p % 2 = 1 /\ p <= 5 THEN [k |-> "var", id |-> RegIds[((p + 2 * s) % 5) + 1], sig |-> "$"] ELSE IntTerm(s, p)
Explicit(e, p) == p = 0 \/ PatBit(e, p - 1)
\* switch number s with n cases and hole pattern e; term(s, p) gives the value at position p
Sw(s, n, e, Term(_, _)) == [k |-> "ds", cases |-> << >> \o [q \in 1..n |-> IF Explicit(e, q - 1) THEN Term(s, q - 1) ELSE Hole]]
\* the same with the case at position q replaced by x
SwWith(s, n, e, q, x) == [k |-> "ds", cases |-> << >> \o [j \in 1..n |-> IF j - 1 = q THEN x ELSE IF Explicit(e, j - 1) THEN IntTerm(s, j - 1) ELSE Hole]]

Call(args, outer, own) == [form |-> "call", args |-> args, outer |-> outer, own |-> own]
Assign(rhs, outer, own) == [form |-> "assign", args |-> << rhs >>, outer |-> outer, own |-> own]
Case(fam, c, st) == [fam |-> fam, cfg |-> Cfgs[c].name, cfgi |-> c, defs |-> Cfgs[c].defs, st |-> st]

FromSet(S, Build(_)) == LET ds == SetToSeq(S) IN << >> \o [j \in 1..Len(ds) |-> Build(ds[j])]

\* ---- families (descriptor tuples are integers only)
\* F1: one switch, every hole pattern of 2..8 cases, under several labels and configurations
CfgLabels == IF Thorough
             THEN {cl \in (1..3) \X (1..9) : cl[2] <= Len(Labels[cl[1]])}
             ELSE {<<1, 1>>, <<1, 2>>, <<2, 1>>, <<2, 2>>, <<3, 2>>}
F1 == FromSet({d \in CfgLabels \X (2..8) \X (0..127) : d[3] < Pow2[d[2]]},
              LAMBDA d : Case("single", d[1][1], Call(<< Sw(1, d[2], d[3], IntTerm) >>, NoL, Labels[d[1][1]][d[1][2]])))
\* F2: two switches of equal length, every pair of hole patterns
CLN2 == IF Thorough THEN {<<1, 1>>, <<2, 2>>} \X (2..8) ELSE ({<<2, 2>>} \X (2..5)) \cup ({<<1, 1>>} \X (2..4))
F2 == FromSet(UNION {{<<cn[1], cn[2], e1, e2>> : e1 \in 0..(Pow2[cn[2]] - 1), e2 \in 0..(Pow2[cn[2]] - 1)} : cn \in CLN2},
              LAMBDA d : Case("double", d[1][1],
                              Call(<< Sw(1, d[2], d[3], IntTerm), Sw(2, d[2], d[4], IntTerm) >>, NoL, Labels[d[1][1]][d[1][2]])))
\* F3: three switches
CL3 == IF Thorough THEN {<<2, 1>>, <<1, 2>>} ELSE {<<2, 1>>}
D3 == IF Thorough
      THEN {d \in CL3 \X (2..5) \X (0..15) \X (0..15) \X (0..15) : d[3] < Pow2[d[2]] /\ d[4] < Pow2[d[2]] /\ d[5] < Pow2[d[2]]}
      ELSE {d \in CL3 \X (2..3) \X (0..3) \X (0..3) \X (0..3) : d[3] < Pow2[d[2]] /\ d[4] < Pow2[d[2]] /\ d[5] < Pow2[d[2]]}
           \cup (CL3 \X {4} \X (0..7) \X (0..7) \X {0, 5})
F3 == FromSet(D3,
              LAMBDA d : Case("triple", d[1][1],
                              Call(<< Sw(1, d[2], d[3], IntTerm), Sw(2, d[2], d[4], IntTerm), Sw(3, d[2], d[5], RegTerm) >>,
                                   NoL, Labels[d[1][1]][d[1][2]])))
\* F4: a switch nested in a case of another one (every outer pattern, position, inner pattern), alone
\* and next to a sibling switch that is explicit everywhere
N4 == IF Thorough THEN 5 ELSE 4
F4 == FromSet({d \in (1..2) \X (2..N4) \X (0..15) \X (0..4) \X (0..15) \X (0..1) :
                    /\ d[3] < Pow2[d[2]] /\ d[5] < Pow2[d[2]] /\ d[4] < d[2] /\ Explicit(d[3], d[4])
                    /\ (Thorough \/ d[1] = 1 + ((d[3] + d[5]) % 2))},
              LAMBDA d : LET nested == SwWith(1, d[2], d[3], d[4], Sw(2, d[2], d[5], IntTerm))
                         IN Case(IF d[6] = 0 THEN "nested" ELSE "nested+sibling", d[1],
                                 Call(IF d[6] = 0 THEN << nested >> ELSE << nested, Sw(3, d[2], Pow2[d[2]] - 1, IntTerm) >>,
                                      NoL, Labels[d[1]][IF d[1] = 2 THEN 2 ELSE 1])))
\* F5: assignment of a switch: all-simple cases (one instruction replicated) and with one computed case
F5a == FromSet({d \in (IF Thorough THEN 1..2 ELSE {2}) \X (2..8) \X (0..127) : d[3] < Pow2[d[2]]},
               LAMBDA d : Case("assign", d[1], Assign(Sw(1, d[2], d[3], RegTerm), NoL, Labels[d[1]][IF d[1] = 2 THEN 2 ELSE 1])))
F5b == FromSet({d \in (1..2) \X (2..4) \X (0..7) \X (0..3) : d[3] < Pow2[d[2]] /\ d[4] < d[2] /\ Explicit(d[3], d[4])},
               LAMBDA d : Case("assign-computed", d[1],
                               Assign(SwWith(1, d[2], d[3], d[4], [k |-> "bin", op |-> "+", a |-> [k |-> "var", id |-> "r1001", sig |-> "$"], b |-> IntTerm(5, d[4])]),
                                      NoL, Labels[d[1]][IF d[1] = 2 THEN 2 ELSE 1])))
\* F6: the statement inside a labelled block, with and without a label of its own
OuterOwn == {<<1, 2, 1>>, <<1, 2, 4>>, <<1, 2, 5>>, <<1, 6, 1>>, <<1, 6, 4>>, <<1, 7, 1>>, <<1, 7, 2>>, <<1, 8, 1>>, <<1, 8, 3>>,
             <<2, 2, 1>>, <<2, 2, 5>>, <<2, 4, 1>>, <<2, 4, 5>>, <<2, 7, 1>>, <<2, 7, 6>>, <<3, 2, 1>>, <<3, 2, 3>>}
F6 == FromSet({d \in OuterOwn \X (IF Thorough THEN 3..4 ELSE {4}) \X (0..7) : d[3] < Pow2[d[2]]},
              LAMBDA d : Case("in-block", d[1][1], Call(<< Sw(1, d[2], d[3], IntTerm) >>, Labels[d[1][1]][d[1][2]], Labels[d[1][1]][d[1][3]])))
\* F7: register cases
F7 == FromSet({d \in (2..(IF Thorough THEN 8 ELSE 6)) \X (0..127) : d[2] < Pow2[d[1]]},
              LAMBDA d : Case("registers", 1, Call(<< Sw(1, d[1], d[2], RegTerm), [k |-> "int", v |-> 7] >>, NoL, NoL)))
\* F8: under every label: the label is the specification's own print of every mask (th06: every
\* subset of ENHL; th08: quick = every mask over bits 0..3 and F, thorough = all 256)
MaskBytes(c) == IF c = 1 THEN 0..15
                ELSE IF Thorough THEN 0..255
                ELSE {x + 208 : x \in 0..15} \cup {x + 240 : x \in 0..15}     \* bits 4,6,7 (+ F) on
Pats8(c) == IF Thorough \/ c = 1 THEN 0..7 ELSE {0, 2, 5, 7}
F8 == FromSet(UNION {{<<c, x, e>> : x \in MaskBytes(c), e \in Pats8(c)} : c \in 1..(IF Thorough THEN 3 ELSE 2)},
              LAMBDA d : Case("every-label", d[1], Call(<< Sw(1, 4, d[3], IntTerm) >>, NoL, L(TPrintLabel(BitsOf(d[2]), Tabs[d[1]])))))

Cases == F1 \o F2 \o F3 \o F4 \o F5a \o F5b \o F6 \o F7 \o F8

\* ---- state space: one root holding the whole family (a definition like Cases is re-evaluated every
\* time a state-level formula mentions it, so it is mentioned once), blocks of 64 cases as its
\* successors, the single cases as theirs (so that the workers share the evaluation of the invariants)
Blk == 64
VARIABLES lvl, all, c
vars == <<lvl, all, c>>
NoCase == [fam |-> "none"]
Init == lvl = 0 /\ all = TLCGet(41) /\ c = NoCase       \* register 41 = Cases, parked by the ASSUME below
Next == \/ /\ lvl = 0 /\ lvl' = 1 /\ c' = NoCase
           /\ \E b \in 0..((Len(all) - 1) \div Blk) : all' = SubSeq(all, b * Blk + 1, IF (b + 1) * Blk < Len(all) THEN (b + 1) * Blk ELSE Len(all))
        \/ /\ lvl = 1 /\ lvl' = 2 /\ all' = << >> /\ \E j \in 1..Len(all) : c' = all[j]
Spec == Init /\ [][Next]_vars

St == c.st
Tab == Tabs[c.cfgi]

\* ---- in-model facts
LabelsValid == (St.own.has => TLabelToMask(St.own.chars, Tab).ok) /\ (St.outer.has => TLabelToMask(St.outer.chars, Tab).ok)
Sized == NumLevels(St.args) \in 2..8 /\ \A j \in 1..Len(AllSwitches(St.args)) : Len(AllSwitches(St.args)[j].cases) = NumLevels(St.args)
SelectFacts == LET sw == AllSwitches(St.args) IN
    \A j \in 1..Len(sw) : \A d \in 0..(Len(sw[j].cases) - 1) :
        /\ ~IsHole(Select(sw[j].cases, d))
        /\ d \in ExplicitAt(sw[j].cases) => Select(sw[j].cases, d) = sw[j].cases[d + 1]
        /\ (d > 0 /\ d \notin ExplicitAt(sw[j].cases)) => Select(sw[j].cases, d) = Select(sw[j].cases, d - 1)
\* the documented expansion satisfies the property
ExpansionOk == ExactlyOne(St, Tab, Expand(St, Tab))
Inv == lvl = 2 => (LabelsValid /\ Sized /\ SelectFacts /\ ExpansionOk)

\* exported with every case: whether a nested switch is finer than the outermost ones and, if so,
\* whether an expansion that only looks at the outermost switches would satisfy ExactlyOne
ASSUME LET CS == Cases IN
       /\ TLCSet(41, CS)
       /\ ndJsonSerialize(IOEnv.OUT, << >> \o [k \in 1..Len(CS) |->
              LET st == CS[k].st
                  finer == NestedFiner(st.args)
              IN [id |-> k, fam |-> CS[k].fam, cfg |-> CS[k].cfg, cfgi |-> CS[k].cfgi, defs |-> CS[k].defs, st |-> st,
                  finer |-> finer,
                  toponly_ok |-> IF finer THEN ExactlyOne(st, Tabs[CS[k].cfgi], ExpandWith(st, Tabs[CS[k].cfgi], TopExplicit(st.args))) ELSE TRUE]])
       /\ PrintT(<<"GEN", "Gen_DiffSwitch", Len(CS)>>)
=============================================================================
