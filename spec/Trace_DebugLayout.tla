------------------------- MODULE Trace_DebugLayout -------------------------
(***************************************************************************)
(* C18, Mode H.  Replays, per output file and per script, the entries of   *)
(* the real debug-info JSON as events against the instruction sizes the    *)
(* driver parsed from the written BINARY:                                  *)
(*   file    {id}                  a new compilation (history boundary)    *)
(*   const   {name, value, e}      debug-info const + its source expression*)
(*   script  {sizes, src}          facts: instruction sizes from the binary*)
(*                                 (terminal instruction excluded), source *)
(*                                 statements of the script                *)
(*   instr   {offset}              debug-info instrs, in order             *)
(*   label   {offset, time, name, insrc, before, after}   debug-info labels*)
(*                                 merged with the instrs by offset        *)
(*   end     {offset}              debug-info end-offset                   *)
(*   local   {reg, regs}           debug-info local + register operands of *)
(*                                 its witness instructions (binary)       *)
(* Every compilation is one history; the trace file holds many of them.    *)
(* Each history is deterministic: exactly one action can match each line   *)
(* (variable l = next line).  A history is ACCEPTED when all of its lines  *)
(* have been explained (l reaches the next `file` line or the end) between *)
(* scripts.  Accepted history ids are collected in TLC register 2, the     *)
(* last explained line of every history in register 1; the postcondition   *)
(* prints both.  A history that is not in the accepted set was rejected at *)
(* the line after its last explained one.  Run with ONE worker (registers).*)
(***************************************************************************)
EXTENDS DebugLayout, Json, IOUtils

ASSUME TLCSet(41, ndJsonDeserialize(IOEnv.TRACE))
ASSUME TLCSet(1, <<>>)
ASSUME TLCSet(2, {})
Rec == TLCGet(41)

VARIABLES l,        \* next line of the trace
          cur,      \* id of the history being replayed
          status    \* "running" | "accepted"
tvars == <<sizes, src, off, idx, phase, cenv, l, cur, status>>

ToSet(s) == {s[i] : i \in 1..Len(s)}
IsFileLine(i) == i <= Len(Rec) /\ Rec[i].ev = "file"
IsEvent(e) == status = "running" /\ l <= Len(Rec) /\ Rec[l].ev = e /\ l' = l + 1 /\ UNCHANGED <<cur, status>>

TConst  == IsEvent("const")  /\ Const(Rec[l].name, Rec[l].value, Rec[l].e)
TScript == IsEvent("script") /\ BeginScript(Rec[l].sizes, Rec[l].src)
TInstr  == IsEvent("instr")  /\ PlaceInstr(Rec[l].offset)
TLabel  == IsEvent("label")  /\ PlaceLabel(Rec[l].offset, Rec[l].time, Rec[l].name, Rec[l].insrc,
                                           ToSet(Rec[l].before), ToSet(Rec[l].after))
TEnd    == IsEvent("end")    /\ End(Rec[l].offset)
TLocal  == IsEvent("local")  /\ Local(Rec[l].reg, ToSet(Rec[l].regs))
\* the whole history was consumed, and not in the middle of a script
TAccept ==
    /\ status = "running"
    /\ (l > Len(Rec) \/ IsFileLine(l))
    /\ phase \in {"idle", "ended"}
    /\ status' = "accepted"
    /\ TLCSet(2, TLCGet(2) \cup {cur})
    /\ UNCHANGED <<sizes, src, off, idx, phase, cenv, l, cur>>

\* one history per `file` line (the line itself is consumed here: a new file starts with no constants, no script)
Init == \E i \in {j \in 1..Len(Rec) : IsFileLine(j)} :
            /\ l = i + 1 /\ cur = Rec[i].id /\ status = "running"
            /\ DLInit
Step == TConst \/ TScript \/ TInstr \/ TLabel \/ TEnd \/ TLocal
Next == (Step /\ TLCSet(1, (cur :> l) @@ TLCGet(1))) \/ TAccept
Spec == Init /\ [][Next]_tvars

Inv == TypeOK /\ OffsetIsPrefixSum
Post == PrintT(<<"ACCEPTED", TLCGet(2)>>) /\ PrintT(<<"PROGRESS", TLCGet(1)>>)
============================================================================
