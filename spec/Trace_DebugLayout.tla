------------------------- MODULE Trace_DebugLayout -------------------------
(***************************************************************************)
(* C18, Mode H.  Replays, per output file and per script, the entries of   *)
(* the real debug-info JSON as events against the instruction sizes the    *)
(* driver parsed from the written BINARY:                                  *)
(*   file    a new compilation                                             *)
(*   const   {name, value, e}      debug-info const + its source expression*)
(*   script  {sizes, src}          facts: instruction sizes from the binary*)
(*                                 (terminal instruction excluded), source *)
(*                                 statements of the script                *)
(*   instr   {offset}              debug-info instrs, in order             *)
(*   label   {offset, time, name, insrc, before, after}   debug-info labels*)
(*                                 merged with the instrs by offset        *)
(*   end     {offset}              debug-info end-offset                   *)
(*   local   {reg, regs}           debug-info local + register operands of *)
(*                                 its witness instructions (binary)       *)
(* The trace is deterministic: exactly one action can match each line.     *)
(* Acceptance = the whole file is consumed, i.e. the invariant NotDone is  *)
(* VIOLATED.  If TLC finishes without violating it, the trace was rejected *)
(* and the postcondition prints the index of the last accepted line.       *)
(* Run with one worker (the parsed trace is parked in a TLC register).     *)
(***************************************************************************)
EXTENDS DebugLayout, Json, IOUtils

ASSUME TLCSet(41, ndJsonDeserialize(IOEnv.TRACE))
ASSUME TLCSet(1, 0)
Rec == TLCGet(41)

VARIABLE l
tvars == <<sizes, src, off, idx, phase, cenv, l>>

ToSet(s) == {s[i] : i \in 1..Len(s)}
IsEvent(e) == l <= Len(Rec) /\ Rec[l].ev = e /\ l' = l + 1

TFile   == IsEvent("file")   /\ NewFile
TConst  == IsEvent("const")  /\ Const(Rec[l].name, Rec[l].value, Rec[l].e)
TScript == IsEvent("script") /\ BeginScript(Rec[l].sizes, Rec[l].src)
TInstr  == IsEvent("instr")  /\ PlaceInstr(Rec[l].offset)
TLabel  == IsEvent("label")  /\ PlaceLabel(Rec[l].offset, Rec[l].time, Rec[l].name, Rec[l].insrc,
                                           ToSet(Rec[l].before), ToSet(Rec[l].after))
TEnd    == IsEvent("end")    /\ End(Rec[l].offset)
TLocal  == IsEvent("local")  /\ Local(Rec[l].reg, ToSet(Rec[l].regs))

Init == l = 1 /\ DLInit
\* register 1 remembers the last line that was explained (read by the postcondition when a trace is rejected)
Next == (TFile \/ TConst \/ TScript \/ TInstr \/ TLabel \/ TEnd \/ TLocal) /\ TLCSet(1, l)
Spec == Init /\ [][Next]_tvars

NotDone == l <= Len(Rec)            \* its violation = the whole trace was explained by the specification
Inv == TypeOK /\ OffsetIsPrefixSum
Post == PrintT(<<"ACCEPTED_UPTO", TLCGet(1), Len(Rec)>>)
============================================================================
