---------------------------- MODULE StoredTimes ----------------------------
(***************************************************************************)
(* C13, decompile direction: what a printed script *means* for the times   *)
(* stored in a binary, according to doc/syntax.md.                         *)
(*                                                                         *)
(* A binary script is a list of instructions with stored times; some of    *)
(* them are jumps (at = position of the jump, to = position of the target  *)
(* instruction, Len+1 = end of script, targ = the stored time argument).   *)
(* A decompilation is a statement tree.  It is faithful w.r.t. time iff    *)
(*   - reading the tree with the label rules (TimeLabels!Annotate) gives   *)
(*     every instruction-producing statement exactly the stored time, in   *)
(*     order; and                                                          *)
(*   - every `goto L [@ t]` stands at the position of a stored jump, the   *)
(*     label L stands in front of the stored target instruction, and the   *)
(*     time the jump sets -- t if written, else "the label's time label"   *)
(*     (doc/syntax.md, "Conditional jumps and labels") -- is the stored    *)
(*     time argument.                                                      *)
(* `loop { B }` is read as documented: the body, then a jump back to the   *)
(* start of the loop that carries the time at `}` and sets the time at     *)
(* `{` ("loop { +4: foo(); +6: }" calls foo() on frames 4, 14, 24, ...).   *)
(* Nothing here looks at how the decompiler chose its labels.              *)
(***************************************************************************)
EXTENDS TimeLabels, FiniteSets, SequencesExt

Ev(kind, tm, name, ex, et) == [ev |-> kind, tm |-> tm, name |-> name, ex |-> ex, et |-> et]
BadEv == Ev("bad", 0, "", FALSE, 0)

\* A statement whose call has a difficulty switch `(a:b::d)` among its arguments stands for one
\* instruction per written case (doc/syntax.md, "Difficulty switches"), all at the statement's time.
ExplicitCases(e) == Cardinality({i \in 1..Len(e.cases) : e.cases[i].k # "hole"})
Copies(s) ==
    IF s.e.k = "call" /\ HasField(s.e, "args") /\ \E i \in 1..Len(s.e.args) : s.e.args[i].k = "ds"
    THEN ExplicitCases(s.e.args[CHOOSE i \in 1..Len(s.e.args) : s.e.args[i].k = "ds"])
    ELSE 1

\* the events of an annotated block in lexical order: instructions, jumps and labels
RECURSIVE LinFrom(_, _, _)
LinFrom(ablk, i, path) ==
    IF i > Len(ablk) THEN <<>>
    ELSE LET s == ablk[i]
             here ==
               CASE s.k = "expr" -> [c \in 1..Copies(s) |-> Ev("ins", s.tm, "", FALSE, 0)]
                 [] s.k = "jump" ->
                      IF s.jump = "goto"
                      THEN << Ev("jmp", s.tm, s.label, HasField(s, "time"), IF HasField(s, "time") THEN s.time ELSE 0) >>
                      ELSE << BadEv >>
                 [] s.k = "label" -> << Ev("lab", s.tm, s.name, FALSE, 0) >>
                 [] s.k \in {"abs", "rel", "nop"} -> <<>>
                 [] s.k = "block" -> LinFrom(s.body, 1, Append(path, i))
                 [] s.k = "loop" ->
                      IF Len(s.body) = 0 THEN << BadEv >>
                      ELSE LET name == "%loop" \o ToString(Append(path, i))
                           IN << Ev("lab", StartT(s.body), name, FALSE, 0) >>
                              \o LinFrom(s.body, 1, Append(path, i))
                              \o << Ev("jmp", EndT(s.body), name, FALSE, 0) >>
                 [] OTHER -> << BadEv >>
         IN here \o LinFrom(ablk, i + 1, path)

Events(tree) == LinFrom(Annotate(tree), 1, <<>>)

IsInstrEv(e) == e.ev \in {"ins", "jmp"}
InstrsBefore(ev, k) == Cardinality({m \in 1..(k - 1) : IsInstrEv(ev[m])})

\* "ok" | "bad:<which clause>" | "unsupported" (a construct this module does not read)
VerdictEv(ev, times, jumps) ==
    LET ins == SelectSeq(ev, IsInstrEv)
        JumpAt(i) == {j \in 1..Len(jumps) : jumps[j].at = i}
        LabelsOf(name) == {k \in 1..Len(ev) : ev[k].ev = "lab" /\ ev[k].name = name}
    IN  IF \E k \in 1..Len(ev) : ev[k].ev = "bad" THEN "unsupported"
        ELSE IF Len(ins) # Len(times) THEN "bad:count"
        ELSE IF \E i \in 1..Len(ins) : ins[i].tm # times[i] THEN "bad:times"
        ELSE IF \E i \in 1..Len(ins) : (ins[i].ev = "jmp") # (JumpAt(i) # {}) THEN "bad:jump-position"
        ELSE IF \E j \in 1..Len(jumps) : Cardinality(LabelsOf(ins[jumps[j].at].name)) # 1 THEN "bad:label-missing-or-duplicate"
        ELSE IF \E j \in 1..Len(jumps) :
                    LET k == CHOOSE k \in LabelsOf(ins[jumps[j].at].name) : TRUE
                    IN InstrsBefore(ev, k) # jumps[j].to - 1 THEN "bad:jump-target"
        ELSE IF \E j \in 1..Len(jumps) :
                    LET e == ins[jumps[j].at]
                        k == CHOOSE k \in LabelsOf(e.name) : TRUE
                    IN (IF e.ex THEN e.et ELSE ev[k].tm) # jumps[j].targ THEN "bad:jump-time"
        ELSE "ok"
Verdict(tree, times, jumps) == VerdictEv(Events(tree), times, jumps)
===========================================================================
