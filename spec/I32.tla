------------------------------- MODULE I32 -------------------------------
(***************************************************************************)
(* 32-bit two's-complement integer arithmetic ("the documented machine     *)
(* semantics": wrapping + - *, truncating / %, shift counts modulo 32,     *)
(* arithmetic vs logical right shift, bitwise operators).                  *)
(*                                                                         *)
(* TLC's own integers are 32-bit and *trap* on overflow, so every operator *)
(* here is written on 16-bit halves and never produces an intermediate     *)
(* value outside -2^31 .. 2^31-1.                                          *)
(***************************************************************************)
EXTENDS Integers, Bitwise

MinI32 == -2147483647 - 1
MaxI32 == 2147483647
IsI32(x) == x \in Int /\ x >= MinI32 /\ x <= MaxI32

B16 == 65536
B15 == 32768

\* a = Hi(a) * 65536 + Lo(a),  Lo(a) \in 0..65535,  Hi(a) \in -32768..32767
Lo(a) == a % B16
Hi(a) == a \div B16          \* floor division (TLA+ semantics), divisor positive
UHi(a) == Hi(a) % B16        \* upper half as unsigned 0..65535

\* assemble from unsigned halves (each 0..65535) into a signed 32-bit value
FromU(h, l) == (IF h >= B15 THEN h - B16 ELSE h) * B16 + l

Add(a, b) ==
    LET s == Lo(a) + Lo(b)
        h == (UHi(a) + UHi(b) + (s \div B16)) % B16
    IN FromU(h, s % B16)

Neg(a) == IF a = MinI32 THEN MinI32 ELSE -a
Sub(a, b) == Add(a, Neg(b))    \* Neg(MinI32) = MinI32 is its own two's-complement negation

\* product of two 16-bit unsigned numbers as <<hi16, lo16>>
Mul16(x, y) ==
    LET x0 == x % 256
        x1 == x \div 256
        t0 == x0 * y                      \* < 2^24
        t1 == x1 * y                      \* < 2^24 ; product = t1*256 + t0
        low == t0 + (t1 % 256) * 256      \* < 2^24 + 2^16
    IN << ((low \div B16) + (t1 \div 256)) % B16, low % B16 >>

Mul(a, b) ==
    LET al == Lo(a)  ah == UHi(a)
        bl == Lo(b)  bh == UHi(b)
        ll == Mul16(al, bl)
        hl == Mul16(ah, bl)
        lh == Mul16(al, bh)
    IN FromU((ll[1] + hl[2] + lh[2]) % B16, ll[2])

Sign(a) == IF a < 0 THEN -1 ELSE IF a > 0 THEN 1 ELSE 0
Abs(a) == IF a < 0 THEN -a ELSE a       \* only for a # MinI32

\* truncating division, for b # 0
TruncDivSafe(a, b) ==                   \* requires a # MinI32, b # MinI32, b # 0
    LET q == Abs(a) \div Abs(b)
    IN IF (a < 0) # (b < 0) THEN -q ELSE q

DivT(a, b) ==
    IF b = MinI32 THEN (IF a = MinI32 THEN 1 ELSE 0)
    ELSE IF a = MinI32 THEN
        IF b = -1 THEN MinI32            \* wrapping_div
        ELSE IF b = 1 THEN MinI32
        ELSE \* (a + |b|) has the same sign as a, so trunc((x - |b|)/b) = trunc(x/b) - sign(b)
             TruncDivSafe(a + Abs(b), b) - Sign(b)
    ELSE TruncDivSafe(a, b)

RemT(a, b) == Sub(a, Mul(DivT(a, b), b))

\* ---- shifts: the count is taken modulo 32 ----
Pow2(n) == IF n = 31 THEN MinI32 ELSE 2^n       \* n \in 0..31
ShCount(n) == n % 32                             \* TLA+ % is non-negative for positive modulus

Shl(x, n) == Mul(x, Pow2(ShCount(n)))

ShrA(x, n) ==
    LET c == ShCount(n)
    IN IF c = 31 THEN (IF x < 0 THEN -1 ELSE 0) ELSE x \div (2^c)

ShrL(x, n) ==
    LET c == ShCount(n)
    IN IF c = 0 \/ x >= 0 THEN ShrA(x, c)
       ELSE \* x < 0, c >= 1: shift once arithmetically, clear the sign bit, shift the rest
            LET y == ((x \div 2) + 1073741824) + 1073741824
            IN IF c = 1 THEN y ELSE y \div (2^(c - 1))

\* ---- bitwise, on unsigned halves ----
BAnd(a, b) == FromU(UHi(a) & UHi(b), Lo(a) & Lo(b))
BOr(a, b)  == FromU(UHi(a) | UHi(b), Lo(a) | Lo(b))
BXor(a, b) == FromU(UHi(a) ^^ UHi(b), Lo(a) ^^ Lo(b))
BNot(a) == -1 - a        \* never overflows: -1 - MinI32 = MaxI32

BoolI(p) == IF p THEN 1 ELSE 0
==========================================================================
