---------------------------- MODULE Gen_ArgCodec ----------------------------
(***************************************************************************)
(* C12, in-model check + Mode G generator.  One TLC state per case         *)
(* (signature, argument list, language):                                   *)
(*   F0/F1/F2 : every signature of length <= 2 over 30 parameter variants  *)
(*              x 6 argument choices per parameter (width boundaries just  *)
(*              inside / just outside, registers that fit / do not fit)    *)
(*   F3       : every signature of length 3 over 11 variants x 4 choices   *)
(*   FB       : length <= 2 over the 11 variants in a language without     *)
(*              registers                                                  *)
(*   FL       : long signatures (the 16-bit register mask)                 *)
(*   FS       : string parameters between other parameters                 *)
(* Invalid signatures are cases too (the mapfile must be rejected).        *)
(***************************************************************************)
EXTENDS ArgCodec, TLC, Json, IOUtils

Anm      == [name |-> "anm",      regs |-> TRUE,  arg0 |-> FALSE, hdr |-> 4, tend |-> 30]
NoReg    == [name |-> "noreg",    regs |-> FALSE, arg0 |-> FALSE, hdr |-> 4, tend |-> 30]
Timeline == [name |-> "timeline", regs |-> FALSE, arg0 |-> TRUE,  hdr |-> 4, tend |-> 30]   \* TH06/07 timeline

P(ch) == Param(ch, FALSE, FALSE, FALSE, FALSE)
Imm(ch) == Param(ch, TRUE, FALSE, FALSE, FALSE)

VF == << P("S"), P("s"), P("U"), P("u"), P("C"), P("c"), P("b"), P("n"), P("N"), P("E"),
         P("f"), P("o"), P("t"), P("_"), P("-"),
         Imm("S"), Imm("s"), Imm("U"), Imm("u"), Imm("C"), Imm("c"), Imm("b"), Imm("f"),
         Param("S", FALSE, FALSE, TRUE, FALSE), Param("u", FALSE, FALSE, TRUE, FALSE), Param("b", TRUE, FALSE, TRUE, FALSE),
         Param("S", FALSE, FALSE, FALSE, TRUE),
         Param("s", FALSE, TRUE, FALSE, FALSE), Param("u", FALSE, TRUE, FALSE, FALSE), Param("S", FALSE, TRUE, FALSE, FALSE),
         \* `hex` is a display attribute: on every other integer letter too it must change neither range nor sign
         Param("s", FALSE, FALSE, TRUE, FALSE), Param("c", FALSE, FALSE, TRUE, FALSE), Param("U", FALSE, FALSE, TRUE, FALSE),
         Param("C", FALSE, FALSE, TRUE, FALSE), Param("n", FALSE, FALSE, TRUE, FALSE),
         Param("s", TRUE, FALSE, TRUE, FALSE), Param("c", TRUE, FALSE, TRUE, FALSE), Param("u", TRUE, FALSE, TRUE, FALSE) >>
VS == << VF[1], VF[18], VF[2], VF[4], VF[6], VF[7], VF[11], VF[12], VF[13], VF[14], VF[15] >>
KF == 6
CS == <<1, 2, 4, 5>>        \* the choices used in F3 / FB
KS == Len(CS)

A(k, v) == [k |-> k, v |-> v]
Dup == [k |-> "dup", v |-> 0]
Choice(p, c) ==
    IF IsPad(p) THEN (IF c = 1 THEN A("pad", 0) ELSE Dup)
    ELSE IF p.ch = "o" THEN (IF c <= 2 THEN A("off", c - 1) ELSE Dup)
    ELSE IF p.ch = "t" THEN (IF c <= 2 THEN A("time", c - 1) ELSE Dup)
    ELSE IF p.ch = "f" THEN
        << A("fimm", 1069547520), A("fimm", MinI32), A("fimm", 305419896), A("fimm", 2139095040),
           A("freg", 10004), A("freg", 10000) >>[c]
    ELSE CASE Width(p.ch) = 4 ->
                << A("imm", MinI32), A("imm", MaxI32), A("imm", -1), A("imm", 305419896), A("reg", 10000), A("reg", 3) >>[c]
           [] p.ch = "s" ->
                << A("imm", -32768), A("imm", 32767), A("imm", -32769), A("imm", 32768), A("reg", 10000), A("reg", 40000) >>[c]
           [] p.ch = "u" ->
                << A("imm", 0), A("imm", 65535), A("imm", -1), A("imm", 65536), A("reg", 10000), A("reg", 40000) >>[c]
           [] p.ch = "c" ->
                << A("imm", -128), A("imm", 127), A("imm", -129), A("imm", 128), A("reg", 10000), A("reg", 3) >>[c]
           [] p.ch = "b" ->
                << A("imm", 0), A("imm", 255), A("imm", -1), A("imm", 256), A("reg", 10000), A("reg", 3) >>[c]

\* ---- the explicit families ----
Rep(n, x) == <<>> \o [i \in 1..n |-> x]
R == A("reg", 10000)
I1 == A("imm", 1)
Long == <<
    [lang |-> Anm, sig |-> Rep(16, P("S")), args |-> Rep(16, R)],
    [lang |-> Anm, sig |-> Rep(17, P("S")), args |-> Rep(16, I1) \o <<R>>],
    [lang |-> Anm, sig |-> Rep(17, P("S")), args |-> Rep(16, I1) \o <<A("imm", 2)>>],
    [lang |-> Anm, sig |-> Rep(17, P("S")), args |-> Rep(15, I1) \o <<R, I1>>],
    [lang |-> Anm, sig |-> Rep(8, P("S")) \o <<P("_")>> \o Rep(8, P("S")),
                   args |-> <<>> \o [i \in 1..16 |-> IF i % 2 = 0 THEN R ELSE A("imm", i)]],
    [lang |-> Anm, sig |-> Rep(15, P("S")) \o <<P("-"), P("S"), P("S")>>, args |-> Rep(15, I1) \o <<R, I1>>],
    [lang |-> Anm, sig |-> Rep(15, P("S")) \o <<P("-"), P("S"), P("S")>>, args |-> Rep(15, I1) \o <<R, R>>],
    [lang |-> Anm, sig |-> Rep(15, Imm("S")) \o <<P("-"), P("S"), P("S")>>, args |-> Rep(15, I1) \o <<R, R>>],
    [lang |-> Anm, sig |-> <<P("-"), P("-"), P("-"), P("u"), P("_")>> \o Rep(13, Imm("s")) \o <<P("b"), P("f")>>,
                   args |-> <<A("reg", 40000)>> \o Rep(13, A("imm", -2)) \o <<A("reg", 3), A("freg", 10004)>>],
    [lang |-> Anm, sig |-> <<P("s"), P("u"), P("c"), P("b"), P("f"), P("S"), P("s"), P("u"), P("c"), P("b"), P("f"), P("S"),
                             P("s"), P("u"), P("c"), P("b")>>,
                   args |-> <<R, R, A("reg", 3), A("reg", 3), A("freg", 10004), R, R, R, A("reg", 3), A("reg", 3),
                              A("freg", 10000), R, R, R, A("reg", 3), A("reg", 3)>>],
    [lang |-> NoReg, sig |-> Rep(17, P("S")), args |-> Rep(17, I1)]
>>

Z == <<0, 0, 0>>
Msg == <<119, 7, 16>>
Txt(s) == A("str", s)
Abc == <<97, 98, 99>>
Strs == <<
    [lang |-> Anm, sig |-> <<P("S"), StrParam("z", StrSpec("fixed", 8, FALSE, Z, FALSE)), P("S")>>, args |-> <<R, Txt(Abc), R>>],
    [lang |-> Anm, sig |-> <<P("s"), StrParam("m", StrSpec("fixed", 8, TRUE, <<170, 0, 0>>, FALSE)), P("-"), P("f")>>,
                   args |-> <<A("imm", -2), Txt(<<97, 98, 99, 100, 101, 102, 103, 104>>), A("fimm", 1069547520)>>],
    [lang |-> Anm, sig |-> <<P("S"), StrParam("p", StrSpec("pascal", 4, FALSE, Z, FALSE)), P("S")>>,
                   args |-> <<R, Txt(<<104, 101, 108, 108, 111>>), R>>],
    [lang |-> Anm, sig |-> <<P("S"), StrParam("p", StrSpec("pascal", 4, FALSE, Msg, FALSE)), P("f"), StrParam("z", StrSpec("block", 4, FALSE, Z, FALSE))>>,
                   args |-> <<I1, Txt(<<>>), A("freg", 10004), Txt(<<116, 97, 105, 108>>)>>],
    [lang |-> Anm, sig |-> <<StrParam("z", StrSpec("fixed", 8, FALSE, Z, FALSE)), P("s")>>,
                   args |-> <<Txt(<<97, 98, 99, 100, 101, 102, 103, 104>>), I1>>],
    [lang |-> Anm, sig |-> <<StrParam("z", StrSpec("block", 4, FALSE, Z, FALSE)), P("S")>>, args |-> <<Txt(Abc), I1>>],
    [lang |-> Anm, sig |-> <<P("o"), P("t"), StrParam("z", StrSpec("block", 16, FALSE, Z, FALSE))>>,
                   args |-> <<A("off", 1), A("time", 1), Txt(<<120>>)>>],
    [lang |-> Anm, sig |-> <<P("u"), P("-"), StrParam("m", StrSpec("block", 4, FALSE, Msg, TRUE))>>,
                   args |-> <<A("imm", 65535), Txt(<<124, 97, 98>>)>>],
    [lang |-> Anm, sig |-> <<StrParam("m", StrSpec("fixed", 8, FALSE, <<170, 0, 0>>, FALSE)), StrParam("m", StrSpec("fixed", 8, TRUE, <<187, 0, 0>>, FALSE)), P("b")>>,
                   args |-> <<Txt(Abc), Txt(<<65, 66, 67, 68, 69, 70, 71, 72>>), A("reg", 3)>>],
    [lang |-> NoReg, sig |-> <<P("S"), StrParam("z", StrSpec("block", 4, FALSE, Z, FALSE))>>, args |-> <<I1, Txt(Abc)>>]
>>

\* ---- index arithmetic ----
BF == Len(VF) * KF         \* 180 (variant, choice) pairs
BS == Len(VS) * KS         \* 44
N0 == 1
N1 == BF
N2 == BF * BF
N3 == BS * BS * BS
NB == BS + BS * BS
NL == Len(Long)
NS == Len(Strs)
N == N0 + N1 + N2 + N3 + NB + NL + NS

PF(d) == VF[(d \div KF) + 1]                 \* d in 0..BF-1
AF(d) == Choice(PF(d), (d % KF) + 1)
PS(d) == VS[(d \div KS) + 1]                 \* d in 0..BS-1
AS(d) == Choice(PS(d), CS[(d % KS) + 1])

RealArgs(as) == SelectSeq(as, LAMBDA a : a.k # "pad")
HasDup(as) == \E j \in 1..Len(as) : as[j].k = "dup"
LangFor(sig) == IF Len(sig) > 0 /\ sig[1].arg0 THEN Timeline ELSE Anm

Mk(fam, lang, sig, as) == [fam |-> fam, lang |-> lang, sig |-> sig, args |-> RealArgs(as), dup |-> HasDup(as)]

CaseOf(i) ==
    IF i <= N0 THEN Mk("F0", Anm, <<>>, <<>>)
    ELSE IF i <= N0 + N1 THEN
        LET d == i - N0 - 1 IN Mk("F1", LangFor(<<PF(d)>>), <<PF(d)>>, <<AF(d)>>)
    ELSE IF i <= N0 + N1 + N2 THEN
        LET q == i - N0 - N1 - 1
            sig == <<PF(q \div BF), PF(q % BF)>>
        IN Mk("F2", LangFor(sig), sig, <<AF(q \div BF), AF(q % BF)>>)
    ELSE IF i <= N0 + N1 + N2 + N3 THEN
        LET q == i - N0 - N1 - N2 - 1
            d1 == q \div (BS * BS)  d2 == (q \div BS) % BS  d3 == q % BS
        IN Mk("F3", Anm, <<PS(d1), PS(d2), PS(d3)>>, <<AS(d1), AS(d2), AS(d3)>>)
    ELSE IF i <= N0 + N1 + N2 + N3 + NB THEN
        LET q == i - N0 - N1 - N2 - N3 - 1
        IN IF q < BS THEN Mk("FB", NoReg, <<PS(q)>>, <<AS(q)>>)
           ELSE LET r == q - BS IN Mk("FB", NoReg, <<PS(r \div BS), PS(r % BS)>>, <<AS(r \div BS), AS(r % BS)>>)
    ELSE IF i <= N0 + N1 + N2 + N3 + NB + NL THEN
        LET c == Long[i - N0 - N1 - N2 - N3 - NB] IN [fam |-> "FL", lang |-> c.lang, sig |-> c.sig, args |-> c.args, dup |-> FALSE]
    ELSE
        LET c == Strs[i - N0 - N1 - N2 - N3 - NB - NL] IN [fam |-> "FS", lang |-> c.lang, sig |-> c.sig, args |-> c.args, dup |-> FALSE]

\* ---- rendering data for the harness ----
MaskText(m) == ToString(m[1]) \o "," \o ToString(m[2]) \o "," \o ToString(m[3])
Attrs(p) ==
    IF IsStr(p) THEN
        << (IF p.str.kind = "fixed" THEN "len=" ELSE "bs=") \o ToString(p.str.n) >>
        \o (IF p.str.nulless THEN <<"nulless">> ELSE <<>>)
        \o (IF p.ch = "m" \/ p.str.mask # <<0, 0, 0>> THEN <<"mask=" \o MaskText(p.str.mask)>> ELSE <<>>)
        \o (IF p.str.furibug THEN <<"furibug">> ELSE <<>>)
    ELSE (IF p.arg0 THEN <<"arg0">> ELSE <<>>) \o (IF p.imm THEN <<"imm">> ELSE <<>>)
         \o (IF p.hex THEN <<"hex">> ELSE <<>>) \o (IF p.en THEN <<"enum">> ELSE <<>>)

Kinds == <<"nofit", "reg_in_imm", "no_registers", "no_mask_bit", "too_large">>
RECURSIVE ProblemSeq(_, _, _)
ProblemSeq(pr, sig, i) ==
    IF i > Len(sig) THEN <<>>
    ELSE LET here == SelectSeq(Kinds, LAMBDA k : [kind |-> k, at |-> i, ch |-> sig[i].ch] \in pr)
         IN (<<>> \o [j \in 1..Len(here) |-> [kind |-> here[j], at |-> i, ch |-> sig[i].ch]]) \o ProblemSeq(pr, sig, i + 1)

Row(i) ==
    LET c == CaseOf(i) IN
    IF c.dup THEN [id |-> i, dup |-> TRUE]
    ELSE LET valid == Valid(c.sig, c.lang)
             base == [id |-> i, dup |-> FALSE, fam |-> c.fam, lang |-> c.lang.name, valid |-> valid,
                      sig |-> <<>> \o [j \in 1..Len(c.sig) |-> [ch |-> c.sig[j].ch, attrs |-> Attrs(c.sig[j])]],
                      args |-> c.args]
         IN IF ~valid THEN base
            ELSE LET e == Encode(c.sig, c.args, c.lang)
                     pr == Problems(c.sig, c.args, c.lang)
                 IN IF e.ok THEN base @@ [exp |-> [ok |-> TRUE, blob |-> e.blob, mask |-> e.mask, arg0 |-> e.arg0]]
                    ELSE base @@ [exp |-> [ok |-> FALSE, problems |-> ProblemSeq(pr, c.sig, 1)]]

\* ------------------------------------------------------------------------
\* The cases are visited as the nodes 1..M of a binary heap: TLC computes initial states sequentially but
\* explores successors with all workers, so the enumeration is spread over the workers this way.
\* IOEnv.MODE = "check": M covers F0, F1, every SM2-th case of F2, every SM-th case of F3, and FB, FL, FS
\* (thorough: SM2 = SM = 1).
\* IOEnv.MODE = "export": a single node (the run only evaluates the export ASSUME below).
Checking == IOEnv.MODE = "check"
SM == atoi(IOEnv.SM)
SM2 == atoi(IOEnv.SM2)
A01 == N0 + N1
A012 == N0 + N1 + N2
M2 == N2 \div SM2
M3 == N3 \div SM
M == IF Checking THEN A01 + M2 + M3 + NB + NL + NS ELSE 1
IdOfNode(n) == IF n <= A01 THEN n
               ELSE IF n <= A01 + M2 THEN A01 + (n - A01) * SM2
               ELSE IF n <= A01 + M2 + M3 THEN A012 + (n - A01 - M2) * SM
               ELSE A012 + N3 + (n - A01 - M2 - M3)
VARIABLE node
CaseIdx == IdOfNode(node)
Init == node = 1
Next == \E j \in {2 * node, 2 * node + 1} : j <= M /\ node' = j
Spec == Init /\ [][Next]_node

NonStrWidth(sig) ==
    LET RECURSIVE W(_)
        W(i) == IF i = 0 THEN 0 ELSE W(i - 1) + (IF sig[i].arg0 \/ IsStr(sig[i]) THEN 0 ELSE Width(sig[i].ch))
    IN W(Len(sig))
HasStr(sig) == \E i \in 1..Len(sig) : IsStr(sig[i])

\* offset of parameter i in a blob without strings
OffsetOf(sig, i) ==
    LET RECURSIVE O(_)
        O(j) == IF j = 0 THEN 0 ELSE O(j - 1) + (IF sig[j].arg0 THEN 0 ELSE Width(sig[j].ch))
    IN O(i - 1)

Facts(c, idx) ==
    LET sig == c.sig  args == c.args  lang == c.lang
        e == Encode(sig, args, lang)
        pr == Problems(sig, args, lang)
        cand == Candidate(sig, args, lang)
        back == Decode(sig, cand.blob, cand.mask, cand.arg0, lang)
    IN /\ Len(args) = Arity(sig)
       \* the two formulations of "has an encoding" agree ...
       /\ e.ok <=> pr = {}
       \* ... position by position: the candidate reads back wrong exactly at the diagnosed parameters
       /\ (~HasStr(sig)) =>
            /\ Len(back) = Len(args)
            /\ \A i \in 1..Len(sig) : ~IsPad(sig[i]) =>
                 ((back[ArgPos(sig, i) + 1] # args[ArgPos(sig, i) + 1]) <=> (\E x \in pr : x.at = i))
       /\ e.ok =>
            /\ Decode(sig, e.blob, e.mask, e.arg0, lang) = args
            /\ (~HasStr(sig) => Len(e.blob) = NonStrWidth(sig))
            /\ e.mask >= 0 /\ e.mask < 65536
            /\ \A i \in 1..Len(sig) : ~IsPad(sig[i]) /\ ArgPos(sig, i) < MaskBits =>
                 (((e.mask \div (2 ^ ArgPos(sig, i))) % 2 = 1) <=> IsReg(args[ArgPos(sig, i) + 1]))
            /\ (e.arg0 = -1) <=> ~(Len(sig) > 0 /\ sig[1].arg0)
            /\ (~HasStr(sig)) => \A i \in 1..Len(sig) : IsPad(sig[i]) =>
                 SubSeq(e.blob, OffsetOf(sig, i) + 1, OffsetOf(sig, i) + Width(sig[i].ch)) = Zeros(Width(sig[i].ch))
            \* local injectivity: another choice for one argument never yields the same instruction
            /\ (c.fam = "F1" \/ (c.fam = "F2" /\ idx % 8 = 0)) => \A i \in 1..Len(sig) : ~IsPad(sig[i]) =>
                 \A k \in 1..KF :
                    LET alt == Choice(sig[i], k)
                        args2 == [args EXCEPT ![ArgPos(sig, i) + 1] = alt]
                    IN (alt.k # "dup" /\ alt # args[ArgPos(sig, i) + 1]) =>
                         LET e2 == Encode(sig, args2, lang)
                         IN e2.ok => <<e2.blob, e2.mask, e2.arg0>> # <<e.blob, e.mask, e.arg0>>

Inv == LET c == CaseOf(CaseIdx) IN c.dup \/ ~Valid(c.sig, c.lang) \/ Facts(c, CaseIdx)

\* ---- export (MODE = "export"): F0, F1, FB, FL, FS completely, every STRIDE2-th case of F2, every
\* STRIDE3-th of F3, and the ids listed in EXTRA; split over NSHARDS processes ----
Stride2 == atoi(IOEnv.STRIDE2)
Stride3 == atoi(IOEnv.STRIDE3)
Shard == atoi(IOEnv.SHARD)
NShards == atoi(IOEnv.NSHARDS)
Extra == ndJsonDeserialize(IOEnv.EXTRA)       \* lines {"id": n}
E1 == N0 + N1
E2 == N2 \div Stride2
E3 == N3 \div Stride3
E4 == NB + NL + NS
NExport == E1 + E2 + E3 + E4 + Len(Extra)
ExportId(k) ==      \* (arithmetic on purpose: TLC re-evaluates sequence-valued definitions on every access)
    IF k <= E1 THEN k
    ELSE IF k <= E1 + E2 THEN E1 + (k - E1) * Stride2
    ELSE IF k <= E1 + E2 + E3 THEN A012 + (k - E1 - E2) * Stride3
    ELSE IF k <= E1 + E2 + E3 + E4 THEN A012 + N3 + (k - E1 - E2 - E3)
    ELSE Extra[k - E1 - E2 - E3 - E4].id
NMine == IF NExport > Shard THEN ((NExport - Shard - 1) \div NShards) + 1 ELSE 0
ASSUME Checking \/ ndJsonSerialize(IOEnv.OUT, [j \in 1..NMine |-> Row(ExportId(Shard + 1 + (j - 1) * NShards))])
ASSUME PrintT(<<"GEN", "Gen_ArgCodec", N, M, IF Checking THEN 0 ELSE NMine>>)
=============================================================================
