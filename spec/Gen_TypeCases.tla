---------------------------- MODULE Gen_TypeCases ----------------------------
(***************************************************************************)
(* C09, Mode G.  TLC enumerates skeleton programs with one "slot" placed   *)
(* at every nesting position, and for the slot a well-typed construct and  *)
(* every single-point mutation of it; the verdict ProgramOk and, for       *)
(* well-typed programs, the type of every expression node come from        *)
(* TypeRules.  Every (program, verdict, types) is written as one ndjson    *)
(* line and replayed into the real type checker (harness/src/bin/c09.rs).  *)
(*                                                                         *)
(* position  = a sequence of wrappers around the slot, outermost first:    *)
(*     free block, loop, while, do-while, times, times with clobber, if,   *)
(*     else-if, else, unless            (all sequences up to MaxDepth)     *)
(* slot      = 1..3 statements: assignments and compound assignments of    *)
(*     every operator class, declarations (+ a use of the declared name),  *)
(*     const declarations, calls, every kind of condition, times counts,   *)
(*     interrupt ids, relative time labels, expression statements          *)
(* mutation  = one node of one expression or one variable occurrence of    *)
(*     the slot is changed: variable -> other variable (int / float        *)
(*     register), sigil added / flipped / removed, literal kind (int /     *)
(*     float / string / a void call), cast removed / swapped, operand      *)
(*     wrapped in a converting cast, argument dropped / added, declaration *)
(*     keyword swapped.  Mutants may stay well-typed: the verdict is       *)
(*     computed, so over-rejection is tested as well as under-rejection.   *)
(*                                                                         *)
(* Positions of depth <= FullDepth get every variant; position s of depth  *)
(* FullDepth + 1 gets the variants v with v % StrideA = s % StrideA, deeper*)
(* ones those with v % StrideB = s % StrideB (a different slice for each   *)
(* position, so that every variant occurs at several deep positions and    *)
(* every position sees well-typed and ill-typed variants of many kinds).   *)
(*                                                                         *)
(* In-model (one TLC state per case): PositionIndependent, BasesWellTyped, *)
(* AcceptedHaveTypes.  Run with -workers 1 (constants parked in registers).*)
(***************************************************************************)
EXTENDS TypeRules, Json, IOUtils, SequencesExt, FiniteSets

CONSTANTS FullDepth, MaxDepth, StrideA, StrideB

\* ---------------------------------------------------------------- environment
\* (written to IOEnv.CFG; the harness declares exactly this in its mapfile)
Regs == << [n |-> 1000, id |-> "r1000", ty |-> "i"], [n |-> 1001, id |-> "r1001", ty |-> "i"],
           [n |-> 1002, id |-> "r1002", ty |-> "i"], [n |-> 1003, id |-> "r1003", ty |-> "i"],
           [n |-> 1004, id |-> "r1004", ty |-> "f"], [n |-> 1005, id |-> "r1005", ty |-> "f"],
           [n |-> 1006, id |-> "r1006", ty |-> "f"] >>
SigTable == << [op |-> 100, ps |-> <<>>], [op |-> 101, ps |-> <<"i">>], [op |-> 102, ps |-> <<"f">>],
               [op |-> 103, ps |-> <<"i", "i">>], [op |-> 104, ps |-> <<"i", "f">>],
               [op |-> 108, ps |-> <<"s">>], [op |-> 109, ps |-> <<"i", "s">>] >>
RegIds == {Regs[j].id : j \in 1..Len(Regs)}
Opcodes == {SigTable[j].op : j \in 1..Len(SigTable)}
Gamma0 == [v |-> [id \in RegIds |-> Regs[CHOOSE j \in 1..Len(Regs) : Regs[j].id = id].ty],
           sigs |-> [op \in Opcodes |-> SigTable[CHOOSE j \in 1..Len(SigTable) : SigTable[j].op = op].ps],
           labels |-> {"i"}]
\* the relaxed reading of R10: interrupt ids / relative time labels may be any well-typed value
Gamma0Relaxed == [Gamma0 EXCEPT !.labels = ValueTys]

\* ---------------------------------------------------------------- constructors
V(id, sig) == [k |-> "var", id |-> id, sig |-> sig]
IL(n) == [k |-> "int", v |-> n]
FL(n, s) == [k |-> "float", cls |-> "fin", n |-> n, s |-> s]
\* (the extra field keeps TLC from ever comparing a string `v` with an integer `v`)
SL(str) == [k |-> "str", v |-> str, q |-> 0]
Bin(op, a, b) == [k |-> "bin", op |-> op, a |-> a, b |-> b]
Un(op, x) == [k |-> "un", op |-> op, x |-> x]
Tern(c, a, b) == [k |-> "tern", c |-> c, a |-> a, b |-> b]
Hole == [k |-> "hole"]
DS(cases) == [k |-> "ds", cases |-> cases]
Call(op, args) == [k |-> "call", name |-> [ins |-> op], args |-> args]
PreDec(var) == [k |-> "xcr", op |-> "--", order |-> "pre", var |-> var]

I0 == V("r1000", "")   I1 == V("r1001", "")   I2 == V("r1002", "")   I3 == V("r1003", "")
F0 == V("r1004", "")   F1 == V("r1005", "")
X == V("n:x", "")      Y == V("n:y", "")      K == V("n:K", "")      SC == V("n:SC", "")

ExprS(e) == [k |-> "expr", e |-> e]
Assign(var, op, value) == [k |-> "assign", var |-> var, op |-> op, value |-> value]
Decl(ty, var, init) == [k |-> "decl", ty |-> ty, vars |-> << [var |-> var, init |-> init] >>]
Decl0(ty, var) == [k |-> "decl", ty |-> ty, vars |-> << [var |-> var] >>]
Const(ty, var, init) == [k |-> "item", item |-> [k |-> "const", ty |-> ty, vars |-> << [var |-> var, init |-> init] >>]]
If(kw, c, body) == [k |-> "chain", blocks |-> << [kw |-> kw, cond |-> c, body |-> body] >>]
While(c, body) == [k |-> "while", do |-> FALSE, cond |-> c, body |-> body]
DoWhile(c, body) == [k |-> "while", do |-> TRUE, cond |-> c, body |-> body]
Times(n, body) == [k |-> "times", count |-> n, body |-> body]
TimesC(var, n, body) == [k |-> "times", clobber |-> var, count |-> n, body |-> body]
Label(name) == [k |-> "label", name |-> name]
IfGoto(kw, c, name) == [k |-> "condjump", kw |-> kw, cond |-> c, jump |-> "goto", label |-> name]
Nop == ExprS(Call(100, <<>>))

\* ---------------------------------------------------------------- well-typed base slots
\* cls "deferred": R10 -- where the strict and the relaxed verdict (ok / ok_relaxed) differ, the
\* documentation does not say that the *type checker* must be the pass that refuses the program;
\* the driver demands the strict verdict or, failing that, agreement with the relaxed one and counts it.
B(name, slot) == [name |-> name, cls |-> "strict", slot |-> slot]
BD(name, slot) == [name |-> name, cls |-> "deferred", slot |-> slot]
\* cls "dual": a base that is not claimed to be well-typed (TypeRules decides; strict verdict demanded)
BX(name, slot) == [name |-> name, cls |-> "dual", slot |-> slot]
Bases == <<
    B("arith-int",    << Assign(I0, "=", Bin("+", I1, IL(2))) >>),
    B("arith-float",  << Assign(F0, "=", Bin("*", F1, FL(3, 1))) >>),
    B("arith-mod",    << Assign(I0, "=", Bin("%", V("r1004", "$"), IL(3))) >>),
    B("cmp-int",      << Assign(I0, "=", Bin("<", I1, IL(2))) >>),
    B("cmp-float",    << Assign(I0, "=", Bin("==", F0, FL(3, 1))) >>),
    B("bit-and",      << Assign(I0, "=", Bin("&", I1, IL(3))) >>),
    B("bit-xor",      << Assign(I0, "=", Bin("^", I1, V("r1005", "$"))) >>),
    B("logical",      << Assign(I0, "=", Bin("||", I1, Bin(">=", F0, F1))) >>),
    B("shift",        << Assign(I0, "=", Bin(">>>", I1, IL(1))) >>),
    B("neg-int",      << Assign(I0, "=", Un("-", I1)) >>),
    B("neg-float",    << Assign(F0, "=", Un("-", F1)) >>),
    B("not",          << Assign(I0, "=", Un("!", I1)) >>),
    B("bitnot",       << Assign(I0, "=", Un("~", IL(5))) >>),
    B("sin",          << Assign(F0, "=", Un("sin", F1)) >>),
    B("sqrt",         << Assign(F0, "=", Un("sqrt", FL(2, 0))) >>),
    B("cast-int",     << Assign(I0, "=", Bin("+", Un("int", F0), IL(1))) >>),
    B("cast-float",   << Assign(F0, "=", Bin("/", Un("float", I0), FL(2, 0))) >>),
    B("read-as-int",  << Assign(I0, "=", Un("$", Bin("+", F0, FL(1, 1)))) >>),
    B("read-as-float", << Assign(F0, "=", Un("%", Bin("-", I0, IL(1)))) >>),
    B("sigil-int",    << Assign(I0, "=", V("r1004", "$")) >>),
    B("sigil-float",  << Assign(F0, "=", V("r1000", "%")) >>),
    B("sigil-target", << Assign(V("r1004", "$"), "=", I1) >>),
    B("tern-int",     << Assign(I0, "=", Tern(I1, IL(1), I2)) >>),
    B("tern-float",   << Assign(F0, "=", Tern(Bin("<", I1, IL(2)), F1, FL(3, 1))) >>),
    B("ds-int",       << Assign(I0, "=", DS(<<IL(1), IL(2), Hole, I1>>)) >>),
    B("ds-float",     << Assign(F0, "=", DS(<<FL(1, 1), Hole, Hole, F1>>)) >>),
    B("deep",         << Assign(I0, "=", Bin("+", Un("int", Bin("*", F0, FL(3, 1))), Tern(Bin("<", I1, IL(2)), IL(7), Un("-", I1)))) >>),
    B("add-assign",   << Assign(I0, "+=", I1) >>),
    B("mul-assign-f", << Assign(F0, "*=", FL(3, 1)) >>),
    B("sub-assign-f", << Assign(F0, "-=", V("r1000", "%")) >>),
    B("mod-assign",   << Assign(I0, "%=", IL(3)) >>),
    B("and-assign",   << Assign(I0, "&=", IL(3)) >>),
    B("or-assign",    << Assign(I0, "|=", I1) >>),
    B("shl-assign",   << Assign(I0, "<<=", IL(1)) >>),
    B("decl-int",     << Decl("int", X, Bin("+", I0, IL(1))), Assign(I1, "=", X) >>),
    B("decl-float",   << Decl("float", Y, FL(3, 1)), Assign(F0, "=", Bin("*", Y, Y)) >>),
    B("decl-noinit",  << Decl0("float", Y), Assign(Y, "=", F0), Assign(I0, "=", V("n:y", "$")) >>),
    B("const-int",    << Const("int", K, Bin("*", IL(2), IL(3))), Assign(I0, "=", K) >>),
    B("const-float",  << Const("float", K, FL(3, 1)), ExprS(Call(102, <<K>>)) >>),
    B("call-0",       << ExprS(Call(100, <<>>)) >>),
    B("call-i",       << ExprS(Call(101, <<I0>>)) >>),
    B("call-f",       << ExprS(Call(102, <<Bin("+", F0, FL(1, 1))>>)) >>),
    B("call-if",      << ExprS(Call(104, <<IL(3), F0>>)) >>),
    B("call-ii",      << ExprS(Call(103, <<I0, Un("int", F0)>>)) >>),
    B("call-str",     << ExprS(Call(109, <<I0, SL("abc")>>)) >>),
    B("call-strconst", << ExprS(Call(108, <<SC>>)) >>),
    B("if",           << If("if", Bin("==", I0, IL(1)), <<Nop>>) >>),
    B("if-int",       << If("if", I0, <<>>) >>),
    B("if-float-cmp", << If("if", Bin("<", F0, FL(3, 1)), <<Nop>>) >>),
    B("unless",       << If("unless", Bin("!=", I0, I1), <<Nop>>) >>),
    B("if-predec",    << If("if", PreDec(I0), <<Nop>>) >>),
    B("while",        << While(Bin("<", I0, IL(3)), <<Nop>>) >>),
    B("while-predec", << While(PreDec(I1), <<Nop>>) >>),
    B("do-while",     << DoWhile(Bin("&&", I0, I1), <<Nop>>) >>),
    B("cond-goto",    << Label("L"), Nop, IfGoto("if", Bin(">", I0, IL(0)), "L") >>),
    B("predec-goto",  << Label("L"), Nop, IfGoto("if", PreDec(I0), "L") >>),
    B("times-lit",    << Times(IL(3), <<Nop>>) >>),
    B("times-var",    << Times(Bin("+", I0, IL(1)), <<Nop>>) >>),
    B("times-clobber", << TimesC(I1, I0, <<Nop>>) >>),
    \* the same constructs with *consistently* float operands: where a rule asks for "the same type" AND "int", a checker
    \* that only compares the two operands with each other accepts these (no single-point mutation of a well-typed
    \* statement reaches them: the two errors cancel)
    BX("times-clobber-float", << TimesC(F1, F0, <<Nop>>) >>),
    BX("times-clobber-float-lit", << TimesC(F1, FL(4, 0), <<Nop>>) >>),
    BX("times-float",  << Times(F0, <<Nop>>) >>),
    BX("while-float",  << While(F0, <<Nop>>) >>),
    BX("if-float",     << If("if", F0, <<Nop>>) >>),
    BX("predec-float", << Label("L"), Nop, IfGoto("if", PreDec(F0), "L") >>),
    BX("mod-assign-float-both", << Assign(F0, "%=", F1) >>),
    BX("and-assign-float-both", << Assign(F0, "&=", F1) >>),
    BX("shl-assign-float-both", << Assign(F0, "<<=", F1) >>),
    BX("logical-float-both", << Assign(I0, "=", Bin("&&", F0, F1)) >>),
    BX("bit-float-both", << Assign(F0, "=", Bin("|", F0, F1)) >>),
    BX("tern-float-cond", << Assign(F0, "=", Tern(F1, F0, F1)) >>),
    B("expr-stmt",    << ExprS(Call(101, <<Bin("+", I0, IL(1))>>)) >>),
    BD("interrupt",   << [k |-> "interrupt", e |-> IL(1)] >>),
    BD("interrupt-e", << [k |-> "interrupt", e |-> Bin("+", IL(1), IL(2))] >>),
    BD("rel-label",   << [k |-> "rel", e |-> IL(10)], Nop >>),
    BD("rel-label-e", << [k |-> "rel", e |-> Bin("+", IL(10), IL(5))], Nop >>)
>>

\* ---------------------------------------------------------------- single-point mutations
M(x, m) == [x |-> x, m |-> m]
Casts == {"int", "float", "$", "%"}

\* a variable occurrence: another variable (an int and a float register), sigil set / flipped / removed
MutVar(var) ==
    {r \in { M([var EXCEPT !.id = "r1001"], "var->int-reg"), M([var EXCEPT !.id = "r1005"], "var->float-reg"),
             M([var EXCEPT !.sig = "$"], "sigil->$"), M([var EXCEPT !.sig = "%"], "sigil->%"),
             M([var EXCEPT !.sig = ""], "sigil-removed") } : r.x # var}

\* the node itself
Here(e) ==
    CASE e.k = "var" -> MutVar(e)
      [] e.k = "int" -> {M(FL(e.v, 0), "lit->float"), M(SL("a"), "lit->string"), M(Call(100, <<>>), "lit->void-call")}
      [] e.k = "float" -> {M(IL(1), "lit->int"), M(SL("a"), "lit->string")}
      [] e.k = "str" -> {M(IL(1), "lit->int"), M(FL(3, 1), "lit->float")}
      [] e.k = "un" /\ e.op \in Casts ->
            {M(e.x, "cast-removed"),
             M([e EXCEPT !.op = CASE e.op = "int" -> "float" [] e.op = "float" -> "int" [] e.op = "$" -> "%" [] OTHER -> "$"], "cast-swapped")}
      [] e.k \in {"bin", "un", "tern", "ds"} -> {M(Un("int", e), "wrapped-int()"), M(Un("float", e), "wrapped-float()")}
      [] e.k = "call" ->
            {M([e EXCEPT !.args = Append(e.args, IL(0))], "arg-added")}
            \cup (IF Len(e.args) > 0 THEN {M([e EXCEPT !.args = SubSeq(e.args, 1, Len(e.args) - 1)], "arg-dropped")} ELSE {})
            \cup (IF Len(e.args) = 2 THEN {M([e EXCEPT !.args = <<e.args[2], e.args[1]>>], "args-swapped")} ELSE {})
      [] OTHER -> {}

RECURSIVE MutE(_)
MutE(e) ==
    Here(e) \cup
    CASE e.k = "bin" -> {M([e EXCEPT !.a = r.x], r.m) : r \in MutE(e.a)} \cup {M([e EXCEPT !.b = r.x], r.m) : r \in MutE(e.b)}
      [] e.k = "un" -> {M([e EXCEPT !.x = r.x], r.m) : r \in MutE(e.x)}
      [] e.k = "tern" -> {M([e EXCEPT !.c = r.x], r.m) : r \in MutE(e.c)} \cup {M([e EXCEPT !.a = r.x], r.m) : r \in MutE(e.a)}
                         \cup {M([e EXCEPT !.b = r.x], r.m) : r \in MutE(e.b)}
      [] e.k = "ds" -> UNION {IF e.cases[j].k = "hole" THEN {} ELSE {M([e EXCEPT !.cases[j] = r.x], r.m) : r \in MutE(e.cases[j])}
                              : j \in 1..Len(e.cases)}
      [] e.k = "call" -> UNION {{M([e EXCEPT !.args[j] = r.x], r.m) : r \in MutE(e.args[j])} : j \in 1..Len(e.args)}
      [] e.k = "xcr" -> {M([e EXCEPT !.var = r.x], r.m) : r \in MutVar(e.var)}
      [] OTHER -> {}

SwapKeyword(ty) == IF ty = "int" THEN "float" ELSE "int"
MutDeclarators(s) ==     \* s has fields ty, vars
    {M([s EXCEPT !.ty = SwapKeyword(s.ty)], "keyword-swapped")}
    \cup UNION {IF "init" \in DOMAIN s.vars[j] THEN {M([s EXCEPT !.vars[j].init = r.x], r.m) : r \in MutE(s.vars[j].init)} ELSE {}
                : j \in 1..Len(s.vars)}

MutS(s) ==
    CASE s.k \in {"expr", "interrupt", "rel"} -> {M([s EXCEPT !.e = r.x], r.m) : r \in MutE(s.e)}
      [] s.k = "assign" -> {M([s EXCEPT !.value = r.x], r.m) : r \in MutE(s.value)}
                           \cup {M([s EXCEPT !.var = r.x], "target:" \o r.m) : r \in MutVar(s.var)}
      [] s.k = "decl" -> MutDeclarators(s)
      [] s.k = "item" -> {M([s EXCEPT !.item = r.x], r.m) : r \in MutDeclarators(s.item)}
      [] s.k = "chain" -> UNION {{M([s EXCEPT !.blocks[j].cond = r.x], r.m) : r \in MutE(s.blocks[j].cond)} : j \in 1..Len(s.blocks)}
      [] s.k \in {"condjump", "while"} -> {M([s EXCEPT !.cond = r.x], r.m) : r \in MutE(s.cond)}
      [] s.k = "times" -> {M([s EXCEPT !.count = r.x], r.m) : r \in MutE(s.count)}
                          \cup (IF "clobber" \in DOMAIN s THEN {M([s EXCEPT !.clobber = r.x], "clobber:" \o r.m) : r \in MutVar(s.clobber)} ELSE {})
      [] OTHER -> {}

\* `at`: the kind of the slot statement that holds the mutated point (for finding keys)
MutSlot(slot) == UNION {{[x |-> [slot EXCEPT ![j] = r.x], m |-> r.m, at |-> slot[j].k] : r \in MutS(slot[j])} : j \in 1..Len(slot)}

VariantsOf(b) ==
    << [base |-> b.name, cls |-> b.cls, m |-> "none", at |-> "none", slot |-> b.slot] >>
    \o SetToSeq({[base |-> b.name, cls |-> b.cls, m |-> r.m, at |-> r.at, slot |-> r.x] : r \in {r \in MutSlot(b.slot) : r.x # b.slot}})
AllVariants == FlattenSeq([j \in 1..Len(Bases) |-> VariantsOf(Bases[j])])

\* ---------------------------------------------------------------- positions
Wrappers == {"free", "loop", "while", "dowhile", "times", "timesclob", "if", "elseif", "else", "unless"}
WCond == Bin("<", I2, IL(3))
Wrapper(w, inner) ==
    CASE w = "free" -> [k |-> "block", body |-> inner]
      [] w = "loop" -> [k |-> "loop", body |-> inner]
      [] w = "while" -> While(WCond, inner)
      [] w = "dowhile" -> DoWhile(WCond, inner)
      [] w = "times" -> Times(IL(2), inner)
      [] w = "timesclob" -> TimesC(I3, I2, inner)
      [] w = "if" -> If("if", WCond, inner)
      [] w = "unless" -> If("unless", WCond, inner)
      [] w = "elseif" -> [k |-> "chain", blocks |-> << [kw |-> "if", cond |-> WCond, body |-> <<Nop>>], [kw |-> "if", cond |-> I3, body |-> inner] >>]
      [] w = "else" -> [k |-> "chain", blocks |-> << [kw |-> "if", cond |-> WCond, body |-> <<Nop>>] >>, else |-> inner]

AllSkels == FlattenSeq([n \in 1..(MaxDepth + 1) |-> SetToSeq({<<>> \o f : f \in [1..(n - 1) -> Wrappers]})])

RECURSIVE WrapFrom(_, _, _)
WrapFrom(ws, j, inner) == IF j = 0 THEN inner ELSE WrapFrom(ws, j - 1, << Wrapper(ws[j], inner) >>)
Prelude == << Const("string", SC, SL("abc")) >>
Place(ws, slot) == Prelude \o WrapFrom(ws, Len(ws), <<Nop>> \o slot \o << ExprS(Call(101, <<I2>>)) >>)

\* ---------------------------------------------------------------- cases
ASSUME TLCSet(41, AllSkels)
ASSUME TLCSet(42, AllVariants)
Skels == TLCGet(41)
Variants == TLCGet(42)
NS == Len(Skels)
NV == Len(Variants)
Selected(s, v) ==
    LET d == Len(Skels[s])
    IN \/ d <= FullDepth
       \/ d = FullDepth + 1 /\ v % StrideA = s % StrideA
       \/ d > FullDepth + 1 /\ v % StrideB = s % StrideB
ASSUME TLCSet(43, SetToSeq({sv \in (1..NS) \X (1..NV) : Selected(sv[1], sv[2])}))
Sel == TLCGet(43)
\* the driver splits the cases over C09_GSHARDS processes; case ids are positions in Sel, whatever the split
GShard == atoi(IOEnv.C09_GSHARD)
GShards == atoi(IOEnv.C09_GSHARDS)
ASSUME TLCSet(46, SetToSeq({j \in 1..Len(Sel) : j % GShards = GShard}))
Mine == TLCGet(46)
N == Len(Mine)

Program(s, v) == [gamma |-> Gamma0, body |-> Place(Skels[s], Variants[v].slot)]
CaseOf(j) ==      \* j: position in Sel
    LET s == Sel[j][1]
        v == Sel[j][2]
        p == Program(s, v)
        ok == ProgramOk(p)
    IN [id |-> j, skel |-> s, variant |-> v, pos |-> Skels[s], in_free |-> \E d \in 1..Len(Skels[s]) : Skels[s][d] = "free",
        base |-> Variants[v].base, cls |-> Variants[v].cls, m |-> Variants[v].m, at |-> Variants[v].at,
        ok |-> ok, ok_relaxed |-> ProgramOk([p EXCEPT !.gamma = Gamma0Relaxed]),
        types |-> IF ok THEN ProgramTypes(p) ELSE <<>>, body |-> p.body]
\* every case is computed once, parked, exported, and then visited as one TLC state
ASSUME TLCSet(44, <<>> \o [n \in 1..N |-> CaseOf(Mine[n])])
Cases == TLCGet(44)
\* the verdict of every variant at the top level of a script (position 1 = no wrapper)
ASSUME Skels[1] = <<>>
ASSUME TLCSet(45, <<>> \o [v \in 1..NV |-> ProgramOk(Program(1, v))])
TopOk == TLCGet(45)

VARIABLE c
Init == c \in 1..N
Next == UNCHANGED c
Spec == Init /\ [][Next]_c

\* "wherever in the script the offending construct sits": the verdict depends on the slot only
PositionIndependent == Cases[c].ok = TopOk[Cases[c].variant]
\* the unmutated constructs are well-typed at every position
BasesWellTyped == (Cases[c].m = "none" /\ Cases[c].cls # "dual") => Cases[c].ok
\* a well-typed program has no ill-typed expression node; a program refused under the relaxed
\* reading of R10 is refused under the strict one
AcceptedHaveTypes == Cases[c].ok => \A j \in 1..Len(Cases[c].types) : Cases[c].types[j] \in ValueTys \cup {"void"}
RelaxedIsWeaker == Cases[c].ok => Cases[c].ok_relaxed
Inv == PositionIndependent /\ BasesWellTyped /\ AcceptedHaveTypes /\ RelaxedIsWeaker

ASSUME JsonSerialize(IOEnv.CFG, [regs |-> Regs, sigs |-> SigTable])
ASSUME ndJsonSerialize(IOEnv.OUT, Cases)
ASSUME PrintT(<<"GEN", "Gen_TypeCases", N, Len(Sel), NS, NV>>)
===========================================================================
