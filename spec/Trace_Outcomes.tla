--------------------------- MODULE Trace_Outcomes ---------------------------
(***************************************************************************)
(* Mode H for C04 / C16: validates recorded histories of REAL tool         *)
(* invocations (one `cmd' event per process the driver launched) against   *)
(* the L3 contract of Toolchain.tla.                                       *)
(*                                                                         *)
(* File format (ndjson, path in the environment variable HIST):            *)
(*   {"ev":"reset","hist":h,"store":[ids...]}          starts history h    *)
(*   {"ev":"cmd","tool":..,"verb":..,"game":..,"opts":[..],"inputs":[ids], *)
(*    "input_id":..,"exit_code":..,"signal":..,"timed_out":..,             *)
(*    "n_error_diags":..,"n_warning_diags":..,"names_file":..,"marks":[..],*)
(*    "stderr_head":..}                                                    *)
(* Many histories are concatenated so one TLC start-up judges a batch.     *)
(*                                                                         *)
(* Deterministic trace-acceptance idiom: `l' is the index of the next      *)
(* unconsumed event; the only steps are IsEvent-guarded instances of the   *)
(* Toolchain actions with the logged fields bound; a history is ACCEPTED   *)
(* iff its chain reaches the end of the history (next `reset' or end of    *)
(* file).  A state that is not at the end of its history and has no        *)
(* successor is a REJECTION at event l -- the first unmatched event of     *)
(* that history.  Every history is an initial state, so one rejected       *)
(* history does not hide the others (TLC runs with -continue).             *)
(***************************************************************************)
EXTENDS Toolchain, Json, IOUtils

\* The history is loaded once and parked in a TLC register (TLC would otherwise re-read the file
\* at every reference to Rec); registers set from an ASSUME are visible to every worker.
ASSUME TLCSet(61, ndJsonDeserialize(IOEnv.HIST))
Rec == TLCGet(61)
N == Len(Rec)

VARIABLE l
vars == <<l, store, memo>>

IsReset(i) == Rec[i].ev = "reset"
ASSUME TLCSet(62, {i \in 1..N : IsReset(i)})
Starts == TLCGet(62)
TupleToSet(t) == {Given(t[i]) : i \in 1..Len(t)}

AtEnd == l > N \/ IsReset(l)

Init ==
    \E i \in Starts :
        /\ l = i + 1
        /\ store = TupleToSet(Rec[i].store)
        /\ memo = <<>>

IsEvent(name) == l <= N /\ Rec[l].ev = name /\ l' = l + 1

KeyOf(e) == MkKey(e.tool, e.verb, e.game, e.opts, e.inputs)

\* one tool invocation: the observation must denote an outcome, and the Toolchain action for
\* its verb must be enabled with that outcome
TCmd ==
    /\ IsEvent("cmd")
    /\ LET e == Rec[l] IN
        /\ Terminated(e)
        /\ \/ Compile(KeyOf(e), ObservedOutcome(e))
           \/ Decompile(KeyOf(e), ObservedOutcome(e), e.names_file)
           \/ Extract(KeyOf(e), ObservedOutcome(e), e.names_file)

Next == TCmd

Spec == Init /\ [][Next]_vars

\* Why the event at l has no transition -- reporting only.
Reason(e) ==
    IF Terminated(e) /\ IsOutcome(ObservedOutcome(e)) /\ e.verb \in {"decompile", "extract"}
       /\ ObservedOutcome(e).failed /\ ~e.names_file
    THEN "ErrorDoesNotNameFile"
    ELSE IF Terminated(e) /\ IsOutcome(ObservedOutcome(e)) THEN "PreconditionOfAction"
    ELSE ObservedKind(e)

\* The acceptance condition, as an invariant: every reachable state is at the end of its history
\* or can take a step.  Its violation at a state with index l IS the rejection of that history at
\* event l; the PrintT line is what the driver reads (event index, input id, reason).
Accepted ==
    \/ AtEnd
    \/ ENABLED Next
    \/ (PrintT(<<"UNMATCHED", l, Rec[l].input_id, Reason(Rec[l])>>) /\ FALSE)

\* Toolchain invariants are evaluated at every event of every history.
Inv == ToolchainInv

\* Non-vacuity: the file was loaded and contains histories.
ASSUME N >= 1 /\ Starts # {}
ASSUME PrintT(<<"HISTORIES", Cardinality(Starts), "EVENTS", N - Cardinality(Starts)>>)
=============================================================================
