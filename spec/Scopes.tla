------------------------------- MODULE Scopes -------------------------------
(***************************************************************************)
(* C10 -- names resolve by lexical scope.                                  *)
(*                                                                         *)
(* Two formulations of the scoping rules that doc/syntax.md ("Variables":  *)
(* locals "are scoped to their containing block"; consts are items and     *)
(* "can be accessed from anywhere within the same block (even before the   *)
(* declaration)"; registers/instructions get aliases from a mapfile), the  *)
(* doc comment of passes::resolution::assign_languages (tokens inside      *)
(* const expressions and const functions belong to no language) and the    *)
(* statement of C10 give:                                                  *)
(*                                                                         *)
(*   Declarative -- a table of identifier occurrences with their position  *)
(*      and their chain of enclosing scopes; Resolve(u) is defined by a    *)
(*      set comprehension over the declarations ("the innermost enclosing  *)
(*      scope that has a visible declaration of the name").                *)
(*   Operational -- the rib-stack machine: EnterRib / Declare / LeaveRib / *)
(*      Resolve (innermost first, barrier rule for locals) driven by a     *)
(*      control stack, a TLA+ state machine (Init/Next) whose final state  *)
(*      holds the resolution map.                                          *)
(*                                                                         *)
(* MC_Scopes checks Operational(tree) = Declarative(tree) for every tree   *)
(* of Gen_ScopeTrees; the Declarative map is what the real resolver is     *)
(* compared with.                                                          *)
(*                                                                         *)
(* Scope trees.  A block is a sequence of statements                       *)
(*   [k |-> "use",   n]            a use of variable n                     *)
(*   [k |-> "callf", n]            a call  n();                            *)
(*   [k |-> "local", n, i]         int n = <i>;                            *)
(*   [k |-> "local2", n, m, i]     int n = 1, m = <i>;   (two declarators) *)
(*   [k |-> "const", n, i]         const int n = <i>;      (an item)       *)
(*   [k |-> "blk",  b]  [k |-> "loop", b]  [k |-> "if", b, e]              *)
(*   [k |-> "func", n, q, p, b]    <q> int n(int p[1], ..) { b }  (item)   *)
(* with initialisers  [k |-> "lit"] | [k |-> "var", n] | [k |-> "call", n] *)
(*                                                                         *)
(* Identifier occurrences are named by integer paths: statement index,     *)
(* then a slot (1 name, 2 initialiser, 3 body/then, 4 else, 5 and 6 name   *)
(* and initialiser of a second declarator, 10+j param j), then again a     *)
(* statement index ...                                                     *)
(***************************************************************************)
EXTENDS Naturals, Sequences, FiniteSets, TLC

AliasVar == "ALIAS"   \* register alias defined by the mapfile  (namespace of variables)
AliasIns == "alias"   \* instruction alias defined by the mapfile (namespace of functions)
\* Languages: "own" = the language the mapfile defines its aliases for, "other" = any other
\* language, "none" = const context (const initialisers, bodies of const functions).
\* A "+e" suffix on any of them says that the compilation also has a *global enum const* (an ANM
\* sprite or script name, an old-ECL sub name, a mapfile `!enum` entry) spelled exactly like the
\* register alias AliasVar.  Enum consts belong to no language (they are visible in const contexts
\* too) and are declared names: by the renaming clause of C10 such a const must resolve like a
\* freshly named one, i.e. it hides the mapfile's register alias of the same spelling.
WithEnum(l) == l \in {"own+e", "other+e", "none+e"}
Core(l) == CASE l = "own+e" -> "own" [] l = "other+e" -> "other" [] l = "none+e" -> "none" [] OTHER -> l
NoneLike(l) == IF WithEnum(l) THEN "none+e" ELSE "none"

NameSlot == 1
InitSlot == 2
BodySlot == 3
ElseSlot == 4
Name2Slot == 5
Init2Slot == 6
ParamSlot(j) == 10 + j

Prefix(s, t) == Len(s) <= Len(t) /\ SubSeq(t, 1, Len(s)) = s
LastOf(s) == s[Len(s)]

\* results
Def(p)     == [t |-> "def", d |-> p]       \* refers to the declaration whose name occurrence is p
Alias      == [t |-> "alias", d |-> <<>>]  \* refers to the mapfile's alias
Enum       == [t |-> "enum", d |-> <<>>]   \* refers to the global enum const (only in "+e" compilations)
Unknown    == [t |-> "unknown", d |-> <<>>]
BarrierErr == [t |-> "barrier", d |-> <<>>]    \* "cannot use local from outside const/function"
Ambig      == [t |-> "ambig", d |-> <<>>]      \* the rules do not determine it (see below)
Self       == [t |-> "self", d |-> <<>>]       \* a declaration (introduces a new definition)
Redef      == [t |-> "redef", d |-> <<>>]      \* a declaration that is a Redefinition error

-----------------------------------------------------------------------------
(***************************************************************************)
(* DECLARATIVE                                                             *)
(*                                                                         *)
(* Every occurrence carries its chain of enclosing scopes (outermost       *)
(* first).  A scope is a block ("block"), the parameter list of a function *)
(* ("func") or the initialiser of a const ("const"); the last two are the  *)
(* boundaries that locals never cross.                                     *)
(***************************************************************************)
Frame(id, fk) == [id |-> id, fk |-> fk]

Occ(p, n, ns, role, dk, chain, lang) ==
    [p |-> p, n |-> n, ns |-> ns, role |-> role, dk |-> dk, chain |-> chain, lang |-> lang]

RECURSIVE OccBlock(_, _, _, _, _), OccStmt(_, _, _, _, _)

OccInit(i, p, chain, lang) ==
    CASE i.k = "lit"  -> {}
      [] i.k = "var"  -> { Occ(p, i.n, "v", "use", "none", chain, lang) }
      [] i.k = "call" -> { Occ(p, i.n, "f", "use", "none", chain, lang) }

\* chain already contains the frame of block b, whose path is P
OccBlock(b, P, chain, lang, base) ==
    UNION { OccStmt(b[j], P \o <<j>>, chain, lang, base) : j \in 1..Len(b) }

OccStmt(s, Q, chain, lang, base) ==
    CASE s.k = "use"   -> { Occ(Q \o <<NameSlot>>, s.n, "v", "use", "none", chain, lang) }
      [] s.k = "callf" -> { Occ(Q \o <<NameSlot>>, s.n, "f", "use", "none", chain, lang) }
      [] s.k = "local" -> { Occ(Q \o <<NameSlot>>, s.n, "v", "decl", "local", chain, lang) }
                          \cup OccInit(s.i, Q \o <<InitSlot>>, chain, lang)
      [] s.k = "local2" -> { Occ(Q \o <<NameSlot>>, s.n, "v", "decl", "local", chain, lang),
                             Occ(Q \o <<Name2Slot>>, s.m, "v", "decl", "local", chain, lang) }
                           \cup OccInit(s.i, Q \o <<Init2Slot>>, chain, lang)
      [] s.k = "const" -> { Occ(Q \o <<NameSlot>>, s.n, "v", "decl", "const", chain, lang) }
                          \cup OccInit(s.i, Q \o <<InitSlot>>, chain \o <<Frame(Q, "const")>>, NoneLike(lang))
      [] s.k \in {"blk", "loop"} ->
            OccBlock(s.b, Q \o <<BodySlot>>, chain \o <<Frame(Q \o <<BodySlot>>, "block")>>, lang, base)
      [] s.k = "if" ->
            OccBlock(s.b, Q \o <<BodySlot>>, chain \o <<Frame(Q \o <<BodySlot>>, "block")>>, lang, base)
            \cup OccBlock(s.e, Q \o <<ElseSlot>>, chain \o <<Frame(Q \o <<ElseSlot>>, "block")>>, lang, base)
      [] s.k = "func" ->
            LET inner == IF s.q = "const" THEN NoneLike(base) ELSE base    \* a plain function is compiled for the base
                fchain == chain \o <<Frame(Q, "func")>>            \* language even inside a const function
            IN  { Occ(Q \o <<NameSlot>>, s.n, "f", "decl", "func", chain, lang) }
                \cup { Occ(Q \o <<ParamSlot(j)>>, s.p[j], "v", "decl", "param", fchain, inner) : j \in 1..Len(s.p) }
                \cup OccBlock(s.b, Q \o <<BodySlot>>, fchain \o <<Frame(Q \o <<BodySlot>>, "block")>>, inner, base)

Occs(t, l) == OccBlock(t, <<>>, <<Frame(<<>>, "block")>>, l, l)

\* The scope a declaration belongs to is the last frame of its chain; declarations of one scope
\* have paths that differ only in the component that follows the scope's own path.
Home(d) == LastOf(d.chain)
\* position of a declaration inside its scope: <<parameter slot>> resp. <<statement index, name slot>>
Pos(d) == SubSeq(d.p, Len(Home(d).id) + 1, Len(d.p))
Earlier(e, d) == LET a == Pos(e) b == Pos(d)
                 IN a[1] < b[1] \/ (Len(a) = 2 /\ a[1] = b[1] /\ a[2] < b[2])

\* u lies (textually) after the end of the declarator of local d: in a later statement of d's block
\* (possibly nested deeper inside that statement) or in a later declarator of the same statement.
\* A local is therefore not visible in its own initialiser (the slot that follows its name).
AfterDeclarator(d, u) ==
    LET P == Home(d).id
        j == Pos(d)[1]
        s == Pos(d)[2]
    IN /\ Prefix(P, u.p) /\ Len(u.p) > Len(P)
       /\ \/ u.p[Len(P) + 1] > j
          \/ u.p[Len(P) + 1] = j /\ u.p[Len(P) + 2] > s + 1

\* d is in scope at u (before looking at function/const boundaries)
InScope(d, u) ==
    /\ d.role = "decl" /\ d.ns = u.ns /\ d.n = u.n
    /\ Prefix(d.chain, u.chain)                             \* u is inside the scope d belongs to
    /\ d.dk = "local" => AfterDeclarator(d, u)              \* consts, functions, parameters: everywhere in it

\* a function or const boundary lies between the scope of d and u
Boundary(d, u) == \E j \in (Len(d.chain) + 1)..Len(u.chain) : u.chain[j].fk \in {"func", "const"}

AliasVisible(u) == Core(u.lang) = "own" /\ u.n = (IF u.ns = "v" THEN AliasVar ELSE AliasIns)
EnumVisible(u) == WithEnum(u.lang) /\ u.ns = "v" /\ u.n = AliasVar

ResolveUse(O, u) ==
    LET C == { d \in O : InScope(d, u) }
    IN IF C = {} THEN (IF EnumVisible(u) THEN Enum ELSE IF AliasVisible(u) THEN Alias ELSE Unknown)
       ELSE LET m == CHOOSE m \in { Len(d.chain) : d \in C } : \A d \in C : Len(d.chain) <= m
                best == { d \in C : Len(d.chain) = m }       \* declarations in the innermost scope
            IN IF Cardinality(best) > 1 THEN Ambig
               ELSE LET d == CHOOSE d \in best : TRUE
                    IN IF d.dk \in {"local", "param"} /\ Boundary(d, u) THEN BarrierErr ELSE Def(d.p)
\* `Ambig`: two declarations of the name in the innermost scope.  Either one of them is a
\* Redefinition (an error; what later uses refer to is not specified), or they are a local and a
\* const of one block, where the documented rules do not say which one is "innermost"
\* (DESIGN C10, deliberately excluded corner).  Ambig occurrences are not compared.

\* Redeclaration of one name in one scope and one namespace (and one kind: see above) is an error,
\* reported at the later declaration.
IsRedef(O, d) == \E e \in O : /\ e.role = "decl" /\ e.ns = d.ns /\ e.n = d.n /\ e.dk = d.dk
                              /\ e.chain = d.chain /\ Earlier(e, d)

Result(O, o) == IF o.role = "use" THEN ResolveUse(O, o)
                ELSE IF IsRedef(O, o) THEN Redef ELSE Self

\* (TLC evaluates [x \in S |-> e] anew on every application; merging with the empty function makes
\*  it compute the table once.)
Materialised(f) == f @@ [x \in {} |-> <<>>]

Declarative(t, l) ==
    LET O == Occs(t, l)
    IN Materialised([p \in { o.p : o \in O } |-> Result(O, CHOOSE o \in O : o.p = p)])

-----------------------------------------------------------------------------
(***************************************************************************)
(* OPERATIONAL: the rib-stack machine.                                     *)
(*                                                                         *)
(* One stack of ribs per namespace.  On entering a block the items of the  *)
(* block are declared at once in an "items" rib (so they are usable        *)
(* anywhere in the block), then a "locals" rib is pushed and statements    *)
(* are walked in order; a local is declared after its initialiser was      *)
(* resolved.  Function and const items push a "barrier" rib; Resolve walks *)
(* the stack innermost-first and refuses a local or parameter found after  *)
(* crossing a barrier.  Mapfile ribs are outermost and answer only for     *)
(* their own language.                                                     *)
(***************************************************************************)
VARIABLES tree, base,     \* the program and the language it is compiled for
          todo,           \* control stack: pending tasks, head first
          ribs,           \* [v |-> stack, f |-> stack] of [kind, defs]
          res             \* resolution map built so far: path -> result
vars == <<tree, base, todo, ribs, res>>

NoDefs == [x \in {} |-> <<>>]
Rib(kind, defs) == [kind |-> kind, defs |-> defs]
\* (the enum rib sits above the mapfile rib; it answers only in "+e" compilations)
InitRibs == [v |-> << Rib("mapfile", AliasVar :> <<0>>), Rib("enum", AliasVar :> <<0>>) >>,
             f |-> << Rib("mapfile", AliasIns :> <<0>>) >>]

TBlock(b, P, lang)        == [op |-> "block", b |-> b, P |-> P, lang |-> lang]
TEnter(ns, kind)          == [op |-> "enter", ns |-> ns, kind |-> kind]
TLeave(ns, kind)          == [op |-> "leave", ns |-> ns, kind |-> kind]
TDeclare(ns, kind, n, p)  == [op |-> "declare", ns |-> ns, kind |-> kind, n |-> n, p |-> p]
TResolve(ns, n, p, lang)  == [op |-> "resolve", ns |-> ns, n |-> n, p |-> p, lang |-> lang]

RECURSIVE Hoist(_, _, _)
Hoist(b, P, j) ==      \* declare tasks for the items of block b, in order
    IF j > Len(b) THEN <<>>
    ELSE (CASE b[j].k = "const" -> << TDeclare("v", "items", b[j].n, P \o <<j, NameSlot>>) >>
            [] b[j].k = "func"  -> << TDeclare("f", "items", b[j].n, P \o <<j, NameSlot>>) >>
            [] OTHER -> <<>>) \o Hoist(b, P, j + 1)

InitTasks(i, p, lang) ==
    CASE i.k = "lit"  -> <<>>
      [] i.k = "var"  -> << TResolve("v", i.n, p, lang) >>
      [] i.k = "call" -> << TResolve("f", i.n, p, lang) >>

StmtTasks(s, Q, lang) ==
    CASE s.k = "use"   -> << TResolve("v", s.n, Q \o <<NameSlot>>, lang) >>
      [] s.k = "callf" -> << TResolve("f", s.n, Q \o <<NameSlot>>, lang) >>
      [] s.k = "local" -> InitTasks(s.i, Q \o <<InitSlot>>, lang)            \* initialiser first,
                          \o << TDeclare("v", "locals", s.n, Q \o <<NameSlot>>) >>   \* then the name
      [] s.k = "local2" -> << TDeclare("v", "locals", s.n, Q \o <<NameSlot>>) >>
                           \o InitTasks(s.i, Q \o <<Init2Slot>>, lang)
                           \o << TDeclare("v", "locals", s.m, Q \o <<Name2Slot>>) >>
      [] s.k = "const" -> << TEnter("v", "barrier") >>                       \* (name already hoisted)
                          \o InitTasks(s.i, Q \o <<InitSlot>>, NoneLike(lang))
                          \o << TLeave("v", "barrier") >>
      [] s.k \in {"blk", "loop"} -> << TBlock(s.b, Q \o <<BodySlot>>, lang) >>
      [] s.k = "if"    -> << TBlock(s.b, Q \o <<BodySlot>>, lang), TBlock(s.e, Q \o <<ElseSlot>>, lang) >>
      [] s.k = "func"  ->
            LET inner == IF s.q = "const" THEN NoneLike(base) ELSE base
            IN << TEnter("v", "barrier"), TEnter("v", "params") >>
               \o (<<>> \o [j \in 1..Len(s.p) |-> TDeclare("v", "params", s.p[j], Q \o <<ParamSlot(j)>>)])
               \o << TBlock(s.b, Q \o <<BodySlot>>, inner) >>
               \o << TLeave("v", "params"), TLeave("v", "barrier") >>

RECURSIVE AllStmtTasks(_, _, _, _)
AllStmtTasks(b, P, lang, j) ==      \* the statements of block b from the j-th on, in order
    IF j > Len(b) THEN <<>> ELSE StmtTasks(b[j], P \o <<j>>, lang) \o AllStmtTasks(b, P, lang, j + 1)

BlockTasks(b, P, lang) ==
    << TEnter("f", "items"), TEnter("v", "items") >>
    \o Hoist(b, P, 1)
    \o << TEnter("v", "locals") >>
    \o AllStmtTasks(b, P, lang, 1)
    \o << TLeave("v", "locals"), TLeave("v", "items"), TLeave("f", "items") >>

\* walk the stack from rib k down to the root
RECURSIVE Walk(_, _, _, _, _)
Walk(stack, k, n, lang, crossed) ==
    IF k = 0 THEN Unknown
    ELSE LET r == stack[k]
             c == crossed \/ r.kind = "barrier"
         IN IF n \in DOMAIN r.defs
            THEN IF r.kind \in {"locals", "params"} /\ c THEN BarrierErr
                 ELSE IF r.kind = "mapfile" THEN (IF Core(lang) = "own" THEN Alias ELSE Walk(stack, k - 1, n, lang, c))
                 ELSE IF r.kind = "enum" THEN (IF WithEnum(lang) THEN Enum ELSE Walk(stack, k - 1, n, lang, c))
                 ELSE Def(r.defs[n])
            ELSE Walk(stack, k - 1, n, lang, c)

Cur == todo[1]
Pending == Tail(todo)
Top(ns) == ribs[ns][Len(ribs[ns])]

ExpandBlock == /\ todo # <<>> /\ Cur.op = "block"
               /\ todo' = BlockTasks(Cur.b, Cur.P, Cur.lang) \o Pending
               /\ UNCHANGED <<tree, base, ribs, res>>
EnterRib    == /\ todo # <<>> /\ Cur.op = "enter"
               /\ ribs' = [ribs EXCEPT ![Cur.ns] = Append(@, Rib(Cur.kind, NoDefs))]
               /\ todo' = Pending /\ UNCHANGED <<tree, base, res>>
LeaveRib    == /\ todo # <<>> /\ Cur.op = "leave"
               /\ Top(Cur.ns).kind = Cur.kind
               /\ ribs' = [ribs EXCEPT ![Cur.ns] = SubSeq(@, 1, Len(@) - 1)]
               /\ todo' = Pending /\ UNCHANGED <<tree, base, res>>
DeclareName == /\ todo # <<>> /\ Cur.op = "declare"
               /\ Top(Cur.ns).kind = Cur.kind
               /\ Cur.p \notin DOMAIN res
               /\ res' = (Cur.p :> (IF Cur.n \in DOMAIN Top(Cur.ns).defs THEN Redef ELSE Self)) @@ res
               /\ ribs' = [ribs EXCEPT ![Cur.ns][Len(ribs[Cur.ns])].defs = (Cur.n :> Cur.p) @@ @]
               /\ todo' = Pending /\ UNCHANGED <<tree, base>>
ResolveName == /\ todo # <<>> /\ Cur.op = "resolve"
               /\ Cur.p \notin DOMAIN res
               /\ res' = (Cur.p :> Walk(ribs[Cur.ns], Len(ribs[Cur.ns]), Cur.n, Cur.lang, FALSE)) @@ res
               /\ todo' = Pending /\ UNCHANGED <<tree, base, ribs>>

Next == ExpandBlock \/ EnterRib \/ LeaveRib \/ DeclareName \/ ResolveName

Start(t, l) == /\ tree = t /\ base = l
               /\ todo = << TBlock(t, <<>>, l) >>
               /\ ribs = InitRibs
               /\ res = NoDefs

Done == todo = <<>>

\* The machine never gets stuck: ribs are left in the order they were entered, a declaration goes
\* into the rib it was meant for, and every occurrence is resolved at most once.
Disciplined ==
    todo # <<>> =>
        /\ Cur.op \in {"leave", "declare"} => Top(Cur.ns).kind = Cur.kind
        /\ Cur.op \in {"declare", "resolve"} => Cur.p \notin DOMAIN res

\* Final state: balanced stacks, every occurrence resolved, and the map is the declarative one
\* wherever the rules determine it.
Agreement ==
    Done => LET D == Declarative(tree, base)
            IN /\ ribs = InitRibs
               /\ DOMAIN res = DOMAIN D
               /\ \A p \in DOMAIN D : D[p].t # "ambig" => res[p] = D[p]
=============================================================================
