//! Structural AST -> JSON exporter.
//!
//! No interpretation happens here: every node is written out as it is in the AST.  Names are
//! identified by the definition the *real* resolver bound them to (`d<DefId>`), registers by
//! `r<reg>`; unresolved names by `n:<text>`.  Anything the exporter does not know makes the
//! export fail closed (`Err`), never "equal".

use serde_json::{json, Value};
use truth::ast;
use truth::context::CompilerContext;
use truth::Sp;

pub type R<T> = Result<T, String>;

pub struct Exporter<'a, 'ctx> {
    pub ctx: Option<&'a CompilerContext<'ctx>>,
    /// include formatting-only details (int radix, node ids)?
    pub with_format: bool,
}

/// Exact description of an f32.
pub fn float_json(x: f32) -> Value {
    let bits = x.to_bits() as i32;
    if x.is_nan() {
        return json!({"k": "float", "bits": bits, "cls": "nan"});
    }
    if x.is_infinite() {
        return json!({"k": "float", "bits": bits, "cls": if x > 0.0 { "inf" } else { "ninf" }});
    }
    if x == 0.0 {
        return json!({"k": "float", "bits": bits, "cls": if x.is_sign_negative() { "nzero" } else { "zero" }, "n": 0, "s": 0});
    }
    // x = m * 2^e exactly
    let raw = x.to_bits();
    let sign: i64 = if raw >> 31 == 1 { -1 } else { 1 };
    let exp = ((raw >> 23) & 0xff) as i32;
    let frac = (raw & 0x7f_ffff) as i64;
    let (mut m, mut e) = if exp == 0 { (frac, -149) } else { (frac | 0x80_0000, exp - 150) };
    while m % 2 == 0 { m /= 2; e += 1; }
    // value = sign*m*2^e ; want n / 2^s with s >= 0
    if e >= 0 {
        if e < 30 && (m << e) < (1 << 24) {
            return json!({"k": "float", "bits": bits, "cls": "fin", "n": sign * (m << e), "s": 0});
        }
        return json!({"k": "float", "bits": bits, "cls": "big"});
    }
    if -e <= 24 {
        return json!({"k": "float", "bits": bits, "cls": "fin", "n": sign * m, "s": -e});
    }
    json!({"k": "float", "bits": bits, "cls": "tiny"})
}

impl<'a, 'ctx> Exporter<'a, 'ctx> {
    pub fn new(ctx: Option<&'a CompilerContext<'ctx>>) -> Self { Exporter { ctx, with_format: false } }

    fn res_ident(&self, ident: &truth::ident::ResIdent) -> String {
        if let (Some(ctx), Some(_)) = (self.ctx, ident.res) {
            if let Some(def) = ctx.resolutions.try_get_def(ident) {
                return format!("d{}", def.0);
            }
        }
        format!("n:{}", ident.as_str())
    }

    pub fn var(&self, var: &ast::Var) -> R<Value> {
        let sig = match var.ty_sigil { None => "", Some(ast::VarSigil::Int) => "$", Some(ast::VarSigil::Float) => "%" };
        let id = match &var.name {
            ast::VarName::Reg { reg, .. } => format!("r{}", reg.0),
            ast::VarName::Normal { ident, .. } => self.res_ident(ident),
        };
        let mut out = json!({"k": "var", "sig": sig, "id": id});
        if self.with_format {
            if let ast::VarName::Normal { ident, .. } = &var.name { out["name"] = json!(ident.as_str()); }
        }
        Ok(out)
    }

    pub fn expr(&self, e: &ast::Expr) -> R<Value> {
        Ok(match e {
            ast::Expr::Ternary { cond, left, right, .. } => json!({
                "k": "tern", "c": self.expr(cond)?, "a": self.expr(left)?, "b": self.expr(right)?,
            }),
            ast::Expr::BinOp(a, op, b) => json!({
                "k": "bin", "op": op.value.to_string(), "a": self.expr(a)?, "b": self.expr(b)?,
            }),
            ast::Expr::UnOp(op, x) => json!({"k": "un", "op": op.value.to_string(), "x": self.expr(x)?}),
            ast::Expr::XcrementOp { op, order, var } => json!({
                "k": "xcr", "op": op.value.to_string(),
                "order": match order { ast::XcrementOpOrder::Pre => "pre", ast::XcrementOpOrder::Post => "post" },
                "var": self.var(var)?,
            }),
            ast::Expr::Var(var) => self.var(var)?,
            ast::Expr::Call(call) => self.call(call)?,
            ast::Expr::DiffSwitch(cases) => {
                let mut out = vec![];
                for c in cases {
                    out.push(match c { Some(e) => self.expr(e)?, None => json!({"k": "hole"}) });
                }
                json!({"k": "ds", "cases": out})
            },
            ast::Expr::LitInt { value, format } => {
                let mut out = json!({"k": "int", "v": value});
                if self.with_format {
                    out["fmt"] = json!(format!("{}{:?}", if format.signed { "s" } else { "u" }, format.radix));
                }
                out
            },
            ast::Expr::LitFloat { value } => float_json(*value),
            ast::Expr::LitString(s) => json!({"k": "str", "v": s.string}),
            ast::Expr::LabelProperty { label, keyword } => json!({
                "k": "labelprop", "label": label.value.to_string(), "kw": keyword.value.to_string(),
            }),
            ast::Expr::EnumConst { enum_name, ident } => json!({
                "k": "enum", "enum": enum_name.value.to_string(), "ident": ident.as_str(),
            }),
        })
    }

    fn call(&self, call: &ast::ExprCall) -> R<Value> {
        let name = match &call.name.value {
            ast::CallableName::Ins { opcode, .. } => json!({"ins": opcode}),
            ast::CallableName::Normal { ident, .. } => {
                if self.with_format { json!({"id": self.res_ident(ident), "name": ident.as_str()}) }
                else { json!({"id": self.res_ident(ident)}) }
            },
        };
        let mut pseudos = vec![];
        for p in &call.pseudos {
            pseudos.push(json!({"kind": p.kind.value.to_string(), "v": self.expr(&p.value.value)?}));
        }
        let mut args = vec![];
        for a in &call.args { args.push(self.expr(a)?); }
        Ok(json!({"k": "call", "name": name, "pseudos": pseudos, "args": args}))
    }

    pub fn block(&self, b: &ast::Block) -> R<Value> { self.stmts(&b.0) }

    pub fn stmts(&self, stmts: &[Sp<ast::Stmt>]) -> R<Value> {
        let mut out = vec![];
        for s in stmts { out.push(self.stmt(s)?); }
        Ok(Value::Array(out))
    }

    fn jump(&self, j: &ast::StmtJumpKind, out: &mut Value) {
        match j {
            ast::StmtJumpKind::Goto(g) => {
                out["jump"] = json!("goto");
                out["label"] = json!(g.destination.value.to_string());
                if let Some(t) = &g.time { out["time"] = json!(t.value); }
            },
            ast::StmtJumpKind::BreakContinue { keyword, .. } => {
                out["jump"] = json!(keyword.value.to_string());
            },
        }
    }

    pub fn stmt(&self, s: &ast::Stmt) -> R<Value> {
        let mut out = match &s.kind {
            ast::StmtKind::Item(item) => json!({"k": "item", "item": self.item(item)?}),
            ast::StmtKind::Jump(j) => { let mut o = json!({"k": "jump"}); self.jump(j, &mut o); o },
            ast::StmtKind::CondJump { keyword, cond, jump } => {
                let mut o = json!({"k": "condjump", "kw": keyword.value.to_string(), "cond": self.expr(cond)?});
                self.jump(jump, &mut o);
                o
            },
            ast::StmtKind::Return { value, .. } => {
                let mut o = json!({"k": "return"});
                if let Some(v) = value { o["value"] = self.expr(v)?; }
                o
            },
            ast::StmtKind::CondChain(chain) => {
                let mut blocks = vec![];
                for cb in &chain.cond_blocks {
                    blocks.push(json!({"kw": cb.keyword.value.to_string(), "cond": self.expr(&cb.cond)?, "body": self.block(&cb.block)?}));
                }
                let mut o = json!({"k": "chain", "blocks": blocks});
                if let Some(e) = &chain.else_block { o["else"] = self.block(e)?; }
                o
            },
            ast::StmtKind::Loop { block, .. } => json!({"k": "loop", "body": self.block(block)?}),
            ast::StmtKind::While { do_keyword, cond, block, .. } => json!({
                "k": "while", "do": do_keyword.is_some(), "cond": self.expr(cond)?, "body": self.block(block)?,
            }),
            ast::StmtKind::Times { clobber, count, block, .. } => {
                let mut o = json!({"k": "times", "count": self.expr(count)?, "body": self.block(block)?});
                if let Some(c) = clobber { o["clobber"] = self.var(c)?; }
                o
            },
            ast::StmtKind::Expr(e) => json!({"k": "expr", "e": self.expr(e)?}),
            ast::StmtKind::Block(b) => json!({"k": "block", "body": self.block(b)?}),
            ast::StmtKind::Assignment { var, op, value } => json!({
                "k": "assign", "var": self.var(var)?, "op": op.value.to_string(), "value": self.expr(value)?,
            }),
            ast::StmtKind::Declaration { ty_keyword, vars } => {
                let mut vs = vec![];
                for pair in vars {
                    let (var, init) = &pair.value;
                    let mut v = json!({"var": self.var(var)?});
                    if let Some(init) = init { v["init"] = self.expr(init)?; }
                    vs.push(v);
                }
                json!({"k": "decl", "ty": ty_keyword.value.to_string(), "vars": vs})
            },
            ast::StmtKind::CallSub { at_symbol, async_, func, args } => {
                let mut a = vec![];
                for x in args { a.push(self.expr(x)?); }
                let mut o = json!({"k": "callsub", "at": at_symbol, "func": func.value.to_string(), "args": a});
                match async_ {
                    None => {},
                    Some(ast::CallAsyncKind::CallAsync) => { o["async"] = json!(true); },
                    Some(ast::CallAsyncKind::CallAsyncId(e)) => { o["async"] = json!(true); o["async_id"] = self.expr(e)?; },
                }
                o
            },
            ast::StmtKind::InterruptLabel(e) => json!({"k": "interrupt", "e": self.expr(e)?}),
            ast::StmtKind::AbsTimeLabel(t) => json!({"k": "abs", "t": t.value}),
            ast::StmtKind::RelTimeLabel { delta, .. } => json!({"k": "rel", "e": self.expr(delta)?}),
            ast::StmtKind::Label(l) => json!({"k": "label", "name": l.value.to_string()}),
            ast::StmtKind::ScopeEnd(def) => json!({"k": "scopeend", "def": format!("d{}", def.0)}),
            ast::StmtKind::NoInstruction => json!({"k": "nop"}),
        };
        if let Some(d) = &s.diff_label {
            out["diff"] = json!(d.string.string);
            if let Some(m) = d.mask { out["diffmask"] = json!(m.mask()); }
        }
        if self.with_format {
            if let Some(id) = s.node_id { out["nid"] = json!(id.0.get()); }
        }
        Ok(out)
    }

    pub fn meta(&self, m: &ast::Meta) -> R<Value> {
        Ok(match m {
            ast::Meta::Scalar(e) => json!({"k": "scalar", "e": self.expr(e)?}),
            ast::Meta::Object(f) => json!({"k": "object", "fields": self.fields(f)?}),
            ast::Meta::Array(xs) => {
                let mut out = vec![];
                for x in xs { out.push(self.meta(x)?); }
                json!({"k": "array", "items": out})
            },
            ast::Meta::Variant { name, fields } => json!({"k": "variant", "name": name.value.to_string(), "fields": self.fields(fields)?}),
        })
    }

    fn fields(&self, f: &ast::meta::Fields) -> R<Value> {
        let mut out = vec![];
        for (k, v) in f.iter() { out.push(json!([k.value.to_string(), self.meta(v)?])); }
        Ok(Value::Array(out))
    }

    pub fn item(&self, item: &ast::Item) -> R<Value> {
        Ok(match item {
            ast::Item::Func(f) => {
                let mut params = vec![];
                for p in &f.params {
                    params.push(json!({
                        "ty": p.ty_keyword.value.to_string(),
                        "ident": p.ident.as_ref().map(|i| self.res_ident(i)),
                        "name": p.ident.as_ref().map(|i| i.as_str().to_string()),
                    }));
                }
                let mut o = json!({
                    "k": "func", "qual": f.qualifier.as_ref().map(|q| q.value.to_string()),
                    "ty": f.ty_keyword.value.to_string(), "ident": self.res_ident(&f.ident), "name": f.ident.as_str(),
                    "params": params,
                });
                if let Some(code) = &f.code { o["body"] = self.block(code)?; }
                o
            },
            ast::Item::Script { number, ident, code, .. } => json!({
                "k": "script", "number": number.as_ref().map(|n| n.value), "name": ident.value.to_string(), "body": self.block(code)?,
            }),
            ast::Item::Meta { keyword, fields } => json!({
                "k": "meta", "kw": keyword.value.to_string(), "fields": self.fields(fields)?,
            }),
            ast::Item::ConstVar { ty_keyword, vars } => {
                let mut vs = vec![];
                for pair in vars {
                    let (var, e) = &pair.value;
                    vs.push(json!({"var": self.var(var)?, "init": self.expr(e)?}));
                }
                json!({"k": "const", "ty": ty_keyword.value.to_string(), "vars": vs})
            },
        })
    }

    pub fn script_file(&self, f: &ast::ScriptFile) -> R<Value> {
        let mut items = vec![];
        for i in &f.items { items.push(self.item(i)?); }
        Ok(json!({
            "mapfiles": f.mapfiles.iter().map(|s| s.string.clone()).collect::<Vec<_>>(),
            "image_sources": f.image_sources.iter().map(|s| s.string.clone()).collect::<Vec<_>>(),
            "items": items,
        }))
    }
}
