//! JSON (interchange form) -> truth source text.  Fully parenthesised, purely structural.
//! Part of the trusted base: a wrong rendering makes the real parser or a check fail loudly,
//! it cannot make a wrong compiler pass.

use serde_json::Value;

pub fn int_text(v: i64) -> String {
    if v >= 0 { format!("{}", v) } else { format!("0x{:X}", (v as i32) as u32) }
}

fn float_text(e: &Value) -> String {
    let cls = e["cls"].as_str().or_else(|| e["c"].as_str()).unwrap_or("?");
    match cls {
        "zero" => "0.0".into(),
        "nzero" => "(-0.0)".into(),
        "inf" => "INF".into(),
        "ninf" => "(-INF)".into(),
        "nan" => "NAN".into(),
        "fin" => {
            let n = e["n"].as_i64().unwrap();
            let s = e["s"].as_i64().unwrap() as usize;
            let mag = (n.abs() as f64) / ((1u64 << s) as f64);
            let text = format!("{:.*}", s.max(1), mag);
            if n < 0 { format!("(-{})", text) } else { text }
        },
        other => panic!("cannot render float class {}", other),
    }
}

pub fn string_lit(s: &str) -> String {
    let mut out = String::from("\"");
    for c in s.chars() {
        match c {
            '\0' => out.push_str("\\0"),
            '\n' => out.push_str("\\n"),
            '\r' => out.push_str("\\r"),
            '\\' => out.push_str("\\\\"),
            '"' => out.push_str("\\\""),
            c => out.push(c),
        }
    }
    out.push('"');
    out
}

pub fn var(v: &Value) -> String {
    let id = v["id"].as_str().unwrap();
    let name = if let Some(r) = id.strip_prefix('r') {
        if r.parse::<i64>().is_ok() { format!("REG[{}]", r) } else { id.to_string() }
    } else if let Some(n) = id.strip_prefix("n:") { n.to_string() } else { id.to_string() };
    format!("{}{}", v["sig"].as_str().unwrap_or(""), name)
}

pub fn expr(e: &Value) -> String {
    match e["k"].as_str().unwrap() {
        "int" => int_text(e["v"].as_i64().unwrap()),
        "float" => float_text(e),
        "str" => string_lit(e["v"].as_str().unwrap()),
        "var" => var(e),
        "bin" => format!("({} {} {})", expr(&e["a"]), e["op"].as_str().unwrap(), expr(&e["b"])),
        "un" => {
            let op = e["op"].as_str().unwrap();
            match op {
                "-" | "!" | "~" => format!("({} {})", op, expr(&e["x"])),
                _ => format!("{}({})", op, expr(&e["x"])),
            }
        },
        "tern" => format!("({} ? {} : {})", expr(&e["c"]), expr(&e["a"]), expr(&e["b"])),
        "ds" => {
            let cases: Vec<String> = e["cases"].as_array().unwrap().iter()
                .map(|c| if c["k"] == "hole" { String::new() } else { expr(c) }).collect();
            format!("({})", cases.join(":"))
        },
        "xcr" => {
            let op = e["op"].as_str().unwrap();
            if e["order"] == "post" { format!("{}{}", var(&e["var"]), op) } else { format!("{}{}", op, var(&e["var"])) }
        },
        "call" => call(e),
        "labelprop" => format!("{}({})", e["kw"].as_str().unwrap(), e["label"].as_str().unwrap()),
        "enum" => format!("{}.{}", e["enum"].as_str().unwrap(), e["ident"].as_str().unwrap()),
        k => panic!("cannot render expr kind {}", k),
    }
}

fn call(e: &Value) -> String {
    let name = if let Some(op) = e["name"]["ins"].as_i64() { format!("ins_{}", op) }
        else if let Some(n) = e["name"]["name"].as_str() { n.to_string() }
        else { e["name"]["id"].as_str().unwrap().trim_start_matches("n:").to_string() };
    let mut parts = vec![];
    if let Some(ps) = e["pseudos"].as_array() {
        for p in ps { parts.push(format!("@{}={}", p["kind"].as_str().unwrap(), expr(&p["v"]))); }
    }
    if let Some(args) = e["args"].as_array() {
        for a in args { parts.push(expr(a)); }
    }
    format!("{}({})", name, parts.join(", "))
}

fn cond(c: &Value) -> String {
    // conditions may be `--x`
    expr(c)
}

fn jump_text(s: &Value) -> String {
    match s["jump"].as_str().unwrap() {
        "goto" => match s.get("time").and_then(|t| t.as_i64()) {
            Some(t) => format!("goto {} @ {}", s["label"].as_str().unwrap(), if t < 0 { format!("-{}", -t) } else { t.to_string() }),
            None => format!("goto {}", s["label"].as_str().unwrap()),
        },
        kw => kw.to_string(),
    }
}

pub fn block(stmts: &Value, indent: usize, out: &mut String) {
    for s in stmts.as_array().unwrap() { stmt(s, indent, out); }
}

fn braces(body: &Value, indent: usize, out: &mut String) {
    out.push_str("{\n");
    block(body, indent + 1, out);
    out.push_str(&"    ".repeat(indent));
    out.push('}');
}

pub fn stmt(s: &Value, indent: usize, out: &mut String) {
    let pad = "    ".repeat(indent);
    let k = s["k"].as_str().unwrap();
    if k == "nop" { return; }
    out.push_str(&pad);
    if let Some(d) = s.get("diff").and_then(|d| d.as_str()) {
        out.push_str(&format!("{{{}}}: ", string_lit(d)));
    }
    match k {
        "expr" => { out.push_str(&expr(&s["e"])); out.push(';'); },
        "assign" => out.push_str(&format!("{} {} {};", var(&s["var"]), s["op"].as_str().unwrap(), expr(&s["value"]))),
        "decl" => {
            let vars: Vec<String> = s["vars"].as_array().unwrap().iter().map(|v| {
                match v.get("init") { Some(i) => format!("{} = {}", var(&v["var"]), expr(i)), None => var(&v["var"]) }
            }).collect();
            out.push_str(&format!("{} {};", s["ty"].as_str().unwrap(), vars.join(", ")));
        },
        "jump" => { out.push_str(&jump_text(s)); out.push(';'); },
        "condjump" => out.push_str(&format!("{} ({}) {};", s["kw"].as_str().unwrap(), cond(&s["cond"]), jump_text(s))),
        "return" => match s.get("value") { Some(v) => out.push_str(&format!("return {};", expr(v))), None => out.push_str("return;") },
        "chain" => {
            let blocks = s["blocks"].as_array().unwrap();
            for (i, b) in blocks.iter().enumerate() {
                if i > 0 { out.push_str(" else "); }
                out.push_str(&format!("{} ({}) ", b["kw"].as_str().unwrap(), cond(&b["cond"])));
                braces(&b["body"], indent, out);
            }
            if let Some(e) = s.get("else") { out.push_str(" else "); braces(e, indent, out); }
        },
        "loop" => { out.push_str("loop "); braces(&s["body"], indent, out); },
        "while" => {
            if s["do"].as_bool().unwrap_or(false) {
                out.push_str("do "); braces(&s["body"], indent, out);
                out.push_str(&format!(" while ({});", cond(&s["cond"])));
            } else {
                out.push_str(&format!("while ({}) ", cond(&s["cond"]))); braces(&s["body"], indent, out);
            }
        },
        "times" => {
            match s.get("clobber") {
                Some(c) => out.push_str(&format!("times({} = {}) ", var(c), expr(&s["count"]))),
                None => out.push_str(&format!("times({}) ", expr(&s["count"]))),
            }
            braces(&s["body"], indent, out);
        },
        "block" => braces(&s["body"], indent, out),
        "abs" => { let t = s["t"].as_i64().unwrap(); out.push_str(&format!("{}:", if t < 0 { format!("-{}", -t) } else { t.to_string() })); },
        "rel" => out.push_str(&format!("+{}:", expr(&s["e"]))),
        "label" => out.push_str(&format!("{}:", s["name"].as_str().unwrap())),
        "interrupt" => out.push_str(&format!("interrupt[{}]:", expr(&s["e"]))),
        "item" => item(&s["item"], indent, out),
        k => panic!("cannot render stmt kind {}", k),
    }
    out.push('\n');
}

pub fn item(it: &Value, indent: usize, out: &mut String) {
    match it["k"].as_str().unwrap() {
        "const" => {
            let vars: Vec<String> = it["vars"].as_array().unwrap().iter()
                .map(|v| format!("{} = {}", var(&v["var"]), expr(&v["init"]))).collect();
            out.push_str(&format!("const {} {};", it["ty"].as_str().unwrap(), vars.join(", ")));
        },
        "func" => {
            let params: Vec<String> = it["params"].as_array().unwrap().iter()
                .map(|p| format!("{} {}", p["ty"].as_str().unwrap(), p["name"].as_str().unwrap_or(""))).collect();
            let qual = it["qual"].as_str().map(|q| format!("{} ", q)).unwrap_or_default();
            out.push_str(&format!("{}{} {}({}) ", qual, it["ty"].as_str().unwrap(), it["name"].as_str().unwrap(), params.join(", ")));
            match it.get("body") { Some(b) => braces(b, indent, out), None => out.push(';') }
        },
        "script" => {
            let num = it["number"].as_i64().map(|n| format!("{} ", n)).unwrap_or_default();
            out.push_str(&format!("script {}{} ", num, it["name"].as_str().unwrap()));
            braces(&it["body"], indent, out);
        },
        k => panic!("cannot render item kind {}", k),
    }
}

pub fn block_text(stmts: &Value) -> String {
    let mut out = String::from("{\n");
    block(stmts, 1, &mut out);
    out.push_str("}\n");
    out
}
