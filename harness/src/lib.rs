//! `vh` — shared library of the verification harness.  The harness generates nothing semantic and
//! judges nothing: it renders TLC-generated cases to source, drives the real truth code and
//! serialises what it observed.  One binary per property lives in src/bin/.
pub mod common;
pub mod export;
pub mod render;
pub mod lang;
