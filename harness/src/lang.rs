//! Test-language configurations: the mapfile text and `TestLanguage` hooks for a JSON description.
//!
//! cfg = { "int_regs": [1000,..], "float_regs": [1004,..], "scratch_int": [..], "scratch_float": [..],
//!         "count_jmp": "!=" | ">" | "none", ... }   (more keys are read by c02)

use serde_json::Value;
use truth::llir::TestLanguage;
use truth::RegId;

pub fn ids(v: &Value) -> Vec<i32> {
    v.as_array().map(|a| a.iter().map(|x| x.as_i64().unwrap() as i32).collect()).unwrap_or_default()
}

pub fn hooks(cfg: &Value) -> TestLanguage {
    let mut l = TestLanguage::default();
    l.language = truth::LanguageKey::Anm;
    l.general_use_int_regs = ids(&cfg["scratch_int"]).into_iter().map(RegId).collect();
    l.general_use_float_regs = ids(&cfg["scratch_float"]).into_iter().map(RegId).collect();
    l.anti_scratch_opcode = cfg["anti"].as_i64().map(|x| x as u16);
    l
}

/// Mapfile for block-level checks (C06/C07/C13): register types, a jump, a counting jump of the
/// requested flavour, conditional jumps, and plain instructions 100.. with S/f signatures.
pub fn basic_mapfile(cfg: &Value) -> String {
    let mut lines = vec!["!anmmap".to_string(), "!gvar_types".to_string()];
    for r in ids(&cfg["int_regs"]) { lines.push(format!("{} $", r)); }
    for r in ids(&cfg["float_regs"]) { lines.push(format!("{} %", r)); }
    let mut sigs = vec!["1 ot".to_string(), "2 Sot".to_string()];
    let mut intr = vec!["1 Jmp()".to_string()];
    match cfg["count_jmp"].as_str().unwrap_or("!=") {
        "!=" => intr.push("2 CountJmp()".to_string()),
        ">" => intr.push("2 CountJmp(op=\">\")".to_string()),
        _ => { sigs.pop(); },
    }
    let mut op = 40;
    for cmp in ["==", "!=", "<", "<=", ">", ">="] {
        sigs.push(format!("{} SSot", op)); intr.push(format!("{} CondJmp(op=\"{}\";type=\"int\")", op, cmp)); op += 1;
        sigs.push(format!("{} ffot", op)); intr.push(format!("{} CondJmp(op=\"{}\";type=\"float\")", op, cmp)); op += 1;
    }
    // ins_100..: 100 = (), 101 = S, 102 = f, 103 = SS, 104 = Sf, 105 = fS, 106 = ff, 107 = SSS
    for (i, s) in ["", "S", "f", "SS", "Sf", "fS", "ff", "SSS"].iter().enumerate() {
        sigs.push(format!("{} {}", 100 + i, s));
    }
    lines.push("!difficulty_flags".into());
    for (i, f) in ["E-", "N-", "H-", "L-"].iter().enumerate() { lines.push(format!("{} {}", i, f)); }
    lines.push("!ins_signatures".into());
    lines.extend(sigs);
    lines.push("!ins_intrinsics".into());
    lines.extend(intr);
    lines.join("\n") + "\n"
}

// ---------------------------------------------------------------------------------------------
// Full expression-language configurations (C02 / C05)

/// Everything the harness declared about a language configuration.
pub struct FullLang {
    pub mapfile: String,
    /// opcode -> signature letters
    pub sigs: std::collections::BTreeMap<u16, String>,
    /// ToString(opcode) -> {kind, op, ty}   (handed to RawSem)
    pub intr: serde_json::Map<String, Value>,
}

fn strs(v: &Value) -> Vec<String> {
    v.as_array().map(|a| a.iter().map(|x| x.as_str().unwrap().to_string()).collect()).unwrap_or_default()
}

/// cfg keys: int_regs float_regs scratch_int scratch_float  assign_ops binops unops (lists of operator
/// strings that exist natively, for both types)  cond_jmp ("single"|"two"|"none")  count_jmp ("!="|">"|"none")
/// jmp_order ("ot"|"to"|"o")  aux_flags (bool: define default-on flags 4..7)
pub fn full_lang(cfg: &Value) -> FullLang {
    let mut lines = vec!["!anmmap".to_string(), "!gvar_types".to_string()];
    for r in ids(&cfg["int_regs"]) { lines.push(format!("{} $", r)); }
    for r in ids(&cfg["float_regs"]) { lines.push(format!("{} %", r)); }
    if let Some(al) = cfg["aliases"].as_object() {
        lines.push("!gvar_names".into());
        for (name, reg) in al { lines.push(format!("{} {}", reg.as_i64().unwrap(), name)); }
    }
    let mut sigs = std::collections::BTreeMap::<u16, String>::new();
    let mut intr_lines = vec![];
    let mut intr = serde_json::Map::new();
    let mut add = |op: u16, sig: String, name: Option<(String, Value)>| {
        sigs.insert(op, sig);
        if let Some((text, entry)) = name { intr_lines.push(format!("{} {}", op, text)); intr.insert(op.to_string(), entry); }
    };
    let jmp = match cfg["jmp_order"].as_str().unwrap_or("ot") { "to" => "to", "o" => "o", _ => "ot" };
    add(1, jmp.to_string(), Some(("Jmp()".into(), serde_json::json!({"kind": "Jmp"}))));
    match cfg["count_jmp"].as_str().unwrap_or("!=") {
        "!=" => add(2, format!("S{}", jmp), Some(("CountJmp()".into(), serde_json::json!({"kind": "CountJmp", "op": "!="})))),
        ">" => add(2, format!("S{}", jmp), Some(("CountJmp(op=\">\")".into(), serde_json::json!({"kind": "CountJmp", "op": ">"})))),
        _ => {},
    }
    let tys = [("int", "S", "i"), ("float", "f", "f")];
    let mut op = 10u16;
    for a in ["=", "+=", "-=", "*=", "/=", "%="] {
        for (tyname, l, t) in tys {
            if strs(&cfg["assign_ops"]).iter().any(|x| x == a) {
                let binop = a.trim_end_matches('=');
                let opname = if a == "=" { "=" } else { binop };
                add(op, format!("{l}{l}"), Some((format!("AssignOp(op=\"{a}\";type=\"{tyname}\")"),
                    serde_json::json!({"kind": "AssignOp", "op": opname, "ty": t}))));
            }
            op += 1;
        }
    }
    let mut op = 30u16;
    for b in ["+", "-", "*", "/", "%"] {
        for (tyname, l, t) in tys {
            if strs(&cfg["binops"]).iter().any(|x| x == b) {
                add(op, format!("{l}{l}{l}"), Some((format!("BinOp(op=\"{b}\";type=\"{tyname}\")"),
                    serde_json::json!({"kind": "BinOp", "op": b, "ty": t}))));
            }
            op += 1;
        }
    }
    // integer-only operators: bitwise and shifts
    let mut op = 120u16;
    for b in ["|", "^", "&", "<<", ">>", ">>>"] {
        if strs(&cfg["binops"]).iter().any(|x| x == b) {
            add(op, "SSS".to_string(), Some((format!("BinOp(op=\"{b}\";type=\"int\")"),
                serde_json::json!({"kind": "BinOp", "op": b, "ty": "i"}))));
        }
        op += 1;
    }
    let mut op = 130u16;
    for u in ["~", "!"] {
        if strs(&cfg["unops"]).iter().any(|x| x == u) {
            add(op, "SS".to_string(), Some((format!("UnOp(op=\"{u}\";type=\"int\")"),
                serde_json::json!({"kind": "UnOp", "op": u, "ty": "i"}))));
        }
        op += 1;
    }
    // comparison operators as values: `a = b < c` (the output is an int for both operand types)
    let mut op = 80u16;
    for c in ["==", "!=", "<", "<=", ">", ">="] {
        for (tyname, l, t) in tys {
            if strs(&cfg["cmp_binops"]).iter().any(|x| x == c) {
                add(op, format!("S{l}{l}"), Some((format!("BinOp(op=\"{c}\";type=\"{tyname}\")"),
                    serde_json::json!({"kind": "BinOp", "op": c, "ty": t}))));
            }
            op += 1;
        }
    }
    let mut op = 60u16;
    for u in ["-"] {
        for (tyname, l, t) in tys {
            if strs(&cfg["unops"]).iter().any(|x| x == u) {
                add(op, format!("{l}{l}"), Some((format!("UnOp(op=\"{u}\";type=\"{tyname}\")"),
                    serde_json::json!({"kind": "UnOp", "op": u, "ty": t}))));
            }
            op += 1;
        }
    }
    match cfg["cond_jmp"].as_str().unwrap_or("single") {
        "single" => {
            let mut op = 40u16;
            for c in ["==", "!=", "<", "<=", ">", ">="] {
                for (tyname, l, t) in tys {
                    add(op, format!("{l}{l}{jmp}"), Some((format!("CondJmp(op=\"{c}\";type=\"{tyname}\")"),
                        serde_json::json!({"kind": "CondJmp", "op": c, "ty": t}))));
                    op += 1;
                }
            }
        },
        "two" => {
            add(70, "SS".into(), Some(("DedicatedCmp(type=\"int\")".into(), serde_json::json!({"kind": "DedicatedCmp", "ty": "i"}))));
            add(71, "ff".into(), Some(("DedicatedCmp(type=\"float\")".into(), serde_json::json!({"kind": "DedicatedCmp", "ty": "f"}))));
            let mut op = 72u16;
            for c in ["==", "!=", "<", "<=", ">", ">="] {
                add(op, jmp.to_string(), Some((format!("DedicatedCmpJmp(op=\"{c}\")"), serde_json::json!({"kind": "DedicatedCmpJmp", "op": c}))));
                op += 1;
            }
        },
        _ => {},
    }
    if let Some(a) = cfg["anti"].as_i64() { add(a as u16, "".into(), None); }
    for (i, s) in ["", "S", "f", "SS", "Sf", "fS", "ff", "SSS"].iter().enumerate() { add(100 + i as u16, s.to_string(), None); }
    drop(add);

    lines.push("!difficulty_flags".into());
    for (i, f) in ["E-", "N-", "H-", "L-"].iter().enumerate() { lines.push(format!("{} {}", i, f)); }
    if cfg["aux_flags"].as_bool().unwrap_or(false) {
        for (i, f) in ["4+", "5+", "6+", "7+"].iter().enumerate() { lines.push(format!("{} {}", 4 + i, f)); }
    }
    lines.push("!ins_signatures".into());
    for (op, s) in &sigs { lines.push(format!("{} {}", op, s)); }
    lines.push("!ins_intrinsics".into());
    lines.extend(intr_lines);
    FullLang { mapfile: lines.join("\n") + "\n", sigs, intr }
}

/// Decode the argument blob of an emitted instruction with the signature the harness declared
/// (4-byte fields; padding letters `_` take 4 bytes and no parameter-mask bit).  Purely structural.
pub fn decode_instr(i: &truth::llir::RawInstr, sig: &str, off: u64) -> Result<Value, String> {
    let mut args = vec![];
    let mut pos = 0usize;
    let mut bit = 0u32;
    for l in sig.chars() {
        if pos + 4 > i.args_blob.len() { return Err(format!("blob too short for signature {}", sig)); }
        let word = u32::from_le_bytes([i.args_blob[pos], i.args_blob[pos + 1], i.args_blob[pos + 2], i.args_blob[pos + 3]]);
        pos += 4;
        if l == '_' { continue; }
        let is_reg = (i.param_mask >> bit) & 1 == 1;
        bit += 1;
        let letter = match l { 'S' | 'f' | 'o' | 't' => l.to_string(), other => return Err(format!("unsupported letter {}", other)) };
        if is_reg {
            let regnum = if l == 'f' { f32::from_bits(word) as i64 } else { word as i32 as i64 };
            args.push(serde_json::json!({"l": letter, "reg": true, "key": format!("r{}", regnum)}));
        } else if l == 'f' {
            args.push(serde_json::json!({"l": letter, "reg": false, "v": crate::export::float_json(f32::from_bits(word))}));
        } else {
            args.push(serde_json::json!({"l": letter, "reg": false, "v": word as i32}));
        }
    }
    if pos != i.args_blob.len() { return Err(format!("blob has {} bytes, signature {} wants {}", i.args_blob.len(), sig, pos)); }
    Ok(serde_json::json!({"time": i.time, "opcode": i.opcode, "diff": i.difficulty, "off": off, "args": args}))
}
