//! Test-language configurations: the mapfile text and `TestLanguage` hooks for a JSON description.
//!
//! cfg = { "int_regs": [1000,..], "float_regs": [1004,..], "scratch_int": [..], "scratch_float": [..],
//!         "count_jmp": "!=" | ">" | "none", ... }   (more keys are read by c02)

use serde_json::Value;
use truth::llir::TestLanguage;
use truth::RegId;

pub fn ids(v: &Value) -> Vec<i32> {
    v.as_array().map(|a| a.iter().map(|x| x.as_i64().unwrap() as i32).collect()).unwrap_or_default()
}

pub fn hooks(cfg: &Value) -> TestLanguage {
    let mut l = TestLanguage::default();
    l.language = truth::LanguageKey::Anm;
    l.general_use_int_regs = ids(&cfg["scratch_int"]).into_iter().map(RegId).collect();
    l.general_use_float_regs = ids(&cfg["scratch_float"]).into_iter().map(RegId).collect();
    l.anti_scratch_opcode = cfg["anti"].as_i64().map(|x| x as u16);
    l
}

/// Mapfile for block-level checks (C06/C07/C13): register types, a jump, a counting jump of the
/// requested flavour, conditional jumps, and plain instructions 100.. with S/f signatures.
pub fn basic_mapfile(cfg: &Value) -> String {
    let mut lines = vec!["!anmmap".to_string(), "!gvar_types".to_string()];
    for r in ids(&cfg["int_regs"]) { lines.push(format!("{} $", r)); }
    for r in ids(&cfg["float_regs"]) { lines.push(format!("{} %", r)); }
    let mut sigs = vec!["1 ot".to_string(), "2 Sot".to_string()];
    let mut intr = vec!["1 Jmp()".to_string()];
    match cfg["count_jmp"].as_str().unwrap_or("!=") {
        "!=" => intr.push("2 CountJmp()".to_string()),
        ">" => intr.push("2 CountJmp(op=\">\")".to_string()),
        _ => { sigs.pop(); },
    }
    let mut op = 40;
    for cmp in ["==", "!=", "<", "<=", ">", ">="] {
        sigs.push(format!("{} SSot", op)); intr.push(format!("{} CondJmp(op=\"{}\";type=\"int\")", op, cmp)); op += 1;
        sigs.push(format!("{} ffot", op)); intr.push(format!("{} CondJmp(op=\"{}\";type=\"float\")", op, cmp)); op += 1;
    }
    // ins_100..: 100 = (), 101 = S, 102 = f, 103 = SS, 104 = Sf, 105 = fS, 106 = ff, 107 = SSS
    for (i, s) in ["", "S", "f", "SS", "Sf", "fS", "ff", "SSS"].iter().enumerate() {
        sigs.push(format!("{} {}", 100 + i, s));
    }
    lines.push("!difficulty_flags".into());
    for (i, f) in ["E-", "N-", "H-", "L-"].iter().enumerate() { lines.push(format!("{} {}", i, f)); }
    lines.push("!ins_signatures".into());
    lines.extend(sigs);
    lines.push("!ins_intrinsics".into());
    lines.extend(intr);
    lines.join("\n") + "\n"
}
