//! C10 driver: replay TLC-generated scope trees into the real name resolver.
//! usage: vh c10 <rows.ndjson>
//!   each line: {id, lang: "own"|"other", genum: name?, body: [stmts (interchange form)], ren: [[stmts], ..]?, ren_genum: [name, ..]?}
//!   genum: the compilation also has a global enum const of that spelling (a second mapfile with an `!enum` section)
//! per line:
//!   resolve : parse -> assign_languages -> resolve_names on the rendered block; the real AST exported
//!             with every identifier replaced by the DefId the real resolver recorded for it
//!             (`d<N>`, or `n:<name>` when `Resolutions::try_get_def` has nothing), plus the headings of
//!             the diagnostics.
//!   ren     : (only when `ren` is present) the block and each renamed variant compiled through the
//!             front half, const evaluation, desugar_blocks and the Lowerer (TestLanguage): RawInstr lists.
//! Nothing is judged here.

use serde_json::{json, Value};
use truth::ast;
use vh::common::*;
use vh::export::Exporter;

/// The aliases belong to ANM ("own" language).  1001 is aliased, 1000 is a plain register; 100.. are
/// plain instructions, 101 is also reachable as `alias`.
const MAPFILE: &str = "!anmmap
!gvar_names
1001 ALIAS
!gvar_types
1000 $
1001 $
1002 $
!ins_names
101 alias
!ins_signatures
1 ot
10 SS
40 SSot
41 SSot
42 SSot
43 SSot
44 SSot
45 SSot
100
101 S
!ins_intrinsics
1 Jmp()
10 AssignOp(op=\"=\";type=\"int\")
40 CondJmp(op=\"==\";type=\"int\")
41 CondJmp(op=\"!=\";type=\"int\")
42 CondJmp(op=\"<\";type=\"int\")
43 CondJmp(op=\"<=\";type=\"int\")
44 CondJmp(op=\">\";type=\"int\")
45 CondJmp(op=\">=\";type=\"int\")
";

/// The same instruction-alias name also exists in a *third* language (old-ECL timelines), under another
/// opcode.  No use is ever in that language, so the documented rules ("aliases only in their own language")
/// give exactly the same resolutions with or without this second mapfile; a resolver that lets an alias of
/// another language hide or poison the lookup is caught by the unchanged expectations.
const MAPFILE_OTHER_LANGUAGE: &str = "!eclmap
!timeline_ins_names
77 alias
!timeline_ins_signatures
77 S
";

/// A global enum const (like an ANM sprite name or a mapfile `!enum` entry): value 7, any spelling.
fn enum_mapfile(name: &str) -> String { format!("!anmmap\n!enum(name=\"GEnum\")\n7 {}\n", name) }

fn diag_headings(diag: &str) -> Vec<String> {
    diag.lines()
        .filter(|l| l.starts_with("error") || l.starts_with("warning") || l.starts_with("bug"))
        .map(|l| l.chars().take(200).collect())
        .collect()
}

fn resolve(text: &str, lang: truth::LanguageKey, genum: Option<&str>) -> Value {
    let r = with_truth(|truth| {
        truth.apply_mapfile_str(MAPFILE, truth::Game::Th10)?;
        truth.apply_mapfile_str(MAPFILE_OTHER_LANGUAGE, truth::Game::Th08)?;
        if let Some(name) = genum { truth.apply_mapfile_str(&enum_mapfile(name), truth::Game::Th10)?; }
        let mut block = truth.parse::<ast::Block>("<input>", text.as_ref())?.value;
        let ctx = truth.ctx();
        truth::passes::resolution::assign_languages(&mut block, lang, ctx)?;
        let ok = match truth::passes::resolution::resolve_names(&block, ctx) {
            Ok(()) => true,
            Err(e) => { e.ignore(); false },
        };
        let mut ex = Exporter::new(Some(ctx));
        ex.with_format = true;
        Ok((ok, ex.block(&block)))
    });
    match r {
        Out::Ok((ok, Ok(obs)), diag) => json!({"ok": ok, "obs": obs, "diag": diag_headings(&diag)}),
        Out::Ok((_, Err(e)), _) => json!({"unsupported": e}),
        Out::Err(d) => json!({"rejected": diag_headings(&d)}),      // parse / assign_languages failed
        Out::Panic(p) => p.json(),
    }
}

fn compile(text: &str, genum: Option<&str>) -> Value {
    let r = with_truth(|truth| {
        truth.apply_mapfile_str(MAPFILE, truth::Game::Th10)?;
        truth.apply_mapfile_str(MAPFILE_OTHER_LANGUAGE, truth::Game::Th08)?;
        if let Some(name) = genum { truth.apply_mapfile_str(&enum_mapfile(name), truth::Game::Th10)?; }
        let mut block = front_half(truth, text, truth::LanguageKey::Anm, true)?;
        let ctx = truth.ctx();
        truth::passes::evaluate_const_vars::run(ctx)?;
        truth::passes::const_simplify::run(&mut block, ctx)?;
        let mut hooks = truth::llir::TestLanguage::default();
        hooks.language = truth::LanguageKey::Anm;
        hooks.general_use_int_regs = (2000..2012).map(truth::RegId).collect();
        let instrs = lower_block(truth, block, &hooks, truth::LanguageKey::Anm)?;
        Ok(instrs.iter().map(raw_instr_json).collect::<Vec<_>>())
    });
    match r {
        Out::Ok(v, diag) => json!({"instrs": v, "warn": diag_headings(&diag).len()}),
        Out::Err(d) => json!({"err": diag_headings(&d).into_iter().take(1).collect::<Vec<_>>()}),
        Out::Panic(p) => p.json(),
    }
}

fn main() {
    install_panic_hook();
    let args: Vec<String> = std::env::args().skip(1).collect();
    let rows = read_lines(&args[0]);
    let out = std::io::stdout();
    let mut out = std::io::BufWriter::new(out.lock());
    use std::io::Write;
    for r in &rows {
        let text = vh::render::block_text(&r["body"]);
        let lang = if r["lang"] == "other" { truth::LanguageKey::Ecl } else { truth::LanguageKey::Anm };
        let genum = r.get("genum").and_then(|x| x.as_str());
        let mut row = json!({"id": r["id"], "text": text, "resolve": resolve(&text, lang, genum)});
        if let Some(rens) = r.get("ren").and_then(|x| x.as_array()) {
            let mut outs = vec![json!({"text": text, "out": compile(&text, genum)})];
            for (j, b) in rens.iter().enumerate() {
                let t = vh::render::block_text(b);
                // the enum const is renamed together with its uses
                let renamed = r.get("ren_genum").and_then(|x| x.get(j)).and_then(|x| x.as_str());
                let o = compile(&t, renamed);
                outs.push(json!({"text": t, "out": o}));
            }
            row["ren"] = Value::Array(outs);
        }
        writeln!(out, "{}", row).unwrap();
    }
}
