//! C14 driver.  No difficulty semantics in here: it writes mapfiles, drives the real Raiser /
//! parser / Lowerer and serialises what they printed or emitted.
//!
//!   c14 masks  <defsets.ndjson>   each line {id, defs:[{bit,name,on}..]}  (mapfile order)
//!       -> per def set: the label the real decompiler prints for every mask byte 0..255 (one
//!          `ins_100(<mask>)` instruction per byte, raised with the real `Raiser`), as it appears
//!          in the formatted text, and the difficulty byte the real parser + Lowerer give each
//!          statement when that text is compiled again.
//!   c14 switch <stmts.ndjson>     each line {id, defs:[..], st:{form, args:[interchange exprs],
//!                                 own:{has,chars}, outer:{has,chars}}}
//!       -> the emitted instructions (opcode, difficulty byte, param mask, decoded int args).

use serde_json::{json, Value};
use truth::llir::{self, RawInstr};
use vh::common::*;

const OP_MASK: u16 = 100;

fn flags_section(defs: &Value) -> String {
    let mut s = String::from("!difficulty_flags\n");
    for d in defs.as_array().unwrap() {
        s.push_str(&format!("{} {}{}\n", d["bit"].as_i64().unwrap(), d["name"].as_str().unwrap(),
                            if d["on"].as_bool().unwrap() { "+" } else { "-" }));
    }
    s
}

fn masks_mapfile(defs: &Value) -> String {
    format!("!anmmap\n{}!ins_signatures\n{} S\n", flags_section(defs), OP_MASK)
}

/// ins_100..107 with 0..3 int args, AssignOp/BinOp intrinsics on int registers 1000..1007.
fn switch_mapfile(defs: &Value) -> String {
    let mut s = String::from("!anmmap\n!gvar_types\n");
    for r in 1000..1008 { s.push_str(&format!("{} $\n", r)); }
    s.push_str(&flags_section(defs));
    s.push_str("!ins_signatures\n10 SS\n11 SSS\n100 \n101 S\n102 SS\n103 SSS\n104 SSSS\n");
    s.push_str("!ins_intrinsics\n10 AssignOp(op=\"=\";type=\"int\")\n11 BinOp(op=\"+\";type=\"int\")\n");
    s
}

fn hooks() -> llir::TestLanguage {
    let mut h = llir::TestLanguage::default();
    h.language = truth::LanguageKey::Anm;
    h.general_use_int_regs = vec![truth::RegId(1006), truth::RegId(1007)];
    h
}

fn int_args(i: &RawInstr) -> Vec<i64> {
    i.args_blob.chunks(4).map(|c| {
        let mut b = [0u8; 4];
        b[..c.len()].copy_from_slice(c);
        i32::from_le_bytes(b) as i64
    }).collect()
}

/// `{"EN-F"}: ins_100(3);` -> Some(["E","N","-","F"]);  `ins_100(255);` -> None.  Purely lexical.
fn label_in_text(line: &str) -> Option<Vec<String>> {
    let t = line.trim_start();
    let rest = t.strip_prefix("{\"")?;
    let end = rest.find("\"}")?;
    Some(rest[..end].chars().map(|c| c.to_string()).collect())
}

fn compile_text(mapfile: &str, text: &str) -> Out<Vec<RawInstr>> {
    with_truth(|truth| {
        truth.apply_mapfile_str(mapfile, truth::Game::Th10)?;
        { truth.validate_defs()?; }     // as every real pipeline does after loading mapfiles
        let mut block = front_half(truth, text, truth::LanguageKey::Anm, true)?;
        let ctx = truth.ctx();
        truth::passes::evaluate_const_vars::run(ctx)?;
        truth::passes::const_simplify::run(&mut block, ctx)?;
        let h = hooks();
        lower_block(truth, block, &h, truth::LanguageKey::Anm)
    })
}

fn masks_row(c: &Value) -> Value {
    let mapfile = masks_mapfile(&c["defs"]);
    // 1. real decompiler: one instruction per mask byte
    let raised = with_truth(|truth| {
        truth.apply_mapfile_str(&mapfile, truth::Game::Th10)?;
        { truth.validate_defs()?; }     // as every real pipeline does after loading mapfiles
        let instrs: Vec<RawInstr> = (0..=255u32).map(|m| RawInstr {
            opcode: OP_MASK, args_blob: (m as i32).to_le_bytes().to_vec(), difficulty: m as u8, ..RawInstr::DEFAULTS
        }).collect();
        let script = llir::RawScript { instrs, file_offset: None };
        let emitter = truth.emitter();
        let ctx = truth.ctx();
        let h = hooks();
        let mut options = llir::DecompileOptions::default();
        options.diff_switches = false;    // one statement per instruction: we want every label
        options.blocks = false;
        let const_proof = truth::passes::evaluate_const_vars::run(ctx)?;
        let mut raiser = llir::Raiser::new(&h, ctx.emitter, ctx, &options, const_proof)?;
        let stmts = raiser.raise_instrs_to_sub_ast(&emitter, &script, ctx)?;
        let mut lines = vec![];
        for s in &stmts {
            let ast_label = s.diff_label.as_ref().map(|d| d.string.string.clone());
            lines.push((truth::fmt::stringify(s), ast_label));
        }
        Ok(lines)
    });
    let lines = match raised {
        Out::Ok(l, diag) => { if !diag.is_empty() { return json!({"id": c["id"], "defs": c["defs"], "raise_warn": first_line(&diag)}); } l },
        Out::Err(d) => return json!({"id": c["id"], "defs": c["defs"], "raise_err": first_line(&d)}),
        Out::Panic(p) => return json!({"id": c["id"], "defs": c["defs"], "stage": "raise", "panic": p.json()["panic"]}),
    };
    let mut text = String::from("{\n");
    let mut labels = vec![];
    let mut has_label = vec![];
    let mut ast_labels = vec![];
    let mut stmt_text = vec![];
    for (line, ast_label) in &lines {
        let line = line.trim();
        if line.is_empty() { continue; }
        text.push_str("    "); text.push_str(line); text.push('\n');
        let l = label_in_text(line);
        has_label.push(l.is_some());
        labels.push(l.unwrap_or_default());
        ast_labels.push(ast_label.clone().map(Value::from).unwrap_or(json!(false)));
        stmt_text.push(line.to_string());
    }
    text.push_str("}\n");
    // 2. real compiler on the printed text
    let mut row = json!({"id": c["id"], "defs": c["defs"], "labels": labels, "has_label": has_label,
                         "ast_labels": ast_labels, "stmts": stmt_text});
    match compile_text(&mapfile, &text) {
        Out::Ok(instrs, diag) => {
            row["args"] = json!(instrs.iter().map(|i| int_args(i).get(0).cloned().unwrap_or(-1)).collect::<Vec<_>>());
            row["reparsed"] = json!(instrs.iter().map(|i| i.difficulty).collect::<Vec<_>>());
            row["opcodes_ok"] = json!(instrs.iter().all(|i| i.opcode == OP_MASK));
            if !diag.is_empty() { row["compile_warn"] = json!(first_line(&diag)); }
        },
        Out::Err(d) => { row["compile_err"] = json!(d.lines().take(6).collect::<Vec<_>>().join(" | ")); },
        Out::Panic(p) => { row["stage"] = json!("compile"); row["panic"] = p.json()["panic"].clone(); },
    }
    row
}

fn chars(l: &Value) -> String {
    l["chars"].as_array().map(|a| a.iter().map(|x| x.as_str().unwrap_or("")).collect()).unwrap_or_default()
}

/// The statement in interchange form (what vh::render prints): purely structural.
///   st = {form: "call"|"assign", args: [expr], own: {has, chars}, outer: {has, chars}}
/// call  -> `ins_<100+n>(args..)`; assign -> `$REG[1000] = args[0]`; `own` is the statement's
/// label; with `outer` the statement is wrapped in a labelled block.
fn stmt_body(st: &Value) -> Value {
    let args = st["args"].as_array().cloned().unwrap_or_default();
    let mut stmt = match st["form"].as_str().unwrap() {
        "call" => json!({"k": "expr", "e": {"k": "call", "name": {"ins": 100 + args.len()}, "args": args}}),
        "assign" => json!({"k": "assign", "var": {"k": "var", "id": "r1000", "sig": "$"}, "op": "=", "value": args[0]}),
        other => panic!("unknown statement form {}", other),
    };
    if st["own"]["has"].as_bool().unwrap_or(false) { stmt["diff"] = json!(chars(&st["own"])); }
    if st["outer"]["has"].as_bool().unwrap_or(false) {
        stmt = json!({"k": "block", "diff": chars(&st["outer"]), "body": [stmt]});
    }
    json!([stmt])
}

fn switch_row(c: &Value) -> Value {
    let mapfile = switch_mapfile(&c["defs"]);
    let body = stmt_body(&c["st"]);
    let text = vh::render::block_text(&body);
    match compile_text(&mapfile, &text) {
        Out::Ok(instrs, diag) => json!({
            "id": c["id"], "text": text, "warn": first_line(&diag),
            "copies": instrs.iter().map(|i| json!({"op": i.opcode, "mask": i.difficulty, "pm": i.param_mask, "args": int_args(i)})).collect::<Vec<_>>(),
        }),
        Out::Err(d) => json!({"id": c["id"], "text": text, "rejected": d.lines().take(4).collect::<Vec<_>>().join(" | ")}),
        Out::Panic(p) => json!({"id": c["id"], "text": text, "panic": p.json()["panic"]}),
    }
}

fn main() {
    install_panic_hook();
    let args: Vec<String> = std::env::args().skip(1).collect();
    if args.len() < 2 { eprintln!("usage: c14 masks|switch <file.ndjson>"); std::process::exit(3); }
    let cases = read_lines(&args[1]);
    let out = std::io::stdout();
    let mut out = std::io::BufWriter::new(out.lock());
    use std::io::Write;
    for c in &cases {
        let row = match args[0].as_str() {
            "masks" => masks_row(c),
            "switch" => switch_row(c),
            other => { eprintln!("unknown mode {}", other); std::process::exit(3) },
        };
        writeln!(out, "{}", row).unwrap();
    }
}
