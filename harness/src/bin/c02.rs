//! C02 / C05 driver: real front half + const passes + desugar + Lowerer (with the register-allocation
//! event sink installed); exports the source tree, the decoded instructions and the allocation events.
//! usage: c02 <programs.ndjson>   (each line: {id, cfg, vars, body:[stmts], [sub params later]})

use serde_json::{json, Value};
use vh::common::*;
use vh::export::Exporter;

fn has_diff(v: &Value) -> bool {
    match v {
        Value::Object(m) => m.contains_key("diff") || m.get("k").map(|k| k == "ds").unwrap_or(false) || m.values().any(has_diff),
        Value::Array(a) => a.iter().any(has_diff),
        _ => false,
    }
}

/// every `r<n>` register id mentioned anywhere in the generated body (the generator's own record)
fn mentioned(v: &Value, aliases: &Value, out: &mut std::collections::BTreeSet<String>) {
    match v {
        Value::Object(m) => {
            if m.get("k").map(|k| k == "var").unwrap_or(false) {
                if let Some(id) = m.get("id").and_then(|i| i.as_str()) {
                    if id.starts_with('r') { out.insert(id.to_string()); }
                    // a register mentioned through a mapfile alias
                    if let Some(name) = id.strip_prefix("n:") {
                        if let Some(reg) = aliases.get(name).and_then(|r| r.as_i64()) { out.insert(format!("r{}", reg)); }
                    }
                }
            }
            for x in m.values() { mentioned(x, aliases, out); }
        },
        Value::Array(a) => for x in a { mentioned(x, aliases, out); },
        _ => {},
    }
}

fn main() {
    install_panic_hook();
    let args: Vec<String> = std::env::args().skip(1).collect();
    let progs = read_lines(&args[0]);
    let out = std::io::stdout();
    let mut out = std::io::BufWriter::new(out.lock());
    use std::io::Write;
    for p in &progs {
        let text = vh::render::block_text(&p["body"]);
        let cfg = &p["cfg"];
        let lang = vh::lang::full_lang(cfg);
        let hooks = vh::lang::hooks(cfg);
        truth::verif_hooks::trace::install();
        let r = with_truth(|truth| {
            truth.apply_mapfile_str(&lang.mapfile, truth::Game::Th10)?;
            let mut block = front_half(truth, &text, truth::LanguageKey::Anm, true)?;
            let src = Exporter::new(Some(truth.ctx())).block(&block);
            let ctx = truth.ctx();
            truth::passes::evaluate_const_vars::run(ctx)?;
            truth::passes::const_simplify::run(&mut block, ctx)?;
            // what is left of the source after constant folding (dead ternary branches are gone)
            let simplified = Exporter::new(Some(truth.ctx())).block(&block);
            // (a failure of the lowering itself -- "too complex", scratch forbidden -- is kept as a value: the
            //  allocation events up to it are still judged, and they need the dead-mention record below)
            let instrs = lower_block(truth, block, &hooks, truth::LanguageKey::Anm).map_err(|e| e.ignore());
            Ok((src, simplified, instrs))
        });
        let events = truth::verif_hooks::trace::take();
        let mut ment = std::collections::BTreeSet::new();
        mentioned(&p["body"], &cfg["aliases"], &mut ment);
        let base = json!({"id": p["id"], "text": text, "events": events, "mentioned": ment,
            "scratch_int": cfg["scratch_int"], "scratch_float": cfg["scratch_float"]});
        let mut row = base;
        match r {
            Out::Ok((Ok(src), simplified, Err(())), diag) => {
                let mut ment_src = std::collections::BTreeSet::new();
                mentioned(&src, &json!({}), &mut ment_src);
                let mut ment_after = std::collections::BTreeSet::new();
                if let Ok(simp) = &simplified { mentioned(simp, &json!({}), &mut ment_after); }
                let allocated: std::collections::BTreeSet<String> = row["events"].as_array().map(|evs| evs.iter()
                    .filter(|e| e["ev"] == "alloc").map(|e| format!("r{}", e["reg"])).collect()).unwrap_or_default();
                let dead_scratch: Vec<String> = if simplified.is_ok() {
                    ment_src.iter().filter(|r| !ment_after.contains(*r) && allocated.contains(*r)).cloned().collect()
                } else { vec![] };
                row["dead_scratch"] = json!(dead_scratch);
                row["rejected"] = json!(first_line(&diag)); row["diag"] = json!(diag.chars().take(600).collect::<String>());
            },
            Out::Ok((Ok(src), simplified, Ok(instrs)), diag) => {
                // registers the source mentions only in code that const_simplify removed, and that
                // assign_registers then handed out (alloc events)
                let mut ment_src = std::collections::BTreeSet::new();
                mentioned(&src, &json!({}), &mut ment_src);
                let mut ment_after = std::collections::BTreeSet::new();
                if let Ok(simp) = &simplified { mentioned(simp, &json!({}), &mut ment_after); }
                let allocated: std::collections::BTreeSet<String> = row["events"].as_array().map(|evs| evs.iter()
                    .filter(|e| e["ev"] == "alloc").map(|e| format!("r{}", e["reg"])).collect()).unwrap_or_default();
                let dead_scratch: Vec<String> = if simplified.is_ok() {
                    ment_src.iter().filter(|r| !ment_after.contains(*r) && allocated.contains(*r)).cloned().collect()
                } else { vec![] };
                row["dead_scratch"] = json!(dead_scratch);
                let mut off = 0u64;
                let mut decoded = vec![];
                let mut err = None;
                for i in &instrs {
                    let sig = lang.sigs.get(&i.opcode).cloned().unwrap_or_default();
                    match vh::lang::decode_instr(i, &sig, off) { Ok(v) => decoded.push(v), Err(e) => { err = Some(e); break; } }
                    off += 4 + i.args_blob.len() as u64;
                }
                if let Some(e) = err { row["unsupported"] = json!(e); }
                else {
                    // watched registers: mentioned in the source, or not available as scratch
                    let scratch: std::collections::BTreeSet<String> = vh::lang::ids(&cfg["scratch_int"]).into_iter()
                        .chain(vh::lang::ids(&cfg["scratch_float"])).map(|r| format!("r{}", r)).collect();
                    let mut all = vec![];
                    for r in vh::lang::ids(&cfg["int_regs"]) { all.push((format!("r{}", r), "i")); }
                    for r in vh::lang::ids(&cfg["float_regs"]) { all.push((format!("r{}", r), "f")); }
                    let var_ids: std::collections::BTreeSet<String> = p["vars"].as_array().unwrap().iter().map(|v| v["id"].as_str().unwrap().to_string()).collect();
                    let watched: Vec<&String> = all.iter().map(|(id, _)| id).filter(|id| ment.contains(*id) || !scratch.contains(*id))
                        .filter(|id| !dead_scratch.contains(*id)).collect();
                    let fixed: Vec<Value> = all.iter().filter(|(id, _)| !var_ids.contains(id)).map(|(id, ty)| json!({"id": id, "ty": ty})).collect();
                    row["src"] = src; row["instrs"] = json!(decoded); row["endoff"] = json!(off);
                    row["intr"] = Value::Object(lang.intr.clone());
                    row["vars"] = p["vars"].clone(); row["fixed"] = json!(fixed); row["watched"] = json!(watched);
                    row["diffs"] = json!(has_diff(&p["body"]));
                    row["ninstr"] = json!(instrs.len());
                    row["warn"] = json!(first_line(&diag));
                    row["raw"] = json!(instrs.iter().map(raw_instr_json).collect::<Vec<_>>());
                }
            },
            Out::Ok((Err(e), _, _), _) => { row["unsupported"] = json!(e); },
            Out::Err(d) => { row["rejected"] = json!(first_line(&d)); row["diag"] = json!(d.chars().take(600).collect::<String>()); },
            Out::Panic(pi) => { row["panic"] = pi.json()["panic"].clone(); },
        }
        writeln!(out, "{}", row).unwrap();
    }
}
