//! C06 driver: real parser + front half, then the real `desugar_blocks`; export both trees.
//! usage: vh c06 <programs.ndjson>    (each line: {id, cfg, vars, body:[stmts]})

use serde_json::{json, Value};
use vh::common::*;
use vh::export::Exporter;

fn has_diff(v: &Value) -> bool {
    match v {
        Value::Object(m) => m.contains_key("diff") || m.get("k").map(|k| k == "ds").unwrap_or(false) || m.values().any(has_diff),
        Value::Array(a) => a.iter().any(has_diff),
        _ => false,
    }
}

fn main() {
    install_panic_hook();
    let args: Vec<String> = std::env::args().skip(1).collect();
    let args = &args[..];
    let progs = read_lines(&args[0]);
    let out = std::io::stdout();
    let mut out = std::io::BufWriter::new(out.lock());
    use std::io::Write;
    for p in &progs {
        let text = vh::render::block_text(&p["body"]);
        let cfg = &p["cfg"];
        let mapfile = vh::lang::basic_mapfile(cfg);
        let r = with_truth(|truth| {
            truth.apply_mapfile_str(&mapfile, truth::Game::Th10)?;
            let mut block = front_half(truth, &text, truth::LanguageKey::Anm, true)?;
            let ctx = truth.ctx();
            truth::passes::evaluate_const_vars::run(ctx)?;
            truth::passes::const_simplify::run(&mut block, ctx)?;
            let src = Exporter::new(Some(ctx)).block(&block);
            truth::passes::desugar_blocks::run(&mut block, ctx, truth::LanguageKey::Anm)?;
            let flat = Exporter::new(Some(ctx)).block(&block);
            Ok((src, flat))
        });
        let row = match r {
            Out::Ok((Ok(src), Ok(flat)), diag) => json!({
                "id": p["id"], "text": text, "src": src, "out": flat, "vars": p["vars"], "diffs": has_diff(&p["body"]),
                "warn": first_line(&diag), "changed": src != flat,
            }),
            Out::Ok((a, b), _) => json!({"id": p["id"], "text": text, "unsupported": format!("{:?} {:?}", a.err(), b.err())}),
            Out::Err(d) => json!({"id": p["id"], "text": text, "rejected": first_line(&d)}),
            Out::Panic(pi) => json!({"id": p["id"], "text": text, "panic": pi.json()["panic"]}),
        };
        writeln!(out, "{}", row).unwrap();
    }
}
