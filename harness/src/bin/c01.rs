//! C01/C19 helper: renders generated programs (interchange JSON) to truth source text with the shared
//! trusted renderer `vh::render`.  No truth code is driven here (C01 and C19 drive the real CLI).
//! usage: c01 render <bodies.ndjson>     each line {id, body:[stmts], indent?}  ->  {id, text}

use serde_json::json;
use std::io::Write;
use vh::common::read_lines;

fn main() {
    let args: Vec<String> = std::env::args().skip(1).collect();
    if args.len() != 2 || args[0] != "render" {
        eprintln!("usage: c01 render <bodies.ndjson>");
        std::process::exit(2);
    }
    let rows = read_lines(&args[1]);
    let out = std::io::stdout();
    let mut out = std::io::BufWriter::new(out.lock());
    for r in &rows {
        let mut text = String::new();
        let indent = r["indent"].as_u64().unwrap_or(1) as usize;
        vh::render::block(&r["body"], indent, &mut text);
        writeln!(out, "{}", json!({"id": r["id"], "text": text})).unwrap();
    }
}
