//! Pipeline driver: compile a batch of source files in-process exactly like `c20` (following
//! `cli_def::*_compile::run` through the public API), with the pass-start event sink installed, and
//! report the recorded pass sequence of every job.  Nothing is judged here (spec/Trace_Pipeline.tla does).
//!
//! usage: pipeline JOBS.ndjson   (each line: {"idx", "tool": anm|msg|mission|ecl|std, "game", "spec": path})
//! output: one line per job       {"idx", "tool", "rc": 0|1|101, "passes": [name, ..], "stderr"}

use std::path::Path;
use serde_json::json;
use truth::{Game, LanguageKey, Truth, ErrorReported};
use vh::common::*;

fn load_core(truth: &mut Truth, game: Game, languages: &[LanguageKey]) {
    for &language in languages {
        let core = truth::verif_hooks::core_mapfile(truth.ctx().emitter, game, language);
        truth.apply_mapfile(&core, game).expect("failed to apply core mapfile!?");
    }
}

fn run(truth: &mut Truth, tool: &str, game: Game, spec: &Path) -> Result<(), ErrorReported> {
    match tool {
        "anm" => {
            load_core(truth, game, &[LanguageKey::Anm]);
            let ast = truth.read_script(spec)?;
            truth.load_mapfiles_from_pragmas(game, &ast)?;
            let mut truth = truth.validate_defs()?;
            let compiled = truth.compile_anm(game, &ast)?;
            truth.finalize_anm(game, compiled).map(|_| ())
        },
        "msg" => {
            let ast = truth.read_script(spec)?;
            truth.expect_no_image_sources(&ast)?;
            load_core(truth, game, &[LanguageKey::Msg]);
            truth.load_mapfiles_from_pragmas(game, &ast)?;
            let mut truth = truth.validate_defs()?;
            truth.compile_msg(game, LanguageKey::Msg, &ast).map(|_| ())
        },
        "mission" => {
            let ast = truth.read_script(spec)?;
            truth.expect_no_image_sources(&ast)?;
            let mut truth = truth.validate_defs()?;
            truth.compile_mission(game, &ast).map(|_| ())
        },
        "ecl" => {
            load_core(truth, game, &[LanguageKey::Ecl, LanguageKey::Timeline]);
            let ast = truth.read_script(spec)?;
            truth.load_mapfiles_from_pragmas(game, &ast)?;
            truth.expect_no_image_sources(&ast)?;
            let mut truth = truth.validate_defs()?;
            truth.compile_ecl(game, &ast).map(|_| ())
        },
        "std" => {
            load_core(truth, game, &[LanguageKey::Std]);
            let ast = truth.read_script(spec)?;
            truth.load_mapfiles_from_pragmas(game, &ast)?;
            truth.expect_no_image_sources(&ast)?;
            let mut truth = truth.validate_defs()?;
            truth.compile_std(game, &ast).map(|_| ())
        },
        _ => panic!("harness: unknown tool {tool}"),
    }
}

fn main() {
    install_panic_hook();
    let args: Vec<String> = std::env::args().skip(1).collect();
    let jobs = read_lines(&args[0]);
    let stdout = std::io::stdout();
    let mut w = std::io::BufWriter::new(stdout.lock());
    use std::io::Write;
    for j in &jobs {
        let tool = j["tool"].as_str().unwrap();
        let game: Game = j["game"].as_str().unwrap().parse().unwrap_or_else(|_| { eprintln!("bad game"); std::process::exit(3) });
        let spec = Path::new(j["spec"].as_str().unwrap());
        truth::verif_hooks::trace::install();
        let r = guarded(|| {
            let mut scope = truth::Builder::new().capture_diagnostics(true).build();
            let mut truth = scope.truth();
            let res = run(&mut truth, tool, game, spec);
            let diag = truth.get_captured_diagnostics().unwrap_or_default();
            match res { Ok(()) => (0, diag), Err(e) => { e.ignore(); (1, diag) } }
        });
        let events = truth::verif_hooks::trace::take();
        let passes: Vec<String> = events.iter().filter(|e| e["ev"] == "pass").map(|e| e["name"].as_str().unwrap().to_string()).collect();
        let (rc, stderr) = match r {
            Ok(x) => x,
            Err(p) => (101, format!("panicked at {}: {}", p.loc, p.msg)),
        };
        let stderr: String = stderr.chars().take(300).collect();
        let mut row = json!({"idx": j["idx"], "tool": tool, "rc": rc, "passes": passes, "stderr": stderr});
        if j.get("all_events").and_then(|x| x.as_bool()).unwrap_or(false) {
            // the register-allocation events too (C05, real ECL part)
            row["events"] = json!(events.iter().filter(|e| e["ev"] != "pass").collect::<Vec<_>>());
        }
        writeln!(w, "{}", row).unwrap();
    }
}
