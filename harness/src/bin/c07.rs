//! C07 driver: compile a flat jump program to instructions (real Lowerer), then decompile the same
//! instruction stream twice with the real Raiser + postprocess_decompiled: without block recovery (F)
//! and with it (T).  Exports both trees.
//! usage: c07 <programs.ndjson>

use serde_json::{json, Value};
use truth::{ast, llir};
use vh::common::*;
use vh::export::Exporter;

fn has_diff(v: &Value) -> bool {
    match v {
        Value::Object(m) => m.contains_key("diff") || m.get("k").map(|k| k == "ds").unwrap_or(false) || m.values().any(has_diff),
        Value::Array(a) => a.iter().any(has_diff),
        _ => false,
    }
}

fn decompile(truth: &mut truth::Truth, hooks: &llir::TestLanguage, instrs: &[llir::RawInstr], blocks: bool)
    -> Result<Result<Value, String>, truth::ErrorReported>
{
    let mut options = truth::DecompileOptions::new();
    options.blocks = blocks;
    let emitter = truth.emitter();
    let ctx = truth.ctx();
    let const_proof = truth::passes::evaluate_const_vars::run(ctx)?;
    let script = llir::RawScript { instrs: instrs.to_vec(), file_offset: None };
    let code = {
        let mut raiser = llir::Raiser::new(hooks, ctx.emitter, ctx, &options, const_proof)?;
        raiser.raise_instrs_to_sub_ast(&emitter, &script, ctx)?
    };
    let mut file = ast::ScriptFile {
        mapfiles: vec![], image_sources: vec![],
        items: vec![truth::sp!(ast::Item::Script {
            keyword: truth::sp!(()), number: None, ident: truth::sp!(truth::Ident::new_system("main").unwrap()), code: ast::Block(code),
        })],
    };
    truth::passes::postprocess_decompiled(&mut file, ctx, &options)?;
    let block = match &file.items[0].value { ast::Item::Script { code, .. } => code.clone(), _ => unreachable!() };
    let text = truth::fmt::stringify(&block);
    Ok(Exporter::new(Some(ctx)).block(&block).map(|b| json!({"tree": b, "text": text})))
}

fn main() {
    install_panic_hook();
    let args: Vec<String> = std::env::args().skip(1).collect();
    let progs = read_lines(&args[0]);
    let out = std::io::stdout();
    let mut out = std::io::BufWriter::new(out.lock());
    use std::io::Write;
    for p in &progs {
        let text = vh::render::block_text(&p["body"]);
        let cfg = &p["cfg"];
        let lang = vh::lang::full_lang(cfg);
        let hooks = vh::lang::hooks(cfg);
        let r = with_truth(|truth| {
            truth.apply_mapfile_str(&lang.mapfile, truth::Game::Th10)?;
            let mut block = front_half(truth, &text, truth::LanguageKey::Anm, true)?;
            let ctx = truth.ctx();
            truth::passes::evaluate_const_vars::run(ctx)?;
            truth::passes::const_simplify::run(&mut block, ctx)?;
            let instrs = lower_block(truth, block, &hooks, truth::LanguageKey::Anm)?;
            let f = decompile(truth, &hooks, &instrs, false)?;
            let t = decompile(truth, &hooks, &instrs, true)?;
            Ok((instrs.len(), f, t))
        });
        let row = match r {
            Out::Ok((n, Ok(f), Ok(t)), diag) => json!({
                "id": p["id"], "input": text, "ninstr": n,
                "src": f["tree"], "out": t["tree"], "text": format!("--- without block recovery:\n{}\n--- with block recovery:\n{}", f["text"].as_str().unwrap(), t["text"].as_str().unwrap()),
                "vars": p["vars"], "diffs": has_diff(&p["body"]), "warn": first_line(&diag), "changed": f["tree"] != t["tree"],
            }),
            Out::Ok((_, a, b), _) => json!({"id": p["id"], "input": text, "unsupported": format!("{:?} {:?}", a.err(), b.err())}),
            Out::Err(d) => json!({"id": p["id"], "input": text, "rejected": first_line(&d)}),
            Out::Panic(pi) => json!({"id": p["id"], "input": text, "panic": pi.json()["panic"]}),
        };
        writeln!(out, "{}", row).unwrap();
    }
}
