//! C09 driver: replay TLC-enumerated programs into the real type checker.
//!
//! usage: c09 <cases.ndjson> <cfg.json>
//!   cases: each line {id, body:[stmts]}  (or {id, text:"{ ... }"} for hand-written input)
//!   cfg:   {"regs":[{"n":1000,"ty":"i"|"f"},..], "sigs":[{"op":100,"ps":["i","f","s"]},..]} as written by
//!          spec/Gen_TypeCases.tla -- the declarations the typing environment Gamma0 of the spec stands for
//!
//! For every case: render (vh::render), run the REAL
//!     parse -> assign_languages -> resolve_names -> type_check::run
//! and report  {"id", "text", "verdict": "accepted"|"rejected"|"front-error"|"panic", "diag", ...}.
//! For accepted programs additionally
//!   * "types": `ast::Expr::compute_ty(ctx)` of every sub-expression (see `walk_block` for the
//!     order, which the TLA+ operator `ExprsOfBlock` in spec/TypeRules.tla mirrors), with the
//!     sub-expression's text as the real formatter prints it;
//!   * "later": what the passes that rely on type_check (`evaluate_const_vars`, `const_simplify`)
//!     do with the program: "ok" | {"err"} | {"panic"}.
//! Nothing here knows a typing rule: the expected verdicts/types come from TLC.

use serde_json::{json, Value};
use truth::ast;
use truth::context::CompilerContext;
use vh::common::*;

/// The mapfile declaring the environment: register types and instruction signatures
/// (int -> `S`, float -> `f`, string -> `z(bs=4)`).
fn mapfile_of(cfg: &Value) -> String {
    let mut lines = vec!["!anmmap".to_string(), "!gvar_types".to_string()];
    for r in cfg["regs"].as_array().unwrap() {
        lines.push(format!("{} {}", r["n"], if r["ty"] == "f" { "%" } else { "$" }));
    }
    lines.push("!ins_signatures".into());
    for s in cfg["sigs"].as_array().unwrap() {
        let abi: String = s["ps"].as_array().unwrap().iter().map(|p| match p.as_str().unwrap() {
            "i" => "S", "f" => "f", "s" => "z(bs=4)", other => panic!("unknown parameter type {}", other),
        }).collect();
        lines.push(format!("{} {}", s["op"], abi));
    }
    lines.join("\n") + "\n"
}

fn ty_name(e: &ast::Expr, ctx: &CompilerContext) -> &'static str {
    match e.compute_ty(ctx).as_value_ty() {
        None => "void",
        Some(truth::ScalarType::Int) => "i",
        Some(truth::ScalarType::Float) => "f",
        Some(truth::ScalarType::String) => "s",
    }
}

// ---- purely structural walk: every expression node in source order, parents before children
fn walk_expr(e: &ast::Expr, ctx: &CompilerContext, out: &mut Vec<Value>) {
    out.push(json!({"ty": ty_name(e, ctx), "text": truth::fmt::stringify(e)}));
    match e {
        ast::Expr::BinOp(a, _, b) => { walk_expr(a, ctx, out); walk_expr(b, ctx, out); },
        ast::Expr::UnOp(_, x) => walk_expr(x, ctx, out),
        ast::Expr::Ternary { cond, left, right, .. } => { walk_expr(cond, ctx, out); walk_expr(left, ctx, out); walk_expr(right, ctx, out); },
        ast::Expr::DiffSwitch(cases) => for c in cases.iter().flatten() { walk_expr(c, ctx, out); },
        ast::Expr::Call(call) => {
            for p in &call.pseudos { walk_expr(&p.value.value, ctx, out); }
            for a in &call.args { walk_expr(a, ctx, out); }
        },
        _ => {},
    }
}

fn walk_block(b: &ast::Block, ctx: &CompilerContext, out: &mut Vec<Value>) {
    for s in &b.0 { walk_stmt(&s.value.kind, ctx, out); }
}

fn walk_stmt(k: &ast::StmtKind, ctx: &CompilerContext, out: &mut Vec<Value>) {
    use ast::StmtKind as S;
    match k {
        S::Expr(e) => walk_expr(e, ctx, out),
        S::Assignment { value, .. } => walk_expr(value, ctx, out),
        S::Declaration { vars, .. } => for v in vars { if let Some(init) = &v.value.1 { walk_expr(init, ctx, out); } },
        S::CondChain(chain) => {
            for cb in &chain.cond_blocks { walk_expr(&cb.cond, ctx, out); walk_block(&cb.block, ctx, out); }
            if let Some(b) = &chain.else_block { walk_block(b, ctx, out); }
        },
        S::CondJump { cond, .. } => walk_expr(cond, ctx, out),
        S::While { cond, block, .. } => { walk_expr(cond, ctx, out); walk_block(block, ctx, out); },
        S::Times { count, block, .. } => { walk_expr(count, ctx, out); walk_block(block, ctx, out); },
        S::Loop { block, .. } => walk_block(block, ctx, out),
        S::Block(block) => walk_block(block, ctx, out),
        S::InterruptLabel(e) => walk_expr(e, ctx, out),
        S::RelTimeLabel { delta, .. } => walk_expr(delta, ctx, out),
        S::Return { value, .. } => if let Some(e) = value { walk_expr(e, ctx, out); },
        S::Item(item) => match &item.value {
            ast::Item::ConstVar { vars, .. } => for v in vars { walk_expr(&v.value.1, ctx, out); },
            ast::Item::Func(f) => if let Some(code) = &f.code { walk_block(code, ctx, out); },
            _ => {},
        },
        S::CallSub { args, .. } => for a in args { walk_expr(a, ctx, out); },
        S::Jump(_) | S::AbsTimeLabel(_) | S::Label(_) | S::ScopeEnd(_) | S::NoInstruction => {},
    }
}

enum Stage { Front(String), Rejected(String), Accepted { types: Result<Vec<Value>, PanicInfo>, later: Value } }

fn run_case(text: &str, mapfile: &str) -> Out<Stage> {
    with_truth(|truth| {
        truth.apply_mapfile_str(mapfile, truth::Game::Th10)?;
        let lang = truth::LanguageKey::Anm;
        // front: everything before the type checker.  An error here is not a typing verdict.
        let mut block = match truth.parse::<ast::Block>("<input>", text.as_ref()) {
            Ok(b) => b.value,
            Err(e) => { e.ignore(); return Ok(Stage::Front(truth.get_captured_diagnostics().unwrap_or_default())); },
        };
        let front = {
            let ctx = truth.ctx();
            truth::passes::resolution::assign_languages(&mut block, lang, ctx)
                .and_then(|_| truth::passes::resolution::resolve_names(&block, ctx))
        };
        if let Err(e) = front { e.ignore(); return Ok(Stage::Front(truth.get_captured_diagnostics().unwrap_or_default())); }

        let verdict = truth::passes::type_check::run(&block, truth.ctx());
        if let Err(e) = verdict { e.ignore(); return Ok(Stage::Rejected(truth.get_captured_diagnostics().unwrap_or_default())); }

        let types = {
            let ctx = truth.ctx();
            guarded(|| { let mut out = vec![]; walk_block(&block, ctx, &mut out); out })
        };
        // what the next passes (which "feel comfortable simply panicking" after type_check) do
        let later = guarded(|| -> Result<(), truth::ErrorReported> {
            let ctx = truth.ctx();
            truth::passes::resolution::aliases_to_raw(&mut block, ctx)?;
            truth::passes::evaluate_const_vars::run(ctx)?;
            truth::passes::const_simplify::run(&mut block, ctx)?;
            Ok(())
        });
        let later = match later {
            Ok(Ok(())) => json!("ok"),
            Ok(Err(e)) => { e.ignore(); json!({"err": first_line(&truth.get_captured_diagnostics().unwrap_or_default())}) },
            Err(p) => p.json(),
        };
        Ok(Stage::Accepted { types, later })
    })
}

/// first "error"/"warning" headline and its first label line
fn diag_summary(d: &str) -> String {
    let lines: Vec<&str> = d.lines().filter(|l| !l.trim().is_empty()).collect();
    let mut out = lines.get(0).map(|s| s.to_string()).unwrap_or_default();
    if let Some(l) = lines.iter().find(|l| l.contains('^')) { out.push_str(" | "); out.push_str(l.trim()); }
    out.chars().take(240).collect()
}

fn main() {
    install_panic_hook();
    let args: Vec<String> = std::env::args().skip(1).collect();
    let cases = read_lines(&args[0]);
    let cfg: Value = serde_json::from_str(&std::fs::read_to_string(&args[1]).expect("cannot read cfg")).expect("bad cfg json");
    let mapfile = mapfile_of(&cfg);
    let out = std::io::stdout();
    let mut out = std::io::BufWriter::new(out.lock());
    use std::io::Write;
    for c in &cases {
        let text = match c.get("text").and_then(|t| t.as_str()) {
            Some(t) => t.to_string(),
            None => vh::render::block_text(&c["body"]),
        };
        let mut row = json!({"id": c["id"], "text": text});
        match run_case(&text, &mapfile) {
            Out::Ok(Stage::Front(d), _) | Out::Err(d) => { row["verdict"] = json!("front-error"); row["diag"] = json!(diag_summary(&d)); },
            Out::Ok(Stage::Rejected(d), _) => {
                row["verdict"] = json!("rejected");
                row["diag"] = json!(diag_summary(&d));
                row["nerr"] = json!(d.lines().filter(|l| l.starts_with("error")).count());
            },
            Out::Ok(Stage::Accepted { types, later }, diag) => {
                row["verdict"] = json!("accepted");
                if !diag.is_empty() { row["diag"] = json!(diag_summary(&diag)); }
                match types {
                    Ok(t) => row["types"] = json!(t),
                    Err(p) => row["types_panic"] = p.json()["panic"].clone(),
                }
                row["later"] = later;
            },
            Out::Panic(p) => { row["verdict"] = json!("panic"); row["panic"] = p.json()["panic"].clone(); },
        }
        writeln!(out, "{}", row).unwrap();
    }
}
