//! C04 / C16 process launcher (used by checks/toolchain.py).
//!
//! Runs the REAL command line tool once per job, in a pool of threads, and reports raw facts about
//! each process.  It judges nothing: the facts go into a history that TLC validates against
//! spec/Toolchain.tla.
//!
//!   c04 JOBS.ndjson THREADS CPU_SECONDS AS_BYTES WALL_SECONDS
//!
//! JOBS.ndjson: one {"id": n, "argv": [program, args...], "cwd": dir} per line.
//! stdout: one {"id", "exit_code", "signal", "timed_out", "wall_ms", "n_error", "n_warning",
//!              "stderr", "stderr_len"} per job (any order).
//!
//! Limits, set in the child between fork and exec: RLIMIT_AS (allocation failure => the Rust
//! runtime aborts => SIGABRT is observed), RLIMIT_CPU (a process that spins is killed by SIGXCPU
//! after CPU_SECONDS of *CPU* time, so a loaded machine cannot fake a hang), and a wall-clock
//! backstop for processes that block without using CPU (SIGKILL, timed_out = true).

use std::io::{BufRead, Read, Write};
use std::os::unix::process::{CommandExt, ExitStatusExt};
use std::process::{Command, Stdio};
use std::sync::atomic::{AtomicUsize, Ordering};
use std::sync::{Arc, Mutex};
use std::time::{Duration, Instant};

use serde_json::{json, Value};

#[repr(C)]
struct RLimit { cur: u64, max: u64 }
extern "C" { fn setrlimit(resource: i32, rlim: *const RLimit) -> i32; }
const RLIMIT_CPU: i32 = 0;
const RLIMIT_AS: i32 = 9;
const RLIMIT_CORE: i32 = 4;

const KEEP_STDERR: usize = 64 * 1024;

struct Job { id: u64, argv: Vec<String>, cwd: String }

fn run_job(job: &Job, cpu: u64, addr: u64, wall: u64) -> Value {
    let mut cmd = Command::new(&job.argv[0]);
    cmd.args(&job.argv[1..]).current_dir(&job.cwd)
        .stdin(Stdio::null()).stdout(Stdio::null()).stderr(Stdio::piped());
    unsafe {
        cmd.pre_exec(move || {
            let a = RLimit { cur: addr, max: addr };
            let c = RLimit { cur: cpu, max: cpu + 2 };
            let z = RLimit { cur: 0, max: 0 };
            if setrlimit(RLIMIT_AS, &a) != 0 || setrlimit(RLIMIT_CPU, &c) != 0 || setrlimit(RLIMIT_CORE, &z) != 0 {
                return Err(std::io::Error::last_os_error());
            }
            Ok(())
        });
    }
    let t0 = Instant::now();
    let mut child = match cmd.spawn() {
        Ok(c) => c,
        Err(e) => return json!({"id": job.id, "launch_error": e.to_string()}),
    };
    let mut pipe = child.stderr.take().unwrap();
    // drain stderr completely (so the child never blocks on it), keep the head, count lines
    let reader = std::thread::spawn(move || {
        let mut kept: Vec<u8> = Vec::new();
        let mut total = 0usize;
        let (mut n_error, mut n_warning) = (0u64, 0u64);
        let mut line_start: Vec<u8> = Vec::new();   // first bytes of the current line
        let mut at_line_start = true;
        let mut buf = [0u8; 8192];
        loop {
            let n = match pipe.read(&mut buf) { Ok(0) | Err(_) => break, Ok(n) => n };
            total += n;
            if kept.len() < KEEP_STDERR { kept.extend_from_slice(&buf[..n.min(KEEP_STDERR - kept.len())]); }
            for &b in &buf[..n] {
                if at_line_start { line_start.clear(); at_line_start = false; }
                if b == b'\n' {
                    if line_start.starts_with(b"error") { n_error += 1; }
                    if line_start.starts_with(b"warning") { n_warning += 1; }
                    at_line_start = true;
                } else if line_start.len() < 8 { line_start.push(b); }
            }
        }
        if !at_line_start {
            if line_start.starts_with(b"error") { n_error += 1; }
            if line_start.starts_with(b"warning") { n_warning += 1; }
        }
        (kept, total, n_error, n_warning)
    });
    let mut timed_out = false;
    let status = loop {
        match child.try_wait() {
            Ok(Some(st)) => break st,
            Ok(None) => {
                if t0.elapsed() > Duration::from_secs(wall) {
                    timed_out = true;
                    let _ = child.kill();
                    break child.wait().unwrap();
                }
                std::thread::sleep(Duration::from_millis(if t0.elapsed() < Duration::from_millis(50) { 1 } else { 10 }));
            },
            Err(e) => return json!({"id": job.id, "launch_error": e.to_string()}),
        }
    };
    let wall_ms = t0.elapsed().as_millis() as u64;
    let (kept, total, n_error, n_warning) = reader.join().unwrap();
    let signal = status.signal().unwrap_or(0);
    let exit_code = status.code().unwrap_or(-signal);
    json!({
        "id": job.id, "exit_code": exit_code, "signal": signal, "timed_out": timed_out, "wall_ms": wall_ms,
        "n_error": n_error, "n_warning": n_warning,
        "stderr": String::from_utf8_lossy(&kept), "stderr_len": total,
    })
}

fn main() {
    let args: Vec<String> = std::env::args().collect();
    if args.len() != 6 {
        eprintln!("usage: c04 JOBS.ndjson THREADS CPU_SECONDS AS_BYTES WALL_SECONDS");
        std::process::exit(2);
    }
    let threads: usize = args[2].parse().unwrap();
    let cpu: u64 = args[3].parse().unwrap();
    let addr: u64 = args[4].parse().unwrap();
    let wall: u64 = args[5].parse().unwrap();
    let file = std::io::BufReader::new(std::fs::File::open(&args[1]).expect("jobs file"));
    let mut jobs = Vec::new();
    for line in file.lines() {
        let line = line.unwrap();
        if line.trim().is_empty() { continue; }
        let v: Value = serde_json::from_str(&line).expect("job json");
        jobs.push(Job {
            id: v["id"].as_u64().unwrap(),
            argv: v["argv"].as_array().unwrap().iter().map(|x| x.as_str().unwrap().to_string()).collect(),
            cwd: v["cwd"].as_str().unwrap().to_string(),
        });
    }
    let jobs = Arc::new(jobs);
    let next = Arc::new(AtomicUsize::new(0));
    let out = Arc::new(Mutex::new(std::io::BufWriter::new(std::io::stdout())));
    let mut handles = Vec::new();
    for _ in 0..threads.max(1) {
        let (jobs, next, out) = (jobs.clone(), next.clone(), out.clone());
        handles.push(std::thread::spawn(move || loop {
            let i = next.fetch_add(1, Ordering::SeqCst);
            if i >= jobs.len() { break; }
            let v = run_job(&jobs[i], cpu, addr, wall);
            let mut o = out.lock().unwrap();
            writeln!(o, "{}", v).unwrap();
        }));
    }
    for h in handles { h.join().unwrap(); }
    out.lock().unwrap().flush().unwrap();
}
