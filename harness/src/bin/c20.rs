//! C20 driver: compile a batch of source files in-process, following `cli_def::{anm,msg,ecl,std}_compile::run`
//! step by step through the public API (core mapfile -> read_script -> pragmas -> validate_defs ->
//! compile_* -> write_*).  No interpretation of anything: the output file is read back as bytes and
//! handed to the Python side, which also re-runs a stride of the jobs through the real CLI binary and
//! requires identical exit status and bytes.
//!
//! usage: c20 JOBS.ndjson       (each line: {"idx", "cmd": truanm|trumsg|truecl|trustd, "game", "spec": path, "out": path})
//! output: one line per job      {"idx", "rc": 0|1|101, "stderr", "hex"}

use std::path::Path;
use serde_json::json;
use truth::{Game, LanguageKey, Truth, ErrorReported};
use vh::common::*;

fn load_core(truth: &mut Truth, game: Game, languages: &[LanguageKey]) {
    for &language in languages {
        let core = truth::verif_hooks::core_mapfile(truth.ctx().emitter, game, language);
        truth.apply_mapfile(&core, game).expect("failed to apply core mapfile!?");
    }
}

fn run(truth: &mut Truth, cmd: &str, game: Game, spec: &Path, out: &Path) -> Result<(), ErrorReported> {
    match cmd {
        "truanm" => {
            load_core(truth, game, &[LanguageKey::Anm]);
            let ast = truth.read_script(spec)?;
            truth.load_mapfiles_from_pragmas(game, &ast)?;
            let mut truth = truth.validate_defs()?;
            let compiled = truth.compile_anm(game, &ast)?;
            let compiled = truth.finalize_anm(game, compiled)?;
            truth.write_anm(game, out, &compiled)
        },
        "trumsg" => {
            let ast = truth.read_script(spec)?;
            truth.expect_no_image_sources(&ast)?;
            load_core(truth, game, &[LanguageKey::Msg]);
            truth.load_mapfiles_from_pragmas(game, &ast)?;
            let mut truth = truth.validate_defs()?;
            let msg = truth.compile_msg(game, LanguageKey::Msg, &ast)?;
            truth.write_msg(game, LanguageKey::Msg, out, &msg)
        },
        "truecl" => {
            load_core(truth, game, &[LanguageKey::Ecl, LanguageKey::Timeline]);
            let ast = truth.read_script(spec)?;
            truth.load_mapfiles_from_pragmas(game, &ast)?;
            truth.expect_no_image_sources(&ast)?;
            let mut truth = truth.validate_defs()?;
            let ecl = truth.compile_ecl(game, &ast)?;
            truth.write_ecl(game, out, &ecl)
        },
        "trustd" => {
            load_core(truth, game, &[LanguageKey::Std]);
            let ast = truth.read_script(spec)?;
            truth.load_mapfiles_from_pragmas(game, &ast)?;
            truth.expect_no_image_sources(&ast)?;
            let mut truth = truth.validate_defs()?;
            let std = truth.compile_std(game, &ast)?;
            truth.write_std(game, out, &std)
        },
        _ => panic!("harness: unknown command {cmd}"),
    }
}

fn main() {
    install_panic_hook();
    let args: Vec<String> = std::env::args().skip(1).collect();
    let jobs = read_lines(&args[0]);
    let stdout = std::io::stdout();
    let mut w = std::io::BufWriter::new(stdout.lock());
    use std::io::Write;
    for j in &jobs {
        let cmd = j["cmd"].as_str().unwrap();
        let game: Game = j["game"].as_str().unwrap().parse().unwrap_or_else(|_| { eprintln!("bad game"); std::process::exit(3) });
        let spec = Path::new(j["spec"].as_str().unwrap());
        let out = Path::new(j["out"].as_str().unwrap());
        let _ = std::fs::remove_file(out);
        let r = guarded(|| {
            let mut scope = truth::Builder::new().capture_diagnostics(true).build();
            let mut truth = scope.truth();
            let res = run(&mut truth, cmd, game, spec, out);
            let diag = truth.get_captured_diagnostics().unwrap_or_default();
            match res { Ok(()) => (0, diag), Err(e) => { e.ignore(); (1, diag) } }
        });
        let (rc, stderr) = match r {
            Ok(x) => x,
            Err(p) => (101, format!("thread 'main' panicked at {}:\n{}", p.loc, p.msg)),
        };
        let hex = match std::fs::read(out) {
            Ok(bytes) => { let _ = std::fs::remove_file(out); json!(bytes.iter().map(|b| format!("{:02x}", b)).collect::<String>()) },
            Err(_) => serde_json::Value::Null,
        };
        writeln!(w, "{}", json!({"idx": j["idx"], "rc": rc, "stderr": stderr, "hex": hex})).unwrap();
    }
}
