//! C11 driver: evaluate each TLC-generated constant expression through the real code paths.
//!  fold     : passes::const_simplify on the bare expression
//!  constvar : `const T X = e;` through evaluate_const_vars (+ const_simplify of a use of X)
//!  inline   : instructions of `const T X = e; f(X)` vs `f(e)` (must be identical)

use serde_json::{json, Value};
use truth::ast;
use vh::common::*;

const MAPFILE: &str = "!anmmap\n!ins_signatures\n100 S\n101 f\n";

fn lit_value(e: &ast::Expr) -> Option<Value> {
    match e {
        ast::Expr::LitInt { value, .. } => Some(scalar_json(&truth::ScalarValue::Int(*value))),
        ast::Expr::LitFloat { value } => Some(scalar_json(&truth::ScalarValue::Float(*value))),
        ast::Expr::LitString(s) => Some(json!({"t": "s", "v": s.string})),
        _ => None,
    }
}

fn out_json<T>(o: Out<T>, f: impl FnOnce(T) -> Value) -> Value {
    match o {
        Out::Ok(x, diag) => { let mut v = f(x); if !diag.is_empty() { v["warn"] = json!(first_line(&diag)); } v },
        Out::Err(d) => json!({"err": first_line(&d), "ndiag": d.matches("error").count()}),
        Out::Panic(p) => p.json(),
    }
}

fn fold(text: &str) -> Value {
    out_json(with_truth(|truth| {
        let mut expr = truth.parse::<ast::Expr>("<input>", text.as_ref())?;
        let ctx = truth.ctx();
        truth::passes::resolution::resolve_names(&expr, ctx)?;
        truth::passes::type_check::run(&expr, ctx)?;
        truth::passes::evaluate_const_vars::run(ctx)?;
        truth::passes::const_simplify::run(&mut expr, ctx)?;
        Ok(expr.value)
    }), |e| match lit_value(&e) { Some(v) => json!({"val": v}), None => json!({"notlit": truth::fmt::stringify(&e)}) })
}

fn first_call_arg(block: &ast::Block) -> Option<ast::Expr> {
    for s in &block.0 {
        if let ast::StmtKind::Expr(e) = &s.kind {
            if let ast::Expr::Call(c) = &e.value { return c.args.get(0).map(|a| a.value.clone()); }
        }
    }
    None
}

fn constvar(ty: &str, text: &str) -> Value {
    let src = format!("{{ ins_{}(X); const {} X = {}; }}", if ty == "f" { 101 } else { 100 }, if ty == "f" { "float" } else { "int" }, text);
    out_json(with_truth(|truth| {
        truth.apply_mapfile_str(MAPFILE, truth::Game::Th10)?;
        let mut block = front_half(truth, &src, truth::LanguageKey::Anm, true)?;
        let ctx = truth.ctx();
        truth::passes::evaluate_const_vars::run(ctx)?;
        truth::passes::const_simplify::run(&mut block, ctx)?;
        Ok(block)
    }), |b| match first_call_arg(&b).as_ref().and_then(lit_value) { Some(v) => json!({"val": v}), None => json!({"notlit": true}) })
}

fn lower_text(src: &str) -> Out<Vec<Value>> {
    with_truth(|truth| {
        truth.apply_mapfile_str(MAPFILE, truth::Game::Th10)?;
        let mut block = front_half(truth, src, truth::LanguageKey::Anm, true)?;
        let ctx = truth.ctx();
        truth::passes::evaluate_const_vars::run(ctx)?;
        truth::passes::const_simplify::run(&mut block, ctx)?;
        let mut hooks = truth::llir::TestLanguage::default();
        hooks.language = truth::LanguageKey::Anm;
        let instrs = lower_block(truth, block, &hooks, truth::LanguageKey::Anm)?;
        Ok(instrs.iter().map(raw_instr_json).collect())
    })
}

fn inline(ty: &str, text: &str) -> Value {
    let op = if ty == "f" { 101 } else { 100 };
    let tyname = if ty == "f" { "float" } else { "int" };
    let a = lower_text(&format!("{{ const {} X = {}; ins_{}(X); }}", tyname, text, op));
    let b = lower_text(&format!("{{ ins_{}({}); }}", op, text));
    let aj = out_json(a, |v| json!({"instrs": v}));
    let bj = out_json(b, |v| json!({"instrs": v}));
    json!({"named": aj, "inline": bj, "same": aj == bj})
}

fn main() {
    install_panic_hook();
    let args: Vec<String> = std::env::args().skip(1).collect();
    let args = &args[..];
    let cases = read_lines(&args[0]);
    let out = std::io::stdout();
    let mut out = std::io::BufWriter::new(out.lock());
    use std::io::Write;
    for c in &cases {
        let text = vh::render::expr(&c["e"]);
        let ty = c["ty"].as_str().unwrap_or("i");
        let row = json!({
            "id": c["id"], "text": text,
            "fold": fold(&text), "constvar": constvar(ty, &text), "inline": inline(ty, &text),
        });
        writeln!(out, "{}", row).unwrap();
    }
}
