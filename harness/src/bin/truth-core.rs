fn main() -> ! {
    truth::cli_def::main("verif");
}
