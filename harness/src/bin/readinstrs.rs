//! Replays TLC-generated reader event streams into the real `llir::read_instrs`.
//! usage: readinstrs <cases.ndjson>   (each line {case:{stream,hasEnd,endoff,hasTerm}, exp:..})

use serde_json::json;
use truth::llir::{self, InstrFormat, RawInstr, ReadInstr};
use truth::io::{BinReader, BinWriter, ReadResult, WriteResult};
use truth::diagnostic::Emitter;
use vh::common::*;

struct Replay {
    has_terminal: bool,
    events: Vec<String>,
    pos: std::cell::Cell<usize>,
}

impl InstrFormat for Replay {
    fn instr_header_size(&self) -> usize { 4 }
    fn has_terminal_instr(&self) -> bool { self.has_terminal }
    fn read_instr(&self, _: &mut BinReader, _: &dyn Emitter) -> ReadResult<ReadInstr> {
        let i = self.pos.get();
        self.pos.set(i + 1);
        let instr = |extra: usize| RawInstr { opcode: (i + 1) as u16, args_blob: vec![0; extra], ..RawInstr::DEFAULTS };
        Ok(match self.events.get(i).map(|s| s.as_str()) {
            None => ReadInstr::EndOfFile,
            Some("i4") => ReadInstr::Instr(instr(0)),
            Some("i8") => ReadInstr::Instr(instr(4)),
            Some("m4") => ReadInstr::MaybeTerminal(instr(0)),
            Some("t") => ReadInstr::Terminal,
            Some(other) => panic!("unknown event {}", other),
        })
    }
    fn write_instr(&self, _: &mut BinWriter, _: &dyn Emitter, _: &RawInstr) -> WriteResult { panic!("not used") }
    fn write_terminal_instr(&self, _: &mut BinWriter, _: &dyn Emitter) -> WriteResult { panic!("not used") }
}

fn main() {
    install_panic_hook();
    let args: Vec<String> = std::env::args().skip(1).collect();
    let rows = read_lines(&args[0]);
    let out = std::io::stdout();
    let mut out = std::io::BufWriter::new(out.lock());
    use std::io::Write;
    const START: u64 = 0x100;
    for (n, row) in rows.iter().enumerate() {
        let c = &row["case"];
        let events: Vec<String> = c["stream"].as_array().unwrap().iter().map(|e| e.as_str().unwrap().to_string()).collect();
        let end = if c["hasEnd"].as_bool().unwrap() { Some(START + c["endoff"].as_u64().unwrap()) } else { None };
        let format = Replay { has_terminal: c["hasTerm"].as_bool().unwrap(), events, pos: std::cell::Cell::new(0) };
        let r = with_truth(|truth| {
            let ctx = truth.ctx();
            llir::read_instrs(&mut BinReader::from_reader(ctx.emitter, "unused", std::io::empty()), ctx.emitter, &format, START, end)
        });
        let obs = match r {
            Out::Ok(instrs, diag) => json!({
                "ok": true, "kept": instrs.iter().map(|i| i.opcode).collect::<Vec<_>>(),
                "warned": diag.contains("missing end-of-script marker"), "other_diag": !diag.is_empty() && !diag.contains("missing end-of-script marker"),
            }),
            Out::Err(d) => json!({"ok": false, "kept": [], "warned": false, "diag": first_line(&d)}),
            Out::Panic(p) => json!({"panic": {"loc": p.site(), "msg": first_line(&p.msg)}}),
        };
        writeln!(out, "{}", json!({"n": n, "obs": obs})).unwrap();
    }
}
