//! C15 driver: string arguments through the real mapfile parser, front half, `Lowerer` (write path)
//! and `Raiser` (read path).  No framing knowledge lives here: a case names the string encodings and
//! the texts, the harness renders signatures and literals, runs the real code and serialises the
//! blobs and the strings that came back.
//!
//! usage: c15 <cases.ndjson>
//!   case = { id, steps: [ { letter, kind: "block"|"pascal"|"fixed", n, nulless, mask: [m,v,a], furibug,
//!                           payload: [ascii byte..] | text: "utf-8 text" } .. ] }
//!   step k is compiled as `ins_<300+k>(<literal>)` under its own signature, all steps in one script
//!   (so that state carried between consecutive instructions is exercised).
//! output line = { id, sigs, src, map, enc: {ok: [[byte..]..]}, dec: {ok: [text..]} }

use serde_json::{json, Value};
use truth::llir::{self, RawInstr, TestLanguage};
use truth::LanguageKey;
use vh::common::*;
use vh::export::Exporter;

const BASE: u16 = 300;

fn sig_text(s: &Value) -> String {
    let letter = s["letter"].as_str().unwrap();
    let n = s["n"].as_i64().unwrap();
    let mut attrs = vec![];
    match s["kind"].as_str().unwrap() {
        "fixed" => attrs.push(format!("len={}", n)),
        _ => attrs.push(format!("bs={}", n)),
    }
    if s["nulless"].as_bool() == Some(true) { attrs.push("nulless".into()); }
    let m: Vec<i64> = s["mask"].as_array().unwrap().iter().map(|x| x.as_i64().unwrap()).collect();
    if letter == "m" || m != [0, 0, 0] { attrs.push(format!("mask={},{},{}", m[0], m[1], m[2])); }
    if s["furibug"].as_bool() == Some(true) { attrs.push("furibug".into()); }
    format!("{}({})", letter, attrs.join(";"))
}

fn step_text(s: &Value) -> String {
    if let Some(t) = s.get("text").and_then(|t| t.as_str()) { return t.to_string(); }
    s["payload"].as_array().unwrap().iter().map(|b| b.as_u64().unwrap() as u8 as char).collect()
}

/// string literal syntax of doc/syntax.md: escapes \0 \n \r \\ \"
fn literal(t: &str) -> String {
    let mut s = String::from("\"");
    for c in t.chars() {
        match c {
            '\\' => s.push_str("\\\\"),
            '"' => s.push_str("\\\""),
            '\n' => s.push_str("\\n"),
            '\r' => s.push_str("\\r"),
            '\0' => s.push_str("\\0"),
            c => s.push(c),
        }
    }
    s.push('"');
    s
}

fn diag_json(d: &str) -> Value {
    let errors: Vec<&str> = d.lines().filter(|l| l.starts_with("error")).collect();
    let warnings: Vec<&str> = d.lines().filter(|l| l.starts_with("warning")).collect();
    json!({"errors": errors, "warnings": warnings, "full": d.chars().take(500).collect::<String>()})
}

fn out_json<T>(o: Out<T>, f: impl FnOnce(T) -> Value) -> Value {
    match o {
        Out::Ok(x, diag) => { let mut v = f(x); v["diag"] = diag_json(&diag); v },
        Out::Err(d) => json!({"err": diag_json(&d)}),
        Out::Panic(p) => p.json(),
    }
}

fn hooks() -> TestLanguage {
    let mut t = TestLanguage::default();
    t.language = LanguageKey::Anm;
    t
}

fn compile(map: &str, src: &str) -> Out<Vec<RawInstr>> {
    let hooks = hooks();
    with_truth(|truth| {
        truth.apply_mapfile_str(map, truth::Game::Th10)?;
        let mut block = front_half(truth, src, LanguageKey::Anm, true)?;
        let ctx = truth.ctx();
        truth::passes::evaluate_const_vars::run(ctx)?;
        truth::passes::const_simplify::run(&mut block, ctx)?;
        lower_block(truth, block, &hooks, LanguageKey::Anm)
    })
}

fn decompile(map: &str, instrs: Vec<RawInstr>) -> Out<Value> {
    let hooks = hooks();
    with_truth(|truth| {
        truth.apply_mapfile_str(map, truth::Game::Th10)?;
        let emitter = truth.emitter();
        let ctx = truth.ctx();
        let options = Default::default();
        let const_proof = truth::passes::evaluate_const_vars::run(ctx)?;
        let script = llir::RawScript { instrs, file_offset: None };
        let mut raiser = llir::Raiser::new(&hooks, ctx.emitter, ctx, &options, const_proof)?;
        let stmts = raiser.raise_instrs_to_sub_ast(&emitter, &script, ctx)?;
        Ok(Exporter::new(None).stmts(&stmts).unwrap_or_else(|e| json!({"unsupported": e})))
    })
}

/// the string arguments of the calls, in order (anything else is passed through as JSON)
fn strings_of(stmts: &Value) -> Value {
    let mut out = vec![];
    if let Some(a) = stmts.as_array() {
        for s in a {
            if s["k"] == "expr" && s["e"]["k"] == "call" {
                let args = s["e"]["args"].as_array().cloned().unwrap_or_default();
                if args.len() == 1 && args[0]["k"] == "str" { out.push(args[0]["v"].clone()); }
                else { out.push(json!({"shape": s["e"]})); }
            }
        }
    } else { return json!([{"shape": stmts}]); }
    Value::Array(out)
}

fn run_case(c: &Value) -> Value {
    let steps = c["steps"].as_array().unwrap();
    let sigs: Vec<String> = steps.iter().map(sig_text).collect();
    let mut map = String::from("!anmmap\n!ins_signatures\n");
    let mut src = String::from("{\n");
    for (k, s) in steps.iter().enumerate() {
        map.push_str(&format!("{} {}\n", BASE as usize + k, sigs[k]));
        src.push_str(&format!("    ins_{}({});\n", BASE as usize + k, literal(&step_text(s))));
    }
    src.push_str("}");
    let mut row = json!({"id": c["id"], "sigs": sigs, "src": src});

    let m = with_truth(|truth| truth.apply_mapfile_str(&map, truth::Game::Th10));
    row["map"] = out_json(m, |_| json!({"ok": true}));
    if row["map"].get("ok").is_none() { return row; }

    let enc = compile(&map, &src);
    let instrs = match &enc { Out::Ok(v, _) => Some(v.clone()), _ => None };
    row["enc"] = out_json(enc, |v| json!({"ok": v.iter().map(|i| json!(i.args_blob)).collect::<Vec<_>>(),
                                            "masks": v.iter().map(|i| i.param_mask).collect::<Vec<_>>()}));
    if let Some(instrs) = instrs {
        row["dec"] = out_json(decompile(&map, instrs), |v| json!({"ok": strings_of(&v)}));
    }
    // read path on the specification's blobs (when the case carries them)
    if let Some(exp) = c.get("exp").and_then(|e| e.as_array()) {
        if exp.iter().all(|e| e["ok"] == true) {
            let instrs: Vec<RawInstr> = exp.iter().enumerate().map(|(k, e)| RawInstr {
                opcode: BASE + k as u16,
                args_blob: e["bytes"].as_array().unwrap().iter().map(|b| b.as_u64().unwrap() as u8).collect(),
                ..RawInstr::DEFAULTS
            }).collect();
            row["dec_spec"] = out_json(decompile(&map, instrs), |v| json!({"ok": strings_of(&v)}));
        }
    }
    row
}

fn main() {
    install_panic_hook();
    let args: Vec<String> = std::env::args().skip(1).collect();
    let cases = read_lines(&args[0]);
    let out = std::io::stdout();
    let mut out = std::io::BufWriter::new(out.lock());
    use std::io::Write;
    for c in &cases {
        writeln!(out, "{}", run_case(c)).unwrap();
    }
}
