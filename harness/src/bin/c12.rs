//! C12 driver: replay TLC-generated (signature, argument list) cases through the real mapfile
//! parser, front half, `Lowerer` (encode) and `Raiser` (decode).  No codec knowledge lives here:
//! the harness renders the case to text, runs the real code and serialises what it saw.
//!
//! usage: c12 <cases.ndjson>
//!   case = { id, lang: "anm"|"noreg"|"timeline", sig: [{ch, attrs: [text..]}],
//!            args: [{k:"imm",v} | {k:"reg",v} | {k:"fimm",v: bits} | {k:"freg",v} | {k:"off",v} | {k:"time",v}
//!                   | {k:"str", v: [ascii byte..]}],
//!            exp: { ok: bool, blob: [byte..], mask, arg0 (16-bit pattern, -1 = none) } }
//!   off/time: v = 0: the label in front of the instruction, 1: the label behind it (time label +30).
//! output line = { id, sigtext, src, map, enc, dec, dec_spec, reenc }

use serde_json::{json, Value};
use truth::llir::{self, LanguageHooks, RawInstr, TestLanguage};
use truth::LanguageKey;
use vh::common::*;
use vh::export::Exporter;

/// TestLanguage with registers switched off (delegates everything else).
struct NoRegs(TestLanguage);
impl LanguageHooks for NoRegs {
    fn language(&self) -> LanguageKey { self.0.language }
    fn has_registers(&self) -> bool { false }
    fn instr_format(&self) -> &dyn llir::InstrFormat { self.0.instr_format() }
}

const OPCODE: u16 = 200;
const END_TIME: i32 = 30;

fn sig_text(sig: &Value) -> String {
    let mut s = String::new();
    for p in sig.as_array().unwrap() {
        s.push_str(p["ch"].as_str().unwrap());
        let attrs: Vec<&str> = p["attrs"].as_array().map(|a| a.iter().map(|x| x.as_str().unwrap()).collect()).unwrap_or_default();
        let attrs: Vec<&str> = attrs.into_iter().map(|a| if a == "enum" { "enum=\"bool\"" } else { a }).collect();
        if !attrs.is_empty() { s.push('('); s.push_str(&attrs.join(";")); s.push(')'); }
    }
    s
}

fn int_text(v: i64) -> String {
    if v == i32::MIN as i64 { "0x80000000".to_string() } else { format!("{}", v) }
}

fn float_text(bits: i64) -> String {
    let x = f32::from_bits(bits as i32 as u32);
    if x.is_nan() { return "NAN".into(); }
    if x.is_infinite() { return if x > 0.0 { "INF".into() } else { "-INF".into() }; }
    let s = format!("{:?}", x);
    if s.contains('e') { format!("{:.60}", x).trim_end_matches('0').to_string() + "0" } else { s }
}

fn arg_text(a: &Value) -> String {
    match a["k"].as_str().unwrap() {
        "imm" => int_text(a["v"].as_i64().unwrap()),
        "reg" => format!("$REG[{}]", a["v"]),
        "fimm" => float_text(a["v"].as_i64().unwrap()),
        "freg" => format!("%REG[{}]", a["v"]),
        "off" => format!("offsetof({})", if a["v"] == 0 { "Lstart" } else { "Lend" }),
        "time" => format!("timeof({})", if a["v"] == 0 { "Lstart" } else { "Lend" }),
        "str" => literal(&a["v"].as_array().unwrap().iter().map(|b| b.as_u64().unwrap() as u8 as char).collect::<String>()),
        k => panic!("unknown arg kind {}", k),
    }
}

/// string literal syntax of doc/syntax.md: escapes \0 \n \r \\ \"
fn literal(t: &str) -> String {
    let mut s = String::from("\"");
    for c in t.chars() {
        match c {
            '\\' => s.push_str("\\\\"),
            '"' => s.push_str("\\\""),
            c => s.push(c),
        }
    }
    s.push('"');
    s
}

fn source_text(args: &Value) -> String {
    let a: Vec<String> = args.as_array().unwrap().iter().map(arg_text).collect();
    format!("{{\nLstart:\n    ins_{}({});\n+{}:\nLend:\n}}", OPCODE, a.join(", "), END_TIME)
}

struct Lang { key: LanguageKey, game: truth::Game, header: &'static str, section: &'static str, regs: bool }

fn lang_of(name: &str) -> Lang {
    match name {
        "anm" => Lang { key: LanguageKey::Anm, game: truth::Game::Th10, header: "!anmmap", section: "!ins_signatures", regs: true },
        "noreg" => Lang { key: LanguageKey::Anm, game: truth::Game::Th10, header: "!anmmap", section: "!ins_signatures", regs: false },
        "timeline" => Lang { key: LanguageKey::Timeline, game: truth::Game::Th06, header: "!eclmap", section: "!timeline_ins_signatures", regs: false },
        "timeline08" => Lang { key: LanguageKey::Timeline, game: truth::Game::Th08, header: "!eclmap", section: "!timeline_ins_signatures", regs: false },
        _ => panic!("unknown lang {}", name),
    }
}

fn hooks_of(lang: &Lang) -> Box<dyn LanguageHooks> {
    let mut t = TestLanguage::default();
    t.language = lang.key;
    if lang.regs { Box::new(t) } else { Box::new(NoRegs(t)) }
}

fn mapfile_text(lang: &Lang, sigtext: &str, extra: &str) -> String {
    format!("{}\n{}\n{} {}\n{}", lang.header, lang.section, OPCODE, sigtext, extra)
}

fn diag_json(d: &str) -> Value {
    let errors: Vec<&str> = d.lines().filter(|l| l.starts_with("error")).collect();
    let warnings: Vec<&str> = d.lines().filter(|l| l.starts_with("warning")).collect();
    json!({"errors": errors, "warnings": warnings, "full": d.chars().take(600).collect::<String>()})
}

fn out_json<T>(o: Out<T>, f: impl FnOnce(T) -> Value) -> Value {
    match o {
        Out::Ok(x, diag) => { let mut v = f(x); v["diag"] = diag_json(&diag); v },
        Out::Err(d) => json!({"err": diag_json(&d)}),
        Out::Panic(p) => p.json(),
    }
}

/// decompiled statement list -> {"args": [...], "before": [labels before the call], "after": [...]}
fn call_view(stmts: &Value) -> Value {
    let mut before = vec![];
    let mut after = vec![];
    let mut call: Option<Value> = None;
    let mut ncalls = 0;
    for s in stmts.as_array().unwrap() {
        match s["k"].as_str().unwrap_or("") {
            "label" => { if call.is_none() { before.push(s["name"].clone()) } else { after.push(s["name"].clone()) } },
            "expr" if s["e"]["k"] == "call" => { ncalls += 1; call = Some(s["e"].clone()); },
            _ => {},
        }
    }
    match call {
        Some(c) if ncalls == 1 => json!({"args": c["args"], "pseudos": c["pseudos"], "before": before, "after": after}),
        _ => json!({"shape": stmts}),
    }
}

fn raise(truth: &mut truth::Truth, hooks: &dyn LanguageHooks, instrs: Vec<RawInstr>) -> Result<(Value, String), truth::ErrorReported> {
    let emitter = truth.emitter();
    let ctx = truth.ctx();
    let options = Default::default();
    let const_proof = truth::passes::evaluate_const_vars::run(ctx)?;
    let script = llir::RawScript { instrs, file_offset: None };
    let mut raiser = llir::Raiser::new(hooks, ctx.emitter, ctx, &options, const_proof)?;
    let stmts = raiser.raise_instrs_to_sub_ast(&emitter, &script, ctx)?;
    let text = truth::fmt::stringify(&truth::ast::Block(stmts.clone()));
    let exported = Exporter::new(None).stmts(&stmts).unwrap_or_else(|e| json!({"unsupported": e}));
    Ok((exported, text))
}

fn compile(lang: &Lang, map: &str, src: &str) -> Out<Vec<RawInstr>> {
    let hooks = hooks_of(lang);
    with_truth(|truth| {
        truth.apply_mapfile_str(map, lang.game)?;
        let mut block = front_half(truth, src, lang.key, true)?;
        let ctx = truth.ctx();
        truth::passes::evaluate_const_vars::run(ctx)?;
        truth::passes::const_simplify::run(&mut block, ctx)?;
        lower_block(truth, block, &*hooks, lang.key)
    })
}

fn decompile(lang: &Lang, map: &str, instrs: Vec<RawInstr>) -> Out<(Value, String)> {
    let hooks = hooks_of(lang);
    with_truth(|truth| {
        truth.apply_mapfile_str(map, lang.game)?;
        raise(truth, &*hooks, instrs)
    })
}

fn instr_view(instrs: &[RawInstr]) -> Value {
    if instrs.len() != 1 { return json!({"ninstrs": instrs.len(), "instrs": instrs.iter().map(raw_instr_json).collect::<Vec<_>>()}); }
    let i = &instrs[0];
    json!({"blob": i.args_blob, "mask": i.param_mask, "arg0": i.extra_arg.map(|x| x as u16 as i64).unwrap_or(-1), "time": i.time, "opcode": i.opcode})
}

fn run_case(c: &Value) -> Value {
    let lang = lang_of(c["lang"].as_str().unwrap_or("anm"));
    let sigtext = match c.get("sigtext").and_then(|x| x.as_str()) { Some(s) => s.to_string(), None => sig_text(&c["sig"]) };
    let map = mapfile_text(&lang, &sigtext, c["mapextra"].as_str().unwrap_or(""));
    let src = source_text(&c["args"]);
    let mut row = json!({"id": c["id"], "sigtext": sigtext, "src": src});

    // the mapfile on its own: is the signature accepted?
    let m = with_truth(|truth| truth.apply_mapfile_str(&map, lang.game));
    row["map"] = out_json(m, |_| json!({"ok": true}));
    if row["map"].get("ok").is_none() { return row; }

    // encode: source -> RawInstr
    let enc = compile(&lang, &map, &src);
    let real_instrs = match &enc { Out::Ok(v, _) => Some(v.clone()), _ => None };
    row["enc"] = out_json(enc, |v| json!({"ok": instr_view(&v)}));

    // decode what the real encoder wrote
    if let Some(instrs) = real_instrs {
        row["dec"] = out_json(decompile(&lang, &map, instrs), |(v, t)| json!({"ok": call_view(&v), "text": t}));
    }

    // second direction: the specification's bytes -> real Raiser -> text -> real Lowerer
    let exp = &c["exp"];
    if exp["ok"].as_bool() == Some(true) {
        let blob: Vec<u8> = exp["blob"].as_array().unwrap().iter().map(|b| b.as_u64().unwrap() as u8).collect();
        let arg0 = exp["arg0"].as_i64().unwrap_or(-1);
        let instr = RawInstr {
            time: 0, opcode: OPCODE, param_mask: exp["mask"].as_u64().unwrap() as u16, args_blob: blob,
            extra_arg: if arg0 < 0 { None } else { Some(arg0 as u16 as i16) },
            ..RawInstr::DEFAULTS
        };
        let d = decompile(&lang, &map, vec![instr]);
        let text = match &d { Out::Ok((_, t), _) => Some(t.clone()), _ => None };
        row["dec_spec"] = out_json(d, |(v, t)| json!({"ok": call_view(&v), "text": t}));
        if let Some(t) = text {
            row["reenc"] = out_json(compile(&lang, &map, &t), |v| json!({"ok": instr_view(&v)}));
        }
    }
    row
}

fn main() {
    install_panic_hook();
    let args: Vec<String> = std::env::args().skip(1).collect();
    let cases = read_lines(&args[0]);
    let out = std::io::stdout();
    let mut out = std::io::BufWriter::new(out.lock());
    use std::io::Write;
    for c in &cases {
        writeln!(out, "{}", run_case(c)).unwrap();
    }
}
