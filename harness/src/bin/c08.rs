//! C08 driver: build real ASTs from interchange JSON (or take them from the real decompiler / parser),
//! print them with the real formatter at many widths, read the text back with the real parser,
//! print again, and write down what happened as a history of `fmt` / `parse` events.
//!
//! Nothing is judged here.  ASTs and texts are identified by interned ids (equal id <=> equal
//! exported JSON / equal text); where the re-read AST is not identical to the printed one, the
//! first differing *expression* subtrees are written out as `pair` events so that TLC
//! (spec/Trace_FmtParse.tla) can apply `Norm` to both sides; differences outside expressions are
//! flagged `struct`.
//!
//!   c08 gen <cases.ndjson> <widths>          cases = {id, kind, e, ..} from Gen_*.tla
//!   c08 corpus <list.ndjson> <widths>        list = {id, how: "decompile"|"parse"|"compile-decompile", ..}
//! widths: comma list, or `auto` (every width 1..=longest line + 3, plus 200), or `all` (1..=200)

#[macro_use]
extern crate truth;

use std::collections::{BTreeMap, BTreeSet, HashMap};
use std::io::Write;

use serde_json::{json, Map, Value};
use truth::ast;
use truth::Sp;
use vh::common::*;
use vh::export::Exporter;

type R<T> = Result<T, String>;

// ------------------------------------------------------------------------------------------
// JSON -> AST (the inverse of vh::export; purely structural)

fn s<'a>(v: &'a Value, key: &str) -> R<&'a str> { v[key].as_str().ok_or_else(|| format!("missing string '{}' in {}", key, v)) }
fn arr<'a>(v: &'a Value, key: &str) -> R<&'a Vec<Value>> { v[key].as_array().ok_or_else(|| format!("missing array '{}' in {}", key, v)) }
fn int(v: &Value, key: &str) -> R<i32> { v[key].as_i64().map(|x| x as i32).ok_or_else(|| format!("missing int '{}' in {}", key, v)) }
fn ident(name: &str) -> R<truth::Ident> { truth::Ident::new_system(name).map_err(|e| e.to_string()) }
fn res_ident(name: &str) -> R<truth::ident::ResIdent> { Ok(truth::ident::ResIdent::new_null(ident(name)?)) }
fn kw<T: std::str::FromStr>(text: &str) -> R<T> { text.parse::<T>().map_err(|_| format!("bad keyword {:?}", text)) }

fn string_of(v: &Value) -> R<String> {
    if let Some(cps) = v.get("cps").and_then(|c| c.as_array()) {
        let mut out = String::new();
        for c in cps {
            out.push(char::from_u32(c.as_u64().ok_or("bad code point")? as u32).ok_or("bad code point")?);
        }
        return Ok(out);
    }
    Ok(s(v, "v")?.to_string())
}

fn int_format(text: Option<&str>) -> R<ast::IntFormat> {
    let text = match text { None => return Ok(ast::IntFormat::SIGNED), Some(t) => t };
    let signed = match &text[..1] { "s" => true, "u" => false, _ => return Err(format!("bad int format {}", text)) };
    let radix = match &text[1..] {
        "Dec" => ast::IntRadix::Dec, "Hex" => ast::IntRadix::Hex, "Bin" => ast::IntRadix::Bin, "Bool" => ast::IntRadix::Bool,
        _ => return Err(format!("bad int format {}", text)),
    };
    Ok(ast::IntFormat { signed, radix })
}

fn build_var(v: &Value) -> R<ast::Var> {
    let ty_sigil = match s(v, "sig")? { "" => None, "$" => Some(ast::VarSigil::Int), "%" => Some(ast::VarSigil::Float), o => return Err(format!("bad sigil {}", o)) };
    let id = s(v, "id")?;
    let name = if let Some(n) = id.strip_prefix("n:") {
        ast::VarName::new_non_reg(res_ident(n)?)
    } else if let Some(r) = id.strip_prefix('r') {
        ast::VarName::Reg { reg: truth::RegId(r.parse::<i32>().map_err(|e| e.to_string())?), language: None }
    } else { return Err(format!("bad var id {}", id)) };
    Ok(ast::Var { ty_sigil, name })
}

fn bx(v: &Value) -> R<Box<Sp<ast::Expr>>> { Ok(Box::new(sp!(build_expr(v)?))) }

fn build_expr(e: &Value) -> R<ast::Expr> {
    Ok(match s(e, "k")? {
        "int" => ast::Expr::LitInt { value: int(e, "v")?, format: int_format(e.get("fmt").and_then(|f| f.as_str()))? },
        "float" => ast::Expr::LitFloat { value: f32::from_bits(int(e, "bits")? as u32) },
        "str" => ast::Expr::LitString(ast::LitString { string: string_of(e)? }),
        "var" => ast::Expr::Var(sp!(build_var(e)?)),
        "un" => ast::Expr::UnOp(sp!(kw::<ast::UnOpKind>(s(e, "op")?)?), bx(&e["x"])?),
        "bin" => ast::Expr::BinOp(bx(&e["a"])?, sp!(kw::<ast::BinOpKind>(s(e, "op")?)?), bx(&e["b"])?),
        "tern" => ast::Expr::Ternary { cond: bx(&e["c"])?, question: sp!(()), left: bx(&e["a"])?, colon: sp!(()), right: bx(&e["b"])? },
        "ds" => {
            let mut cases = vec![];
            for c in arr(e, "cases")? {
                cases.push(if c["k"] == "hole" { None } else { Some(sp!(build_expr(c)?)) });
            }
            ast::Expr::DiffSwitch(cases)
        },
        "xcr" => ast::Expr::XcrementOp {
            op: sp!(kw::<ast::XcrementOpKind>(s(e, "op")?)?),
            order: match s(e, "order")? { "pre" => ast::XcrementOpOrder::Pre, _ => ast::XcrementOpOrder::Post },
            var: sp!(build_var(&e["var"])?),
        },
        "labelprop" => ast::Expr::LabelProperty { label: sp!(ident(s(e, "label")?)?), keyword: sp!(kw(s(e, "kw")?)?) },
        "enum" => ast::Expr::EnumConst { enum_name: sp!(ident(s(e, "enum")?)?), ident: sp!(res_ident(s(e, "ident")?)?) },
        "call" => {
            let name = if let Some(op) = e["name"]["ins"].as_u64() {
                ast::CallableName::Ins { opcode: op as u16, language: None }
            } else {
                ast::CallableName::Normal { ident: res_ident(s(&e["name"], "name")?)?, language_if_ins: None }
            };
            let mut pseudos = vec![];
            for p in arr(e, "pseudos")? {
                pseudos.push(sp!(ast::PseudoArg { at_sign: sp!(()), kind: sp!(kw(s(p, "kind")?)?), eq_sign: sp!(()), value: sp!(build_expr(&p["v"])?) }));
            }
            let mut args = vec![];
            for a in arr(e, "args")? { args.push(sp!(build_expr(a)?)); }
            ast::Expr::Call(ast::ExprCall { name: sp!(name), pseudos, args })
        },
        k => return Err(format!("cannot build expr kind {}", k)),
    })
}

fn build_block(v: &Value) -> R<ast::Block> {
    let mut out = vec![];
    for st in v.as_array().ok_or("block is not an array")? { out.push(sp!(build_stmt(st)?)); }
    Ok(ast::Block(out))
}

fn build_jump(st: &Value) -> R<ast::StmtJumpKind> {
    Ok(match s(st, "jump")? {
        "goto" => ast::StmtJumpKind::Goto(ast::StmtGoto {
            destination: sp!(ident(s(st, "label")?)?),
            time: match st.get("time") { Some(t) => Some(sp!(t.as_i64().ok_or("bad time")? as i32)), None => None },
        }),
        other => ast::StmtJumpKind::BreakContinue { keyword: sp!(kw(other)?), loop_id: None },
    })
}

fn build_stmt(st: &Value) -> R<ast::Stmt> {
    let kind = match s(st, "k")? {
        "nop" => ast::StmtKind::NoInstruction,
        "item" => ast::StmtKind::Item(Box::new(sp!(build_item(&st["item"])?))),
        "jump" => ast::StmtKind::Jump(build_jump(st)?),
        "condjump" => ast::StmtKind::CondJump { keyword: sp!(kw(s(st, "kw")?)?), cond: sp!(build_expr(&st["cond"])?), jump: build_jump(st)? },
        "return" => ast::StmtKind::Return { keyword: sp!(()), value: match st.get("value") { Some(v) => Some(sp!(build_expr(v)?)), None => None } },
        "chain" => {
            let mut cond_blocks = vec![];
            for b in arr(st, "blocks")? {
                cond_blocks.push(ast::CondBlock { keyword: sp!(kw(s(b, "kw")?)?), cond: sp!(build_expr(&b["cond"])?), block: build_block(&b["body"])? });
            }
            let else_block = match st.get("else") { Some(b) => Some(build_block(b)?), None => None };
            ast::StmtKind::CondChain(ast::StmtCondChain { cond_blocks, else_block })
        },
        "loop" => ast::StmtKind::Loop { loop_id: None, keyword: sp!(()), block: build_block(&st["body"])? },
        "while" => ast::StmtKind::While {
            loop_id: None, while_keyword: sp!(()),
            do_keyword: if st["do"].as_bool().unwrap_or(false) { Some(sp!(())) } else { None },
            cond: sp!(build_expr(&st["cond"])?), block: build_block(&st["body"])?,
        },
        "times" => ast::StmtKind::Times {
            loop_id: None, keyword: sp!(()),
            clobber: match st.get("clobber") { Some(c) => Some(sp!(build_var(c)?)), None => None },
            count: sp!(build_expr(&st["count"])?), block: build_block(&st["body"])?,
        },
        "expr" => ast::StmtKind::Expr(sp!(build_expr(&st["e"])?)),
        "block" => ast::StmtKind::Block(build_block(&st["body"])?),
        "assign" => ast::StmtKind::Assignment { var: sp!(build_var(&st["var"])?), op: sp!(kw(s(st, "op")?)?), value: sp!(build_expr(&st["value"])?) },
        "decl" => {
            let mut vars = vec![];
            for v in arr(st, "vars")? {
                let init = match v.get("init") { Some(i) => Some(sp!(build_expr(i)?)), None => None };
                vars.push(sp!((sp!(build_var(&v["var"])?), init)));
            }
            ast::StmtKind::Declaration { ty_keyword: sp!(kw(s(st, "ty")?)?), vars }
        },
        "callsub" => {
            let mut args = vec![];
            for a in arr(st, "args")? { args.push(sp!(build_expr(a)?)); }
            let async_ = match (st.get("async"), st.get("async_id")) {
                (_, Some(e)) => Some(ast::CallAsyncKind::CallAsyncId(Box::new(sp!(build_expr(e)?)))),
                (Some(_), None) => Some(ast::CallAsyncKind::CallAsync),
                _ => None,
            };
            ast::StmtKind::CallSub { at_symbol: st["at"].as_bool().unwrap_or(false), async_, func: sp!(ident(s(st, "func")?)?), args }
        },
        "interrupt" => ast::StmtKind::InterruptLabel(sp!(build_expr(&st["e"])?)),
        "abs" => ast::StmtKind::AbsTimeLabel(sp!(int(st, "t")?)),
        "rel" => ast::StmtKind::RelTimeLabel { delta: sp!(build_expr(&st["e"])?), _absolute_time_comment: None },
        "label" => ast::StmtKind::Label(sp!(ident(s(st, "name")?)?)),
        k => return Err(format!("cannot build stmt kind {}", k)),
    };
    let diff_label = match st.get("diff") {
        Some(d) => Some(sp!(ast::DiffLabel { mask: None, string: sp!(ast::LitString { string: d.as_str().ok_or("bad diff")?.to_string() }) })),
        None => None,
    };
    Ok(ast::Stmt { node_id: None, diff_label, offset_comment: None, kind })
}

fn build_fields(v: &Value) -> R<ast::meta::Fields> {
    let mut out: ast::meta::Fields = Default::default();
    for pair in v.as_array().ok_or("fields is not an array")? {
        out.insert(sp!(ident(pair[0].as_str().ok_or("bad key")?)?), sp!(build_meta(&pair[1])?));
    }
    Ok(out)
}

fn build_meta(m: &Value) -> R<ast::Meta> {
    Ok(match s(m, "k")? {
        "scalar" => ast::Meta::Scalar(sp!(build_expr(&m["e"])?)),
        "object" => ast::Meta::Object(sp!(build_fields(&m["fields"])?)),
        "array" => {
            let mut items = vec![];
            for x in arr(m, "items")? { items.push(sp!(build_meta(x)?)); }
            ast::Meta::Array(items)
        },
        "variant" => ast::Meta::Variant { name: sp!(ident(s(m, "name")?)?), fields: sp!(build_fields(&m["fields"])?) },
        k => return Err(format!("cannot build meta kind {}", k)),
    })
}

fn build_item(it: &Value) -> R<ast::Item> {
    Ok(match s(it, "k")? {
        "const" => {
            let mut vars = vec![];
            for v in arr(it, "vars")? { vars.push(sp!((sp!(build_var(&v["var"])?), sp!(build_expr(&v["init"])?)))); }
            ast::Item::ConstVar { ty_keyword: sp!(kw(s(it, "ty")?)?), vars }
        },
        "meta" => ast::Item::Meta { keyword: sp!(kw(s(it, "kw")?)?), fields: sp!(build_fields(&it["fields"])?) },
        "script" => ast::Item::Script {
            keyword: sp!(()),
            number: match it.get("number").and_then(|n| n.as_i64()) { Some(n) => Some(sp!(n as i32)), None => None },
            ident: sp!(ident(s(it, "name")?)?), code: build_block(&it["body"])?,
        },
        "func" => {
            let mut params = vec![];
            for p in arr(it, "params")? {
                let id = match p.get("name").and_then(|n| n.as_str()) { Some(n) => Some(sp!(res_ident(n)?)), None => None };
                params.push(sp!(ast::FuncParam { qualifier: None, ty_keyword: sp!(kw(s(p, "ty")?)?), ident: id }));
            }
            ast::Item::Func(ast::ItemFunc {
                qualifier: match it.get("qual").and_then(|q| q.as_str()) { Some(q) => Some(sp!(kw(q)?)), None => None },
                ty_keyword: sp!(kw(s(it, "ty")?)?), ident: sp!(res_ident(s(it, "name")?)?), params,
                code: match it.get("body") { Some(b) => Some(build_block(b)?), None => None },
            })
        },
        k => return Err(format!("cannot build item kind {}", k)),
    })
}

fn build_file(f: &Value) -> R<ast::ScriptFile> {
    let strs = |key: &str| -> R<Vec<Sp<ast::LitString>>> {
        let mut out = vec![];
        for x in arr(f, key)? { out.push(sp!(ast::LitString { string: x.as_str().ok_or("bad string")?.to_string() })); }
        Ok(out)
    };
    let mut items = vec![];
    for it in arr(f, "items")? { items.push(sp!(build_item(it)?)); }
    Ok(ast::ScriptFile { mapfiles: strs("mapfiles")?, image_sources: strs("image_sources")?, items })
}

// ------------------------------------------------------------------------------------------
// Self-test only (VERIF_C08_MUTATE): pretend the formatter had a defect by editing its output, to see
// that the check notices.  Never set by the registered commands.

/// remove the parenthesis that starts at `open` and its partner
fn drop_parens_at(text: &str, open: usize) -> String {
    let bytes = text.as_bytes();
    let mut depth = 0;
    for i in open..bytes.len() {
        match bytes[i] { b'(' => depth += 1, b')' => { depth -= 1; if depth == 0 {
            return format!("{}{}{}", &text[..open], &text[open + 1..i], &text[i + 1..]);
        } }, _ => {} }
    }
    text.to_string()
}

fn mutate(text: String) -> String {
    match std::env::var("VERIF_C08_MUTATE").as_deref() {
        Ok("glue-minus") => match text.find("-(-") { Some(i) => drop_parens_at(&text, i + 1), None => text },
        Ok("float-int") => text.replace("1.0", "1"),
        Ok("right-assoc") => match text.find(" - (") { Some(i) => drop_parens_at(&text, i + 3), None => text },
        Ok("tern-cond") => if text.starts_with("((") && text.contains(") ? ") { drop_parens_at(&text, 1) } else { text },
        Ok("drop-nul") => text.replace("\\0", ""),
        Ok("drop-space") => text.replace(" - -", " --"),
        _ => text,
    }
}

// ------------------------------------------------------------------------------------------
// One type over everything that can be printed and parsed

#[derive(Clone)]
enum Node { Expr(ast::Expr), Stmt(ast::Stmt), Block(ast::Block), Meta(ast::Meta), Item(ast::Item), File(ast::ScriptFile) }

impl Node {
    fn build(kind: &str, v: &Value) -> R<Node> {
        Ok(match kind {
            "expr" => Node::Expr(build_expr(v)?), "stmt" => Node::Stmt(build_stmt(v)?), "block" => Node::Block(build_block(v)?),
            "meta" => Node::Meta(build_meta(v)?), "item" => Node::Item(build_item(v)?), "file" => Node::File(build_file(v)?),
            k => return Err(format!("unknown case kind {}", k)),
        })
    }
    fn export(&self) -> R<Value> {
        let mut ex = Exporter::new(None);
        ex.with_format = true;
        let v = match self {
            Node::Expr(x) => ex.expr(x)?, Node::Stmt(x) => ex.stmt(x)?, Node::Block(x) => ex.block(x)?,
            Node::Meta(x) => ex.meta(x)?, Node::Item(x) => ex.item(x)?, Node::File(x) => ex.script_file(x)?,
        };
        Ok(project(&v))
    }
    fn format(&self, w: usize) -> Result<String, PanicInfo> {
        self.format_real(w).map(|t| mutate(t))
    }
    fn format_real(&self, w: usize) -> Result<String, PanicInfo> {
        let cfg = truth::fmt::Config::new().max_columns(w);
        guarded(|| match self {
            Node::Expr(x) => truth::fmt::stringify_with(x, cfg), Node::Stmt(x) => truth::fmt::stringify_with(x, cfg),
            Node::Block(x) => truth::fmt::stringify_with(x, cfg), Node::Meta(x) => truth::fmt::stringify_with(x, cfg),
            Node::Item(x) => truth::fmt::stringify_with(x, cfg), Node::File(x) => truth::fmt::stringify_with(x, cfg),
        })
    }
    fn parse_like(&self, text: &str) -> Out<Node> {
        with_truth(|t| Ok(match self {
            Node::Expr(_) => Node::Expr(t.parse::<ast::Expr>("<input>", text.as_bytes())?.value),
            Node::Stmt(_) => Node::Stmt(t.parse::<ast::Stmt>("<input>", text.as_bytes())?.value),
            Node::Block(_) => Node::Block(t.parse::<ast::Block>("<input>", text.as_bytes())?.value),
            Node::Meta(_) => Node::Meta(t.parse::<ast::Meta>("<input>", text.as_bytes())?.value),
            Node::Item(_) => Node::Item(t.parse::<ast::Item>("<input>", text.as_bytes())?.value),
            Node::File(_) => Node::File(t.parse::<ast::ScriptFile>("<input>", text.as_bytes())?.value),
        }))
    }
}

/// Comments the decompiler attaches to statements (`+10: // 40`, instruction offsets).  They are printed
/// but are not part of the script, so the exporter does not show them; the recorder needs to know
/// that two ASTs with the same export may still print differently.
struct Comments(usize);
impl ast::Visit for Comments {
    fn visit_stmt(&mut self, st: &Sp<ast::Stmt>) {
        if st.offset_comment.is_some() { self.0 += 1; }
        if let ast::StmtKind::RelTimeLabel { _absolute_time_comment: Some(_), .. } = &st.kind { self.0 += 1; }
        ast::walk_stmt(self, st)
    }
}
fn count_comments(node: &Node) -> usize {
    use ast::Visit;
    let mut v = Comments(0);
    match node {
        Node::File(f) => v.visit_file(f),
        Node::Block(b) => v.visit_block(b),
        Node::Item(i) => v.visit_item(&sp!(i.clone())),
        Node::Stmt(st) => v.visit_stmt(&sp!(st.clone())),
        _ => {},
    }
    v.0
}

// ------------------------------------------------------------------------------------------
// Structural projection, canonical text, structural diff

/// Drop what is not syntax (node ids, cached masks, nulls); floats by bit pattern only; strings by code points.
fn project(v: &Value) -> Value {
    match v {
        Value::Object(m) => {
            let k = m.get("k").and_then(|k| k.as_str());
            if k == Some("float") { return json!({"k": "float", "bits": m["bits"]}); }
            if k == Some("str") {
                if let Some(text) = m.get("v").and_then(|t| t.as_str()) {
                    return json!({"k": "str", "cps": text.chars().map(|c| c as u32).collect::<Vec<_>>()});
                }
            }
            let mut out = Map::new();
            for (key, val) in m {
                if key == "nid" || key == "diffmask" || val.is_null() { continue; }
                out.insert(key.clone(), project(val));
            }
            Value::Object(out)
        },
        Value::Array(a) => Value::Array(a.iter().map(project).collect()),
        other => other.clone(),
    }
}

fn canonical(v: &Value, out: &mut String) {
    match v {
        Value::Object(m) => {
            let sorted: BTreeMap<&String, &Value> = m.iter().collect();
            out.push('{');
            for (i, (k, val)) in sorted.iter().enumerate() {
                if i > 0 { out.push(','); }
                out.push_str(&serde_json::to_string(k).unwrap());
                out.push(':');
                canonical(val, out);
            }
            out.push('}');
        },
        Value::Array(a) => {
            out.push('[');
            for (i, x) in a.iter().enumerate() { if i > 0 { out.push(','); } canonical(x, out); }
            out.push(']');
        },
        other => out.push_str(&other.to_string()),
    }
}
fn canon(v: &Value) -> String { let mut out = String::new(); canonical(v, &mut out); out }

const EXPR_KINDS: &[&str] = &["int", "float", "str", "var", "un", "bin", "tern", "ds", "hole", "xcr", "call", "labelprop", "enum"];
fn is_expr(v: &Value) -> bool { v.get("k").and_then(|k| k.as_str()).map(|k| EXPR_KINDS.contains(&k)).unwrap_or(false) }
fn is_container(v: &Value) -> bool { v.is_object() || v.is_array() }

struct Diff { pairs: Vec<(Value, Value)>, strukt: Vec<(Value, Value)> }

/// Descend while both sides have the same shape; report the nearest enclosing pair of expression
/// nodes of every difference (or a structural difference when there is none).
fn diff(a: &Value, b: &Value, enclosing: Option<(&Value, &Value)>, out: &mut Diff) {
    if a == b { return; }
    let emit = |out: &mut Diff| match enclosing {
        Some((x, y)) => { if !out.pairs.iter().any(|(p, q)| p == x && q == y) { out.pairs.push((x.clone(), y.clone())); } },
        None => { if out.strukt.len() < 3 { out.strukt.push((a.clone(), b.clone())); } },
    };
    match (a, b) {
        (Value::Object(ma), Value::Object(mb)) => {
            let enclosing = if is_expr(a) && is_expr(b) { Some((a, b)) } else { enclosing };
            let emit_here = |out: &mut Diff| match enclosing {
                Some((x, y)) => { if !out.pairs.iter().any(|(p, q)| p == x && q == y) { out.pairs.push((x.clone(), y.clone())); } },
                None => { if out.strukt.len() < 3 { out.strukt.push((a.clone(), b.clone())); } },
            };
            let same_keys = ma.len() == mb.len() && ma.keys().all(|k| mb.contains_key(k));
            let shallow = same_keys && ma.iter().all(|(k, va)| {
                let vb = &mb[k];
                match (va, vb) {
                    (Value::Array(x), Value::Array(y)) => x.len() == y.len(),
                    (Value::Object(_), Value::Object(_)) => true,
                    _ => !is_container(va) && !is_container(vb) && va == vb,
                }
            });
            if !shallow { emit_here(out); return; }
            for (k, va) in ma { if is_container(va) { diff(va, &mb[k], enclosing, out); } }
        },
        (Value::Array(xa), Value::Array(xb)) if xa.len() == xb.len() => {
            for (x, y) in xa.iter().zip(xb) { diff(x, y, enclosing, out); }
        },
        _ => emit(out),
    }
}

// ------------------------------------------------------------------------------------------
// Histories

#[derive(Default)]
struct Interner { ids: HashMap<String, usize> }
impl Interner {
    fn id(&mut self, key: String) -> usize { let n = self.ids.len() + 1; *self.ids.entry(key).or_insert(n) }
}

struct Recorder { asts: Interner, texts: Interner }

fn widths_for(spec: &str, node: &Node) -> Vec<usize> {
    match spec {
        "all" => (1..=200).collect(),
        "auto" => {
            let longest = match node.format(200) { Ok(t) => t.lines().map(|l| l.chars().count()).max().unwrap_or(0), Err(_) => 40 };
            let mut ws: BTreeSet<usize> = (1..=(longest + 3).min(200)).collect();
            ws.insert(200);
            ws.into_iter().collect()
        },
        list => list.split(',').map(|x| x.parse().expect("bad width")).collect(),
    }
}

/// Format `node` at every width, parse every distinct text back, format the results again.
/// Appends events; returns the re-read nodes that differ from `node` (next generation).
fn round(rec: &mut Recorder, node: &Node, gen: usize, widths: &[usize], evs: &mut Vec<Value>, texts: &mut BTreeMap<usize, String>,
         pair_ids: &mut Interner, notes: &mut Vec<Value>) -> Vec<Node> {
    let exported = match node.export() { Ok(v) => v, Err(e) => { evs.push(json!({"ev": "unsupported", "why": e})); return vec![]; } };
    let ncomments = count_comments(node);
    let a0 = rec.asts.id(if ncomments > 0 { format!("{}#comments={}", canon(&exported), ncomments) } else { canon(&exported) });
    if ncomments > 0 { notes.push(json!({"a": a0, "comments": ncomments})); }
    // Format(a, w)
    let mut by_text: BTreeMap<usize, Vec<usize>> = BTreeMap::new();
    let mut order = vec![];
    for &w in widths {
        match node.format(w) {
            Ok(text) => {
                let t = rec.texts.id(text.clone());
                if !by_text.contains_key(&t) { order.push(t); texts.insert(t, text); }
                by_text.entry(t).or_default().push(w);
            },
            Err(p) => evs.push(json!({"ev": "panic", "op": "fmt", "a": a0, "w": w, "gen": gen, "loc": p.site(), "msg": first_line(&p.msg)})),
        }
    }
    for t in &order { evs.push(json!({"ev": "fmt", "a": a0, "ws": by_text[t], "t": t, "gen": gen})); }
    // determinism: once more at the first width
    if let (Some(&w), Some(t0)) = (widths.first(), order.first()) {
        if by_text[t0].contains(&w) {
            if let Ok(text) = node.format(w) {
                let t = rec.texts.id(text.clone());
                texts.entry(t).or_insert(text);
                evs.push(json!({"ev": "fmt", "a": a0, "ws": [w], "t": t, "gen": gen}));
            }
        }
    }
    // Parse(text), then Format(Parse(text), w)
    let mut next = vec![];
    for t in &order {
        match node.parse_like(&texts[t]) {
            Out::Ok(reread, _diag) => {
                let reexported = match reread.export() { Ok(v) => v, Err(e) => { evs.push(json!({"ev": "unsupported", "why": e})); continue; } };
                let a1 = rec.asts.id(canon(&reexported));
                let mut d = Diff { pairs: vec![], strukt: vec![] };
                diff(&exported, &reexported, None, &mut d);
                let mut ps = vec![];
                for (x, y) in &d.pairs {
                    let before = pair_ids.ids.len();
                    let p = pair_ids.id(format!("{}|{}", canon(x), canon(y)));
                    if pair_ids.ids.len() > before { evs.push(json!({"ev": "pair", "p": p, "a": x, "b": y})); }
                    ps.push(p);
                }
                if !d.strukt.is_empty() { notes.push(json!({"t": t, "struct": d.strukt.iter().map(|(x, y)| json!([x, y])).collect::<Vec<_>>()})); }
                evs.push(json!({"ev": "parse", "t": t, "ok": true, "a": a1, "vs": a0, "pairs": ps, "struct": !d.strukt.is_empty(), "gen": gen}));
                let mut by_text2: BTreeMap<usize, Vec<usize>> = BTreeMap::new();
                let mut order2 = vec![];
                for &w in &by_text[t] {
                    match reread.format(w) {
                        Ok(text) => {
                            let t2 = rec.texts.id(text.clone());
                            if !by_text2.contains_key(&t2) { order2.push(t2); texts.entry(t2).or_insert(text); }
                            by_text2.entry(t2).or_default().push(w);
                        },
                        Err(p) => evs.push(json!({"ev": "panic", "op": "fmt", "a": a1, "w": w, "gen": gen + 1, "loc": p.site(), "msg": first_line(&p.msg)})),
                    }
                }
                for t2 in &order2 { evs.push(json!({"ev": "fmt", "a": a1, "ws": by_text2[t2], "t": t2, "gen": gen + 1})); }
                if a1 != a0 && !next.iter().any(|(id, _)| *id == a1) { next.push((a1, reread)); }
            },
            Out::Err(diag) => {
                notes.push(json!({"t": t, "error": diag.chars().take(600).collect::<String>()}));
                evs.push(json!({"ev": "parse", "t": t, "ok": false, "vs": a0, "gen": gen}));
            },
            Out::Panic(p) => evs.push(json!({"ev": "panic", "op": "parse", "t": t, "gen": gen, "loc": p.site(), "msg": first_line(&p.msg)})),
        }
    }
    next.into_iter().map(|(_, n)| n).collect()
}

fn history(rec: &mut Recorder, node: &Node, widths_spec: &str, extra: Value) -> Value {
    let widths = widths_for(widths_spec, node);
    let mut evs = vec![];
    let mut texts = BTreeMap::new();
    let mut pair_ids = Interner::default();
    let mut notes = vec![];
    let next = round(rec, node, 0, &widths, &mut evs, &mut texts, &mut pair_ids, &mut notes);
    for n in next.iter().take(4) {
        // the re-read tree is itself something the parser can produce: same obligations
        round(rec, n, 1, &widths, &mut evs, &mut texts, &mut pair_ids, &mut notes);
    }
    let mut out = json!({"evs": evs, "texts": texts.iter().map(|(k, v)| (k.to_string(), json!(v))).collect::<Map<String, Value>>(), "notes": notes,
                         "nwidths": widths.len()});
    for (k, v) in extra.as_object().unwrap() { out[k] = v.clone(); }
    out
}

// ------------------------------------------------------------------------------------------
// gen: cases from TLC

fn tokens_text(toks: &Value) -> String {
    let mut out = String::new();
    for t in toks.as_array().unwrap() {
        if t["sp"].as_bool().unwrap_or(false) { out.push(' '); }
        out.push_str(t["s"].as_str().unwrap());
    }
    out
}

fn run_gen(path: &str, widths: &str) {
    let cases = read_lines(path);
    let stdout = std::io::stdout();
    let mut out = std::io::BufWriter::new(stdout.lock());
    let mut rec = Recorder { asts: Interner::default(), texts: Interner::default() };
    for c in &cases {
        let kind = c["kind"].as_str().unwrap();
        let tree = project(&c["e"]);
        let node = match Node::build(kind, &tree) {
            Ok(n) => n,
            Err(e) => { eprintln!("case {}: cannot build: {}", c["id"], e); std::process::exit(4); },
        };
        // the builder is part of the trusted base: what it built must export as what TLC asked for
        let back = node.export().unwrap_or_else(|e| { eprintln!("case {}: export: {}", c["id"], e); std::process::exit(4) });
        if back != tree {
            eprintln!("case {}: built AST exports differently\n want {}\n got  {}", c["id"], canon(&tree), canon(&back));
            std::process::exit(4);
        }
        let w = c.get("widths").and_then(|w| w.as_str()).unwrap_or(widths);
        let mut row = history(&mut rec, &node, w, json!({"id": c["id"]}));
        // the model's own minimal spelling through the real lexer and parser
        if let Some(toks) = c.get("toks") {
            let text = tokens_text(toks);
            let evs = row["evs"].as_array_mut().unwrap();
            let t = rec.texts.id(format!("model:{}", text));
            let a0 = rec.asts.id(canon(&tree));
            match node.parse_like(&text) {
                Out::Ok(reread, _) => {
                    let reexported = reread.export().unwrap();
                    let a1 = rec.asts.id(canon(&reexported));
                    let mut d = Diff { pairs: vec![], strukt: vec![] };
                    diff(&tree, &reexported, None, &mut d);
                    let mut ps = vec![];
                    for (i, (x, y)) in d.pairs.iter().enumerate() {
                        let p = 100000 + i;
                        evs.push(json!({"ev": "pair", "p": p, "a": x, "b": y}));
                        ps.push(p);
                    }
                    evs.push(json!({"ev": "parse", "t": t, "ok": true, "a": a1, "vs": a0, "pairs": ps, "struct": !d.strukt.is_empty(), "model": true, "gen": 0}));
                },
                Out::Err(diag) => {
                    row["notes"].as_array_mut().unwrap().push(json!({"t": t, "error": diag.chars().take(600).collect::<String>()}));
                    row["evs"].as_array_mut().unwrap().push(json!({"ev": "parse", "t": t, "ok": false, "vs": a0, "model": true, "gen": 0}));
                },
                Out::Panic(p) => evs.push(json!({"ev": "panic", "op": "parse", "t": t, "gen": 0, "loc": p.site(), "msg": first_line(&p.msg)})),
            }
            row["texts"][t.to_string()] = json!(text);
        }
        writeln!(out, "{}", row).unwrap();
    }
}

// ------------------------------------------------------------------------------------------
// corpus: ASTs from the real decompiler and the real parser

fn language_maps(ext: &str) -> (truth::LanguageKey, &'static str) {
    match ext {
        "anm" => (truth::LanguageKey::Anm, "/repo/map/any.anmm"),
        "std" => (truth::LanguageKey::Std, "/repo/map/any.stdm"),
        _ => (truth::LanguageKey::Msg, "/repo/map/any.msgm"),
    }
}

fn decompile_options(variant: &str) -> truth::DecompileOptions {
    let mut o = truth::DecompileOptions::new();
    match variant {
        "raw" => { o.arguments = false; o.intrinsics = false; o.blocks = false; },
        "noblocks" => { o.blocks = false; o.intrinsics = false; },
        _ => {},
    }
    o
}

fn decompile(path: &str, game: &str, variant: &str, user_map: bool) -> Out<ast::ScriptFile> {
    let ext = path.rsplit('.').next().unwrap_or("").to_string();
    let (lang, map) = language_maps(&ext);
    let options = decompile_options(variant);
    with_truth(|truth| {
        let game: truth::Game = game.parse().map_err(|e| truth.emit(e))?;
        let core = truth::verif_hooks::core_mapfile(truth.ctx().emitter, game, lang);
        truth.apply_mapfile(&core, game)?;
        if user_map { truth.load_mapfile(std::path::Path::new(map), game)?; }
        let mut truth = truth.validate_defs()?;
        let p = std::path::Path::new(path);
        match ext.as_str() {
            "anm" => { let f = truth.read_anm(game, p, false)?; truth.decompile_anm(game, &f, &options) },
            "std" => { let f = truth.read_std(game, p)?; truth.decompile_std(game, &f, &options) },
            _ => { let f = truth.read_msg(game, lang, p)?; truth.decompile_msg(game, lang, &f, &options) },
        }
    })
}

/// ANM source text -> real compiler -> bytes in memory -> real decompiler
fn compile_decompile_anm(source: &str, game: &str, variant: &str, scratch: &str) -> Out<ast::ScriptFile> {
    let options = decompile_options(variant);
    let path = std::path::PathBuf::from(scratch);
    with_truth(|truth| {
        let game: truth::Game = game.parse().map_err(|e| truth.emit(e))?;
        let core = truth::verif_hooks::core_mapfile(truth.ctx().emitter, game, truth::LanguageKey::Anm);
        truth.apply_mapfile(&core, game)?;
        truth.load_mapfile(std::path::Path::new("/repo/map/any.anmm"), game)?;
        let ast = truth.parse::<ast::ScriptFile>("<input>", source.as_bytes())?.value;
        let mut truth = truth.validate_defs()?;
        let working = truth.compile_anm(game, &ast)?;
        let anm = truth.finalize_anm(game, working)?;
        truth.write_anm(game, &path, &anm)?;
        let f = truth.read_anm(game, &path, false)?;
        truth.decompile_anm(game, &f, &options)
    })
}

fn run_corpus(path: &str, widths: &str) {
    let list = read_lines(path);
    let stdout = std::io::stdout();
    let mut out = std::io::BufWriter::new(stdout.lock());
    let mut rec = Recorder { asts: Interner::default(), texts: Interner::default() };
    for c in &list {
        let how = c["how"].as_str().unwrap();
        let extra = json!({"id": c["id"]});
        let node = match how {
            "decompile" => decompile(c["path"].as_str().unwrap(), c["game"].as_str().unwrap(), c["variant"].as_str().unwrap_or("default"),
                                      c["map"].as_bool().unwrap_or(true)).map_node(Node::File),
            "compile-decompile" => compile_decompile_anm(c["source"].as_str().unwrap(), c["game"].as_str().unwrap(),
                                      c["variant"].as_str().unwrap_or("default"), c["scratch"].as_str().unwrap()).map_node(Node::File),
            "parse" => {
                let text = c["source"].as_str().unwrap();
                let shape = match c["as"].as_str().unwrap() {
                    "file" => Node::File(ast::ScriptFile { mapfiles: vec![], image_sources: vec![], items: vec![] }),
                    "block" => Node::Block(ast::Block(vec![])),
                    "meta" => Node::Meta(ast::Meta::Array(vec![])),
                    _ => Node::Expr(ast::Expr::LitInt { value: 0, format: ast::IntFormat::SIGNED }),
                };
                shape.parse_like(text)
            },
            other => { eprintln!("unknown corpus entry {}", other); std::process::exit(4) },
        };
        let row = match node {
            Out::Ok(n, _) => history(&mut rec, &n, c.get("widths").and_then(|w| w.as_str()).unwrap_or(widths), extra),
            Out::Err(d) => json!({"id": c["id"], "rejected": first_line(&d)}),
            Out::Panic(p) => json!({"id": c["id"], "source_panic": p.json()}),
        };
        writeln!(out, "{}", row).unwrap();
    }
}

trait MapNode<T> { fn map_node(self, f: impl FnOnce(T) -> Node) -> Out<Node>; }
impl<T> MapNode<T> for Out<T> {
    fn map_node(self, f: impl FnOnce(T) -> Node) -> Out<Node> {
        match self { Out::Ok(x, d) => Out::Ok(f(x), d), Out::Err(d) => Out::Err(d), Out::Panic(p) => Out::Panic(p) }
    }
}

fn main() {
    install_panic_hook();
    let args: Vec<String> = std::env::args().skip(1).collect();
    match args.get(0).map(|x| x.as_str()) {
        Some("gen") => run_gen(&args[1], &args[2]),
        Some("corpus") => run_corpus(&args[1], &args[2]),
        _ => { eprintln!("usage: c08 gen|corpus FILE WIDTHS"); std::process::exit(3) },
    }
}
