//! `vh` — the verification harness.  It generates nothing semantic and judges nothing: it renders
//! TLC-generated cases to source, drives the real truth code and serialises what it observed.
mod common;
mod export;
mod render;
mod lang;
mod c11;
mod c06;

fn main() {
    common::install_panic_hook();
    let args: Vec<String> = std::env::args().skip(1).collect();
    if args.is_empty() { eprintln!("usage: vh <subcommand> ..."); std::process::exit(2); }
    let rest = &args[1..];
    match args[0].as_str() {
        "c11" => c11::main(rest),
        "c06" => c06::main(rest),
        other => { eprintln!("unknown subcommand {}", other); std::process::exit(2); },
    }
}
