//! Shared plumbing: panic capture, Truth construction, the generic front half of the pipeline.

use std::cell::RefCell;
use std::panic::{self, AssertUnwindSafe};

use serde_json::{json, Value};
use truth::{ast, llir, Truth};
use truth::llir::RawInstr;

thread_local! {
    static LAST_PANIC: RefCell<Option<(String, String)>> = RefCell::new(None);
}

pub fn install_panic_hook() {
    panic::set_hook(Box::new(|info| {
        let loc = info.location().map(|l| format!("{}:{}", l.file(), l.line())).unwrap_or_default();
        let msg = if let Some(s) = info.payload().downcast_ref::<&str>() { s.to_string() }
            else if let Some(s) = info.payload().downcast_ref::<String>() { s.clone() }
            else { "<non-string panic>".to_string() };
        LAST_PANIC.with(|p| *p.borrow_mut() = Some((loc, msg)));
    }));
}

#[derive(Debug, Clone)]
pub struct PanicInfo { pub loc: String, pub msg: String }

impl PanicInfo {
    pub fn json(&self) -> Value { json!({"panic": {"loc": self.loc, "msg": first_line(&self.msg)}}) }
    /// file:line of the panic site with the path made relative to the repo
    pub fn site(&self) -> String {
        // relative to the repository root, wherever the tree under test lives
        match self.loc.find("/src/") {
            Some(i) if self.loc.starts_with('/') && !self.loc.starts_with("/rustc/") => self.loc[i + 1..].to_string(),
            _ => self.loc.trim_start_matches("/repo/").to_string(),
        }
    }
}

pub fn first_line(s: &str) -> String { s.lines().next().unwrap_or("").chars().take(200).collect() }

/// Run code under test; a panic is data.
pub fn guarded<T>(f: impl FnOnce() -> T) -> Result<T, PanicInfo> {
    LAST_PANIC.with(|p| *p.borrow_mut() = None);
    match panic::catch_unwind(AssertUnwindSafe(f)) {
        Ok(x) => Ok(x),
        Err(_) => {
            let (loc, msg) = LAST_PANIC.with(|p| p.borrow_mut().take()).unwrap_or_default();
            Err(PanicInfo { loc, msg })
        },
    }
}

/// Result of driving some part of truth: value, rendered diagnostics (error), or panic.
pub enum Out<T> { Ok(T, String), Err(String), Panic(PanicInfo) }

/// Build a fresh compiler instance with captured diagnostics and run `f` on it.
pub fn with_truth<T>(f: impl FnOnce(&mut Truth) -> Result<T, truth::ErrorReported>) -> Out<T> {
    truth::setup_for_test_harness();
    let r = guarded(|| {
        let mut scope = truth::Builder::new().capture_diagnostics(true).build();
        let mut truth = scope.truth();
        match f(&mut truth) {
            Ok(x) => Ok((x, truth.get_captured_diagnostics().unwrap_or_default())),
            Err(e) => { e.ignore(); Err(truth.get_captured_diagnostics().unwrap_or_default()) },
        }
    });
    match r {
        Ok(Ok((x, d))) => Out::Ok(x, d),
        Ok(Err(d)) => Out::Err(d),
        Err(p) => Out::Panic(p),
    }
}

/// parse -> assign_languages -> resolve_names -> type_check -> aliases_to_raw -> compute_diff_label_masks
pub fn front_half(truth: &mut Truth, text: &str, lang: truth::LanguageKey, type_check: bool) -> Result<ast::Block, truth::ErrorReported> {
    let mut block = truth.parse::<ast::Block>("<input>", text.as_ref())?.value;
    let ctx = truth.ctx();
    truth::passes::resolution::assign_languages(&mut block, lang, ctx)?;
    truth::passes::resolution::resolve_names(&block, ctx)?;
    if type_check { truth::passes::type_check::run(&block, ctx)?; }
    truth::passes::resolution::aliases_to_raw(&mut block, ctx)?;
    truth::passes::resolution::compute_diff_label_masks(&mut block, ctx)?;
    Ok(block)
}

/// desugar_blocks -> Lowerer::lower_sub (+ finish)
pub fn lower_block(truth: &mut Truth, mut block: ast::Block, hooks: &dyn llir::LanguageHooks, lang: truth::LanguageKey)
    -> Result<Vec<RawInstr>, truth::ErrorReported>
{
    let ctx = truth.ctx();
    // as in the real ECL pipeline (ecl_06.rs): difficulty validation precedes desugaring
    truth::passes::validate_difficulty::run(&block, ctx, hooks)?;
    truth::passes::desugar_blocks::run(&mut block, ctx, lang)?;
    let mut errors = truth::error::ErrorFlag::new();
    let mut lowerer = llir::Lowerer::new(hooks);
    let (instrs, _) = lowerer.lower_sub(&block.0, None, ctx, false).unwrap_or_else(|e| { errors.set(e); (vec![], None) });
    lowerer.finish(ctx).unwrap_or_else(|e| errors.set(e));
    errors.into_result(())?;
    Ok(instrs)
}

pub fn raw_instr_json(i: &RawInstr) -> Value {
    json!({
        "time": i.time, "opcode": i.opcode, "mask": i.param_mask, "diff": i.difficulty,
        "blob": i.args_blob.iter().map(|b| format!("{:02x}", b)).collect::<String>(),
        "pop": i.pop, "arg0": i.extra_arg, "nargs": i.arg_count,
    })
}

pub fn scalar_json(v: &truth::ScalarValue) -> Value {
    match v {
        truth::ScalarValue::Int(x) => json!({"t": "i", "v": x}),
        truth::ScalarValue::Float(x) => {
            let f = crate::export::float_json(*x);
            let c = f["cls"].as_str().unwrap().to_string();
            json!({"t": "f", "c": c, "n": f.get("n").cloned().unwrap_or(json!(0)), "s": f.get("s").cloned().unwrap_or(json!(0)), "bits": f["bits"]})
        },
        truth::ScalarValue::String(s) => json!({"t": "s", "v": s}),
    }
}

/// Tiny deterministic PRNG (splitmix64) so that the harness needs no external crate.
pub struct Rng(pub u64);
impl Rng {
    pub fn next(&mut self) -> u64 {
        self.0 = self.0.wrapping_add(0x9E3779B97F4A7C15);
        let mut z = self.0;
        z = (z ^ (z >> 30)).wrapping_mul(0xBF58476D1CE4E5B9);
        z = (z ^ (z >> 27)).wrapping_mul(0x94D049BB133111EB);
        z ^ (z >> 31)
    }
    pub fn below(&mut self, n: u64) -> u64 { if n == 0 { 0 } else { self.next() % n } }
    pub fn pick<'a, T>(&mut self, xs: &'a [T]) -> &'a T { &xs[self.below(xs.len() as u64) as usize] }
    pub fn chance(&mut self, num: u64, den: u64) -> bool { self.below(den) < num }
}

pub fn read_lines(path: &str) -> Vec<Value> {
    let text = std::fs::read_to_string(path).unwrap_or_else(|e| { eprintln!("cannot read {}: {}", path, e); std::process::exit(3) });
    text.lines().filter(|l| !l.trim().is_empty()).map(|l| serde_json::from_str(l).expect("bad json line")).collect()
}
