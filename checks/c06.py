"""C06 — turning blocks into labels and jumps preserves behaviour (Mode P product check)."""
import json, os
from . import lib, gen_progs

LEVEL = "translation_validation"
MANIFEST = dict(
    design='DESIGN.md §4 C06, §3 (SrcSem rules)',
    technique="TLC model-checks the product of the TLA+ script machine (AstSem) on the real parser's block tree and on the real desugar_blocks output, from every initial register valuation x difficulty (translation validation of each pass run)",
    text="For each generated structured program the harness exports the block tree as the real parser produced it and the flat statement list the real desugar_blocks pass produced (both counting-jump flavours); TLC explores the product of the L1 machine on both from all valuations of the mentioned registers over a 3/4-value domain and all difficulties and checks at every state that the flat side's call log is a prefix of the source's, and at termination equal logs (with time and real time of each call), final time, real time and registers.",
    note='Trusted: TLC; structural AST->JSON exporter and JSON->text renderer; the reading of doc/syntax.md in AstSem.tla (falling through never changes time, implicit jumps set the lexical time of their target). Bounded: 150 source steps, non-negative times() counts, dyadic floats.',
)


def harness_pairs(chk, progs, tag):
    wd = lib.workdir("c06_" + tag)
    path = os.path.join(wd, "progs.ndjson")
    lib.write_ndjson(path, progs)
    p = lib.vh(["c06", path])
    pairs = []
    for line in p.stdout.splitlines():
        o = json.loads(line)
        chk.add("evaluations")
        if "panic" in o:
            chk.report("panic:%s" % lib.norm_loc(o["panic"]["loc"]), "desugaring panics on:\n%s\n%s" % (o["text"], o["panic"]["msg"]), o)
        elif "rejected" in o or "unsupported" in o:
            chk.add("rejected")
        elif o.get("warn"):
            chk.add("rejected_with_warning")
        else:
            pairs.append(o)
    return pairs


def run(chk, replay=None):
    quick = chk.tier == "quick"
    n = 250 if quick else 3000
    for flavour, cj, cfg in (("ne", "!=", "ProductAst_ne"), ("gt", ">", "ProductAst_gt")):
        if not quick:
            cfg += "_wide"
        if replay:
            case = json.load(open(replay))["case"]
            if case["cfg"].replace("_wide", "") != cfg.replace("_wide", ""):
                continue
            pairs = [case["pair"]]
        else:
            # TLC-enumerated family (Gen_Blocks.tla): every nesting up to MaxLen tokens; the same run checks in-model
            # that the script machine agrees with the *documented* desugaring on every enumerated program
            gcfg = "Gen_Blocks_%s%s.cfg" % ("quick" if quick else "thorough", "" if flavour == "ne" else "_gt")
            gout = os.path.join(lib.workdir("c06_gen_" + flavour), "blocks.ndjson")
            gres = lib.tlc("Gen_Blocks", cfg=gcfg, env={"OUT": gout}, workers=1, timeout=600 if quick else 3000, name="gen_blocks_" + flavour)
            if not gres.ok:
                raise lib.ToolError("MC_Desugar: AstSem disagrees with the documented desugaring (specification inconsistency)\n" + gres.out[-3000:])
            chk.tlc_stats(gres)
            seen, rows = set(), []
            for row in lib.read_ndjson(gout):
                key = " ".join(row["toks"])
                if key not in seen:
                    seen.add(key)
                    rows.append(row)
            chk.add("enumerated_programs_total", len(rows))
            if quick:      # every prefix of every token sequence is a program; quick replays a fixed 1-in-6 slice per flavour
                rows = rows[(0 if flavour == "ne" else 3)::6]
            enumerated = [{"id": 500000 + j, "cfg": {"int_regs": gen_progs.INT_REGS + [1020], "float_regs": gen_progs.FLOAT_REGS, "count_jmp": cj},
                           "vars": [{"id": "r1000", "ty": "i"}, {"id": "r1001", "ty": "i"}], "body": row["body"]}
                          for j, row in enumerate(rows)]
            chk.add("enumerated_programs", len(enumerated))
            progs = enumerated + gen_progs.block_programs(chk.seed * 1000 + (1 if flavour == "ne" else 2), n, cj)
            progs += gen_progs.block_programs(chk.seed * 1000 + 7, n // 5, cj, start_id=n + 1, diff_labels=True)
            pairs = harness_pairs(chk, progs, flavour)
        chk.add("programs", len(pairs))
        chk.add("disagreements_checked", sum(1 for p in pairs if p.get("changed")))
        cov = lib.product_check(chk, "ProductAst", cfg + ".cfg", pairs, "c06_" + flavour,
                                timeout=900 if quick else 3000, key_of=None)
        for k, v in cov.items():
            chk.add(k, v)
        for p in pairs[:2]:
            chk.sample({"flavour": flavour, "source": p["text"], "flat_statements": len(p["out"])})
    chk.set("explanation", "programs = (source tree, real desugar_blocks output) pairs model-checked in the product of AstSem on both "
                           "sides from every valuation of the mentioned registers x difficulty; action_FinCompared = terminal states "
                           "where both sides finished and were compared, action_FinDiscarded = runs that left the decided envelope")
    chk.assume("iteration counts bounded by fuel (source 150 steps); times() counts non-negative; float conditions on dyadic values")
