"""Growth item (DESIGN §7.6): the end-of-script detection machine of the instruction reader.
ReadInstrs.tla (from the documentation of ReadInstr/InstrFormat) x every event stream up to MaxLen x
every expected end offset, replayed into the real llir::read_instrs.  Run as a part of C16 (reading
binaries terminates with success or a diagnostic) and, for the 'missing end-of-script marker' loss
warning, of C01."""
import json, os
from . import lib


def run(chk):
    wd = lib.workdir("readinstrs")
    cases = os.path.join(wd, "cases.ndjson")
    r = lib.tlc("Gen_ReadInstrs", env={"OUT": cases}, workers=1, timeout=900)
    if not r.ok:
        raise lib.ToolError("Gen_ReadInstrs: in-model invariant failed\n" + r.out[-2000:])
    chk.tlc_stats(r)
    rows = lib.read_ndjson(cases)
    p = lib.vh(["readinstrs", cases])
    obs = [json.loads(l) for l in p.stdout.splitlines()]
    if len(obs) != len(rows):
        raise lib.ToolError("readinstrs harness lost cases")
    n = 0
    for c, o in zip(rows, obs):
        e, ob = c["exp"], o["obs"]
        n += 1
        case = c["case"]
        cls = "%s:%s" % ("end-offset" if case["hasEnd"] else "eof", "m" if "m4" in case["stream"] else ("t" if "t" in case["stream"] else "plain"))
        if "panic" in ob:
            chk.report("readinstrs:panic:%s" % lib.norm_loc(ob["panic"]["loc"]), "read_instrs panics on %s: %s" % (json.dumps(case), ob["panic"]["msg"]),
                       {"sub": "readinstrs", "case": case, "observed": ob})
        elif e["ok"] != ob["ok"] or e["kept"] != ob["kept"] or e["warned"] != ob["warned"]:
            chk.report("readinstrs:differs:%s" % cls, "read_instrs on %s gives %s, the reader machine (ReadInstrs.tla) says %s" % (
                json.dumps(case), json.dumps(ob), json.dumps(e)), {"sub": "readinstrs", "case": case, "observed": ob, "expected": e})
    chk.set("readinstrs_cases_replayed", n)
    return n
