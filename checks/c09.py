"""C09 — the type checker accepts exactly the well-typed scripts and predicts value types (Mode G + in-model)."""
import json, os, re, time
from concurrent.futures import ThreadPoolExecutor
from . import lib

LEVEL = "model_checking"
MANIFEST = dict(
    design='DESIGN.md §4 C09, design_notes/C09.md',
    technique='TLA+ typing judgement (spec/TypeRules.tla) checked by TLC; TLC enumerates skeleton programs x single-point '
              'mutations with the verdict ProgramOk and the type of every expression node, every case is replayed into the '
              'real parse -> resolve_names -> type_check::run and Expr::compute_ty (spec -> impl replay)',
    text='TypeRules.tla transcribes the documented typing rules. In-model, TLC checks (StaticDynamic) that for every well-typed '
         'expression of an enumerated family (depth <= 3, every operator) and every environment over a small value domain the '
         'type tag of the value the TLA+ evaluator ExprSem computes equals TypeOf, and that the verdict of a program depends '
         'only on the slot, not on where it sits. Mode G: TLC enumerates a well-typed construct and each single-point '
         'mutation of it (operand, variable, literal kind, sigil, cast, argument, arity, declaration keyword) at every '
         'nesting position (top level, free blocks, every loop kind, if / else-if / else / unless, to depth 2 quick / 3 '
         'thorough) with ProgramOk and the type of every expression node; each case is rendered and run through the real '
         'front half and type_check::run; accepted/rejected must equal the verdict and Expr::compute_ty of every node must '
         'equal TypeOf. Exhaustive over the enumerated family.',
    note='Trusted: TLC, CommunityModules Json, the harness renderer (JSON -> source text) and the structural AST walk that '
         'lists compute_ty per node. Not decided: function definitions / return, `var` (untyped) locals, pseudo-arguments, '
         'enum constants, `--x` / `x++` used as a value; a well-typed non-int interrupt id / relative time label is only '
         'cross-checked (the documentation does not name the pass that must refuse it). The value half against the real '
         'evaluator is C11 (type tags of folded values).',
)

FINDING_WHAT = {
    "free-block": "a free-standing block `{ ... }` is not type-checked",
    "const-decl": "the initialiser of a `const` declaration is not checked against the declared type",
    "interrupt-label": "the expression of `interrupt[e]:` is not type-checked at all",
    "rel-time-label": "the expression of a relative time label `+e:` is not type-checked at all",
}


def site_of(case):
    """Which construct holds the slot, for finding keys (call site / input class, never the property)."""
    if case["in_free"]:
        return "free-block"
    b = case["base"]
    # `at` = kind of the slot statement that holds the mutated point: a mutant of the *use* after a
    # const declaration, or of the call next to a label, is judged strictly like everything else
    if b.startswith("const-") and case["at"] == "item":
        return "const-decl"
    if b.startswith("interrupt") and case["at"] == "interrupt":
        return "interrupt-label"
    if b.startswith("rel-label") and case["at"] == "rel":
        return "rel-time-label"
    return "%s@%s" % (b, "/".join(case["pos"]) or "top")


MAX_NEW_KEYS = 25      # replay files written per run for violations that are not listed findings


def report(chk, key, what, rep):
    """chk.report, but after MAX_NEW_KEYS unlisted violations only listed findings are still matched
    (one regression in the checker shows up at hundreds of (construct, position) pairs)."""
    listed = any(f.get("property") == chk.pid and f.get("key") == key and f.get("status") == "open" for f in chk.findings)
    if listed or len(chk.violations) < MAX_NEW_KEYS:
        chk.report(key, what, rep)
    else:
        chk.add("violations_not_written")


def static_dynamic(chk, wide):
    """in-model: TypeTag(Eval(e, env)) = TypeOf(e) over the enumerated expression family"""
    shards = 8 if wide else 2
    t0 = time.time()

    def one(k):
        return lib.tlc("MC_TypeRules", env={"C09_WIDE": "1" if wide else "0", "C09_SHARD": str(k), "C09_SHARDS": str(shards)},
                       workers=1, timeout=3000 if wide else 600, name="MC_TypeRules_%d" % k)
    with ThreadPoolExecutor(max_workers=4) as ex:      # 4 here + <= 4 generator processes at any time
        results = list(ex.map(one, range(shards)))
    tot = [0, 0, 0]
    for r in results:
        if not r.ok:
            raise lib.ToolError("MC_TypeRules: StaticDynamic does not hold in the specification itself "
                                "(TypeRules.tla and ExprSem.tla disagree)\n" + r.out[-3000:])
        chk.tlc_stats(r)
        m = re.search(r'<<"COUNTS", (\d+), (\d+), (\d+), (\d+)>>', r.out)
        if not m:
            raise lib.ToolError("MC_TypeRules printed no COUNTS")
        for j in range(3):
            tot[j] += int(m.group(j + 1))
    chk.set("static_dynamic_wall_s", round(time.time() - t0, 1))
    chk.set("static_dynamic_decided", tot[0])
    chk.set("static_dynamic_undefined", tot[1])
    chk.set("out_of_envelope", tot[2])
    if tot[0] < 1000 or tot[0] < 5 * (tot[1] + tot[2]) // 10:
        raise lib.ToolError("StaticDynamic is (nearly) vacuous: decided=%d undefined=%d opaque=%d" % tuple(tot))


def run(chk, replay=None):
    quick = chk.tier == "quick"
    if replay:      # regenerate the family the replayed case came from
        quick = json.load(open(replay)).get("tier", chk.tier) == "quick"
    wd = lib.workdir("c09")
    cases_path = os.path.join(wd, "cases.ndjson")
    cfg_path = os.path.join(wd, "cfg.json")

    gshards = 2 if quick else 8

    def gen(k):
        return lib.tlc("Gen_TypeCases", cfg="Gen_TypeCases_%s.cfg" % ("quick" if quick else "thorough"),
                       env={"OUT": "%s.%d" % (cases_path, k), "CFG": cfg_path if k == 0 else "%s.%d" % (cfg_path, k),
                            "C09_GSHARD": str(k), "C09_GSHARDS": str(gshards)},
                       workers=1, timeout=600 if quick else 3000, heap=None if quick else "3g", name="Gen_TypeCases_%d" % k)
    with ThreadPoolExecutor(max_workers=1) as ex_sd, ThreadPoolExecutor(max_workers=min(gshards, 4)) as ex:
        fut_sd = None if replay else ex_sd.submit(static_dynamic, chk, not quick)
        t0 = time.time()
        cases = []
        for k, r in enumerate(ex.map(gen, range(gshards))):
            if not r.ok:
                raise lib.ToolError("Gen_TypeCases: an in-model invariant failed (the typing rules are not position independent?)\n" + r.out[-3000:])
            chk.tlc_stats(r)
            cases += lib.read_ndjson("%s.%d" % (cases_path, k))
        chk.set("generator_wall_s", round(time.time() - t0, 1))
        if fut_sd:
            fut_sd.result()
    cases.sort(key=lambda c: c["id"])
    if len(set(c["id"] for c in cases)) != len(cases):
        raise lib.ToolError("generator shards overlap")
    lib.write_ndjson(cases_path, cases)

    if replay:
        want = json.load(open(replay))["case"]["case"]
        cases = [c for c in cases if c["body"] == want["body"]][:1]
        if not cases:
            raise lib.ToolError("the replayed case is no longer generated")
        lib.write_ndjson(cases_path, cases)
    t0 = time.time()
    p = lib.vh(["c09", cases_path, cfg_path])
    chk.set("harness_wall_s", round(time.time() - t0, 1))
    obs = {}
    for line in p.stdout.splitlines():
        o = json.loads(line)
        obs[o["id"]] = o

    n_mut = {True: 0, False: 0}
    positions, kinds, bases = set(), set(), set()
    sampled = set()
    for c in cases:
        o = obs.get(c["id"])
        if o is None:
            raise lib.ToolError("harness lost case %s" % c["id"])
        chk.add("traces_validated_against_impl")
        positions.add("/".join(c["pos"]))
        kinds.add(c["m"])
        bases.add(c["base"])
        if c["m"] != "none":
            n_mut[c["ok"]] += 1
        exp = "accepted" if c["ok"] else "rejected"
        got = o["verdict"]
        text = o["text"]
        rep = {"case": c, "observed": o}
        site = site_of(c)
        if got == "panic":
            report(chk, "panic:%s" % lib.norm_loc(o["panic"]["loc"]),
                       "type checking panics (%s) on:\n%s" % (o["panic"]["msg"], text), rep)
            continue
        if got == "front-error":
            # refused by the parser / name resolution, i.e. before the type checker ran: not a typing verdict.
            if c["ok"]:
                report(chk, "well-typed-refused-early:%s" % site, "well-typed program refused before type checking: %s\n%s" % (o.get("diag"), text), rep)
            else:
                chk.add("refused_before_typecheck")
            continue
        if got != exp:
            if got == "accepted":
                if c["cls"] == "deferred" and c["ok_relaxed"] and not c["in_free"]:
                    # a well-typed but non-int interrupt id / relative time label: R10 relaxed reading
                    chk.add("deferred_nonint_label_accepted")
                    continue
                later = o.get("later")
                tail = ""
                if isinstance(later, dict) and "panic" in later:
                    chk.add("accepted_ill_typed_then_panics")
                    tail = " (and a later pass panics: %s %s)" % (later["panic"]["loc"], later["panic"]["msg"])
                chk.add("accepted_ill_typed")
                key = "accepts-ill-typed:%s" % site
                what = FINDING_WHAT.get(site, "ill-typed program accepted")
                report(chk, key, "%s: type_check::run accepts%s\n%s" % (what, tail, text), rep)
            else:
                chk.add("rejected_well_typed")
                report(chk, "rejects-well-typed:%s" % site, "well-typed program rejected: %s\n%s" % (o.get("diag"), text), rep)
            continue
        chk.add("verdicts_agree_" + exp)
        if got == "accepted":
            if "types" not in o:
                report(chk, "compute_ty-panics:%s" % site, "compute_ty panics on an accepted well-typed program: %s\n%s" % (o.get("types_panic"), text), rep)
                continue
            tys = [t["ty"] for t in o["types"]]
            if len(tys) != len(c["types"]):
                raise lib.ToolError("expression walks differ (harness %d nodes, spec %d) for\n%s" % (len(tys), len(c["types"]), text))
            chk.add("expression_types_compared", len(tys))
            for j, (a, b) in enumerate(zip(tys, c["types"])):
                if a != b:
                    report(chk, "compute_ty:%s:%s-vs-%s" % (c["base"], a, b),
                               "compute_ty(`%s`) = %s but TypeOf says %s in\n%s" % (o["types"][j]["text"], a, b, text), rep)
                    break
            later = o.get("later")
            if isinstance(later, dict) and "panic" in later:
                report(chk, "well-typed-panics-later:%s" % lib.norm_loc(later["panic"]["loc"]),
                           "a pass after type_check panics on a well-typed program: %s\n%s" % (later["panic"]["msg"], text), rep)
        tag = (c["ok"], len(c["pos"]) > 0, c["m"] != "none")
        if tag not in sampled and len(c["pos"]) in (0, 2) and not c["in_free"]:
            sampled.add(tag)
            chk.sample({"position": c["pos"], "base": c["base"], "mutation": c["m"], "spec_verdict": exp, "real_verdict": got,
                        "diagnostic": o.get("diag"), "source": text})

    if not replay:
        # vacuity guards on the enumerated family (counts, not semantics)
        if n_mut[True] < 100 or n_mut[False] < 100:
            raise lib.ToolError("mutant family is one-sided: %r" % n_mut)
    chk.set("positions", len(positions))
    chk.set("mutation_kinds", len(kinds))
    chk.set("base_constructs", len(bases))
    chk.set("mutants_ill_typed", n_mut[False])
    chk.set("mutants_still_well_typed", n_mut[True])
    chk.set("exhaustive", True)
    chk.set("rule", "every base construct x every single-point mutation (Gen_TypeCases.tla) at every wrapper sequence up to the "
                    "tier's depth; verdict and per-node types from TypeRules.tla, compared with type_check::run / Expr::compute_ty")
    chk.assume("a well-typed non-int interrupt id / relative time label accepted by type_check is not judged (R10 relaxed reading; counted as deferred_nonint_label_accepted)")
    chk.assume("programs refused by the parser or name resolution are not typing verdicts (refused_before_typecheck)")
    chk.assume("StaticDynamic is judged only where ExprSem decides the value (static_dynamic_undefined, out_of_envelope are counted)")
