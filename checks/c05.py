"""C05 — scratch registers never collide with registers the script uses (MC + Mode H trace validation)."""
import json, os
from . import lib, gen_progs

LEVEL = "model_checking"
MANIFEST = dict(
    design="DESIGN.md §4 C05",
    technique="TLA+ allocation machine (RegAlloc) model-checked over all request interleavings; allocation events recorded from the real assign_registers (cfg hook) plus the register operands of the emitted instructions are validated as a behaviour of that machine by TLC (trace validation), with per-script constants taken from the generator, not from the code",
    text="MC_RegAlloc explores every interleaving of allocate/free/fail requests over pools of size 0-4 with any mentioned/parameter sets and keeps NoTwoLive, NeverMentioned, OnlyGeneral. For thousands of generated bodies (pool registers mentioned in 15 syntactic position kinds: targets, sigils, call arguments, difficulty-switch cases, jump conditions, predecrement, times counts/clobbers, aliases, ...; pools of every size; scratch-forbidding instruction) the real compiler's alloc/free/too_complex/anti-scratch events, the register operands of every emitted instruction and the outcome are replayed by TLC against RegAlloc: every alloc must be an enabled Alloc (general-purpose, not mentioned, not a parameter, not live), failure only when no register is eligible, success impossible when scratch was used in a scratch-forbidding body.",
    note="Trusted: TLC; the hook events (emitted inside assign_registers at the point of allocation); `Mentioned` is the generator's own record of every register it wrote into the source (incl. via alias), `General` is the TestLanguage pool the harness configured.",
)


def calls_opcode(v, opcode):
    """the generator's own record: does the body contain a call of this opcode (any spelling)"""
    if isinstance(v, dict):
        if v.get("k") == "call" and isinstance(v.get("name"), dict) and v["name"].get("ins") == opcode:
            return True
        return any(calls_opcode(x, opcode) for x in v.values())
    if isinstance(v, list):
        return any(calls_opcode(x, opcode) for x in v)
    return False


def history(chk, rows, byid):
    hist = []
    index = []      # (first_line, row)
    for o in rows:
        start = len(hist) + 1
        index.append((start, o))
        num = lambda ids: [int(x[1:]) for x in ids]
        prog = byid[o["id"]]
        # (from the generator, not from the `anti_scratch` event: the event is what is being checked)
        has_anti = prog["cfg"].get("anti") is not None and calls_opcode(prog["body"], prog["cfg"]["anti"])
        if has_anti:
            chk.add("scripts_with_scratch_forbidding_instruction")
        hist.append({"ev": "reset", "general_i": o["scratch_int"], "general_f": o["scratch_float"],
                     "mentioned": num(o["mentioned"]), "params": [], "anti": has_anti})
        for e in o["events"]:
            if e["ev"] in ("alloc", "free", "too_complex", "anti_scratch_error"):
                hist.append(e)
        ok = "instrs" in o
        if ok:
            regs = sorted({int(a["key"][1:]) for ins in o["instrs"] for a in ins["args"] if a.get("reg")})
            hist.append({"ev": "use", "regs": regs})
        hist.append({"ev": "end", "ok": ok})
    return hist, index


def _validate_chunk(args):
    """one chunk of whole per-script histories; returns (tlc results, [(row, event, why)])"""
    import re
    wd, tag, hist, index = args
    hpath = os.path.join(wd, "hist_%s.ndjson" % tag)
    results, bad = [], []
    while hist:
        if len(results) > 2000:
            raise lib.ToolError("more than 2000 rejected scripts in one chunk; giving up")
        lib.write_ndjson(hpath, hist)
        res = lib.tlc("Trace_RegAlloc", env={"HIST": hpath}, workers=1, timeout=1200, name="trace_regalloc_" + tag)
        results.append(res)
        bad_line = None
        if res.violation:
            # an invariant of RegAlloc failed in the state reached by the last consumed event
            m = None
            for m in re.finditer(r"^/\\ l = (\d+)", res.out, re.M):
                pass
            bad_line = int(m.group(1)) - 1 if m else None
            why = "RegAlloc invariant violated"
        else:
            m = re.search(r'<<"REACHED", (\d+), (\d+)>>', res.out)
            if not m:
                raise lib.ToolError("no REACHED line from Trace_RegAlloc\n" + res.out[-2000:])
            reached, total = int(m.group(1)), int(m.group(2))
            if reached == total:
                break
            bad_line = reached
            why = "event is not an enabled transition of RegAlloc"
        if bad_line is None:
            raise lib.ToolError("cannot locate the failing event\n" + res.out[-2000:])
        start, row = [x for x in index if x[0] <= bad_line][-1]
        bad.append((row, hist[bad_line - 1], why))
        # continue with the scripts after this one
        nxt = [x[0] for x in index if x[0] > start]
        end = (nxt[0] - 1) if nxt else len(hist)
        hist = hist[end:]
        index = [(s0 - end, r) for (s0, r) in index if s0 > start]
    return results, bad


def validate_history(chk, wd, hist, index, describe, chunks=12):
    """Trace_RegAlloc on a concatenation of per-script histories.  A rejected history stops at the first
    unexplained event: that script is reported, then the scripts after it are validated (the ones before it were
    accepted), until the whole history has been judged.  The history is cut at script boundaries into chunks that
    are validated by parallel single-worker TLC processes.  Returns the number of TLC runs."""
    from concurrent.futures import ThreadPoolExecutor
    if not index:
        return 0
    per = max(1, (len(index) + chunks - 1) // chunks)
    jobs = []
    for c in range(0, len(index), per):
        part = index[c:c + per]
        lo = part[0][0]
        hi = index[c + per][0] - 1 if c + per < len(index) else len(hist)
        jobs.append((wd, "c%d" % (c // per), hist[lo - 1:hi], [(s0 - lo + 1, r) for (s0, r) in part]))
    with ThreadPoolExecutor(max_workers=chunks) as ex:
        outs = list(ex.map(_validate_chunk, jobs))
    rounds = 0
    for results, bad in outs:
        rounds += len(results)
        for res in results:
            chk.tlc_stats(res)
        for row, ev, why in bad:
            key, what, case = describe(row, ev, why)
            chk.report(key, what, case)
            chk.add("scripts_rejected")
    return rounds


def run(chk, replay=None):
    quick = chk.tier == "quick"
    r0 = lib.tlc("MC_RegAlloc", workers=4, timeout=900)
    if not r0.ok:
        raise lib.ToolError("MC_RegAlloc invariant fails in the model itself\n" + r0.out[-2000:])
    chk.tlc_stats(r0)
    n_scen = 1200 if quick else 20000
    n_rand = 300 if quick else 4000
    progs = gen_progs.regalloc_scenarios(chk.seed, n_scen)
    name, cfg = gen_progs.lang_configs()[7]
    for ci, (name, cfg) in enumerate(gen_progs.lang_configs()):
        if name in ("small-pool", "pool-1", "no-scratch", "native"):
            progs += gen_progs.expr_programs(chk.seed * 10 + ci, n_rand // 4, cfg, start_id=len(progs) + 1)
    if replay:
        progs = [json.load(open(replay))["case"]["program"]]
    wd = lib.workdir("c05")
    path = os.path.join(wd, "progs.ndjson")
    lib.write_ndjson(path, progs)
    p = lib.vh(["c02", path])
    rows = []
    byid = {pr["id"]: pr for pr in progs}
    for line in p.stdout.splitlines():
        o = json.loads(line)
        if "panic" in o:
            chk.report("panic:%s" % lib.norm_loc(o["panic"]["loc"]), "compiling panics: %s\n%s" % (o["panic"]["msg"], o["text"]),
                       {"program": byid[o["id"]], "panic": o["panic"]})
            continue
        if "unsupported" in o:
            chk.add("unsupported")
            continue
        rows.append(o)
    hist, index = history(chk, rows, byid)

    def describe(row, ev, why):
        kind = ev.get("ev")
        # key: the event kind + in which position kinds the generator mentioned the offending register
        mk = byid[row["id"]].get("mention_kinds", {}).get("r%s" % ev.get("reg"))
        if not mk and kind == "alloc" and "r%s" % ev.get("reg") in (row.get("dead_scratch") or []):
            # (random bodies carry no mention kinds: the harness saw that the source mentions this register only
            #  in code that constant folding removed -- the same class as the scenario kind `const_dead`)
            mk = ["const_dead"]
        if mk:
            key = "%s:mentioned-as:%s" % (kind, "+".join(sorted(set(mk))))
        else:
            key = "%s:%s" % (kind, "+".join(sorted(set(mention_kinds_of(byid[row["id"]])))) or "-")
        return key, "%s: %s in\n%s" % (why, json.dumps(ev), row["text"]), {
            "program": byid[row["id"]], "event": ev, "events": row["events"], "mentioned": row["mentioned"],
            "scratch_int": row["scratch_int"], "scratch_float": row["scratch_float"]}

    full_len = len(hist)
    n_alloc = sum(1 for e in hist if e["ev"] == "alloc")
    n_complex = sum(1 for e in hist if e["ev"] == "too_complex")
    n_anti = sum(1 for e in hist if e["ev"] == "anti_scratch_error")
    rounds = validate_history(chk, wd, hist, index, describe)
    if not replay:
        # subs with parameters and the register files of the real games (old ECL)
        ehist, eindex = real_ecl_part(chk)

        def describe_ecl(row, ev, why):
            reg = ev.get("reg")
            where = "param" if reg in param_regs(row["game"], row["sig"]) else "mentioned" if reg in row["mentioned"] else "other"
            key = "ecl:th%s:%s:%s" % (row["game"].zfill(2), ev.get("ev"), where)
            return key, "%s: %s in sub %s(%s) of a th%s file\n%s" % (why, json.dumps(ev), row["sub"], row["sig"], row["game"], row["text"]), {
                "text": row["text"], "game": row["game"], "sub": row["sub"], "sig": row["sig"], "event": ev, "events": row["events"],
                "mentioned": row["mentioned"]}

        chk.set("ecl_events", len(ehist))
        rounds += validate_history(chk, lib.workdir("c05_ecl"), ehist, eindex, describe_ecl)
    chk.set("traces_validated_against_impl", len(rows))
    chk.set("events", full_len)
    chk.set("alloc_events", n_alloc)
    chk.set("too_complex_events", n_complex)
    chk.set("anti_scratch_errors", n_anti)
    chk.set("tlc_runs", rounds)
    for o in rows[:3]:
        chk.sample({"source": o["text"], "events": o["events"][:8], "mentioned": o["mentioned"]})
    chk.assume("real ECL part: Mentioned is the set of raw registers the generator wrote into the sub's body; General and the calling convention are the documented register files of EoSD/PCB/IN (tables in checks/c05.py); instruction operands are not decoded there (events only)")


# ---- real ECL part: subs with parameters, the register files of EoSD / PCB / IN --------------------------------
# general-purpose registers per game (the language's register file; same table as the format module's
# `general_use_regs`, so OnlyGeneral is a regression check here -- the independent facts are Mentioned (the
# generator's record) and the events)
ECL_GENERAL = {
    "6": ([-10001, -10002, -10003, -10004, -10009, -10010, -10011, -10012], [-10005, -10006, -10007, -10008]),
    "7": ([10000, 10001, 10002, 10003, 10012, 10013, 10014, 10015], [10004, 10005, 10006, 10007, 10008, 10009, 10010, 10011, 10072, 10074]),
    "8": ([10000, 10001, 10002, 10003, 10004, 10005, 10006, 10007, 10036, 10037, 10038, 10039],
          [10016, 10017, 10018, 10019, 10020, 10021, 10022, 10023, 10094, 10095]),
}
# where a sub's parameters live: EoSD passes (int, float) in I0 / F0 -- which are general-purpose registers --,
# PCB and IN in dedicated PARAM registers (ints from A, floats 4 above)
ECL_PARAM_BASE = {"6": (-10001, -10005), "7": (10029, 10033), "8": (10053, 10057)}


def param_regs(game, sig):
    bi, bf = ECL_PARAM_BASE[game]
    out, ni, nf = [], 0, 0
    for c in sig:
        if c == "i":
            out.append(bi + ni if game != "6" else bi); ni += 1
        else:
            out.append(bf + nf if game != "6" else bf); nf += 1
    return out


def regs_in(v, out):
    if isinstance(v, dict):
        if v.get("k") == "var" and __import__("re").match(r"r-?\d+$", str(v.get("id", ""))):
            out.add(int(v["id"][1:]))
        for x in v.values():
            regs_in(x, out)
    elif isinstance(v, list):
        for x in v:
            regs_in(x, out)


def real_ecl_part(chk):
    import random, re
    from . import c01
    quick = chk.tier == "quick"
    per_game = 60 if quick else 600
    rng = random.Random(chk.seed * 31 + 5)
    sources, games = [], []
    for key in ("ecl06", "ecl07", "ecl08"):
        for i in range(per_game):
            sources.append(c01.gen_source(rng, key, ["blocks", "mixed", "raw"][i % 3]))
            games.append(c01.LANGS[key].game)
    texts = c01.render_sources(sources, "c05ecl")
    wd = lib.workdir("c05_ecl")
    jobs = []
    for i, (text, game) in enumerate(zip(texts, games)):
        path = os.path.join(wd, "src_%05d.spec" % i)
        with open(path, "w") as f:
            f.write(text)
        jobs.append({"idx": i, "tool": "ecl", "game": game, "spec": path, "all_events": True})
    jpath = os.path.join(wd, "jobs.ndjson")
    lib.write_ndjson(jpath, jobs)
    p = lib.vh(["pipeline", jpath], timeout=3000)
    rows = [json.loads(l) for l in p.stdout.splitlines()]
    if len(rows) != len(jobs):
        raise lib.ToolError("pipeline harness answered %d of %d jobs" % (len(rows), len(jobs)))
    hist, index = [], []
    for sf, game, text, row in zip(sources, games, texts, rows):
        if row["rc"] == 101:
            chk.report("panic:ecl:%s" % lib.norm_loc(row["stderr"])[:90], "compiling panics: %s\n%s" % (row["stderr"], text), {"text": text, "game": game})
            continue
        chk.add("ecl_files")
        chk.add("ecl_files_rc_%d" % row["rc"])
        # the generator's record per sub: name -> (signature, registers it wrote into the body)
        subs = {}
        for j, part in enumerate(sf.parts):
            m = isinstance(part, str) and re.match(r"void (\w+)\((.*)\) \{", part)
            if m and j + 1 < len(sf.parts) and not isinstance(sf.parts[j + 1], str):
                ment = set()
                regs_in(sf.parts[j + 1][1], ment)
                sig = "".join("i" if q.strip().startswith("int") else "f" for q in m.group(2).split(",") if q.strip())
                subs[m.group(1)] = (sig, ment)
        cur = None
        for ev in row["events"] + [{"ev": "pool", "sub": None, "last": True}]:
            if ev["ev"] == "pool":
                if cur is not None:
                    hist.append({"ev": "end", "ok": row["rc"] == 0})
                cur = None
                name = ev.get("sub")
                if name is None or ev.get("last"):
                    continue
                if name not in subs:
                    raise lib.ToolError("pool event for an unknown sub %r" % name)
                sig, ment = subs[name]
                want_params = sorted(param_regs(game, sig))
                if sorted(ev["params"]) != want_params:
                    chk.report("params:th%s:%s" % (game.zfill(2), sig or "-"),
                               "sub %s(%s) of a th%s file: the allocator reserves %s for the parameters, the calling convention gives %s\n%s"
                               % (name, sig, game, sorted(ev["params"]), want_params, text), {"text": text, "game": game, "sub": name})
                gi, gf = ECL_GENERAL[game]
                cur = {"text": text, "sub": name, "game": game, "sig": sig, "mentioned": sorted(ment), "events": []}
                index.append((len(hist) + 1, cur))
                hist.append({"ev": "reset", "general_i": gi, "general_f": gf, "mentioned": sorted(ment), "params": want_params, "anti": False})
                chk.add("ecl_subs")
                if sig:
                    chk.add("ecl_subs_with_params")
            elif cur is not None and ev["ev"] in ("alloc", "free", "too_complex"):
                hist.append(ev)
                cur["events"].append(ev)
                if ev["ev"] == "alloc":
                    chk.add("ecl_alloc_events")
    return hist, index


def mention_kinds_of(prog):
    """for finding keys: which register-bearing statement kinds the program contains"""
    kinds = set()
    def walk(v):
        if isinstance(v, dict):
            if v.get("k") in ("ds", "tern", "times", "while", "condjump", "xcr"):
                kinds.add(v["k"])
            if v.get("k") == "var" and str(v.get("id", "")).startswith("n:ALIAS"):
                kinds.add("alias")
            if v.get("k") == "var" and v.get("sig"):
                kinds.add("sigil")
            for x in v.values():
                walk(x)
        elif isinstance(v, list):
            for x in v:
                walk(x)
    walk(prog["body"])
    return kinds
