"""C05 — scratch registers never collide with registers the script uses (MC + Mode H trace validation)."""
import json, os
from . import lib, gen_progs

LEVEL = "model_checking"
MANIFEST = dict(
    design="DESIGN.md §4 C05",
    technique="TLA+ allocation machine (RegAlloc) model-checked over all request interleavings; allocation events recorded from the real assign_registers (cfg hook) plus the register operands of the emitted instructions are validated as a behaviour of that machine by TLC (trace validation), with per-script constants taken from the generator, not from the code",
    text="MC_RegAlloc explores every interleaving of allocate/free/fail requests over pools of size 0-4 with any mentioned/parameter sets and keeps NoTwoLive, NeverMentioned, OnlyGeneral. For thousands of generated bodies (pool registers mentioned in 15 syntactic position kinds: targets, sigils, call arguments, difficulty-switch cases, jump conditions, predecrement, times counts/clobbers, aliases, ...; pools of every size; scratch-forbidding instruction) the real compiler's alloc/free/too_complex/anti-scratch events, the register operands of every emitted instruction and the outcome are replayed by TLC against RegAlloc: every alloc must be an enabled Alloc (general-purpose, not mentioned, not a parameter, not live), failure only when no register is eligible, success impossible when scratch was used in a scratch-forbidding body.",
    note="Trusted: TLC; the hook events (emitted inside assign_registers at the point of allocation); `Mentioned` is the generator's own record of every register it wrote into the source (incl. via alias), `General` is the TestLanguage pool the harness configured.",
)


def history(chk, rows):
    hist = []
    index = []      # (first_line, row)
    for o in rows:
        start = len(hist) + 1
        index.append((start, o))
        num = lambda ids: [int(x[1:]) for x in ids]
        has_anti = any(e.get("ev") == "anti_scratch" for e in o["events"])
        hist.append({"ev": "reset", "general_i": o["scratch_int"], "general_f": o["scratch_float"],
                     "mentioned": num(o["mentioned"]), "params": [], "anti": has_anti})
        for e in o["events"]:
            if e["ev"] in ("alloc", "free", "too_complex", "anti_scratch_error"):
                hist.append(e)
        ok = "instrs" in o
        if ok:
            regs = sorted({int(a["key"][1:]) for ins in o["instrs"] for a in ins["args"] if a.get("reg")})
            hist.append({"ev": "use", "regs": regs})
        hist.append({"ev": "end", "ok": ok})
    return hist, index


def run(chk, replay=None):
    quick = chk.tier == "quick"
    r0 = lib.tlc("MC_RegAlloc", workers=4, timeout=900)
    if not r0.ok:
        raise lib.ToolError("MC_RegAlloc invariant fails in the model itself\n" + r0.out[-2000:])
    chk.tlc_stats(r0)
    n_scen = 1200 if quick else 20000
    n_rand = 300 if quick else 4000
    progs = gen_progs.regalloc_scenarios(chk.seed, n_scen)
    name, cfg = gen_progs.lang_configs()[7]
    for ci, (name, cfg) in enumerate(gen_progs.lang_configs()):
        if name in ("small-pool", "pool-1", "no-scratch", "native"):
            progs += gen_progs.expr_programs(chk.seed * 10 + ci, n_rand // 4, cfg, start_id=len(progs) + 1)
    if replay:
        progs = [json.load(open(replay))["case"]["program"]]
    wd = lib.workdir("c05")
    path = os.path.join(wd, "progs.ndjson")
    lib.write_ndjson(path, progs)
    p = lib.vh(["c02", path])
    rows = []
    byid = {pr["id"]: pr for pr in progs}
    for line in p.stdout.splitlines():
        o = json.loads(line)
        if "panic" in o:
            chk.report("panic:%s" % lib.norm_loc(o["panic"]["loc"]), "compiling panics: %s\n%s" % (o["panic"]["msg"], o["text"]),
                       {"program": byid[o["id"]], "panic": o["panic"]})
            continue
        if "unsupported" in o:
            chk.add("unsupported")
            continue
        rows.append(o)
    hist, index = history(chk, rows)
    hpath = os.path.join(wd, "hist.ndjson")
    # a rejected history stops at the first unexplained event: report that script, then validate the scripts
    # after it (the ones before it were accepted), until the whole history has been judged
    full_len = len(hist)
    n_alloc = sum(1 for e in hist if e["ev"] == "alloc")
    n_complex = sum(1 for e in hist if e["ev"] == "too_complex")
    n_anti = sum(1 for e in hist if e["ev"] == "anti_scratch_error")
    rounds = 0
    while hist:
        rounds += 1
        if rounds > 400:
            raise lib.ToolError("more than 400 rejected scripts; giving up")
        lib.write_ndjson(hpath, hist)
        res = lib.tlc("Trace_RegAlloc", env={"HIST": hpath}, workers=1, timeout=1200)
        chk.tlc_stats(res)
        bad_line = None
        if res.violation:
            # an invariant of RegAlloc failed in the state reached by the last consumed event
            m = None
            for m in __import__("re").finditer(r"^/\\ l = (\d+)", res.out, __import__("re").M):
                pass
            bad_line = int(m.group(1)) - 1 if m else None
            why = "RegAlloc invariant violated"
        else:
            m = __import__("re").search(r'<<"REACHED", (\d+), (\d+)>>', res.out)
            if not m:
                raise lib.ToolError("no REACHED line from Trace_RegAlloc\n" + res.out[-2000:])
            reached, total = int(m.group(1)), int(m.group(2))
            if reached == total:
                break
            bad_line = reached
            why = "event is not an enabled transition of RegAlloc"
        if bad_line is None:
            raise lib.ToolError("cannot locate the failing event\n" + res.out[-2000:])
        start, row = [x for x in index if x[0] <= bad_line][-1]
        ev = hist[bad_line - 1]
        kind = ev.get("ev")
        # key: the event kind + in which position kinds the generator mentioned the offending register
        mk = byid[row["id"]].get("mention_kinds", {}).get("r%s" % ev.get("reg"))
        if mk:
            key = "%s:mentioned-as:%s" % (kind, "+".join(sorted(set(mk))))
        else:
            key = "%s:%s" % (kind, "+".join(sorted(set(mention_kinds_of(byid[row["id"]])))) or "-")
        chk.report(key, "%s: %s in\n%s" % (why, json.dumps(ev), row["text"]),
                   {"program": byid[row["id"]], "event": ev, "events": row["events"], "mentioned": row["mentioned"],
                    "scratch_int": row["scratch_int"], "scratch_float": row["scratch_float"]})
        chk.add("scripts_rejected")
        # continue with the scripts after this one
        nxt = [x[0] for x in index if x[0] > start]
        end = (nxt[0] - 1) if nxt else len(hist)
        hist = hist[end:]
        index = [(s0 - end, r) for (s0, r) in index if s0 > start]
    chk.set("traces_validated_against_impl", len(rows))
    chk.set("events", full_len)
    chk.set("alloc_events", n_alloc)
    chk.set("too_complex_events", n_complex)
    chk.set("anti_scratch_errors", n_anti)
    chk.set("tlc_runs", rounds)
    for o in rows[:3]:
        chk.sample({"source": o["text"], "events": o["events"][:8], "mentioned": o["mentioned"]})
    chk.assume("parameter registers of subs are exercised by the real-ECL part only when present (TestLanguage bodies have none)")


def mention_kinds_of(prog):
    """for finding keys: which register-bearing statement kinds the program contains"""
    kinds = set()
    def walk(v):
        if isinstance(v, dict):
            if v.get("k") in ("ds", "tern", "times", "while", "condjump", "xcr"):
                kinds.add(v["k"])
            if v.get("k") == "var" and str(v.get("id", "")).startswith("n:ALIAS"):
                kinds.add("alias")
            if v.get("k") == "var" and v.get("sig"):
                kinds.add("sigil")
            for x in v.values():
                walk(x)
        elif isinstance(v, list):
            for x in v:
                walk(x)
    walk(prog["body"])
    return kinds
