"""C16 — any binary input ends in success or a diagnostic naming the file, never a crash (Mode H + TLC-enumerated field values)."""
import json, os, re, struct, subprocess
from . import lib
from . import toolchain as tc

LEVEL = "exploration"
MANIFEST = dict(
    design='DESIGN.md §4 C16 (+C04), §1 Mode H, §5; design_notes/C16.md',
    technique='TLA+ toolchain contract (spec/Toolchain.tla) + trace validation by TLC (spec/Trace_Outcomes.tla) of recorded histories of real `truth-core ... decompile|extract` invocations; the values written into located fields are enumerated by TLC (spec/Gen_FieldMutations.tla)',
    text="Every bundled binary and binaries compiled from valid sources (ANM, STD, MSG, mission MSG, ECL old and new format) are corrupted by (a) truncation at every offset (quick: every offset of the small files, field boundaries + stride for the others), (b) single-/multi-byte mutations, (c) field-targeted mutations: Python struct walkers locate the instances of each field class (sizes, counts, offsets, jump targets, times, opcodes, register ids, masks, string bytes, THTX dimensions/format/size, magic) and every TLC-enumerated boundary value {min-1,min,-1,0,1,max,max+1,2^w} of every logical width and signedness (plus values relative to the current value / file length) is written in place. Each input is decompiled by the real command line tool under a rotating subset of the five --no-* options, ANM files are also extracted; one process per input (10 s CPU, 4 GiB address space). One event per invocation is recorded (exit status, signal, error/warning line counts, whether stderr names the input file) and TLC accepts a history iff every event is a transition of the contract `Ok | Err(>=1 error diagnostic naming the file)`; panics, aborts, stack overflows, time-outs and allocation failures have no transition. Exploration: universality over byte strings is sampled, not proved.",
    note='Trusted: TLC + CommunityModules Json; the process observation; the layout walkers only choose WHERE to write (a wrong walker makes mutations less targeted, it cannot hide a crash). Finding identity = panic site. Random mutations depend on VERIF_SEED; truncations and field x value sweeps are deterministic.',
)

DECOMPILE_FLAGS = ["--no-blocks", "--no-intrinsics", "--no-arguments", "--no-diff-switches", "--no-calls"]
EXT_TOOL = {".anm": "truanm", ".std": "trustd", ".msg": "trumsg", ".ecl": "truecl"}
GAME_NUM = {"th06": 6, "th07": 7, "th08": 8, "th09": 9, "th095": 9.5, "th10": 10, "th11": 11, "th12": 12, "th125": 12.5, "th128": 12.8,
            "th13": 13, "th14": 14, "th143": 14.3, "th15": 15, "th16": 16, "th165": 16.5, "th17": 17, "th18": 18}

# ----------------------------------------------------------------------------- seeds compiled from valid sources

ECL_BODY = '''void sub0() {
    ins_0();
    $REG[-10001] = 3;
    %REG[-10005] = 1.5;
lab:
    $REG[-10001] = $REG[-10001] - 1;
    if ($REG[-10001] != 0) goto lab;
    times(3) { ins_0(); }
+10:
    {"0"}: ins_0();
    $REG[-10002] = ($REG[-10001] + 2) * 3;
    loop { ins_0(); if ($REG[-10002] == 7) break; }
}
void sub1() {
    ins_0();
}
'''
SOURCES = [
    ("ecl06", "truecl", "th06", "ecl", 'script timeline0 {\n    ins_0(sub0, 1.0, 2.0, 3.0, 100, 1, 7);\n+30:\n    ins_1(sub1, 1.0, 2.0, 3.0);\n    ins_10(1, 2);\n    ins_12(3);\n}\n' + ECL_BODY),
    ("ecl07", "truecl", "th07", "ecl", 'script timeline0 {\n    ins_0(sub0, 1.0, 2.0, 3.0, 100, 1, 7);\n+30:\n    ins_1(sub1, 1.0, 2.0, 3.0);\n    ins_10(1, 2);\n}\n' + ECL_BODY),
    ("ecl08", "truecl", "th08", "ecl", 'script timeline0 {\n    ins_0(sub0, 1.0, 2.0, 100, 1, 7);\n+30:\n    ins_1(sub1, 1.0, 2.0, 100, 1, 7);\n    ins_7();\n}\n' + ECL_BODY),
    ("ecl09", "truecl", "th09", "ecl", 'script timeline0 {\n    ins_0(sub0, 1.0, 2.0, 100, 1, 7);\n+30:\n    ins_7();\n}\nscript timeline1 {\n    ins_7();\n}\n' + ECL_BODY),
    ("ecl095", "truecl", "th095", "ecl", 'script timeline0 {\n    ins_0(sub0, 1.0, 2.0, 100, 1, 7);\n}\n' + ECL_BODY),
    ("ecl10", "truecl", "th10", "ecl", 'meta { ecli: ["default.ecl"], anim: ["enemy.anm", "stg1enm.anm"] }\nvoid main() {\n    ins_10();\nlab:\n+10:\n    ins_17(60);\n    ins_20(1, 2);\n    ins_44(1.5);\n    ins_12(offsetof(lab), timeof(lab));\n    ins_40(8);\n    ins_1();\n}\nvoid helper() {\n    ins_10();\n    ins_17($REG[-9959]);\n}\n'),
    ("mission095", "trumsg-mission", "th095", "msg", 'entry { stage: 1, scene: 2, face: 3, point: 4, text: ["line one", "line two", "three"] }\nentry { stage: 10, scene: 8, face: 0, point: 1000, text: ["a", "", "c"] }\n'),
    ("mission125", "trumsg-mission", "th125", "msg", 'entry { stage: 1, scene: 2, player: 0, unknown_1: 0, unknown_2: 0, point_1: 4, point_2: 5, furigana: [[0, 0], [1, 2], [3, 4]], text: ["l1", "l2", "l3", "l4", "l5", "l6"] }\n'),
    ("anm06", "truanm", "th06", "anm", 'entry {\n    path: "subdir/file.png", has_data: false, rt_width: 512, rt_height: 512, rt_format: 3,\n    colorkey: 0, memory_priority: 0,\n    sprites: { sprite0: {id: 0, x: 0.0, y: 0.0, w: 512.0, h: 480.0}, sprite1: {id: 1, x: 1.0, y: 2.0, w: 3.0, h: 4.0} },\n}\nscript script0 {\nlab:\n+5:\n    ins_1(1);\n    ins_5(offsetof(lab));\n    ins_15();\n}\nscript script1 {\n    ins_0();\n}\n'),
    ("anm08", "truanm", "th08", "anm", 'entry {\n    path: "subdir/file.png", path_2: "subdir/file_a.png", has_data: false, rt_width: 512, rt_height: 512, rt_format: 3,\n    colorkey: 0, memory_priority: 0,\n    sprites: { sprite0: {id: 0, x: 0.0, y: 0.0, w: 512.0, h: 480.0} },\n}\nscript script0 {\n    $REG[10000] = 3;\nlab:\n+5:\n    $REG[10000] = $REG[10000] - 1;\n    if ($REG[10000] != 0) goto lab;\n    %REG[10004] = 1.5;\n}\n'),
    ("anm14", "truanm", "th14", "anm", 'entry {\n    path: "subdir/file.png", has_data: false, rt_width: 512, rt_height: 512, rt_format: 3,\n    memory_priority: 0, low_res_scale: false,\n    sprites: { sprite0: {id: 0, x: 0.0, y: 0.0, w: 512.0, h: 480.0} },\n}\nscript script0 {\n    $REG[10000] = 3;\n    times(2) { ins_0(); }\n}\n'),
    ("std07jmp", "trustd", "th07", "std", 'meta {\n    unknown: 0, stage_name: "dm",\n    bgm: [ {path: "bgm/th06_01.mid", name: "dm"}, {path: " ", name: " "}, {path: " ", name: " "}, {path: " ", name: " "} ],\n    objects: { obj0: { layer: 1, pos: [0.0, 0.0, 0.0], size: [1.0, 1.0, 1.0], quads: [ rect {anm_script: 0, pos: [0.0, 0.0, 0.0], size: [1.0, 1.0]} ] } },\n    instances: [ obj0 {pos: [0.0, 0.0, 0.0]} ],\n}\nscript main {\n    ins_0(1.0, 2.0, 3.0);\nlab:\n+10:\n    ins_0(4.0, 5.0, 6.0);\n    goto lab;\n}\n'),
]


def compile_seeds(chk, wd):
    env = lib.clean_env()
    out = []
    for name, tool, game, ext, text in SOURCES:
        src = os.path.join(wd, name + ".spec")
        dst = os.path.join(wd, name + "." + ext)
        with open(src, "w") as f:
            f.write(text)
        argv = [lib.TRUTH_CORE] + tc.TOOL_ARGV[tool] + ["compile"] + (["--mission"] if tool == "trumsg-mission" else []) + ["-g", game, src, "-o", dst]
        p = subprocess.run(argv, stdout=subprocess.PIPE, stderr=subprocess.PIPE, env=env, timeout=60)
        if p.returncode == 0 and os.path.exists(dst):
            out.append({"name": name + "." + ext, "tool": tool, "game": game, "ext": ext, "data": open(dst, "rb").read(), "origin": "compiled"})
        else:
            chk.add("seed_compile_failed")
            chk.cov.setdefault("seed_compile_failures", []).append(name + ": " + p.stderr.decode("utf-8", "replace")[:200])
    return out


def bundled_seeds():
    out = []
    for d in ("bits-2-bits", "resources"):
        base = os.path.join(lib.REPO, "tests", "integration", d)
        for f in sorted(os.listdir(base)):
            ext = os.path.splitext(f)[1]
            m = re.match(r"(th\d+)-", f)
            p = os.path.join(base, f)
            if ext in EXT_TOOL and m and os.path.isfile(p):
                out.append({"name": f, "tool": EXT_TOOL[ext], "game": m.group(1), "ext": ext[1:], "data": open(p, "rb").read(), "origin": "bundled"})
    return out


# ----------------------------------------------------------------------------- layout walkers (WHERE the fields are)
# Each walker returns (fields, payload) with fields = [(offset, width, class, label)], payload = [(start, end)] byte ranges
# that are image payload.  They read the seed file only; errors end the walk early (the fields found so far are kept).

class Walk:
    def __init__(self, data):
        self.d, self.fields, self.payload = data, [], []

    def u(self, off, w):
        if off < 0 or off + w > len(self.d):
            raise IndexError
        return int.from_bytes(self.d[off:off + w], "little")

    def s(self, off, w):
        v = self.u(off, w)
        return v - (1 << (8 * w)) if v >> (8 * w - 1) else v

    def f(self, off, w, cls, label):
        if 0 <= off and off + w <= len(self.d):
            self.fields.append((off, w, cls, label))
        return off + w

    def seq(self, off, spec, prefix):
        """spec: list of (width, class, name) laid out consecutively"""
        for w, cls, name in spec:
            off = self.f(off, w, cls, prefix + name)
        return off

    def cstring(self, off, prefix, maxlen=512):
        end = off
        while end < len(self.d) and self.d[end] != 0 and end - off < maxlen:
            end += 1
        for o in sorted(set([off, (off + end) // 2, max(off, end - 1), end])):
            self.f(o, 1, "string_byte", prefix)

    def args(self, off, n, prefix, mask=0, targets=()):
        """argument blob: 4-byte words; register words by param mask; plausible jump targets by value"""
        k = 0
        while n - 4 * k >= 4:
            o = off + 4 * k
            v = self.u(o, 4)
            sv = self.s(o, 4)
            cls = "register" if (mask >> k) & 1 else "int_arg"
            self.f(o, 4, cls, "%sarg%d" % (prefix, k))
            if v in targets or sv in targets:
                self.f(o, 4, "jump_target", "%sarg%d" % (prefix, k))
            e = (v >> 23) & 0xff
            if 100 <= e <= 150:
                self.f(o, 4, "float", "%sarg%d" % (prefix, k))
            k += 1
        for j in range(4 * k, n):       # trailing bytes (strings etc.)
            if j in (4 * k, n - 1):
                self.f(off + j, 1, "string_byte", prefix + "argbytes")


def walk_anm(data, game):
    w = Walk(data)
    g = GAME_NUM[game]
    old_header = g < 11
    v0 = g < 7
    entry, n_entry, seen = 0, 0, set()
    try:
        while entry not in seen and n_entry < 64:
            seen.add(entry)
            p = "e%d." % n_entry
            if old_header:
                w.seq(entry, [(4, "count", "num_sprites"), (4, "count", "num_scripts"), (4, "pad", "rt_textureslot"), (4, "dim", "width"), (4, "dim", "height"),
                              (4, "format", "format"), (4, "int_arg", "colorkey"), (4, "offset", "name_offset"), (4, "pad", "unused1"),
                              (4, "offset", "name2_offset"), (4, "version", "version"), (4, "int_arg", "memory_priority"), (4, "offset", "thtx_offset"),
                              (2, "flag", "has_data"), (2, "pad", "unused2"), (4, "offset", "next_offset"), (4, "pad", "unused3")], p)
                nspr, nscr = w.u(entry, 4), w.u(entry + 4, 4)
                name_off, name2_off, thtx_off, next_off = w.u(entry + 28, 4), w.u(entry + 36, 4), w.u(entry + 48, 4), w.u(entry + 56, 4)
            else:
                w.seq(entry, [(4, "version", "version"), (2, "count", "num_sprites"), (2, "count", "num_scripts"), (2, "pad", "rt_textureslot"),
                              (2, "dim", "width"), (2, "dim", "height"), (2, "format", "format"), (4, "offset", "name_offset"), (2, "dim", "offset_x"),
                              (2, "dim", "offset_y"), (4, "int_arg", "memory_priority"), (4, "offset", "thtx_offset"), (2, "flag", "has_data"),
                              (2, "flag", "low_res_scale"), (4, "offset", "next_offset")] + [(4, "pad", "pad%d" % i) for i in range(6)], p)
                nspr, nscr = w.u(entry + 4, 2), w.u(entry + 6, 2)
                name_off, name2_off, thtx_off, next_off = w.u(entry + 16, 4), 0, w.u(entry + 28, 4), w.u(entry + 36, 4)
            t = entry + 64
            spr_offs, scr_offs = [], []
            for i in range(min(nspr, 256)):
                spr_offs.append(w.u(t, 4))
                t = w.f(t, 4, "offset", p + "sprite_offset")
            for i in range(min(nscr, 256)):
                t = w.f(t, 4, "id", p + "script_id")
                scr_offs.append(w.u(t, 4))
                t = w.f(t, 4, "offset", p + "script_offset")
            w.cstring(entry + name_off, p + "name")
            if name2_off:
                w.cstring(entry + name2_off, p + "name2")
            for so in spr_offs:
                o = w.f(entry + so, 4, "id", p + "sprite.id")
                for nm in ("x", "y", "w", "h"):
                    o = w.f(o, 4, "float", p + "sprite." + nm)
            for si, so in enumerate(scr_offs):
                o = entry + so
                q = "%sscript%d." % (p, si)
                # first pass: instruction offsets (jump target candidates)
                offs, oo = [], o
                for _ in range(512):
                    if v0:
                        if oo + 4 > len(data):
                            break
                        size = 4 + w.u(oo + 3, 1)
                        term = data[oo:oo + 4] == b"\0\0\0\0"
                    else:
                        if oo + 4 > len(data):
                            break
                        size = w.u(oo + 2, 2)
                        term = w.s(oo, 2) == -1
                    offs.append(oo - o)
                    if term or size < 4:
                        break
                    oo += size
                targets = set(offs)
                for k, rel in enumerate(offs[:64]):
                    io = o + rel
                    if v0:
                        w.seq(io, [(2, "time", "time"), (1, "opcode", "opcode"), (1, "size", "argsize")], q + "i%d." % k)
                        if io + 4 <= len(data):
                            w.args(io + 4, w.u(io + 3, 1), q + "i%d." % k, 0, targets)
                    else:
                        w.seq(io, [(2, "opcode", "opcode"), (2, "size", "size"), (2, "time", "time"), (2, "mask", "param_mask")], q + "i%d." % k)
                        if io + 8 <= len(data) and w.s(io, 2) != -1:
                            w.args(io + 8, max(0, w.u(io + 2, 2) - 8), q + "i%d." % k, w.u(io + 6, 2), targets)
            if thtx_off:
                t = entry + thtx_off
                w.seq(t, [(4, "magic", "thtx.magic"), (2, "pad", "thtx.zero"), (2, "format", "thtx.format"), (2, "dim", "thtx.width"),
                          (2, "dim", "thtx.height"), (4, "size", "thtx.size")], p)
                size = w.u(t + 12, 4)
                w.payload.append((t + 16, min(len(data), t + 16 + size)))
            if next_off == 0:
                break
            entry += next_off
            n_entry += 1
    except (IndexError, struct.error):
        pass
    return w


def walk_instrs_std(w, o, game, prefix):
    g = GAME_NUM[game]
    offs, oo = [], o
    for _ in range(512):
        if oo + 8 > len(w.d):
            break
        offs.append(oo - o)
        if w.s(oo + 4, 2) == -1:
            break
        size = 20 if g < 9.5 else w.u(oo + 6, 2)
        if size < 8:
            break
        oo += size
    targets = set(offs) | set(x // 20 for x in offs if x % 20 == 0)
    for k, rel in enumerate(offs[:64]):
        io = o + rel
        w.seq(io, [(4, "time", "time"), (2, "opcode", "opcode"), (2, "size", "size")], "%si%d." % (prefix, k))
        if w.s(io + 4, 2) != -1:
            n = 12 if g < 9.5 else max(0, w.u(io + 6, 2) - 8)
            w.args(io + 8, n, "%si%d." % (prefix, k), 0, targets)


def walk_std(data, game):
    w = Walk(data)
    g = GAME_NUM[game]
    try:
        w.seq(0, [(2, "count", "num_objects"), (2, "count", "num_quads"), (4, "offset", "instances_offset"), (4, "offset", "script_offset"), (4, "int_arg", "unknown")], "")
        nobj = w.u(0, 2)
        inst_off, script_off = w.u(4, 4), w.u(8, 4)
        t = 16
        nstr = 9 if g < 9.5 else 1
        for i in range(nstr):
            w.cstring(t, "string%d" % i, 128)
            w.f(t + 127, 1, "string_byte", "string%d.last" % i)
            t += 128
        obj_offs = []
        for i in range(min(nobj, 128)):
            obj_offs.append(w.u(t, 4))
            t = w.f(t, 4, "offset", "object_offset")
        for i, oo in enumerate(obj_offs):
            p = "obj%d." % i
            o = w.seq(oo, [(2, "id", "id"), (2, "int_arg", "layer")] + [(4, "float", "pos")] * 3 + [(4, "float", "size")] * 3, p)
            for q in range(64):
                kind, size = w.s(o, 2), w.u(o + 2, 2)
                w.seq(o, [(2, "id", "quad.kind"), (2, "size", "quad.size")], p)
                if kind == -1 or size < 4:
                    break
                w.seq(o + 4, [(2, "id", "quad.anm_script"), (2, "pad", "quad.index")], p)
                for k in range(8, min(size, 0x24), 4):
                    w.f(o + k, 4, "float", p + "quad.f")
                o += size
        o = inst_off
        for i in range(256):
            oid = w.u(o, 2)
            w.seq(o, [(2, "id", "instance.object_id"), (2, "int_arg", "instance.unknown")], "")
            if oid == 0xffff:
                break
            for k in range(3):
                w.f(o + 4 + 4 * k, 4, "float", "instance.pos")
            o += 16
        walk_instrs_std(w, script_off, game, "script.")
    except (IndexError, struct.error):
        pass
    return w


def walk_msg(data, game):
    w = Walk(data)
    g = GAME_NUM[game]
    flags = g >= 9
    try:
        n = w.u(0, 4)
        t = w.f(0, 4, "count", "table_len")
        offs = []
        for i in range(min(n, 256)):
            offs.append(w.u(t, 4))
            t = w.f(t, 4, "offset", "table.offset")
            if flags:
                t = w.f(t, 4, "int_arg", "table.flags")
        for si, so in enumerate(sorted(set(x for x in offs if x))):
            o = so
            for k in range(256):
                if o + 4 > len(data):
                    break
                argsize = w.u(o + 3, 1)
                w.seq(o, [(2, "time", "time"), (1, "opcode", "opcode"), (1, "size", "argsize")], "s%d.i%d." % (si, k))
                if data[o:o + 4] == b"\0\0\0\0":
                    break
                # string arguments: probe bytes
                w.args(o + 4, min(argsize, 12), "s%d.i%d." % (si, k))
                for j in sorted(set([12, argsize // 2, argsize - 1])):
                    if 12 <= j < argsize:
                        w.f(o + 4 + j, 1, "string_byte", "s%d.i%d.str" % (si, k))
                o += 4 + argsize
    except (IndexError, struct.error):
        pass
    return w


def walk_mission(data, game):
    w = Walk(data)
    esize = (2 + 2 + 4 + 4 + 64 * 3) if game == "th095" else (2 + 2 + 2 + 1 + 1 + 4 + 4 + 24 + 64 * 6)
    try:
        n = w.u(0, 4)
        t = w.f(0, 4, "count", "num_entries")
        for i in range(min(n, 64)):
            t = w.f(t, 4, "offset", "entry_offset")
        for i in range(min(n, 64)):
            o = 4 + 4 * n + esize * i
            if game == "th095":
                o = w.seq(o, [(2, "id", "stage"), (2, "id", "scene"), (4, "int_arg", "face"), (4, "int_arg", "point")], "e%d." % i)
                nl = 3
            else:
                o = w.seq(o, [(2, "id", "stage"), (2, "id", "scene"), (2, "id", "player"), (1, "int_arg", "unknown_1"), (1, "int_arg", "unknown_2"),
                              (4, "int_arg", "point_1"), (4, "int_arg", "point_2")] + [(4, "int_arg", "furigana")] * 6, "e%d." % i)
                nl = 6
            for l in range(nl):
                for j in (0, 1, 31, 63):
                    w.f(o + 64 * l + j, 1, "string_byte", "e%d.text%d" % (i, l))
    except (IndexError, struct.error):
        pass
    return w


def walk_ecl_old(data, game):
    w = Walk(data)
    g = GAME_NUM[game]
    try:
        t = 0
        if g >= 8:
            t = w.f(0, 4, "magic", "magic")
        nsubs, hi = w.u(t, 2), w.u(t + 2, 2)
        t = w.seq(t, [(2, "count", "num_subs"), (2, "count", "num_subs_hi")], "")
        ntl = 3 if g == 6 else (hi if g == 9 else 16)
        tl_offs, sub_offs = [], []
        for i in range(min(ntl, 64)):
            tl_offs.append(w.u(t, 4))
            t = w.f(t, 4, "offset", "timeline_offset")
        for i in range(min(nsubs, 256)):
            sub_offs.append(w.u(t, 4))
            t = w.f(t, 4, "offset", "sub_offset")
        for si, so in enumerate(sub_offs):
            offs, oo = [], so
            for _ in range(512):
                if oo + 12 > len(data):
                    break
                offs.append(oo - so)
                size = w.s(oo + 6, 2)
                if w.u(oo + 4, 2) == 0xffff or size < 12:
                    break
                oo += size
            # old ECL jumps are relative to the instruction
            for k, rel in enumerate(offs[:64]):
                io = so + rel
                targets = set(x - rel for x in offs)
                w.seq(io, [(4, "time", "time"), (2, "opcode", "opcode"), (2, "size", "size"), (1, "pad", "before_difficulty"),
                           (1, "difficulty", "difficulty"), (2, "mask", "param_mask")], "sub%d.i%d." % (si, k))
                if w.u(io + 4, 2) != 0xffff:
                    w.args(io + 12, max(0, w.s(io + 6, 2) - 12), "sub%d.i%d." % (si, k), w.u(io + 10, 2), targets)
        for ti, to in enumerate(x for x in tl_offs if x):
            o = to
            for k in range(64):
                if o + 8 > len(data):
                    break
                p = "tl%d.i%d." % (ti, k)
                if g < 8:
                    w.seq(o, [(2, "time", "time"), (2, "int_arg", "arg0"), (2, "opcode", "opcode"), (2, "size", "size")], p)
                    if (w.s(o, 2), w.s(o + 2, 2)) == (-1, 4):
                        break
                    size = w.s(o + 6, 2)
                else:
                    w.seq(o, [(4, "time", "time"), (2, "opcode", "opcode"), (1, "size", "size"), (1, "difficulty", "difficulty")], p)
                    if w.s(o, 4) == -1:
                        break
                    size = w.u(o + 6, 1)
                if size < 8:
                    break
                w.args(o + 8, size - 8, p)
                o += size
    except (IndexError, struct.error):
        pass
    return w


def walk_ecl_new(data, game):
    w = Walk(data)
    try:
        w.seq(0, [(4, "magic", "magic"), (2, "int_arg", "unknown_1"), (2, "size", "include_length"), (4, "offset", "include_offset"), (4, "pad", "zero_1"),
                  (4, "count", "sub_count"), (4, "pad", "zero_2a"), (4, "pad", "zero_2b"), (4, "pad", "zero_2c"), (4, "pad", "zero_2d")], "")
        inc_len, inc_off, nsub = w.u(6, 2), w.u(8, 4), w.u(16, 4)
        o = inc_off
        for name in ("anim", "ecli"):
            w.f(o, 4, "magic", name + ".magic")
            cnt = w.u(o + 4, 4)
            w.f(o + 4, 4, "count", name + ".count")
            o += 8
            start = o
            for i in range(min(cnt, 64)):
                w.cstring(o, name + ".string")
                while w.u(o, 1) != 0:
                    o += 1
                o += 1
            o = start + ((o - start + 3) // 4) * 4
        o = inc_off + inc_len
        sub_offs = []
        for i in range(min(nsub, 256)):
            sub_offs.append(w.u(o, 4))
            o = w.f(o, 4, "offset", "sub_offset")
        for i in range(min(nsub, 256)):
            w.cstring(o, "sub_name")
            while w.u(o, 1) != 0:
                o += 1
            o += 1
        ends = sorted(sub_offs) + [len(data)]
        for si, so in enumerate(sub_offs):
            w.seq(so, [(4, "magic", "eclh.magic"), (4, "size", "eclh.data0"), (4, "pad", "eclh.data1"), (4, "pad", "eclh.data2")], "sub%d." % si)
            end = min(x for x in ends if x > so)
            offs, oo = [], so + 16
            while oo + 16 <= end and len(offs) < 512:
                offs.append(oo - so - 16)
                size = w.u(oo + 6, 2)
                if size < 16:
                    break
                oo += size
            for k, rel in enumerate(offs[:64]):
                io = so + 16 + rel
                targets = set(x - rel for x in offs)
                w.seq(io, [(4, "time", "time"), (2, "opcode", "opcode"), (2, "size", "size"), (2, "mask", "param_mask"), (1, "difficulty", "difficulty"),
                           (1, "count", "arg_count"), (1, "int_arg", "pop"), (1, "pad", "pad0"), (1, "pad", "pad1"), (1, "pad", "pad2")], "sub%d.i%d." % (si, k))
                w.args(io + 16, max(0, w.u(io + 6, 2) - 16), "sub%d.i%d." % (si, k), w.u(io + 8, 2), targets)
    except (IndexError, struct.error):
        pass
    return w


def walk(seed):
    tool, game, data = seed["tool"], seed["game"], seed["data"]
    if tool == "truanm":
        return walk_anm(data, game)
    if tool == "trustd":
        return walk_std(data, game)
    if tool == "trumsg":
        return walk_msg(data, game)
    if tool == "trumsg-mission":
        return walk_mission(data, game)
    if tool == "truecl":
        return walk_ecl_new(data, game) if GAME_NUM[game] >= 10 else walk_ecl_old(data, game)
    return Walk(data)


# ----------------------------------------------------------------------------- mutations

def apply_row(data, off, width, row):
    """write the TLC-enumerated value into the field; relative rows are evaluated against the current value"""
    cur = int.from_bytes(data[off:off + width], "little")
    mod = 1 << (8 * width)
    if row["kind"] == "abs":
        new = bytes(row["bytes"])
    else:
        n, L = row["name"], len(data)
        if n == "swapcase":
            new = bytes(b ^ 0x20 if (65 <= b <= 90 or 97 <= b <= 122) else b for b in data[off:off + width])
        else:
            v = {"cur+1": cur + 1, "cur-1": cur - 1, "cur*2": cur * 2, "cur/2": cur // 2, "cur+4": cur + 4, "cur-4": cur - 4, "filelen": L,
                 "filelen-1": L - 1, "filelen+1": L + 1, "filelen-cur": L - cur, "cur+filelen": cur + L}[n]
            new = (v % mod).to_bytes(width, "little")
    return data[:off] + new + data[off + width:]


def supported_games(tool):
    """games for which the tool has this kind of file (th095/th125 have mission.msg instead of stage MSG)"""
    if tool == "trumsg-mission":
        return ["th095", "th125"]
    if tool == "trumsg":
        return [g for g in sorted(GAME_NUM) if g not in ("th095", "th125")]
    return sorted(GAME_NUM)


def opts_for(k):
    """rotating subsets of the five --no-* options (all 32 subsets, by index)"""
    k = (k * 11) % 32
    return [f for i, f in enumerate(DECOMPILE_FLAGS) if (k >> i) & 1]


def field_jobs(chk, seed, w, rows, quick):
    by = {}
    for r in rows:
        by.setdefault((r["class"], r["width"]), []).append(r)
    # group instances by class so that the quick tier can rotate through instances
    inst = {}
    for off, width, cls, label in w.fields:
        inst.setdefault((cls, width), []).append((off, label))
    out, seen = [], set()
    for (cls, width), ins in sorted(inst.items()):
        vals = by.get((cls, width), [])
        if not vals:
            continue
        for i, (off, label) in enumerate(ins):
            for j, row in enumerate(vals):
                if not quick and len(ins) > 4 and i not in set(chk_spread(len(ins), 4)):
                    continue
                if quick:
                    # deterministic thinning: one value per instance, rotating through the values of the
                    # class from instance to instance and file to file; at most 5 instances per class and file
                    # (jump targets: every value for up to 5 instances — few instances, and each value class —
                    #  outside the script, inside an instruction, negative — exercises different code)
                    if len(ins) > 5 and i not in set(chk_spread(len(ins), 5)):
                        continue
                    if cls != "jump_target" and (i * 7 + j) % len(vals) != 0:
                        continue
                m = apply_row(seed["data"], off, width, row)
                if m == seed["data"] or (off, m[off:off + width]) in seen:
                    continue
                seen.add((off, m[off:off + width]))
                out.append((m, {"class": "field:%s" % cls, "field": label, "offset": off, "width": width, "value": row["name"], "seed_file": seed["name"]}))
    return out


def chk_spread(n, k):
    if n <= k:
        return list(range(n))
    return sorted(set(int((i + 0.5) * n / k) for i in range(k)))


def truncation_offsets(seed, w, quick):
    n = len(seed["data"])
    if not quick:
        if n <= 512:
            return list(range(n))
        cuts = set(chk_spread(n, 48))
        bounds = sorted(set([o for o, wd, c, l in w.fields] + [o + wd for o, wd, c, l in w.fields if o + wd < n]))
        for i in chk_spread(len(bounds), 64):
            cuts.add(bounds[i])
            if bounds[i] + 1 < n:
                cuts.add(bounds[i] + 1)
        return sorted(c for c in cuts if c < n)
    if n <= 128:
        return list(range(n))
    cuts = set(chk_spread(n, 12))
    bounds = sorted(set([o for o, wd, c, l in w.fields] + [o + wd for o, wd, c, l in w.fields if o + wd < n]))
    for i in chk_spread(len(bounds), 12):
        cuts.add(bounds[i])
        if bounds[i] + 1 < n:
            cuts.add(bounds[i] + 1)
    return sorted(c for c in cuts if c < n)


def byte_jobs(seed, w, quick):
    data = seed["data"]
    n = len(data)
    out = []
    structural = [i for i in range(n) if not any(a <= i < b for a, b in w.payload)]
    pos = [structural[i] for i in chk_spread(len(structural), 2 if quick else 10)]
    for k, p in enumerate(pos):
        for name, m in (("xor-ff", data[:p] + bytes([data[p] ^ 0xff]) + data[p + 1:]),
                        ("xor-80", data[:p] + bytes([data[p] ^ 0x80]) + data[p + 1:]),
                        ("zero-4", data[:p] + b"\0" * min(4, n - p) + data[p + 4:]),
                        ("ones-4", data[:p] + b"\xff" * min(4, n - p) + data[p + 4:]),
                        ("insert-4", data[:p] + b"\x01\0\0\0" + data[p:]),
                        ("delete-4", data[:p] + data[p + 4:])):
            if m != data:
                out.append((m, {"class": "bytes:" + name, "offset": p, "seed_file": seed["name"]}))
    out.append((data + b"\0" * 16, {"class": "bytes:append-zeros", "seed_file": seed["name"]}))
    out.append((data + data, {"class": "bytes:doubled", "seed_file": seed["name"]}))
    out.append((data + b"\xff" * 64, {"class": "bytes:append-ones", "seed_file": seed["name"]}))
    out.append((b"", {"class": "bytes:empty", "seed_file": seed["name"]}))
    return out


def random_mutant(rng, data, structural):
    b = bytearray(data)
    for _ in range(rng.choice([1, 1, 2, 3, 6])):
        op = rng.randrange(7)
        p = structural[rng.randrange(len(structural))] if structural and rng.random() < 0.9 else rng.randrange(len(b) + 1)
        p = min(p, max(0, len(b) - 1))
        if not b:
            b[0:0] = bytes([rng.randrange(256)])
        elif op == 0:
            b[p] = rng.randrange(256)
        elif op == 1:
            b[p] ^= 1 << rng.randrange(8)
        elif op == 2:
            v = rng.choice([0, 1, 0x7f, 0x80, 0xff, 0x7fff, 0x8000, 0xffff, 0x10000, 0x7fffffff, 0x80000000, 0xffffffff, len(b), len(b) - 1])
            wd = rng.choice([1, 2, 4])
            b[p:p + wd] = (v % (1 << (8 * wd))).to_bytes(wd, "little")
        elif op == 3:
            del b[p:p + rng.choice([1, 2, 4, 8, 16])]
        elif op == 4:
            b[p:p] = bytes(rng.randrange(256) for _ in range(rng.choice([1, 2, 4, 8])))
        elif op == 5:
            q = rng.randrange(len(b))
            wd = rng.choice([2, 4, 8])
            b[p:p + wd] = b[q:q + wd]
        else:
            del b[rng.randrange(len(b)):]
    return bytes(b)


# ----------------------------------------------------------------------------- run

EXTRACT_CLASSES = ("field:dim", "field:format", "field:size", "field:magic", "field:offset", "field:count", "field:flag", "seed")


def mk_jobs(seed, data, gen, k, hist, quick=False):
    """decompile under a rotating option set; ANM inputs are also extracted (same history; quick tier:
    the inputs that touch the container / texture fields and every third other input)"""
    # fields whose meaning only exists when the decompiler *interprets* the instruction (jump targets and times,
    # register ids) are decompiled with everything enabled: --no-intrinsics / --no-arguments would bypass that code
    semantic = gen.get("class") in ("field:jump_target", "field:jump_time", "field:register")
    jobs = [tc.Job(seed["tool"], "decompile", seed["game"], data, seed["ext"], opts=[] if semantic else opts_for(k), gen=gen, hist=hist)]
    if seed["tool"] == "truanm" and (not quick or gen["class"] in EXTRACT_CLASSES or k % 3 == 0):
        jobs.append(tc.Job(seed["tool"], "extract", seed["game"], data, seed["ext"], gen=gen, hist=hist))
    return jobs


def run(chk, replay=None):
    if replay:
        tc.replay_job(chk, replay, "c16")
        return
    quick = chk.tier == "quick"
    # the reader's end-of-script machine (spec/ReadInstrs.tla), replayed into llir::read_instrs in-process
    from . import extra_readinstrs
    extra_readinstrs.run(chk)
    runner = tc.Runner("c16")
    wd = lib.workdir("c16_gen")
    out = os.path.join(wd, "rows.ndjson")
    r = lib.tlc("Gen_FieldMutations", env={"OUT": out}, workers=4, timeout=600)
    if not r.ok:
        raise lib.ToolError("Gen_FieldMutations: an in-model fact about the enumerated values does not hold\n" + r.out[-3000:])
    chk.tlc_stats(r)
    rows = lib.read_ndjson(out)
    chk.set("tlc_enumerated_field_values", len(rows))

    seeds = bundled_seeds() + compile_seeds(chk, wd)
    # a binary is also read as the other games of its tool that share the container (rotating)
    chk.set("seed_files", len(seeds))
    jobs, k = [], 0
    structural_of = {}
    n_fields = 0
    for si, seed in enumerate(seeds):
        w = walk(seed)
        n_fields += len(w.fields)
        data = seed["data"]
        structural_of[seed["name"]] = (w, [i for i in range(len(data)) if not any(a <= i < b for a, b in w.payload)])
        inputs = [(data, {"class": "seed", "seed_file": seed["name"]})]
        for cut in truncation_offsets(seed, w, quick):
            inputs.append((data[:cut], {"class": "truncate", "offset": cut, "seed_file": seed["name"]}))
        inputs += field_jobs(chk, seed, w, rows, quick)
        inputs += byte_jobs(seed, w, quick)
        for m, gen in inputs:
            k += 1
            jobs += mk_jobs(seed, m, gen, k, ("h", k), quick)
    # printing width option on pristine files (one seed per tool): decompile "under any options"
    done = set()
    for seed in seeds:
        if seed["tool"] in done:
            continue
        done.add(seed["tool"])
        for width in ("0", "1", "2", "3", "7", "4294967295", "18446744073709551615"):      # valid values only: a usage error is not about the file
            k += 1
            jobs.append(tc.Job(seed["tool"], "decompile", seed["game"], seed["data"], seed["ext"], opts=["--max-columns", width],
                               gen={"class": "option:max-columns", "seed_file": seed["name"], "width": width}, hist=("h", k)))
    chk.set("field_instances_located", n_fields)
    nrand = 300 if quick else 6000
    games = sorted(GAME_NUM)
    for i in range(nrand):
        seed = seeds[chk.rng.randrange(len(seeds))]
        w, structural = structural_of[seed["name"]]
        m = random_mutant(chk.rng, seed["data"], structural)
        s2 = seed
        if chk.rng.random() < 0.15:      # read as another supported game of the same tool
            g = chk.rng.choice(supported_games(seed["tool"]))
            s2 = dict(seed, game=g)
        k += 1
        jobs += mk_jobs(s2, m, {"class": "random", "seed_file": seed["name"], "k": i}, chk.rng.randrange(32), ("h", k), quick)

    runner.run(jobs)
    chk.add("evaluations", len(jobs))
    tc.outcome_counters(chk, jobs)
    for j in jobs:
        chk.add("inputs_" + j.gen["class"].split(":")[0])
    rejected = tc.judge(chk, jobs, "c16")
    tc.report_rejections(chk, rejected, runner)

    # distinct & non-trivial: distinct (tool, game, bytes) that differ from their seed file inside a structural region
    # (anything but THTX image payload), or in length
    seen = set()
    seed_data = {s["name"]: s["data"] for s in seeds}
    for j in jobs:
        if j.gen["class"] in ("seed", "option:max-columns"):
            continue
        sd = seed_data[j.gen["seed_file"]]
        w, structural = structural_of[j.gen["seed_file"]]
        d = j.data
        if len(d) == len(sd) and all(d[i] == sd[i] for i in structural):
            continue
        seen.add((j.tool, j.game, lib.sha(d)))
    chk.set("distinct_nontrivial", len(seen))
    chk.set("rule", "inputs: every bundled binary and binaries compiled from valid sources, (a) truncated (every offset of files <= 128 bytes, "
                    "field boundaries + stride for larger ones in quick; every offset of files <= 512 bytes, 48 spread cuts + 64 field boundaries above, in thorough), (b) byte mutations at "
                    "structural positions, (c) every located field instance x TLC-enumerated boundary values (spec/Gen_FieldMutations.tla; "
                    "quick: fixed rotation of values over instances), + VERIF_SEED-dependent random mutations; each decompiled under a "
                    "rotating --no-* option subset, ANM also extracted. Counted as distinct_nontrivial: distinct (tool, game, bytes) that differ "
                    "from their seed file in length or inside a structural field (outside THTX image payload).")
    chk.set("exhaustive", False)
    picked = set()
    for j in jobs:
        c = j.gen["class"].split(":")[0]
        if c not in picked and c != "seed":
            picked.add(c)
            d = j.describe()
            chk.sample({"class": j.gen["class"], "gen": j.gen, "command": d["command"], "input_hex": j.data[:96].hex(), "input_len": len(j.data),
                        "observed": {x: j.event[x] for x in ("exit_code", "signal", "timed_out", "n_error_diags", "n_warning_diags", "names_file")}})
    chk.assume("one process per input with a 10 s CPU-time limit, a 60 s wall-clock backstop and a 4 GiB address-space limit; stdout is discarded")
    chk.assume("an error diagnostic = a stderr line starting with 'error'; 'names the file' = the input's file name occurs in stderr")
    chk.assume("universality over byte strings is explored, not proved; truncations and field x value sweeps are deterministic")
