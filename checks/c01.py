"""C01 — decompile then recompile reproduces the binary bit-for-bit (Mode H + in-model MC).

The real CLI (`truth-core`, built from the current tree) is launched once per command; every launch
becomes one event of a content-addressed history; TLC validates the history against the L3 contract
spec/ToolchainRT.tla through spec/Trace_ToolchainRT.tla (RoundTrip is a guard of every compile event,
Total of every decompile of a trusted binary).  TLC also model-checks the small abstract toolchain
(MC_ToolchainRT) so that the reused actions are exercised and the guards are shown to be tight.

This file contains *no* reference semantics: generators of shapes, launching, hashing, and labelling of
what TLC rejected.  (checks/c19.py reuses the generators and the launcher.)
"""
import hashlib, json, os, random, re, shutil, struct, subprocess, threading
from concurrent.futures import ThreadPoolExecutor
from . import lib, gen_progs
from .gen_progs import ilit, binop, unop

LEVEL = "model_checking"
MANIFEST = dict(
    design='DESIGN.md §4 C01, §1 (Mode H), §0 (layer L3)',
    technique='explicit TLA+ L3 contract (spec/ToolchainRT.tla: content-addressed store, memo of command outcomes, RoundTrip/Deterministic/Total as action guards) model-checked by TLC on a small abstract toolchain (MC_ToolchainRT) and bound to the code by trace validation (Trace_ToolchainRT) of recorded histories of real truth-core launches',
    text='Binaries = the bundled game files plus compile(S) for generated sources S in ANM (th07/08/12/16), pre-TH10 ECL + timelines (th06/07/08), STD (th06/08/12), MSG (th06/08/09/12/17), END (th10) and mission MSG (th095/125): structured blocks, jump graphs with explicit times, negative/decreasing time labels, difficulty masks and switches, locals, raw @blob/@mask arguments with arbitrary float bit patterns, string/padding/furigana shapes. Each binary is decompiled by the real CLI under all 32 subsets of the five --no-* options x formatter widths {1,7,20,40,99,200} (2 per option set in quick), with and without a generated user mapfile (aliases for instructions, registers, difficulty flags; extra enums), and the text is recompiled with the original as image source. One event per launch (command key, exit status, sha-256 of output/stdout/stderr); TLC accepts the history iff every event is an allowed transition of the contract, i.e. every lossless decompile followed by the recompile gives back the original bytes and decompiling a compile-emitted/bundled binary never fails. In-model: TLC explores the abstract toolchain (3 contents x 2 option sets x 2 widths, both kinds of format) and checks that the guards imply the declarative RoundTrip/Deterministic properties over the history, that memo/store are exactly the history, that refused events really break a property, and that every action/branch is taken.',
    note='Trusted: TLC + CommunityModules Json; sha-256 as content identity; the JSON->text renderer (vh::render) and the source templates; the closed list of loss warnings (design_notes/C01.md). "Every binary a compile command can emit" is sampled by generators, not enumerated; real game files are not available (only the bundled miniatures). A decompile that prints a loss warning is exempt (and counted).',
)

WIDTHS = [1, 7, 20, 40, 99, 200]
NO_OPTS = ["--no-blocks", "--no-intrinsics", "--no-arguments", "--no-diff-switches", "--no-calls"]
OPTSETS = [[o for j, o in enumerate(NO_OPTS) if m >> j & 1] for m in range(32)]

# ------------------------------------------------------------------------------------------------
# Loss warnings: closed list transcribed from the `warning!(` texts of /repo/src that say that
# information read from the binary is dropped or changed (see design_notes/C01.md for every warning
# and the decision).  A warning that is not on this list is NOT a loss warning (strict).
LOSS_WARNINGS = [
    "nonzero data found in padding",                                # llir/raise/early.rs (ignoring nonzero data found in padding)
    "will be lost",                                                 # anm/read_write.rs, ecl_10.rs ("nonzero ... will be lost")
    "nonzero thtx_zero lost",                                       # anm/read_write.rs
    "missing end-of-script marker will be added on recompilation",  # llir/mod.rs
    "string will be truncated at first null",                       # io.rs
    "missing null terminator will be appended to string",           # io.rs
    "unexpected leftover bytes in ins_",                            # llir/raise/early.rs
    "unused mask bits in ins_",                                     # llir/raise/early.rs
    "invalid offset in a jump instruction",                         # llir/raise/early.rs
    "only one will be kept",                                        # anm/read_write.rs (sprite ID appeared twice)
    "Only one will appear in the output",                           # ecl_10.rs (multiple subs with the same name)
    "non-boolean value found for",                                  # anm/read_write.rs (has_data / low_res_scale)
    "strange image data size",                                      # anm/read_write.rs
    "unexpected nonzero high word for num_subs",                    # ecl_06.rs
    "nonzero entries in timeline table, but found",                 # ecl_06.rs
    "unexpected nonzero byte before difficulty mask",               # ecl_06.rs
    "unexpected non-FF parameter mask in EoSD",                     # ecl_06.rs
    "strange offset in offset table",                               # mission.rs
    "object has non-sequential id",                                 # std.rs
    "unexpected data in",                                           # ecl_10.rs header fields / padding
    "unexpected value of include_",                                 # ecl_10.rs
]


def has_loss_warning(stderr_text):
    return any(w in stderr_text for w in LOSS_WARNINGS)


def cid(data):
    if isinstance(data, str):
        data = data.encode()
    return hashlib.sha256(data).hexdigest()[:24]


# ------------------------------------------------------------------------------------------------
# Languages: (sub-command, game, registers, plain instructions by argument shape).
# Argument letters: i int (register/expression allowed)  f float (register/expression allowed)
#   I int literal  F float literal  h 16-bit literal  b byte literal  B bool literal  C colour literal
#   z string  m masked string  n sprite  N script  E sub name (timelines)
# Transcribed from /repo/src/core_mapfiles/*.rs (signature strings only).
class Lang:
    def __init__(self, key, fmt, game, mode=(), ints=(), floats=(), instrs=(), jump=False, jump_time=True, interrupt=False,
                 diff=False, alias_extra=(), ext="bin", mapmagic=None, time_range=1000, aux_diff=False, countjmp=True, cond=True):
        self.key, self.fmt, self.game, self.mode = key, fmt, game, list(mode)
        self.ints, self.floats, self.instrs = list(ints), list(floats), list(instrs)
        self.jump, self.jump_time, self.interrupt, self.diff = jump, jump_time, interrupt, diff
        self.alias_extra, self.ext, self.mapmagic, self.time_range = list(alias_extra), ext, mapmagic, time_range
        self.aux_diff = aux_diff
        self.regs = bool(ints)
        # the game's counting jump tests `--x > 0` (PCB-IN ANM, old ECL) or `--x != 0` (later ANM)
        self.countjmp_gt = fmt == "truecl" or (fmt == "truanm" and game in ("7", "8"))

    @property
    def cmd(self):
        return " ".join([self.fmt] + self.mode)


def rng_list(*spans):
    out = []
    for a, b in spans:
        out += list(range(a, b + 1))
    return out


ANM_07 = [(0, ""), (1, ""), (2, ""), (3, "n"), (6, "fff"), (7, "ff"), (12, "fff"), (13, "fff"), (14, "ff"), (17, "fffi"), (26, "f"), (27, "f"),
          (29, "ffi"), (59, "iI"), (60, "ff"), (66, "f"), (79, "i"), (80, "f"), (81, "f"), (16, "I"), (24, "B"), (25, "h"), (30, "B")]
ANM_12 = [(0, ""), (1, ""), (2, ""), (3, "n"), (40, "ii"), (41, "ff"), (47, "f"), (48, "fff"), (49, "fff"), (50, "ff"), (53, "fff"), (54, "ff"),
          (70, "f"), (71, "f"), (75, "i"), (76, "iii"), (77, "i"), (78, "iiiii"), (79, "iii"), (84, "i"), (93, "iif"), (99, "i"), (103, "ff"),
          (104, "fi"), (107, "iiff"), (51, "i"), (65, "hh"), (66, "I"), (72, "B"), (68, "b"), (55, "bI"), (56, "iIfff"), (88, "N"), (61, ""), (63, "")]
ANM_16 = [(0, ""), (1, ""), (2, ""), (3, ""), (4, ""), (6, "i"), (7, ""), (122, "ii"), (123, "ff"), (129, "f"), (130, "ffff"), (300, "n"), (302, "i"),
          (312, "ii"), (400, "fff"), (402, "ff"), (404, "iii"), (407, "iifff"), (411, "iif"), (425, "f"), (500, "N"), (604, "fi"), (421, "hh")]
ANM_INTS = [10000, 10001, 10002, 10003, 10008, 10009]
ANM_FLOATS = [10004, 10005, 10006, 10007]

ECL_06 = [(0, ""), (10, "i"), (11, "i"), (12, "i"), (43, "fff"), (45, "ff"), (46, "f"), (47, "f"), (48, "f"), (81, "fff"), (82, "iiiiffff"),
          (87, "i"), (123, "i"), (127, "i"), (49, "FF"), (51, "Ff"), (52, "IfF"), (56, "Ifff"), (76, "I"), (88, "If"), (100, "bbb"),
          (104, "B"), (128, "h"), (67, "hhiiffffI"), (94, ""), (96, "")]
ECL_07 = [(0, ""), (1, ""), (8, "ff"), (9, "fff"), (10, "ii"), (11, "ff"), (26, "fffff"), (27, "fiiiffff"), (40, "f"), (43, "iii"), (44, "ffi"),
          (45, "i"), (46, "fff"), (48, "f"), (53, "ff"), (54, "iiff"), (59, "i"), (62, "ffff"), (63, ""), (64, "hhiiffffI")]
ECL_08 = [(0, ""), (1, ""), (2, "i"), (3, "i"), (8, "ii"), (9, "ff"), (34, "fffff"), (35, "ffff"), (36, "fiiiffff"), (37, "f"), (62, ""), (63, "ff"),
          (64, "iiff"), (67, "iif"), (70, "f"), (72, "iffffff")]
TL_06 = [(0, "EFFFhhI"), (2, "EFFFhhI"), (1, "EFFF"), (3, "EFFF"), (9, ""), (10, "II"), (8, "h")]
TL_07 = [(0, "EFFFIII"), (2, "EFFFIII"), (4, "EFFFIII"), (1, "EFFF"), (9, ""), (10, "II"), (8, "h")]
TL_08 = [(0, "EFFIII"), (1, "EFFIII"), (2, "EFFFIII"), (3, "EFIII"), (7, ""), (9, "I"), (10, "I"), (16, ""), (8, "Ih")]

STD_06 = [(0, "FFF"), (1, "CFF"), (2, "FFF"), (3, "I"), (4, "I"), (5, "")]
STD_08 = [(0, "FFF"), (1, "CFF"), (2, "I"), (3, ""), (5, "FFF"), (6, "II"), (7, "FFF"), (8, "II"), (11, "F"), (13, "C"), (18, "I"), (29, "I"), (32, "FFF"), (33, "b")]
STD_12 = [(0, ""), (2, "FFF"), (3, "IIFFF"), (4, "FFF"), (6, "FFF"), (7, "F"), (8, "CFF"), (12, "b"), (13, "C"), (14, "II"), (17, "I"), (18, "IIFFF")]

MSG_06 = [(0, ""), (1, "hh"), (2, "hh"), (3, "hhz"), (4, "I"), (5, "hb"), (6, ""), (7, "I"), (8, "hhz"), (10, ""), (11, ""), (12, ""), (13, "B")]
MSG_08 = [(0, ""), (1, "hh"), (2, "hh"), (3, "hhm"), (4, "I"), (5, "hb"), (6, ""), (7, "I"), (8, "hhm"), (10, ""), (13, "B"), (14, ""), (15, "Ihhhh"),
          (16, "m"), (17, "Ih"), (18, "B"), (19, "m"), (20, "m"), (21, "I"), (22, "")]
MSG_09 = [(0, ""), (1, "h"), (2, "hh"), (3, "hhm"), (4, "I"), (5, "hb"), (6, ""), (7, "I"), (8, ""), (9, "I"), (15, "Ihh"), (16, "m"), (17, "Ih"),
          (23, "I"), (24, ""), (25, ""), (26, "b"), (28, "I")]
MSG_12 = [(0, ""), (3, ""), (4, ""), (5, ""), (6, ""), (7, ""), (8, ""), (9, ""), (10, "I"), (11, "I"), (12, ""), (13, "I"), (14, "I"), (15, "m"), (16, "m"),
          (17, "m"), (18, ""), (19, ""), (20, ""), (21, ""), (25, "I"), (26, ""), (27, "F")]
MSG_17 = [(0, ""), (3, ""), (4, ""), (5, "I"), (8, "I"), (10, "I"), (14, "II"), (15, "m"), (16, "m"), (17, "m"), (20, "I"), (27, "F"), (28, "FF"), (29, "I"),
          (30, ""), (31, "I"), (32, "I"), (33, "II"), (34, "II"), (35, "")]
END_10 = [(0, ""), (3, "z"), (4, ""), (5, "I"), (6, "I"), (7, "Iz"), (8, "III"), (9, "C"), (10, "z"), (11, ""), (12, "z"), (13, "I"), (14, "I"), (15, "III"), (16, "III"), (17, "III")]

LANGS = {l.key: l for l in [
    Lang("anm07", "truanm", "7", ints=ANM_INTS, floats=ANM_FLOATS, instrs=ANM_07, jump=True, interrupt=True, ext="anm", mapmagic="!anmmap",
         alias_extra=rng_list((4, 5), (21, 21), (37, 58), (61, 65), (67, 78))),
    Lang("anm08", "truanm", "8", ints=ANM_INTS, floats=ANM_FLOATS, instrs=ANM_07 + [(82, "I"), (83, "I"), (85, "i"), (89, "")], jump=True, interrupt=True,
         ext="anm", mapmagic="!anmmap", alias_extra=rng_list((4, 5), (21, 21), (37, 58), (61, 65), (67, 78))),
    Lang("anm12", "truanm", "12", ints=ANM_INTS, floats=ANM_FLOATS, instrs=ANM_12, jump=True, interrupt=True, ext="anm", mapmagic="!anmmap",
         alias_extra=rng_list((4, 39), (42, 46), (64, 64))),
    Lang("anm16", "truanm", "16", ints=ANM_INTS, floats=ANM_FLOATS, instrs=ANM_16, jump=True, interrupt=True, ext="anm", mapmagic="!anmmap",
         alias_extra=rng_list((5, 5), (100, 121), (124, 128), (200, 213))),
    Lang("ecl06", "truecl", "6", ints=[-10001, -10002, -10003, -10004, -10009, -10010, -10011, -10012], floats=[-10005, -10006, -10007, -10008],
         instrs=ECL_06, jump=True, diff=True, ext="ecl", mapmagic="!eclmap", alias_extra=rng_list((2, 5), (13, 17), (20, 24), (27, 36))),
    Lang("ecl07", "truecl", "7", ints=[10000, 10001, 10002, 10003, 10012, 10013, 10014, 10015], floats=[10004, 10005, 10006, 10007, 10008, 10009],
         instrs=ECL_07, jump=True, diff=True, ext="ecl", mapmagic="!eclmap", alias_extra=rng_list((2, 5), (12, 16), (19, 25), (28, 39), (41, 42))),
    Lang("ecl08", "truecl", "8", ints=[10000, 10001, 10002, 10003, 10004, 10005, 10006, 10007], floats=[10016, 10017, 10018, 10019, 10020, 10021],
         instrs=ECL_08, jump=True, diff=True, aux_diff=True, ext="ecl", mapmagic="!eclmap", alias_extra=rng_list((4, 7), (10, 29), (32, 33), (40, 53))),
    Lang("std06", "trustd", "6", instrs=STD_06, ext="std", mapmagic="!stdmap"),
    Lang("std08", "trustd", "8", instrs=STD_08, jump=True, interrupt=True, ext="std", mapmagic="!stdmap", alias_extra=[4, 31]),
    Lang("std12", "trustd", "12", instrs=STD_12, jump=True, interrupt=True, ext="std", mapmagic="!stdmap", alias_extra=[1, 16]),
    Lang("msg06", "trumsg", "6", instrs=MSG_06, ext="msg", mapmagic="!msgmap"),
    Lang("msg08", "trumsg", "8", instrs=MSG_08, ext="msg", mapmagic="!msgmap"),
    Lang("msg09", "trumsg", "9", instrs=MSG_09, ext="msg", mapmagic="!msgmap"),
    Lang("msg12", "trumsg", "12", instrs=MSG_12, ext="msg", mapmagic="!msgmap"),
    Lang("msg17", "trumsg", "17", instrs=MSG_17, ext="msg", mapmagic="!msgmap"),
    Lang("end10", "trumsg", "10", mode=["--ending"], instrs=END_10, ext="end", mapmagic="!endmap"),
    Lang("mission095", "trumsg", "095", mode=["--mission"], ext="msg"),
    Lang("mission125", "trumsg", "125", mode=["--mission"], ext="msg"),
]}
TIMELINES = {"ecl06": TL_06, "ecl07": TL_07, "ecl08": TL_08}

# ------------------------------------------------------------------------------------------------
# Generators (shapes only).


def raw(text):
    """an atom rendered verbatim by vh::render (var with an id that is neither r<number> nor n:<name>)"""
    assert not re.match(r"r-?\d+$", text) and not text.startswith("n:")
    return {"k": "var", "sig": "", "id": text}


def reg(r, sig):
    return {"k": "var", "sig": sig, "id": "r%d" % r}


INT_LITS = [0, 1, 2, 3, 5, 7, 10, 16, 100, 255, 256, 1000, 65535, 65536, 0x7fffffff, -1, -2, -5, -100, -65536, -0x80000000, 0x12345678]
SMALL_LITS = [0, 1, 2, 3, 5, 7, 10, 100, 255, 256, 1000, 32767, -1, -2, -100, -32768]
BYTE_LITS = [0, 1, 2, 3, 7, 100, 127, -1, -128]
FLOAT_TEXTS = ["0.0", "1.0", "2.0", "0.5", "0.25", "1.5", "-1.0", "-0.5", "0.1", "0.3", "3.14159", "100.0", "-100.25", "512.0", "0.001", "1234567.0",
               "16777216.0", "0.000001", "-0.0", "33.333332", "1000000000.0", "0.7853982", "INF", "-INF", "NAN", "PI", "123456789012.0", "0.00000000001"]
COLOR_LITS = [0, 0xff, 0xff0000, 0x00ff00, 0xffffff, 0x80808080, -1, 0x12345678, -16777216]
STRINGS = ["", "a", "ab", "abc", "abcd", "abcde", "hello world", "0123456789abcdef", "x" * 31, "y" * 32, "z" * 33, "Reimu", "こんにちは", "東方紅魔郷",
           "博麗 霊夢", "|0,12,ふりがな", "|5,3,かな", "|", "||", "a|b", "tab\there", "quote\"inside", "back\\slash", "line\nbreak", " lead", "trail ", "ｶﾀｶﾅ",
           "ＡＢＣ", "a" * 63, "。、", "100%", "{brace}", "// not a comment", "/* nor this */", "あ", "あa", "aあ", "♪", "…", "①"]


def int_lit(rng, pool=INT_LITS):
    return ilit(rng.choice(pool))


def float_lit(rng):
    t = rng.choice(FLOAT_TEXTS)
    return raw("(%s)" % t if t.startswith("-") else t)


def blob_text(words):
    return " ".join("%08x" % struct.unpack(">I", struct.pack("<I", w & 0xffffffff))[0] for w in words)


NAN_PAYLOAD_BITS = [0x7fc00001, 0xffc00000, 0x7f800001, 0x7fffffff, 0xffffffff]     # NaNs other than the canonical quiet NaN (probe "nanbits")
FLOAT_BITS = [0x00000000, 0x80000000, 0x3f800000, 0xbf800000, 0x7f800000, 0xff800000, 0x7fc00000,
              0x00000001, 0x007fffff, 0x00800000, 0x7f7fffff, 0x3dcccccd, 0x3eaaaaab, 0x40490fdb, 0x4b800000, 0x4b7fffff, 0x501502f9, 0x2edbe6ff,
              0x3f7fffff, 0x3f800001, 0x461c4000, 0x461c4001, 0xc61c4000, 0x1, 0x33d6bf95, 0x5d5e0b6b, 0x0da24260, 0x7149f2ca]


class RealGen(gen_progs.BlockGen):
    """Structured + unstructured bodies in a real game language."""

    def __init__(self, rng, lang, names=None, subs=(), params=(), max_depth=3, rich=True, flavour="blocks"):
        ints = rng.sample(lang.ints, rng.choice([1, 2, 2, 3])) if lang.regs else []
        floats = rng.sample(lang.floats, rng.choice([0, 1, 1, 2])) if lang.regs else []
        super().__init__(rng, max_depth=max_depth, ints=ints or [0], floats=floats, rich_exprs=rich, diff_labels=False)
        self.lang = lang
        self.names = names or {}           # sprites / scripts usable as arguments
        self.subs = list(subs)             # (name, "if" signature) callable subs (ECL)
        self.params = list(params)         # (name, ty) parameters of this sub
        self.flavour = flavour
        self.nlabel = 0
        self.labels = []
        self.use_diff = lang.diff and rng.random() < 0.6
        self.diff_flags = "01234567" if lang.aux_diff else "0123"

    # ---- atoms
    def int_atom(self):
        if not self.lang.regs:
            return int_lit(self.rng)
        r = self.rng.random()
        vis = [n for sc in self.locals for (n, t) in sc if t == "i"] + [n for n, t in self.params if t == "i"]
        if vis and r < 0.25:
            return gen_progs.local(self.rng.choice(vis))
        if r < 0.6:
            return reg(self.rng.choice(self.ints), "$")
        return int_lit(self.rng)

    def float_atom(self):
        if self.lang.regs:
            vis = [n for sc in self.locals for (n, t) in sc if t == "f"] + [n for n, t in self.params if t == "f"]
            r = self.rng.random()
            if vis and r < 0.2:
                return gen_progs.local(self.rng.choice(vis))
            if self.floats and r < 0.55:
                return reg(self.rng.choice(self.floats), "%")
        return float_lit(self.rng)

    def int_expr(self, depth=0):
        r = self.rng.random()
        if not self.lang.regs or depth >= 2 or r < 0.55:
            return self.int_atom()
        if r < 0.9:
            return binop(self.rng.choice(["+", "-", "*", "/", "%"]), self.int_expr(depth + 1), self.int_expr(depth + 1))
        return unop("-", self.int_expr(depth + 1))

    def float_expr(self, depth=0):
        r = self.rng.random()
        if not self.lang.regs or depth >= 2 or r < 0.55:
            return self.float_atom()
        if r < 0.85:
            return binop(self.rng.choice(["+", "-", "*", "/"]), self.float_expr(depth + 1), self.float_expr(depth + 1))
        if r < 0.93 and self.lang.key != "ecl06":
            return unop(self.rng.choice(["sin", "cos"]), self.float_expr(depth + 1))
        return self.float_atom()

    def diff_switch(self, mk):
        n = len(self.diff_flags) if self.rng.random() < 0.3 else 4
        cases = [mk() for _ in range(n)]
        for j in range(1, n):
            if self.rng.random() < 0.3:
                cases[j] = {"k": "hole"}
        return {"k": "ds", "cases": cases}

    def arg(self, letter):
        rng = self.rng
        if letter == "i":
            if self.use_diff and rng.random() < 0.15:
                return self.diff_switch(self.int_atom)
            return self.int_expr() if self.rich and rng.random() < 0.3 else self.int_atom()
        if letter == "f":
            if self.use_diff and rng.random() < 0.15:
                return self.diff_switch(self.float_atom)
            return self.float_expr() if self.rich and rng.random() < 0.3 else self.float_atom()
        if letter == "I":
            if self.use_diff and rng.random() < 0.1:
                return self.diff_switch(lambda: int_lit(rng))
            return int_lit(rng)
        if letter == "F":
            return float_lit(rng)
        if letter == "h":
            return int_lit(rng, SMALL_LITS)
        if letter == "b":
            return int_lit(rng, BYTE_LITS)
        if letter == "B":
            return rng.choice([raw("true"), raw("false"), ilit(0), ilit(1)])
        if letter == "C":
            return int_lit(rng, COLOR_LITS)
        if letter in "zm":
            return {"k": "str", "v": rng.choice(STRINGS)}
        if letter == "n":
            sp = self.names.get("sprites") or []
            return raw(rng.choice(sp)) if sp and rng.random() < 0.7 else int_lit(rng, [0, 1, 2, 3, 47, -1])
        if letter == "N":
            sc = self.names.get("scripts") or []
            return raw(rng.choice(sc)) if sc and rng.random() < 0.7 else int_lit(rng, [0, 1, 2, 3, 9])
        if letter == "E":
            return raw(rng.choice(self.names["subs"]))
        raise ValueError(letter)

    def raw_call(self, opcode, sig):
        """the same instruction written with @mask/@blob: arbitrary bit patterns in the arguments"""
        rng = self.rng
        words, mask = [], 0
        use_mask = self.lang.regs and self.lang.key != "ecl06"      # EoSD has no parameter mask
        for j, letter in enumerate(sig):
            if letter == "f" and use_mask and self.floats and rng.random() < 0.2:
                words.append(struct.unpack("<I", struct.pack("<f", float(rng.choice(self.floats))))[0])
                mask |= 1 << j
            elif letter in "fF":
                w = rng.choice(FLOAT_BITS) if rng.random() < 0.6 else rng.getrandbits(32)
                if w & 0x7f800000 == 0x7f800000 and w & 0x007fffff:
                    w = 0x7fc00000       # NaN payloads are the subject of the "nanbits" probe, not of the random programs
                words.append(w)
            elif letter == "i" and use_mask and rng.random() < 0.3:
                words.append(rng.choice(self.ints) & 0xffffffff)
                mask |= 1 << j
            else:
                words.append(rng.choice(INT_LITS) & 0xffffffff)
        pseudos = []
        if use_mask:
            pseudos.append({"kind": "mask", "v": ilit(mask)})
        pseudos.append({"kind": "blob", "v": {"k": "str", "v": blob_text(words)}})
        return {"k": "expr", "e": {"k": "call", "name": {"ins": opcode}, "pseudos": pseudos, "args": []}}

    def instr_call(self):
        rng = self.rng
        if self.subs and rng.random() < 0.12:
            name, sig = rng.choice(self.subs)
            return {"k": "expr", "e": {"k": "call", "name": {"name": name}, "pseudos": [], "args": [self.arg(c) for c in sig]}}
        opcode, sig = rng.choice(self.lang.instrs)
        if self.flavour == "raw" and all(c in "ifIF" for c in sig) and sig and rng.random() < 0.7:
            return self.raw_call(opcode, sig)
        return {"k": "expr", "e": {"k": "call", "name": {"ins": opcode}, "pseudos": [], "args": [self.arg(c) for c in sig]}}

    # ---- statements
    def time_label(self):
        rng = self.rng
        r = rng.random()
        T = self.lang.time_range
        if r < 0.5:
            return {"k": "rel", "e": ilit(rng.choice([0, 1, 2, 5, 10, 30, 60, 100]))}
        if r < 0.85:
            return {"k": "abs", "t": rng.choice([0, 0, 1, 5, 10, 20, 30, 60, 100, 120, 300, T])}
        return {"k": "abs", "t": rng.choice([-1, -5, -10, -100, -T])}

    def simple(self):
        rng = self.rng
        r = rng.random()
        if not self.lang.regs or r < 0.45:
            s = self.instr_call()
        elif r < 0.75:
            tgt = reg(rng.choice(self.ints), "$")
            op = rng.choice(["=", "=", "+=", "-=", "*=", "/=", "%="])
            s = {"k": "assign", "var": tgt, "op": op, "value": self.int_expr()}
        elif r < 0.87 and self.floats:
            tgt = reg(rng.choice(self.floats), "%")
            s = {"k": "assign", "var": tgt, "op": rng.choice(["=", "+=", "-=", "*=", "/="]), "value": self.float_expr()}
        elif r < 0.95:
            self.nlocal += 1
            ty = "float" if rng.random() < 0.3 else "int"
            name = "loc%d" % self.nlocal
            init = self.float_atom() if ty == "float" else self.int_atom()
            self.locals[-1].append((name, ty[0]))
            return {"k": "decl", "ty": ty, "vars": [{"var": gen_progs.local(name), "init": init}]}
        else:
            s = self.instr_call()
        if self.use_diff and rng.random() < 0.25:
            k = rng.choice([1, 1, 2, 3])
            s["diff"] = "".join(sorted(rng.sample(self.diff_flags, k)))
        return s

    def new_label(self):
        self.nlabel += 1
        name = "lab%d" % self.nlabel
        self.labels.append(name)
        return {"k": "label", "name": name}

    def jump_stmt(self):
        """goto / conditional / counting jumps to any label of the function, with and without explicit time"""
        rng = self.rng
        fwd = not (self.labels and rng.random() < 0.8)
        label = "lab%d" % rng.randrange(1, 6) if fwd else rng.choice(self.labels)
        s = {"jump": "goto", "label": label}
        if self.lang.jump_time and rng.random() < 0.4:
            s["time"] = rng.choice([0, 0, 1, 5, 10, 30, 100, -1, -10])
        r = rng.random()
        if not self.lang.regs or r < 0.4:
            s["k"] = "jump"
        elif r < 0.8 or fwd or label not in self.labels:
            s.update(k="condjump", kw=rng.choice(["if", "if", "unless"]), cond=self.cond())
        else:
            # (a counting jump to a label that is already placed, i.e. backwards; forward ones: probe "countfwd")
            dec = {"k": "xcr", "op": "--", "order": "pre", "var": reg(rng.choice(self.ints), "$")}
            s.update(k="condjump", kw="if", cond=binop(">", dec, ilit(0)) if self.lang.countjmp_gt else dec)
        return s

    def ivar(self):
        return reg(self.rng.choice(self.ints), "$")

    def cmp(self, ops, float_ok=False):
        """a comparison with at least one non-constant operand (constant conditions: probe "constcond")"""
        rng = self.rng
        if float_ok and self.floats and rng.random() < 0.3:
            a, b = reg(rng.choice(self.floats), "%"), self.float_atom()
        else:
            a, b = self.ivar(), self.int_atom()
        if rng.random() < 0.5:
            a, b = b, a
        return binop(rng.choice(ops), a, b)

    def cond(self):
        rng = self.rng
        r = rng.random()
        if r < 0.7:
            return self.cmp(["==", "!=", "<", "<=", ">", ">="], float_ok=True)
        if r < 0.8:
            return self.ivar()
        if r < 0.93:
            return binop(rng.choice(["&&", "||"]), self.cmp(["==", "<"]), self.cmp(["!=", ">"]))
        return unop("!", self.cmp(["==", "<"]))

    def stmt(self, depth, in_loop):
        rng = self.rng
        if self.lang.jump and self.flavour in ("graph", "mixed") and rng.random() < (0.35 if self.flavour == "graph" else 0.12):
            return self.new_label() if rng.random() < 0.45 else self.jump_stmt()
        if self.lang.interrupt and rng.random() < 0.04 and depth == 0:
            return {"k": "interrupt", "e": ilit(rng.choice([1, 2, 3, 7, 22]))}
        if not self.lang.regs:
            # no registers: only calls, free blocks and (with jumps) `loop`
            r = rng.random()
            if depth < self.max_depth and self.lang.jump and r < 0.15:
                return {"k": "loop", "body": self.body(depth + 1, True)}
            if depth < self.max_depth and r < 0.2:
                return {"k": "block", "body": self.body(depth + 1, in_loop)}
            if in_loop and r < 0.25:
                return {"k": "jump", "jump": "break"}
            return self.simple()
        if self.flavour == "graph" and rng.random() < 0.6:
            return self.simple()
        return super().stmt(depth, in_loop)

    def function_body(self, n=None):
        self.locals = []
        self.labels = []
        self.nlabel = 0
        n = n if n is not None else self.rng.choice([1, 2, 3, 4, 6])
        # labels are pre-declared so that forward jumps exist; they are placed by stmt()
        body = self.body(0, False, n=n)
        # make every referenced label exist: append the missing ones at random top-level positions
        used = set()

        def walk(stmts):
            for s in stmts:
                if s.get("jump") == "goto":
                    used.add(s["label"])
                for key in ("body", "else"):
                    if isinstance(s.get(key), list):
                        walk(s[key])
                for b in s.get("blocks", []):
                    walk(b["body"])
        walk(body)
        for name in sorted(used - set(self.labels)):
            body.insert(self.rng.randrange(len(body) + 1), {"k": "label", "name": name})
        return body


# ------------------------------------------------------------------------------------------------
# Whole files.
ANM_ENTRY = """entry {
    path: "%(path)s",
    has_data: %(has_data)s,
    img_width: %(w)d,
    img_height: %(h)d,
    img_format: %(fmt)d,
    offset_x: %(ox)d,
    offset_y: %(oy)d,
    colorkey: %(ck)d,
    memory_priority: %(mp)d,
    low_res_scale: %(lrs)s,
    sprites: {
%(sprites)s    },
}
"""
STD_HEAD_06 = """meta {
    unknown: %(unk)d,
    stage_name: "%(name)s",
    bgm: [
        {path: "bgm/th08_08.mid", name: "dm"},
        {path: "bgm/th08_09.mid", name: "%(name)s"},
        {path: " ", name: " "},
        {path: " ", name: " "},
    ],
    objects: {%(objects)s},
    instances: [%(instances)s],
}
"""
STD_HEAD_12 = """meta {
    unknown: %(unk)d,
    anm_path: "stage01.anm",
    objects: {%(objects)s},
    instances: [%(instances)s],
}
"""


class SourceFile:
    """a generated source: text + what is needed to render it"""

    def __init__(self, lang, flavour):
        self.lang, self.flavour = lang, flavour
        self.parts = []      # str | ("body", stmts, indent)
        self.used_ops = set()

    def text(self, s):
        self.parts.append(s)

    def body(self, stmts, indent=1):
        self.parts.append(("body", stmts, indent))


def str_lit(text):
    """truth string literal (same escapes as vh::render::string_lit)"""
    return '"' + text.replace("\\", "\\\\").replace('"', '\\"').replace("\n", "\\n").replace("\r", "\\r").replace("\0", "\\0") + '"'


def f32text(rng):
    return rng.choice(["0.0", "1.0", "10.0", "20.5", "-30.0", "512.0", "480.0", "0.1", "33.333332", "-0.0"])


def gen_anm(rng, lang, flavour):
    sf = SourceFile(lang, flavour)
    nentries = rng.choice([1, 1, 2, 3])
    nscripts_total = 0
    sprite_names, script_names = [], []
    plan = []
    sid = 0
    for e in range(nentries):
        nsp = rng.choice([0, 1, 2, 4])
        sprites = []
        for _ in range(nsp):
            if rng.random() < 0.2:
                sid += rng.choice([1, 5, 40])
            sprites.append(sid)
            sid += 1
        nsc = rng.choice([0, 1, 1, 2, 3])
        scripts = list(range(nscripts_total, nscripts_total + nsc))
        nscripts_total += nsc
        plan.append((sprites, scripts))
        sprite_names += ["sprite%d" % s for s in sprites]
        script_names += ["script%d" % s for s in scripts]
    for e, (sprites, scripts) in enumerate(plan):
        sp_text = "".join("        sprite%d: {id: %d, x: %s, y: %s, w: %s, h: %s},\n" % (s, s, f32text(rng), f32text(rng), f32text(rng), f32text(rng)) for s in sprites)
        path = rng.choice(["subdir/file.png", "@R", "data/face/enemy1/face01.png", "a.png", "日本語.png"]) if e else "subdir/file%d.png" % rng.randrange(3)
        # ('@' paths name render targets and carry no image: with has_data: "dummy" -> probe "atpath-dummy")
        sf.text(ANM_ENTRY % dict(path=path, has_data="false" if path.startswith("@") else rng.choice(["false", "false", '"dummy"']), w=rng.choice([1, 4, 16, 128, 512]), h=rng.choice([1, 4, 32, 512]),
                                 fmt=rng.choice([1, 3, 5, 7]), ox=rng.choice([0, 0, 3]), oy=rng.choice([0, 0, 100]), ck=rng.choice([0, 0, 0xff00ff]),
                                 mp=rng.choice([0, 0, 10]), lrs=rng.choice(["false", "false", "true"]), sprites=sp_text))
        for s in scripts:
            g = RealGen(rng, lang, names={"sprites": sprite_names, "scripts": script_names}, flavour=flavour, max_depth=rng.choice([1, 2, 2, 3, 4]))
            num = "" if rng.random() < 0.7 else "%d " % (s * 3 + 1)
            sf.text("script %sscript%d {\n" % (num, s))
            sf.body(g.function_body())
            sf.text("}\n")
    return sf


def gen_ecl(rng, lang, flavour):
    sf = SourceFile(lang, flavour)
    nsubs = rng.choice([1, 2, 2, 3, 4])
    subs = []
    for k in range(nsubs):
        if lang.key == "ecl06":
            sig = rng.choice(["", "", "i", "if", "f"])
        else:
            sig = "".join(rng.choice("if") for _ in range(rng.choice([0, 0, 1, 2, 3, 4])))
            sig = "".join(c for j, c in enumerate(sig) if sig[:j + 1].count(c) <= 4)
        subs.append(("sub%d" % k, sig))
    names = {"subs": [n for n, _ in subs]}
    ntl = 1 if lang.key == "ecl06" else rng.choice([1, 1, 2, 3])
    tl_gen_lang = Lang(lang.key + "tl", lang.fmt, lang.game, instrs=TIMELINES[lang.key], diff=False)
    tl_flavour = "flat"
    for t in range(ntl):
        g = RealGen(rng, tl_gen_lang, names=names, flavour=tl_flavour, max_depth=0)
        g.use_diff = False
        sf.text("script timeline%d {\n" % t)
        sf.body(g.function_body(n=rng.choice([0, 1, 2, 4])))
        sf.text("}\n")
    for k, (name, sig) in enumerate(subs):
        params = [("p%d" % j, c) for j, c in enumerate(sig)]
        # EoSD calls take exactly (int, float), both immediates
        callable_subs = subs if lang.key != "ecl06" else [(n, "IF") for n, sg in subs if sg == "if"]
        g = RealGen(rng, lang, names=names, subs=callable_subs, params=params, flavour=flavour, max_depth=rng.choice([1, 2, 2, 3, 4]))
        sf.text("void %s(%s) {\n" % (name, ", ".join("%s %s" % ("int" if c == "i" else "float", n) for n, c in params)))
        sf.body(g.function_body())
        sf.text("}\n")
    return sf


def gen_std(rng, lang, flavour):
    sf = SourceFile(lang, flavour)
    nobj = rng.choice([0, 1, 2, 3])
    objs, insts = [], []
    for k in range(nobj):
        quads = []
        for _ in range(rng.choice([0, 1, 2])):
            if lang.game == "8" and rng.random() < 0.3:
                quads.append("strip {anm_script: %d, start: [%s, %s, %s], end: [%s, %s, %s], width: %s}" % (
                    (rng.randrange(5),) + tuple(f32text(rng) for _ in range(7))))
            else:
                quads.append("rect {anm_script: %d, pos: [%s, %s, %s], size: [%s, %s]}" % ((rng.randrange(5),) + tuple(f32text(rng) for _ in range(5))))
        objs.append("\n        obj%d: {layer: %d, pos: [%s, %s, %s], size: [%s, %s, %s], quads: [%s]}," % (
            (k, rng.choice([0, 1, 4])) + tuple(f32text(rng) for _ in range(6)) + (", ".join(quads),)))
        for _ in range(rng.choice([0, 1, 2])):
            insts.append("\n        obj%d {pos: [%s, %s, %s]}," % ((k,) + tuple(f32text(rng) for _ in range(3))))
    rng.shuffle(insts)
    head = STD_HEAD_12 if lang.game == "12" else STD_HEAD_06
    sf.text(head % dict(unk=rng.choice([0, 0, 7]), name=rng.choice(["dm", "stage 1", "夢"]), objects="".join(objs) + ("\n    " if objs else ""),
                        instances="".join(insts) + ("\n    " if insts else "")))
    g = RealGen(rng, lang, flavour=flavour, max_depth=rng.choice([0, 1, 2]))
    sf.text("script main {\n")
    sf.body(g.function_body(n=rng.choice([0, 1, 3, 5, 8])))
    sf.text("}\n")
    return sf


def gen_msg(rng, lang, flavour):
    sf = SourceFile(lang, flavour)
    nscripts = rng.choice([1, 1, 2, 3])
    names = ["script%d" % k for k in range(nscripts)]
    table = {}
    for key in rng.sample(range(0, 8), rng.choice([1, 2, 3])):
        table[key] = rng.choice(names)
    for n in names:                      # every script must be used
        if n not in table.values():
            table[max(table) + rng.choice([1, 1, 3])] = n
    entries = []
    for key in sorted(table):
        flags = ""
        if lang.game not in ("6", "8") and lang.key != "end10" and rng.random() < 0.5:
            flags = ", flags: %d" % rng.choice([0, 256, 3])
        entries.append("        %d: {script: \"%s\"%s}," % (key, table[key], flags))
    if rng.random() < 0.3 or sorted(table) != list(range(max(table) + 1)):
        entries.append("        default: {script: \"%s\"}," % rng.choice(names))
    sf.text("meta {\n    table: {\n%s\n    },\n}\n" % "\n".join(entries))
    for n in names:
        g = RealGen(rng, lang, flavour=flavour, max_depth=0)
        sf.text("script %s {\n" % n)
        sf.body(g.function_body(n=rng.choice([0, 1, 2, 4, 7])))
        sf.text("}\n")
    return sf


def gen_mission(rng, lang, flavour):
    sf = SourceFile(lang, flavour)
    for _ in range(rng.choice([0, 1, 2, 4])):
        def s():
            return str_lit(rng.choice(STRINGS[:36]))
        if lang.game == "095":
            sf.text("entry {\n    stage: %d,\n    scene: %d,\n    face: %d,\n    point: %d,\n    text: [%s, %s, %s],\n}\n" % (
                rng.choice([0, 1, 5, 10, 255, 300]), rng.choice([0, 1, 6, 9, 70000]), rng.choice([0, 1, 2, 65536]), rng.choice([0, 100, 0x7fffffff]), s(), s(), s()))
        else:
            sf.text("entry {\n    stage: %d,\n    scene: %d,\n    player: %d,\n    unknown_1: %d,\n    unknown_2: %d,\n    point_1: %d,\n    point_2: %d,\n"
                    "    furigana: [[%d, %d], [%d, %d], [%d, %d]],\n    text: [%s, %s, %s, %s, %s, %s],\n}\n" % (
                        rng.choice([0, 1, 5, 12]), rng.choice([0, 1, 6, 9]), rng.choice([0, 1]), rng.choice([0, 1, 255]), rng.choice([0, 7]),
                        rng.choice([0, 100]), rng.choice([0, 5000]), rng.randrange(5), rng.randrange(40), rng.randrange(5), rng.randrange(40), 0, 0,
                        s(), s(), s(), s(), s(), s()))
    return sf


GEN_BY_FMT = {"truanm": gen_anm, "truecl": gen_ecl, "trustd": gen_std}


def gen_source(rng, lang_key, flavour):
    lang = LANGS[lang_key]
    if lang.key.startswith("mission"):
        return gen_mission(rng, lang, flavour)
    if lang.fmt == "trumsg":
        return gen_msg(rng, lang, flavour)
    return GEN_BY_FMT[lang.fmt](rng, lang, flavour)


def render_sources(sources, tag):
    """SourceFile list -> texts, through the shared trusted renderer (harness bin c01)."""
    wd = lib.workdir("c01_render_" + tag)
    rows = []
    for i, sf in enumerate(sources):
        for j, p in enumerate(sf.parts):
            if not isinstance(p, str):
                rows.append({"id": "%d:%d" % (i, j), "body": p[1], "indent": p[2]})
    path = os.path.join(wd, "bodies.ndjson")
    lib.write_ndjson(path, rows)
    out = {}
    if rows:
        p = lib.vh(["c01", "render", path])
        for line in p.stdout.splitlines():
            o = json.loads(line)
            out[o["id"]] = o["text"]
    texts = []
    for i, sf in enumerate(sources):
        texts.append("".join(p if isinstance(p, str) else out["%d:%d" % (i, j)] for j, p in enumerate(sf.parts)))
    return texts



# ------------------------------------------------------------------------------------------------
# Probes: fixed (seed-independent) minimal programs, one per input class that is known to matter.  Each
# isolates one construct so that a finding is keyed by the construct and not by a random program.
PROBE_F_INSTR = {"anm07": 26, "anm08": 26, "anm12": 70, "anm16": 129, "ecl06": 46, "ecl07": 40, "ecl08": 37, "std12": 7, "msg12": 27}
PROBE_CALL = {"anm07": "ins_0();", "anm08": "ins_0();", "anm12": "ins_1();", "anm16": "ins_1();", "ecl06": "ins_0();", "ecl07": "ins_0();", "ecl08": "ins_0();",
              "std12": "ins_0();", "msg12": "ins_0();"}
PROBE_REG = {"anm07": "$REG[10000]", "anm08": "$REG[10000]", "anm12": "$REG[10000]", "anm16": "$REG[10000]", "ecl06": "$REG[-10001]", "ecl07": "$REG[10000]",
             "ecl08": "$REG[10000]"}


def wrap_minimal(lang, body):
    """the smallest complete file of the language around one script body"""
    if lang.fmt == "truanm":
        return ANM_ENTRY % dict(path="a.png", has_data="false", w=4, h=4, fmt=3, ox=0, oy=0, ck=0, mp=0, lrs="false", sprites="") + "script script0 {\n%s}\n" % body
    if lang.fmt == "truecl":
        return "script timeline0 {}\nvoid sub0() {\n%s}\n" % body
    if lang.fmt == "trustd":
        return STD_HEAD_12 % dict(unk=0, objects="", instances="") + "script main {\n%s}\n" % body
    return "meta {\n    table: {\n        0: {script: \"script0\"},\n    },\n}\nscript script0 {\n%s}\n" % body


def probe_sources():
    out = []
    for lk in ("anm07", "anm12", "anm16", "ecl06", "ecl07", "ecl08"):
        call, r = PROBE_CALL[lk], PROBE_REG[lk]
        # conditions whose operands are all constants
        body = "    if (3 > 100) {\n        %s\n    }\n    %s\n    if (7) {\n        %s\n    }\nagain:\n    %s\n    if (1 == 1) goto again;\n    unless (2.5 < 1.5) goto again;\n" % (call, call, call, call)
        out.append((lk, "constcond", wrap_minimal(LANGS[lk], body)))
        # a counting jump forwards, over a statement
        cj = "if (--%s > 0)" % r if LANGS[lk].countjmp_gt else "if (--%s)" % r
        body = "    %s goto fwd;\n    %s\nfwd:\n    %s\n" % (cj, call, call)
        out.append((lk, "countfwd", wrap_minimal(LANGS[lk], body)))
    # per-difficulty instruction groups (what the decompiler folds into difficulty switches) with time labels,
    # ordinary labels and differing shapes *inside* the group: every guard of the recognizer gets a near miss
    for lk in ("ecl06", "ecl07", "ecl08"):
        r = PROBE_REG[lk]
        groups = []
        v = [0]
        def arm(label, extra=""):
            v[0] += 1
            digits = label.replace("E", "0").replace("N", "1").replace("H", "2").replace("L", "3")   # names always defined
            return '    {"%s"}: %s = %d%s;\n' % (digits, r, v[0], extra)
        for labels in (["E", "N", "H", "L"], ["E", "N", "HL"], ["EN", "H", "L"], ["E", "NH", "L"], ["E", "N"]):
            for gap in range(0, len(labels)):
                g = ""
                for j, lab in enumerate(labels):
                    if gap and j == gap:
                        g += "+10:\n"
                    g += arm(lab)
                groups.append(g + "+5:\n")
        # a jump target in the middle of a group, and a group whose arms differ in shape
        groups.append(arm("E") + arm("N") + "mid:\n" + arm("H") + arm("L") + "    if (%s == 1) goto mid;\n" % r)
        groups.append(arm("E") + arm("N", " + 1") + arm("H") + arm("L"))
        out.append((lk, "diffgroups", wrap_minimal(LANGS[lk], "".join(groups))))
    for lk, op in sorted(PROBE_F_INSTR.items()):
        lang = LANGS[lk]
        mask = "@mask=0, " if lang.regs and lk != "ecl06" else ""
        body = "".join("    ins_%d(%s@blob=\"%s\");\n" % (op, mask, blob_text([w])) for w in NAN_PAYLOAD_BITS)
        out.append((lk, "nanbits", wrap_minimal(lang, body)))
    # an ANM entry whose path names a render target ('@...') but asks for placeholder image data
    out.append(("anm12", "atpath-dummy", (ANM_ENTRY % dict(path="@R", has_data='"dummy"', w=4, h=4, fmt=3, ox=0, oy=0, ck=0, mp=0, lrs="false", sprites="")) + "script script0 {\n    ins_1();\n}\n"))
    # EoSD spell card name: a 34-byte string argument after two words
    out.append(("ecl06", "spellname", wrap_minimal(LANGS["ecl06"], "    ins_93(0, 1, \"abc\");\n    ins_93(10, -1, \"あ\");\n")))
    return out

# ------------------------------------------------------------------------------------------------
# User mapfiles: aliases for every instruction / register of the language, difficulty flag names, enums.
def gen_mapfile(rng, lang):
    if not lang.mapmagic:
        return None
    tag = "".join(rng.choice("abcdefghjkmnpqrstuvwxyz") for _ in range(3))
    lines = [lang.mapmagic, "!ins_names"]
    ops = sorted(set(op for op, _ in lang.instrs) | set(lang.alias_extra))
    for op in ops:
        lines.append("%d %s_op%d" % (op, tag, op))
    if lang.regs:
        lines.append("!gvar_names")
        for r in lang.ints:
            lines.append("%d %s_I%d" % (r, tag, abs(r)))
        for r in lang.floats:
            lines.append("%d %s_F%d" % (r, tag, abs(r)))
        lines.append("!gvar_types")
        for r in lang.ints:
            lines.append("%d $" % r)
        for r in lang.floats:
            lines.append("%d %%" % r)
    if lang.key in TIMELINES:
        lines.append("!timeline_ins_names")
        for op, _ in TIMELINES[lang.key]:
            lines.append("%d %s_tl%d" % (op, tag, op))
    if lang.diff and rng.random() < 0.6:
        lines.append("!difficulty_flags")
        for j, nm in enumerate("ENHLWXYZ"[:8 if lang.aux_diff else 4]):
            lines.append("%d %s%s" % (j, nm, "+" if lang.aux_diff and j >= 4 else "-"))
    lines.append('!enum(name="%s_EnumA")' % tag)
    for v, nm in ((0, "Zero"), (1, "One"), (2, "Two"), (100, "Hundred"), (-1, "Minus")):
        lines.append("%d %s_%s" % (v, tag, nm))
    lines.append('!enum(name="%s_EnumB")' % tag)
    for v, nm in ((0, "Nil"), (3, "Three"), (65536, "Big")):
        lines.append("%d %s_%s" % (v, tag, nm))
    if rng.random() < 0.5:
        lines.append('!enum(name="bool")')
        lines.append("2 %s_Maybe" % tag)
    return "\n".join(lines) + "\n"


# ------------------------------------------------------------------------------------------------
# Launching the real CLI and recording events.
ENV = None
_id_lock = threading.Lock()


class Recorder:
    """the history: one event per launch (plus imports / resets), in a deterministic order"""

    def __init__(self):
        self.sessions = []       # list of lists of events

    def flat(self):
        out, n = [], 0
        for s in self.sessions:
            for e in s:
                n += 1
                e["id"] = n
                out.append(e)
        return out


def base_event(cmd, **kw):
    e = dict(id=0, cmd=cmd, fmt="", game="", opts="", width=-1, map="", img="", rc=0, out="", so="", se="", loss=False, trusted=False, kind="")
    e["in"] = ""
    e.update(kw)
    return e


def launch(args, cwd, timeout=120):
    global ENV
    if ENV is None:
        ENV = lib.clean_env()
    try:
        p = subprocess.run([lib.TRUTH_CORE] + args, cwd=cwd, env=ENV, stdout=subprocess.PIPE, stderr=subprocess.PIPE, timeout=timeout)
        return p.returncode, p.stdout, p.stderr
    except subprocess.TimeoutExpired as ex:
        return -9, ex.stdout or b"", (ex.stderr or b"") + b"\n<timeout>"


def read_if(path):
    try:
        with open(path, "rb") as f:
            return f.read()
    except FileNotFoundError:
        return None


def run_compile(lang, cwd, src_name, out_name, map_id="", img_name=None, img_id="", src_id=None, extra=()):
    """one real `compile` launch -> (event, output bytes | None, stderr text)"""
    outp = os.path.join(cwd, out_name)
    if os.path.exists(outp):
        os.remove(outp)
    args = lang.fmt.split() + ["compile", src_name, "-g", lang.game, "-o", out_name] + lang.mode + list(extra)
    if img_name:
        args += ["-i", img_name]
    rc, so, se = launch(args, cwd)
    data = read_if(outp) if rc == 0 else None
    if src_id is None:
        src_id = cid(read_if(os.path.join(cwd, src_name)))
    ev = base_event("compile", fmt=lang.cmd, game=lang.game, map=map_id, img=img_id, rc=rc, out=cid(data) if data is not None else "",
                    so=cid(so), se=cid(se), **{"in": src_id})
    return ev, data, se.decode("utf-8", "replace"), args


def run_decompile(lang, cwd, bin_name, out_name, opts, width, map_name=None, map_id="", bin_id=None, trusted=True):
    outp = os.path.join(cwd, out_name)
    if os.path.exists(outp):
        os.remove(outp)
    args = lang.fmt.split() + ["decompile", bin_name, "-g", lang.game, "-o", out_name] + lang.mode + list(opts)
    if width is not None:
        args += ["--max-columns", str(width)]
    if map_name:
        args += ["-m", map_name]
    rc, so, se = launch(args, cwd)
    data = read_if(outp) if rc == 0 else None
    set_text = se.decode("utf-8", "replace")
    ev = base_event("decompile", fmt=lang.cmd, game=lang.game, opts=",".join(o[5:] for o in opts), width=width if width is not None else -1,
                    map=map_id, rc=rc, out=cid(data) if data is not None else "", so=cid(so), se=cid(se), loss=has_loss_warning(set_text),
                    trusted=trusted, **{"in": bin_id})
    return ev, data, set_text, args


class Binary:
    """one binary under test: where it came from and how to rebuild it (the replay file)"""

    def __init__(self, idx, lang, origin, source=None, path=None, flavour="", mapfile=None):
        self.idx, self.lang, self.origin, self.source, self.path, self.flavour, self.mapfile = idx, lang, origin, source, path, flavour, mapfile
        self.probe = False
        self.events = []
        self.meta = {}        # local event index -> dict(opts, width, mapped, argv..., stderr)
        self.status = "ok"
        self.pairs = 0
        self.loss = 0
        self.bytes = None

    def describe(self):
        d = {"lang": self.lang.key, "fmt": self.lang.cmd, "game": self.lang.game, "origin": self.origin, "flavour": self.flavour}
        if self.source is not None:
            d["source"] = self.source
        if self.path:
            d["binary_path"] = self.path
        return d


def plan_pairs(b, tier, widths_all=False, optsets=None):
    """(opts, width, with_mapfile) triples for one binary.  Structured enumeration: all 32 option subsets;
    widths rotate deterministically with the binary index (independent of the seed)."""
    out = []
    sets = OPTSETS if optsets is None else optsets
    if b.lang.key.startswith("mission"):
        sets = [OPTSETS[0], OPTSETS[31], OPTSETS[5], OPTSETS[10]]
    elif b.probe and tier == "quick" and optsets is None:
        # probes isolate one known construct: none, each single option, all, one mixed subset
        sets = [OPTSETS[m] for m in (0, 1, 2, 4, 8, 16, 31, 21)]
    for j, opts in enumerate(sets):
        if widths_all:
            ws = list(WIDTHS)
        else:
            ws = [WIDTHS[(b.idx + j) % 6], WIDTHS[(b.idx + j + 3) % 6]]
        for n, w in enumerate(ws):
            mapped = b.mapfile is not None and (n + j) % 2 == 1
            out.append((opts, w, mapped))
    return out


def process_binary(b, wd, pairs):
    """Run every launch for one binary; fills b.events (a session starting with `reset`)."""
    lang = b.lang
    cwd = os.path.join(wd, "b%04d" % b.idx)
    os.makedirs(cwd, exist_ok=True)
    ev = b.events
    ev.append(base_event("reset"))
    bin_name = "in." + lang.ext
    map_name = map_id = None
    if b.mapfile is not None:
        map_name = "user.%sm" % lang.ext
        with open(os.path.join(cwd, map_name), "w", encoding="utf-8") as f:
            f.write(b.mapfile)
        map_id = cid(b.mapfile)
        ev.append(base_event("import", kind="map", **{"in": map_id}))
    if b.origin == "bundled":
        data = read_if(b.path)
        with open(os.path.join(cwd, bin_name), "wb") as f:
            f.write(data)
        ev.append(base_event("import", kind="bin", **{"in": cid(data)}))
    else:
        with open(os.path.join(cwd, "src.txt"), "w", encoding="utf-8") as f:
            f.write(b.source)
        src_id = cid(b.source.encode("utf-8"))
        ev.append(base_event("import", kind="text", **{"in": src_id}))
        e, data, se, argv = run_compile(lang, cwd, "src.txt", bin_name, src_id=src_id)
        ev.append(e)
        b.meta[len(ev) - 1] = dict(step="compile-source", argv=argv, stderr=se[:2000])
        if e["rc"] != 0 or data is None:
            b.status = "panic" if "panicked at" in se else "rejected"
            b.reject_msg = se[:600]
            return b
    b.bytes = data
    bin_id = cid(data)
    for n, (opts, width, mapped) in enumerate(pairs):
        tname, rname = "d%03d.txt" % n, "r%03d.%s" % (n, lang.ext)
        e, text, se, argv = run_decompile(lang, cwd, bin_name, tname, opts, width, map_name if mapped else None, map_id if mapped else "", bin_id)
        ev.append(e)
        b.meta[len(ev) - 1] = dict(step="decompile", opts=opts, width=width, mapped=mapped, argv=argv, stderr=se[:3000])
        if e["loss"]:
            b.loss += 1
        if e["rc"] != 0 or text is None:
            continue
        e2, out, se2, argv2 = run_compile(lang, cwd, tname, rname, map_id=map_id if mapped else "",
                                          img_name=bin_name if lang.fmt == "truanm" else None, img_id=bin_id if lang.fmt == "truanm" else "",
                                          src_id=e["out"])
        ev.append(e2)
        b.meta[len(ev) - 1] = dict(step="recompile", opts=opts, width=width, mapped=mapped, argv=argv2, stderr=se2[:3000], decompile_argv=argv,
                                   decompiled=text.decode("utf-8", "replace")[:6000] if out != data else None,
                                   same=(out == data), out_len=len(out) if out is not None else None, in_len=len(data))
        b.pairs += 1
        # scratch files are no longer needed
        for nm in (tname, rname):
            try:
                os.remove(os.path.join(cwd, nm))
            except FileNotFoundError:
                pass
    return b


# ------------------------------------------------------------------------------------------------
# TLC validation of a history.
REJECT = re.compile(r'<<"REJECT", (\d+), (\d+), \{([^}]*)\}>>')
DONE = re.compile(r'<<"DONE", (\d+), (\d+)>>')


def _trace_shard(args):
    path, name = args
    return lib.tlc("Trace_ToolchainRT", env={"HIST": path}, workers=1, timeout=1500, name=name, heap="3g")


def validate_history(chk, sessions, tag, shards=6):
    """sessions: list of event lists, each starting with a `reset`.  Returns {event id: set(reasons)} for
    every event the trace spec rejected.  Event ids are assigned here (global, 1-based)."""
    wd = lib.workdir("trace_" + tag)
    n = 0
    for s in sessions:
        for e in s:
            n += 1
            e["id"] = n
    k = max(1, min(shards, len(sessions)))
    # contiguous blocks balanced by event count
    parts, cur, target = [], [], n / k
    acc = 0
    for s in sessions:
        cur.append(s)
        acc += len(s)
        if acc >= target * (len(parts) + 1) and len(parts) < k - 1:
            parts.append(cur)
            cur = []
    if cur:
        parts.append(cur)
    jobs = []
    for j, part in enumerate(parts):
        path = os.path.join(wd, "hist_%d.ndjson" % j)
        lib.write_ndjson(path, [e for s in part for e in s])
        jobs.append((path, "trace_%s_%d" % (tag, j)))
    with ThreadPoolExecutor(max_workers=len(jobs)) as ex:
        results = list(ex.map(_trace_shard, jobs))
    rejected = {}
    for part, res in zip(parts, results):
        chk.tlc_stats(res)
        want = sum(len(s) for s in part)
        m = DONE.search(res.out)
        if not m or int(m.group(1)) != want:
            raise lib.ToolError("trace validation did not consume the history (%s)\n%s" % (tag, res.out[-3000:]))
        rej = REJECT.findall(res.out)
        if len(rej) != int(m.group(2)):
            raise lib.ToolError("REJECT lines do not match the DONE count\n" + res.out[-2000:])
        for _, eid, why in rej:
            rejected[int(eid)] = set(w.strip().strip('"') for w in why.split(",") if w.strip())
    chk.add("events_validated_by_tlc", n)
    return rejected


def model_check(chk, deep):
    """in-model: the abstract toolchain (both kinds of format)."""
    out = []
    for cfg in ("MC_ToolchainRT", "MC_ToolchainRT_noimg"):
        r = lib.tlc("MC_ToolchainRT", cfg=cfg + ("_deep" if deep else "") + ".cfg", workers=1, timeout=1700, name=cfg)
        if not r.ok:
            raise lib.ToolError("%s does not hold: the contract itself is inconsistent or an action is never taken\n%s" % (cfg, r.out[-3000:]))
        out.append(r)
    return out


# ------------------------------------------------------------------------------------------------
BUNDLED_DIRS = ["/repo/tests/integration/bits-2-bits", "/repo/tests/integration/resources"]


def bundled_binaries():
    """(path, lang) for every bundled binary; the game is the one tests/integration/bits_2_bits.rs uses (= the thNN prefix)."""
    out = []
    for d in BUNDLED_DIRS:
        for f in sorted(os.listdir(d)):
            m = re.match(r"th(\d+)-.*\.(std|msg|anm)$", f)
            if not m:
                continue
            game, ext = m.group(1).lstrip("0"), m.group(2)
            fmt = {"std": "trustd", "msg": "trumsg", "anm": "truanm"}[ext]
            lang = Lang("bundled-%s-%s" % (ext, game), fmt, game, ext=ext, mapmagic="!%smap" % ext)
            # a language table of the same format/game, for user mapfiles
            for l in LANGS.values():
                if l.fmt == fmt and l.game == game and not l.mode:
                    lang = l
            out.append((os.path.join(d, f), lang))
    return out


QUICK_PLAN = [  # (language, flavour, count)
    ("anm07", "blocks", 3), ("anm07", "graph", 2), ("anm07", "raw", 1), ("anm08", "mixed", 2), ("anm12", "blocks", 4), ("anm12", "graph", 3),
    ("anm12", "raw", 2), ("anm16", "mixed", 3), ("anm16", "raw", 1),
    ("ecl06", "blocks", 4), ("ecl06", "graph", 3), ("ecl06", "raw", 2), ("ecl07", "blocks", 4), ("ecl07", "graph", 3), ("ecl07", "raw", 2),
    ("ecl08", "blocks", 4), ("ecl08", "graph", 3), ("ecl08", "raw", 2),
    ("std06", "flat", 2), ("std08", "graph", 3), ("std12", "graph", 3), ("std12", "raw", 1),
    ("msg06", "flat", 3), ("msg08", "flat", 2), ("msg09", "flat", 2), ("msg12", "flat", 3), ("msg17", "flat", 2), ("end10", "flat", 2),
    ("mission095", "flat", 2), ("mission125", "flat", 1),
]


def classify(b, li, why):
    """label (not judge) a rejected event: a specific, stable key + a one-line description"""
    m = b.meta.get(li, {})
    lang = b.lang
    se = m.get("stderr", "")
    first = ""
    for line in se.splitlines():
        if line.startswith(("error", "thread", "warning")) or "panicked at" in line:
            first = line.strip()
            break
    first = re.sub(r"\d+", "N", first)[:90]
    # input class: the bundled file, or the generator flavour / probe name
    where = "bundled:" + os.path.basename(b.path) if b.origin == "bundled" else b.flavour
    fmt = lang.cmd.replace(" ", "")
    first = re.sub(r"[^A-Za-z]+", "-", first)[:60].strip("-")
    if "Total" in why:
        return ("decompile-fails:%s:%s:%s" % (fmt, where, first), "decompile of a compile-emitted/bundled binary failed: %s" % first)
    if "RoundTrip" in why:
        if m.get("out_len") is None:
            return ("recompile-fails:%s:%s:%s" % (fmt, where, first), "decompiled text does not compile: %s" % first)
        return ("bytes-differ:%s:%s" % (fmt, where),
                "recompiled file differs from the original (%s vs %s bytes)" % (m.get("out_len"), m.get("in_len")))
    return ("%s:%s:%s" % ("+".join(sorted(why)), fmt, where), "event rejected by the contract: %s" % ", ".join(sorted(why)))


def report_rejections(chk, binaries, rejected):
    pos = {}
    for b in binaries:
        for li, e in enumerate(b.events):
            pos[e["id"]] = (b, li)
    for eid in sorted(rejected):
        b, li = pos[eid]
        why = rejected[eid]
        key, what = classify(b, li, why)
        m = b.meta.get(li, {})
        cmdline = "truth-core " + " ".join(m.get("argv", []))
        dec = m.get("decompile_argv")
        what = "%s [%s -g %s %s; opts=%s width=%s mapfile=%s] reproduce: %s%s" % (
            what, b.lang.cmd, b.lang.game, b.path or "generated source (in the replay file)", ",".join(m.get("opts", [])) or "-", m.get("width"),
            "yes" if m.get("mapped") else "no", ("truth-core " + " ".join(dec) + " ; ") if dec else "", cmdline)
        chk.report(key, what, {"binary": b.describe(), "mapfile": b.mapfile if m.get("mapped") else None, "opts": m.get("opts", []),
                               "width": m.get("width"), "mapped": bool(m.get("mapped")), "reasons": sorted(why), "event": b.events[li],
                               "stderr": m.get("stderr"), "decompiled": m.get("decompiled"), "argv": m.get("argv"), "decompile_argv": dec})


def make_binaries(chk, plan, start_idx=0, scale=1):
    """generate sources (seeded), render them, wrap as Binary objects (not yet compiled)."""
    specs = []
    for lang_key, flavour, count in plan:
        for _ in range(count * scale):
            specs.append((lang_key, flavour))
    rng = random.Random(chk.seed * 7919 + 17)
    sources = [gen_source(random.Random(rng.getrandbits(48)), lk, fl) for lk, fl in specs]
    texts = render_sources(sources, "gen")
    out = []
    for j, ((lk, fl), text) in enumerate(zip(specs, texts)):
        lang = LANGS[lk]
        mf = gen_mapfile(random.Random(chk.seed * 31 + j), lang)
        out.append(Binary(start_idx + j, lang, "generated", source=text, flavour=fl, mapfile=mf))
    return out


def run(chk, replay=None):
    quick = chk.tier == "quick"
    wd = lib.workdir("c01")
    ex = ThreadPoolExecutor(max_workers=8)
    mc_future = ex.submit(model_check, chk, not quick)

    binaries = []
    if replay:
        case = json.load(open(replay))["case"]
        bd = case["binary"]
        lang = LANGS.get(bd["lang"]) or Lang(bd["lang"], bd["fmt"].split()[0], bd["game"], mode=bd["fmt"].split()[1:], ext=bd["lang"].split("-")[1] if "-" in bd["lang"] else "bin")
        b = Binary(0, lang, bd["origin"], source=bd.get("source"), path=bd.get("binary_path"), flavour=bd.get("flavour", ""), mapfile=case.get("mapfile"))
        binaries = [b]
        todo = [(b, [(case["opts"], case["width"], bool(case["mapped"]))])]
    else:
        for j, (path, lang) in enumerate(bundled_binaries()):
            mf = gen_mapfile(random.Random(1000 + j), lang) if lang.mapmagic else None
            binaries.append(Binary(j, lang, "bundled", path=path, mapfile=mf))
        for lk, flavour, text in probe_sources():
            binaries.append(Binary(len(binaries), LANGS[lk], "generated", source=text, flavour=flavour,
                                   mapfile=gen_mapfile(random.Random(2000 + len(binaries)), LANGS[lk])))
            binaries[-1].probe = True
        gen = make_binaries(chk, QUICK_PLAN, start_idx=len(binaries), scale=1 if quick else int(os.environ.get("VERIF_C01_SCALE", "25")))
        binaries += gen
        todo = []
        for b in binaries:
            allw = (not quick) and (b.idx % 50 == 0)     # thorough: all six widths for a 2 % sample (and every bundled 50th)
            todo.append((b, plan_pairs(b, chk.tier, widths_all=allw or (not quick and b.origin == "bundled"))))
    list(ex.map(lambda t: process_binary(t[0], wd, t[1]), todo))

    live = [b for b in binaries if b.status == "ok"]
    for b in binaries:
        if b.status == "rejected":
            if b.probe:
                # a fixed probe is hand-written to compile: if it does not, the probe (or the tree) is broken
                raise lib.ToolError("fixed probe %s/%s does not compile" % (b.lang.key, b.flavour))
            chk.add("sources_rejected_by_compile")
        elif b.status == "panic":
            chk.add("sources_where_compile_panicked")     # C04's domain; not judged here
    chk.add("binaries", len(live))
    chk.add("binaries_bundled", sum(1 for b in live if b.origin == "bundled"))
    chk.add("binaries_generated", sum(1 for b in live if b.origin == "generated"))
    chk.add("command_pairs", sum(b.pairs for b in live))
    chk.add("decompiles_with_loss_warning", sum(b.loss for b in live))
    chk.set("distinct_binaries", len(set(cid(b.bytes) for b in live)))
    per_lang = {}
    for b in live:
        per_lang[b.lang.key] = per_lang.get(b.lang.key, 0) + 1
    chk.set("binaries_per_language", per_lang)
    if not live:
        raise lib.ToolError("no binary could be produced: %s" % [getattr(b, "reject_msg", "") for b in binaries][:3])
    if not replay and len(live) < 0.7 * len(binaries):
        raise lib.ToolError("generator is broken: only %d of %d sources compile; e.g. %s" % (
            len(live), len(binaries), [getattr(b, "reject_msg", "") for b in binaries if b.status != "ok"][:2]))

    sessions = [b.events for b in binaries]
    rejected = validate_history(chk, sessions, "c01")
    chk.add("traces_validated_against_impl", len(live))
    chk.set("events_rejected", len(rejected))
    report_rejections(chk, binaries, rejected)

    for r in mc_future.result():
        chk.tlc_stats(r)
    ex.shutdown()

    for b in live[:60]:
        if b.origin == "generated" and b.pairs and len(chk.cov["samples"]) < 4 and b.lang.key in ("ecl07", "anm12", "msg12", "std08"):
            m = next((b.meta[i] for i in sorted(b.meta) if b.meta[i].get("step") == "recompile"), None)
            if m:
                chk.sample({"language": b.lang.key, "flavour": b.flavour, "source": b.source[:1500], "decompile": " ".join(m["decompile_argv"]),
                            "recompile": " ".join(m["argv"]), "bytes_equal": m["same"]})
    chk.set("option_sets", "all 32 subsets for every bundled and generated binary; 8 for the fixed probes in quick; 4 for mission MSG (options ignored there)")
    chk.set("widths", WIDTHS if not quick else "2 of %s per option set, rotating" % WIDTHS)
    chk.set("exhaustive", False)
    chk.assume("binaries are sampled by generators (plus all bundled files); the 32 option subsets are enumerated completely for every binary")
    chk.assume("a decompile whose stderr contains a loss warning (closed list, design_notes/C01.md) is exempt from RoundTrip")
    chk.assume("sha-256 (24 hex digits) identifies file contents")
    if not quick:
        shutil.rmtree(wd, ignore_errors=True)
