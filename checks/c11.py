"""C11 — compile-time evaluation agrees with the documented machine semantics (Mode G + in-model)."""
import os, json
from . import lib

LEVEL = "model_checking"
MANIFEST = dict(
    design='DESIGN.md §4 C11',
    technique='TLA+ operator semantics (I32/F32/ExprSem) enumerated by TLC, every case replayed into the real const folder / const evaluator / lowering (spec -> impl replay)',
    text='TLC enumerates every operator over boundary operands with the value the TLA+ transcription of the documented machine semantics assigns (in-model: algebraic sanity of the transcription, closure, definedness), and every enumerated case is replayed into three real code paths (const_simplify, evaluate_const_vars, lowering of named vs inline constants). Exhaustive over the enumerated domain; the spec is a third, independent implementation of the operator table.',
    note='Trusted: TLC, CommunityModules Json, the harness renderer (JSON -> source text). Float results outside the exact (dyadic) envelope are not decided; && and || compared by truthiness.',
)


def same_value(exp, obs, truthiness=False):
    if obs is None:
        return False
    if exp["t"] != obs.get("t"):
        return False
    if exp["t"] == "i":
        if truthiness:
            return (exp["v"] != 0) == (obs["v"] != 0)
        return exp["v"] == obs["v"]
    if exp["t"] == "f":
        if exp["c"] != obs.get("c"):
            return False
        if exp["c"] == "fin":
            return exp["n"] == obs["n"] and exp["s"] == obs["s"]
        return True
    return exp == obs


def judge_path(chk, case, name, obs, exp, truthiness):
    """obs: {"val":..} | {"err":..} | {"panic":..} | {"notlit":..}"""
    text = case["text"]
    if "panic" in obs:
        chk.report("panic:%s:%s:%s" % (name, obs["panic"]["msg"][:40], case_class(case)), "%s of `%s` panics: %s" % (name, text, obs["panic"]["msg"]),
                   {"path": name, "case": case, "observed": obs})
        return
    if exp["t"] == "undef":
        if "err" not in obs:
            chk.report("undef-accepted:%s:%s" % (name, case_class(case)),
                       "`%s` has no defined value but %s accepted it: %s" % (text, name, json.dumps(obs)),
                       {"path": name, "case": case, "observed": obs})
        return
    if "val" not in obs or not same_value(exp, obs["val"], truthiness):
        chk.report("value:%s:%s" % (name, case_class(case)),
                   "%s of `%s` = %s, specification says %s" % (name, text, json.dumps(obs), json.dumps(exp)),
                   {"path": name, "case": case, "observed": obs, "expected": exp})


def case_class(case):
    e = case["e"]
    k = e["k"]
    if k == "bin":
        return "%s:%s" % (e["op"], e["a"]["k"])
    if k == "un":
        return "un%s:%s" % (e["op"], e["x"]["k"])
    return k


def run(chk, replay=None):
    # in-model: the I32 transcription is sane, every generated case satisfies the in-model facts
    r0 = lib.tlc("MC_I32", workers=2, timeout=300)
    if not r0.ok:
        raise lib.ToolError("MC_I32 does not hold: the specification itself is inconsistent\n" + r0.out[-2000:])
    wd = lib.workdir("c11")
    cases_path = os.path.join(wd, "cases.ndjson")
    r = lib.tlc("Gen_ConstOps", env={"OUT": cases_path}, workers=8, timeout=600)
    if not r.ok:
        raise lib.ToolError("Gen_ConstOps in-model invariant failed\n" + r.out[-3000:])
    chk.tlc_stats(r)
    cases = lib.read_ndjson(cases_path)
    if replay:
        want = json.load(open(replay))["case"]["case"]["id"]
        cases = [c for c in cases if c["id"] == want]
        lib.write_ndjson(cases_path, cases)
    p = lib.vh(["c11", cases_path])
    obs = {}
    for line in p.stdout.splitlines():
        o = json.loads(line)
        obs[o["id"]] = o
    n_opaque = 0
    for c in cases:
        o = obs.get(c["id"])
        if o is None:
            raise lib.ToolError("harness lost case %s" % c["id"])
        c = dict(c, text=o["text"])
        exp = c["exp"]
        if exp["t"] == "opaque":
            n_opaque += 1
            continue
        chk.add("traces_validated_against_impl")
        truthiness = c["e"]["k"] == "bin" and c["e"]["op"] in ("||", "&&")
        judge_path(chk, c, "fold", o["fold"], exp, truthiness)
        judge_path(chk, c, "constvar", o["constvar"], exp, truthiness)
        inl = o["inline"]
        for side in ("named", "inline"):
            if "panic" in inl[side]:
                judge_path(chk, c, "lower-" + side, inl[side], exp, truthiness)
        if exp["t"] != "undef" and not inl["same"]:
            chk.report("inline-differs:%s" % case_class(c),
                       "`const X = %s; f(X)` and `f(%s)` compile differently" % (c["text"], c["text"]),
                       {"case": c, "observed": inl})
        if exp["t"] == "undef" and ("instrs" in inl["named"] or "instrs" in inl["inline"]):
            chk.report("undef-accepted:lower:%s" % case_class(c), "`%s` compiled although it has no defined value" % c["text"],
                       {"case": c, "observed": inl})
        if c["id"] % 2500 == 7:
            chk.sample({"text": c["text"], "expected": exp, "fold": o["fold"], "constvar": o["constvar"]})
    chk.set("out_of_envelope", n_opaque)
    chk.set("exhaustive", True)
    chk.set("rule", "every operator x boundary operand pair enumerated by TLC (Gen_ConstOps); each case is evaluated by "
                    "const_simplify, by evaluate_const_vars and by lowering `const X=e; f(X)` vs `f(e)`")
    chk.assume("float results outside the dyadic envelope of F32.tla are not decided (counted as out_of_envelope)")
    chk.assume("|| and && are compared by truthiness (see DESIGN C11)")
