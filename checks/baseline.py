#!/usr/bin/env python3
"""Run the repository's own test suite (guard OFF) and compare with /root/.vp/BASELINE.json.
usage: baseline.py [repo_dir]   exit 0 iff every stable_pass test passes."""
import json, re, subprocess, sys, os

def main():
    repo = sys.argv[1] if len(sys.argv) > 1 else "/repo"
    base = json.load(open("/root/.vp/BASELINE.json"))
    want = set(base["stable_pass"])
    env = dict(os.environ, RUST_BACKTRACE="0", CARGO_NET_OFFLINE="true")
    env.pop("RUSTFLAGS", None)
    p = subprocess.run(["cargo", "test", "--workspace", "--no-fail-fast", "--offline"], cwd=repo, env=env,
                       stdout=subprocess.PIPE, stderr=subprocess.STDOUT, text=True)
    binary = None
    passed, failed = set(), set()
    for line in p.stdout.splitlines():
        m = re.match(r"\s*Running (?:unittests )?(\S+)", line)
        if m:
            path = m.group(1)
            name = os.path.splitext(os.path.basename(path))[0]
            binary = "truth" if path.startswith("src/lib.rs") else name
            if path.startswith("src/bin/") or path.startswith("src/main"):
                binary = "bin:" + name
            continue
        m = re.match(r"\s*Doc-tests", line)
        if m:
            binary = "doc"
            continue
        m = re.match(r"test (\S+)(?: - should panic)? \.\.\. (ok|FAILED|ignored)", line)
        if m and binary:
            full = "truth::" + m.group(1) if binary == "truth" else "truth::%s::%s" % (binary, m.group(1))
            (passed if m.group(2) == "ok" else failed).add(full)
    missing = sorted(want - passed)
    print("baseline: %d/%d stable tests pass (%d passed in total, %d failed)" % (len(want & passed), len(want), len(passed), len(failed)))
    for t in missing[:40]:
        print("  NOT PASSING:", t)
    return 1 if missing else 0

if __name__ == "__main__":
    sys.exit(main())
