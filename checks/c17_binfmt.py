"""PNG framing and ANM container layout (reader + writer) used by C17 and C18 (stdlib only).

This is *format knowledge* (container layouts, PNG framing) used to locate bytes in files the real
tool wrote and to build input files.  It holds no semantics of the properties: no pixel conversion,
no image-source precedence, no offset computation."""
import struct, zlib

# ------------------------------------------------------------------------------------------- PNG
PNG_MAGIC = b"\x89PNG\r\n\x1a\n"


def _chunk(tag, data):
    return struct.pack(">I", len(data)) + tag + data + struct.pack(">I", zlib.crc32(tag + data) & 0xFFFFFFFF)


def write_png(path, w, h, rgba):
    """8-bit RGBA, no interlace, filter 0 on every row.  rgba: bytes of length 4*w*h."""
    assert len(rgba) == 4 * w * h
    raw = bytearray()
    stride = 4 * w
    for y in range(h):
        raw.append(0)
        raw += rgba[y * stride:(y + 1) * stride]
    data = PNG_MAGIC + _chunk(b"IHDR", struct.pack(">IIBBBBB", w, h, 8, 6, 0, 0, 0)) \
        + _chunk(b"IDAT", zlib.compress(bytes(raw), 6)) + _chunk(b"IEND", b"")
    with open(path, "wb") as f:
        f.write(data)


def read_png(path):
    """Returns (w, h, rgba bytes).  Supports 8-bit gray / gray+alpha / RGB / RGBA, no interlace."""
    b = open(path, "rb").read()
    if b[:8] != PNG_MAGIC:
        raise ValueError("not a PNG: %s" % path)
    pos = 8
    idat = bytearray()
    w = h = depth = ctype = None
    while pos < len(b):
        n, = struct.unpack(">I", b[pos:pos + 4])
        tag = b[pos + 4:pos + 8]
        body = b[pos + 8:pos + 8 + n]
        pos += 12 + n
        if tag == b"IHDR":
            w, h, depth, ctype, _comp, _filt, inter = struct.unpack(">IIBBBBB", body)
            if depth != 8 or inter != 0 or ctype not in (0, 2, 4, 6):
                raise ValueError("unsupported PNG flavour depth=%d ctype=%d interlace=%d" % (depth, ctype, inter))
        elif tag == b"IDAT":
            idat += body
        elif tag == b"IEND":
            break
    bpp = {0: 1, 2: 3, 4: 2, 6: 4}[ctype]
    raw = zlib.decompress(bytes(idat))
    stride = bpp * w
    out = bytearray()
    prev = bytearray(stride)
    p = 0
    for _y in range(h):
        ft = raw[p]
        line = bytearray(raw[p + 1:p + 1 + stride])
        p += 1 + stride
        if ft == 1:
            for i in range(bpp, stride):
                line[i] = (line[i] + line[i - bpp]) & 255
        elif ft == 2:
            for i in range(stride):
                line[i] = (line[i] + prev[i]) & 255
        elif ft == 3:
            for i in range(stride):
                a = line[i - bpp] if i >= bpp else 0
                line[i] = (line[i] + ((a + prev[i]) >> 1)) & 255
        elif ft == 4:
            for i in range(stride):
                a = line[i - bpp] if i >= bpp else 0
                bb = prev[i]
                c = prev[i - bpp] if i >= bpp else 0
                pa, pb, pc = abs(bb - c), abs(a - c), abs(a + bb - 2 * c)
                pr = a if (pa <= pb and pa <= pc) else (bb if pb <= pc else c)
                line[i] = (line[i] + pr) & 255
        elif ft != 0:
            raise ValueError("bad PNG filter %d" % ft)
        out += line
        prev = line
    if ctype == 6:
        rgba = bytes(out)
    else:
        px = bytearray()
        for i in range(w * h):
            if ctype == 0:
                g = out[i]; px += bytes((g, g, g, 255))
            elif ctype == 4:
                g = out[2 * i]; px += bytes((g, g, g, out[2 * i + 1]))
            else:
                px += out[3 * i:3 * i + 3] + b"\xff"
        rgba = bytes(px)
    return w, h, rgba


# ------------------------------------------------------------------------------------------- ANM
# container layout as documented by the field lists in src/formats/anm/read_write.rs
ANM_VERSION = {"06": 0, "07": 2, "08": 3, "09": 3, "095": 4, "10": 4, "11": 7, "12": 7, "125": 7, "128": 7,
               "13": 8, "14": 8, "15": 8, "16": 8, "17": 8, "18": 8}


def anm_old_header(game):
    return ANM_VERSION[game] < 7


def pad16(b):
    """cstring written in blocks of 16 (always at least one NUL)."""
    n = len(b) + 1
    n = (n + 15) // 16 * 16
    return b + b"\0" * (n - len(b))


def write_anm_v7(entries, version=7):
    """Hand-written new-style (v7/v8 header) ANM file.  entries: dicts with path, w, h, fmt, data (raw
    THTX payload bytes), offset_x, offset_y, rt_width, rt_height, rt_format, memory_priority,
    low_res_scale, sprites [(id, x, y, w, h)], scripts [(id, instr_bytes)] (instr_bytes excludes the
    terminal instruction)."""
    out = bytearray()
    for k, e in enumerate(entries):
        sprites = e.get("sprites", [])
        scripts = e.get("scripts", [])
        name = pad16(e["path"].encode("ascii"))
        body = bytearray()
        hdr_len = 64 + 4 * len(sprites) + 8 * len(scripts)
        name_off = hdr_len
        body += name
        sprite_offs = []
        for (sid, x, y, w, h) in sprites:
            sprite_offs.append(hdr_len + len(body))
            body += struct.pack("<Iffff", sid, x, y, w, h)
        script_offs = []
        for (scid, code) in scripts:
            script_offs.append((scid, hdr_len + len(body)))
            body += code + struct.pack("<hHhH", -1, 0, 0, 0)
        thtx_off = 0
        if e.get("data") is not None:
            thtx_off = hdr_len + len(body)
            body += b"THTX" + struct.pack("<HHHHI", 0, e["fmt"], e["w"], e["h"], len(e["data"])) + e["data"]
        total = hdr_len + len(body)
        next_off = total if k + 1 < len(entries) else 0
        hdr = struct.pack("<IHHHHHHIHHIIHHI", version, len(sprites), len(scripts), 0,
                          e["rt_width"], e["rt_height"], e["rt_format"], name_off,
                          e.get("offset_x", 0), e.get("offset_y", 0), e.get("memory_priority", 10),
                          thtx_off, 1 if e.get("data") is not None else 0, 1 if e.get("low_res_scale") else 0, next_off)
        hdr += b"\0" * 24
        assert len(hdr) == 64
        out += hdr
        for o in sprite_offs:
            out += struct.pack("<I", o)
        for (scid, o) in script_offs:
            out += struct.pack("<iI", scid, o)
        out += body
    return bytes(out)


def walk_anm(b, old_header):
    """Entry walker.  Returns list of dicts: pos, path, thtx {fmt,w,h,data} or None, header fields,
    scripts [(id, abs_offset)], sections (all section offsets of the entry, absolute), end (absolute)."""
    out = []
    pos = 0
    while True:
        if old_header:
            (nspr, nscr, _slot, rtw, rth, rtf, colorkey, name_off, _u1, name2_off, version, prio, thtx_off, has_data,
             _u2, next_off, _u3) = struct.unpack_from("<IIIIIIIIIIIIIHHII", b, pos)
            offx = offy = lowres = 0
        else:
            (version, nspr, nscr, _slot, rtw, rth, rtf, name_off, offx, offy, prio, thtx_off, has_data, lowres,
             next_off) = struct.unpack_from("<IHHHHHHIHHIIHHI", b, pos)
            colorkey = 0
            name2_off = 0
        p = pos + 64
        sprite_offs = list(struct.unpack_from("<%dI" % nspr, b, p)) if nspr else []
        p += 4 * nspr
        scripts = []
        for _ in range(nscr):
            sid, off = struct.unpack_from("<iI", b, p)
            scripts.append((sid, off))
            p += 8
        nm_end = b.index(b"\0", pos + name_off)
        path = b[pos + name_off:nm_end].decode("ascii", "replace")
        thtx = None
        if thtx_off:
            t = pos + thtx_off
            if b[t:t + 4] != b"THTX":
                raise ValueError("no THTX magic at %#x" % t)
            _z, fmt, w, h, size = struct.unpack_from("<HHHHI", b, t + 4)
            thtx = dict(fmt=fmt, w=w, h=h, data=bytes(b[t + 16:t + 16 + size]), end=t + 16 + size)
        end = pos + next_off if next_off else len(b)
        sect = [name_off] + ([thtx_off] if thtx_off else []) + ([name2_off] if name2_off else []) + sprite_offs + [o for _, o in scripts]
        out.append(dict(pos=pos, path=path, thtx=thtx, version=version, rt_width=rtw, rt_height=rth, rt_format=rtf,
                        offset_x=offx, offset_y=offy, memory_priority=prio, has_data=has_data, low_res_scale=lowres,
                        colorkey=colorkey, scripts=[(sid, pos + o) for sid, o in scripts],
                        sections=sorted(set(pos + o for o in sect)), end=end))
        if not next_off:
            break
        pos += next_off
    return out
