"""Shared machinery of the two L3 contract checks C04 / C16 (Mode H).

The driver launches the REAL command line tool (lib.TRUTH_CORE, built from the current /repo tree)
once per input, records raw facts about the process (exit status, signal, time-out, counts of
stderr lines starting with `error` / `warning`, whether the input's file name occurs in stderr, which
of a fixed list of substrings occur) as one `cmd` event, concatenates the events of a batch into one
history file and lets TLC judge it against spec/Toolchain.tla through spec/Trace_Outcomes.tla.
Nothing here decides whether an observation is acceptable; the only thing derived from stderr in
Python is the *identity* of a rejected event (panic site), used to de-duplicate findings."""
import base64, json, os, re, shutil
from . import lib

CPU_LIMIT_S = 10     # CPU time per process (SIGXCPU)
WALL_LIMIT_S = 60    # wall-clock backstop for processes that block without using CPU
AS_LIMIT = 4 << 30
THREADS = 8
MARKS = ["panicked at", "has overflowed its stack", "memory allocation of", "capacity overflow"]

TOOL_ARGV = {
    "truanm": ["truanm"], "trustd": ["trustd"], "trumsg": ["trumsg"], "truecl": ["truecl"],
    "trumsg-mission": ["trumsg"],
}


class Job:
    """One tool invocation.  `inputs`: list of (role, file name, bytes); role in
    {"input", "map"}; the first must be the input.  `gen`: free-form description of how the input
    was generated (goes to samples / replay files / finding keys)."""
    __slots__ = ("jid", "hist", "tool", "verb", "game", "opts", "inputs", "gen", "ext", "shared_maps", "event", "stderr", "argv")

    def __init__(self, tool, verb, game, data, ext, opts=(), maps=(), gen=None, hist=None, shared_maps=()):
        self.tool, self.verb, self.game, self.opts = tool, verb, game, list(opts)
        self.inputs = [("input", None, data)] + [("map", name, d) for name, d in maps]
        self.shared_maps = list(shared_maps)     # absolute paths of pristine files passed with -m
        self.ext, self.gen, self.hist = ext, gen or {}, hist
        self.jid, self.event, self.stderr, self.argv = None, None, None, None

    @property
    def data(self):
        return self.inputs[0][2]

    def content_ids(self):
        return [lib.sha(d) for _, _, d in self.inputs] + ["file:" + os.path.basename(p) for p in self.shared_maps]

    def describe(self):
        d = {"tool": self.tool, "verb": self.verb, "game": self.game, "opts": self.opts, "ext": self.ext,
             "gen": self.gen, "input_b64": base64.b64encode(self.data).decode(),
             "maps": [[n, base64.b64encode(x).decode()] for r, n, x in self.inputs[1:]],
             "shared_maps": self.shared_maps}
        try:
            t = self.data.decode("utf-8")
            if len(t) < 4000 and self.verb == "compile":
                d["input_text"] = t
        except UnicodeDecodeError:
            pass
        if len(self.data) <= 4096 and self.verb != "compile":
            d["input_hex"] = self.data.hex()
        d["command"] = " ".join(["truth-core"] + (self.argv or []))
        return d

    @staticmethod
    def from_description(d):
        j = Job(d["tool"], d["verb"], d["game"], base64.b64decode(d["input_b64"]), d["ext"], d["opts"],
                [(n, base64.b64decode(x)) for n, x in d.get("maps", [])], d.get("gen"), shared_maps=d.get("shared_maps", ()))
        return j


class Runner:
    """Runs jobs through the launcher harness/src/bin/c04.rs: a pool of <= 8 threads, one process
    of the real CLI per job; limits set in the child between fork and exec: 4 GiB address space,
    10 s of CPU time (SIGXCPU => observed as a signal; a loaded machine cannot fake a hang) and a
    wall-clock backstop for processes that block without using CPU (timed_out)."""

    def __init__(self, name):
        self.dir = lib.workdir(name)
        self.n = 0

    def _argv(self, job, d):
        inp = os.path.join(d, "in_%06d.%s" % (job.jid, job.ext))
        argv = TOOL_ARGV[job.tool] + [job.verb]
        if job.tool == "trumsg-mission":
            argv.append("--mission")
        argv += ["-g", job.game, inp]
        paths = [inp]
        for k, (role, name, data) in enumerate(job.inputs[1:]):
            p = os.path.join(d, name.replace("@ID@", "%06d" % job.jid))
            paths.append(p)
            argv += ["-m", p]
        for p in job.shared_maps:
            argv += ["-m", p]
        out = os.path.join(d, "out_%06d" % job.jid)
        if job.verb in ("compile", "extract"):
            argv += ["-o", out]
        argv += job.opts
        return argv, paths, out

    def _write_inputs(self, job, paths):
        for (role, name, data), p in zip(job.inputs, paths):
            if role == "map":
                data = data.replace(b"@SELF@", os.path.basename(p).encode())
            with open(p, "wb") as f:
                f.write(data)

    @staticmethod
    def _cleanup(paths, out):
        for p in paths:
            try:
                os.unlink(p)
            except OSError:
                pass
        if os.path.isdir(out):
            shutil.rmtree(out, ignore_errors=True)
        elif os.path.exists(out):
            os.unlink(out)

    def launch(self, jobs, env=None, cpu=CPU_LIMIT_S, wall=WALL_LIMIT_S):
        """-> {jid: raw result of the launcher}"""
        d = self.dir
        meta = {}
        jf = os.path.join(d, "jobs_%d.ndjson" % self.n)
        with open(jf, "w") as f:
            for job in jobs:
                argv, paths, out = self._argv(job, d)
                job.argv = argv
                self._write_inputs(job, paths)
                meta[job.jid] = (paths, out)
                f.write(json.dumps({"id": job.jid, "argv": [lib.TRUTH_CORE] + argv, "cwd": d}) + "\n")
        p = lib.vh(["c04", jf, str(THREADS), str(cpu), str(AS_LIMIT), str(wall)], env=env, timeout=None)
        res = {}
        for line in p.stdout.splitlines():
            r = json.loads(line)
            if "launch_error" in r:
                raise lib.ToolError("cannot launch the tool: " + r["launch_error"])
            res[r["id"]] = r
        for job in jobs:
            self._cleanup(*meta[job.jid])
        os.unlink(jf)
        if len(res) != len(jobs):
            raise lib.ToolError("launcher lost jobs: %d of %d" % (len(res), len(jobs)))
        return res

    def run(self, jobs):
        for j in jobs:
            self.n += 1
            j.jid = self.n
        # in chunks, so that at most a few thousand scratch files exist at a time
        for k in range(0, len(jobs), 4000):
            chunk = jobs[k:k + 4000]
            res = self.launch(chunk)
            for job in chunk:
                r = res[job.jid]
                text = r["stderr"]
                ids = job.content_ids()
                job.stderr = text[:6000]
                job.event = {
                    "ev": "cmd", "tool": job.tool, "verb": job.verb, "game": job.game, "opts": job.opts,
                    "inputs": ids, "input_id": "%d:%s" % (job.jid, ids[0]),
                    "exit_code": r["exit_code"], "signal": r["signal"], "timed_out": r["timed_out"],
                    "n_error_diags": r["n_error"], "n_warning_diags": r["n_warning"],
                    "names_file": ("in_%06d.%s" % (job.jid, job.ext)) in text,
                    "marks": [m for m in MARKS if m in text],
                    "stderr_head": re.sub(r"[^\x20-\x7e]", "?", text[:160]),
                    "wall_ms": r["wall_ms"],
                }
        return jobs


# ----------------------------------------------------------------------------- TLC judgement

def histories(jobs):
    """Group jobs into histories (jobs with the same .hist, in order) -> list of lists."""
    groups, order = {}, []
    for j in jobs:
        h = j.hist if j.hist is not None else ("job", j.jid)
        if h not in groups:
            groups[h] = []
            order.append(h)
        groups[h].append(j)
    return [groups[h] for h in order]


def canaries(jobs):
    """Synthetic corruptions of one ACCEPTABLE recorded event, appended to every batch as separate
    histories: TLC must reject each of them, otherwise the judge is blind (tool error).  They are
    not counted as evaluations."""
    base = None
    for j in jobs:
        e = j.event
        if e["exit_code"] == 0 and e["signal"] == 0 and not e["timed_out"] and e["n_error_diags"] == 0:
            base = e
            break
    if base is None:
        return []
    out = []
    for name, patch, reason in (
            ("exit_code:=101", {"exit_code": 101, "marks": ["panicked at"]}, "Panic"),
            ("signal:=6", {"exit_code": -6, "signal": 6}, "Abort"),
            ("timed_out:=true", {"timed_out": True, "exit_code": -9, "signal": 9}, "Timeout"),
            ("exit_code:=1", {"exit_code": 1}, "FailureWithoutDiagnostic"),
            ("n_error_diags:=1", {"n_error_diags": 1}, "SuccessAfterErrorDiagnostic"),
            ("names_file:=false", {"verb": "decompile", "exit_code": 1, "n_error_diags": 1, "names_file": False}, "ErrorDoesNotNameFile"),
            ("inputs:=missing", {"inputs": ["no-such-content"]}, "PreconditionOfAction")):
        ev = dict(base)
        ev.update(patch)
        ev["input_id"] = "canary:" + name
        out.append((ev, reason))
    return out


def write_history(path, hists, extra):
    """-> index: event line number (1-based) -> job (None for canaries)"""
    index = {}
    n = 0
    with open(path, "w") as f:
        for k, hs in enumerate(hists):
            store = []
            for j in hs:
                for c in j.content_ids():
                    if c not in store:
                        store.append(c)
            n += 1
            f.write(json.dumps({"ev": "reset", "hist": k + 1, "store": store}) + "\n")
            for j in hs:
                n += 1
                index[n] = j
                f.write(json.dumps(j.event) + "\n")
        for ev, reason in extra:
            n += 1
            f.write(json.dumps({"ev": "reset", "hist": 0, "store": [x for x in ev["inputs"] if x != "no-such-content"]}) + "\n")
            n += 1
            index[n] = (ev, reason)
            f.write(json.dumps(ev) + "\n")
    return index, n


UNMATCHED = re.compile(r'^<<\s*"UNMATCHED",\s*(\d+),\s*"([^"]*)",\s*"(\w+)"\s*>>', re.M)    # TLC wraps long tuples


def judge(chk, jobs, tag):
    """Let TLC validate the recorded histories.  Returns list of (job, reason) for every history
    that Trace_Outcomes rejects (at its first unmatched event)."""
    hists = histories(jobs)
    extra = canaries(jobs)
    wd = lib.workdir("hist_" + tag)
    path = os.path.join(wd, "history.ndjson")
    index, nlines = write_history(path, hists, extra)
    res = lib.tlc("Trace_Outcomes", env={"HIST": path}, workers=8, timeout=1500, extra=["-continue"], name="trace_" + tag)
    chk.tlc_stats(res)
    m = re.search(r'<<"HISTORIES", (\d+), "EVENTS", (\d+)>>', res.out)
    if not m or int(m.group(1)) != len(hists) + len(extra) or int(m.group(2)) != len(jobs) + len(extra):
        raise lib.ToolError("Trace_Outcomes did not load the history that was written\n" + res.out[-2000:])
    rejected, canary_hits = [], 0
    for m in UNMATCHED.finditer(res.out):
        line, input_id, reason = int(m.group(1)), m.group(2), m.group(3)
        job = index[line]
        if isinstance(job, tuple):
            if job[0]["input_id"] != input_id or job[1] != reason:
                raise lib.ToolError("canary %s was rejected for reason %s, expected %s" % (input_id, reason, job[1]))
            canary_hits += 1
            continue
        if job.event["input_id"] != input_id:
            raise lib.ToolError("history index mismatch at line %d" % line)
        rejected.append((job, reason))
    if canary_hits != len(extra):
        raise lib.ToolError("Trace_Outcomes accepted a corrupted history (%d of %d canaries rejected): the judge is blind"
                            % (canary_hits, len(extra)))
    nviol = len(re.findall(r"Invariant Accepted is violated", res.out))
    if nviol != len(rejected) + canary_hits:
        raise lib.ToolError("TLC reported %d rejections but %d UNMATCHED lines were parsed" % (nviol, len(rejected) + canary_hits))
    other = re.findall(r"Invariant (?!Accepted)(\w+) is violated", res.out)
    if other:
        raise lib.ToolError("toolchain invariant %s violated by a recorded history:\n%s" % (other[0], res.out[-3000:]))
    # acceptance = the whole file was consumed: every history contributes its start state plus one
    # state per consumed event; a rejected history stops at its unmatched event
    pos = {}
    for hs in hists:
        for k, j in enumerate(hs):
            pos[id(j)] = (k, len(hs))
    expected = len(hists) + len(jobs) + len(extra)
    for j, _ in rejected:
        k, n = pos[id(j)]
        expected -= (n - k)
    if res.distinct != expected:
        raise lib.ToolError("Trace_Outcomes explored %d states, expected %d: the history was not consumed as recorded"
                            % (res.distinct, expected))
    chk.add("histories_validated", len(hists))
    chk.add("events_validated", len(jobs))
    chk.add("histories_rejected", len(rejected))
    chk.add("canary_histories_rejected", canary_hits)
    return rejected


# ----------------------------------------------------------------------------- finding identity

PANIC = re.compile(r"panicked at ([^\n]+?):(\d+):(\d+):\n([^\n]*)")


def msg_class(msg, n=40):
    msg = re.sub(r"\bin_\d+\.\w+", "<input>", msg)
    msg = re.sub(r"0x[0-9a-fA-F]+|\d+", "N", msg)
    msg = re.sub(r"'[^']*'|\"[^\"]*\"|`[^`]*`", "_", msg)
    msg = re.sub(r"\s+", " ", msg).strip()
    return msg[:n]


def norm_site(path):
    if path.startswith("/repo/"):
        return path[len("/repo/"):]
    m = re.search(r"/rustc/[0-9a-f]+/(.*)", path)
    if not m and "/registry/src/" not in path:
        # the tree under test may live elsewhere (checks/seedtest.py): keep the path from src/ on
        m2 = re.search(r"^/.*?/((?:src|build)/.*)$", path)
        if m2:
            return m2.group(1)
    if m:
        return "rust:" + m.group(1)
    m = re.search(r"/registry/src/[^/]+/(.*)", path)
    if m:
        return "crate:" + m.group(1)
    return path


def finding_key(job, reason, runner=None):
    """Identity of a rejected event (used only to de-duplicate / look up findings).
    Panics: file:line of the location in the panic message (the innermost frame; a location
    outside /repo gets the first truth:: frame of a backtrace appended) plus the class of the
    message.  Crashes without a location (abort, stack overflow, allocation failure, time-out):
    reason, command and the class of the last diagnostic printed before the crash (a proxy for
    where the tool was).  Contract-shape rejections (failure without an error diagnostic, error
    that does not name the file, ...): reason, command and the class of the first relevant line."""
    text = job.stderr or ""
    lines = [l for l in text.splitlines() if l.strip()]
    tv = "%s-%s" % (job.tool, job.verb)
    if reason == "Panic":
        m = PANIC.search(text)
        if m:
            site = norm_site(m.group(1))
            key = "panic:%s:%s:%s" % (site, m.group(2), msg_class(m.group(4)))
            if not site.startswith("src/") and runner is not None:
                fr = backtrace_frame(job, runner)
                if fr:
                    key = "panic:%s:%s@%s:%s" % (site, m.group(2), fr, msg_class(m.group(4)))
            return key
        return "panic:unknown:%s:%s" % (tv, msg_class(lines[0] if lines else ""))
    if reason in ("StackOverflow", "OutOfMemory", "Abort", "Timeout"):
        # no location is available; the diagnostics printed before the crash vary with the input, so the
        # identity is the command (plus, for generated texts, the generator's label with numbers removed)
        ctx = "any"
        if job.gen.get("class", "").startswith(("grammar", "illformed", "mapfile")):
            ctx = re.split(r"[-:]", job.gen.get("label", job.gen.get("defect", job.gen["class"])))[0]    # nest / chain / many / literal / ...
        return "%s:%s:%s" % (reason, tv, ctx)
    name = "in_%06d.%s" % (job.jid, job.ext) if job.jid else None
    if reason == "ErrorDoesNotNameFile":
        # the first error line that does not name the input; its class is cut at the first quoted
        # thing (usually a path derived from file contents), e.g. `error: while writing _`
        pick = ""
        for l in lines:
            if l.startswith("error") and not (name and name in l):
                pick = l
                break
        q = re.search(r"['\"`]", pick)
        cls = msg_class(pick[:q.start()], 80) + " _" if q else msg_class(pick, 80)
        return "%s:%s:%s" % (reason, tv, cls)
    if reason == "FailureWithoutDiagnostic":
        # the last thing said before failing
        pick = ""
        for l in lines:
            if l.startswith("warning"):
                pick = l
        if not pick and lines:
            pick = lines[-1]
        return "%s:%s:%s" % (reason, tv, msg_class(pick, 80))
    first = ""
    for l in lines:
        if l.startswith("error"):
            first = l
            break
    if not first and lines:
        first = lines[0]
    return "%s:%s:%s" % (reason, tv, msg_class(first))


def backtrace_frame(job, runner):
    """first truth:: frame of a backtrace of the same invocation (RUST_BACKTRACE=1)"""
    r = runner.launch([job], env={"RUST_BACKTRACE": "1"})[job.jid]
    for l in r["stderr"].splitlines():
        m = re.match(r"\s*\d+:\s+(truth::[\w:<>]+)", l)
        if m:
            return re.sub(r"::h[0-9a-f]{16}$", "", m.group(1))
    return None


FN_DEF = re.compile(r"^\s*(?:pub(?:\([^)]*\))?\s+)?(?:default\s+)?(?:const\s+)?(?:async\s+)?(?:unsafe\s+)?(?:extern\s+\"[^\"]*\"\s+)?fn\s+(\w+)")
_SRC = {}


def enclosing_fn(site, line):
    """name of the function whose definition precedes src line `line` of /repo/<site> (None if unknown)"""
    if not site.startswith("src/"):
        return None
    if site not in _SRC:
        try:
            _SRC[site] = open(os.path.join(lib.REPO, site), encoding="utf-8", errors="replace").read().splitlines()
        except OSError:
            _SRC[site] = None
    src = _SRC[site]
    if not src:
        return None
    for i in range(min(line, len(src)) - 1, -1, -1):
        m = FN_DEF.match(src[i])
        if m:
            return m.group(1)
    return None


PANIC_KEY = re.compile(r"^panic:(src/[^:]+):(\d+):(.*)$", re.S)


def canonical_key(chk, key):
    """Line numbers move when unrelated code is edited.  A listed open finding records, next to
    its key `panic:<file>:<line>:<message class>`, the enclosing function (`site_fn`); a panic in
    the same file + function with the same message class is the same finding even if its line
    number moved, and is reported under the listed key (the nearest listed line wins)."""
    m = PANIC_KEY.match(key)
    if not m:
        return key
    site, line, cls = m.group(1), int(m.group(2)), m.group(3)
    for f in chk.findings:
        if f.get("property") == chk.pid and f.get("key") == key:
            return key
    fn = enclosing_fn(site, line)
    if fn is None:
        return key
    best = None
    for f in chk.findings:
        if f.get("property") != chk.pid or f.get("status") != "open" or f.get("site_fn") != fn:
            continue
        m2 = PANIC_KEY.match(f.get("key", ""))
        if m2 and m2.group(1) == site and m2.group(3) == cls:
            d = abs(int(m2.group(2)) - line)
            if best is None or d < best[0]:
                best = (d, f["key"])
    return best[1] if best else key


def report_rejections(chk, rejected, runner, prefer_small=True):
    """One finding per key; the smallest input is kept as the reproducer."""
    best = {}
    for job, reason in rejected:
        chk.add("outcome_rejected_" + reason)
        key = canonical_key(chk, finding_key(job, reason, runner))
        if key not in best or len(job.data) < len(best[key][0].data):
            best[key] = (job, reason)
    for key in sorted(best):
        job, reason = best[key]
        head = (job.stderr or "").strip().splitlines()
        what = "%s %s -g %s %s: %s; stderr: %s" % (job.tool, job.verb, job.game, " ".join(job.opts), reason,
                                                   " | ".join(head[:2])[:300])
        chk.report(key, what, {"reason": reason, "job": job.describe(), "event": job.event, "stderr": job.stderr,
                               "judged_by": "spec/Trace_Outcomes.tla (no transition of spec/Toolchain.tla matches this event)"})
    return best


def outcome_counters(chk, jobs):
    """Raw counters for the evidence file (exit statuses as observed; no judgement)."""
    for j in jobs:
        e = j.event
        if e["timed_out"]:
            chk.add("observed_timed_out")
        elif e["signal"]:
            chk.add("observed_signal_%d" % e["signal"])
        else:
            chk.add("observed_exit_%d" % e["exit_code"])


def replay_job(chk, replay, tag):
    """./check Cxx quick --replay FILE: re-run exactly that invocation and have TLC judge it again."""
    case = json.load(open(replay))["case"]
    job = Job.from_description(case["job"])
    runner = Runner(tag + "_replay")
    runner.run([job])
    chk.add("evaluations")
    rejected = judge(chk, [job], tag + "_replay")
    report_rejections(chk, rejected, runner)
    chk.sample({"replayed": job.describe()["command"], "event": job.event})
    chk.set("distinct_nontrivial", 1)
    chk.set("rule", "replay of one recorded case")
    return rejected


# ----------------------------------------------------------------------------- maintenance of findings.d (not used by the checks)

def record_findings(pid):
    """python3 -m checks.toolchain record Cxx : turn the replay files of unlisted violations
    (replays/Cxx/*.json written by the last runs) into open entries of findings.d/Cxx.json, each
    with its smallest reproducer.  Run by a person after triage, never by a check."""
    fd = os.path.join(lib.VERIF, "findings.d", pid + ".json")
    cur = json.load(open(fd)) if os.path.exists(fd) else []
    have = {f["key"] for f in cur}
    rd = os.path.join(lib.REPLAYS, pid)
    for f in sorted(os.listdir(rd)) if os.path.isdir(rd) else []:
        r = json.load(open(os.path.join(rd, f)))
        if r["key"] in have or "job" not in r.get("case", {}):
            continue
        have.add(r["key"])
        cur.append(entry_from_replay(pid, r))
    cur.sort(key=lambda e: e["key"])
    with open(fd, "w") as f:
        json.dump(cur, f, indent=1, ensure_ascii=False)
        f.write("\n")
    print("%s: %d entries" % (fd, len(cur)))


def entry_from_replay(pid, r):
    job = r["case"]["job"]
    e = {"property": pid, "key": r["key"], "status": "open"}
    m = PANIC_KEY.match(r["key"])
    if m:
        fn = enclosing_fn(m.group(1), int(m.group(2)))
        if fn:
            e["site_fn"] = fn
    repro = {"command": job["command"]}
    if "input_text" in job:
        repro["input_text"] = job["input_text"]
    elif "input_hex" in job and len(job["input_hex"]) <= 1024:
        repro["input_hex"] = job["input_hex"]
    else:
        repro["input"] = "base64 in job.input_b64 (%d bytes)" % len(base64.b64decode(job["input_b64"]))
    if job.get("maps"):
        repro["mapfiles"] = [[n, base64.b64decode(x).decode("utf-8", "replace")] for n, x in job["maps"]]
    stderr = (r["case"].get("stderr") or "").strip().splitlines()
    shown = repro.get("input_text", "").strip()
    if len(shown) > 160:
        shown = "..." + shown[-160:]
    mapnote = ""
    if repro.get("mapfiles"):
        mapnote = " with mapfile `%s`" % repro["mapfiles"][0][1].strip().replace("\n", "\\n")[:160]
    e["what"] = ("%s: `%s`%s%s -> %s" % (r["case"]["reason"], job["command"].replace("/verif/work/", ""),
                 (" on `%s`" % shown) if shown else (" on %d bytes (%s)" % (len(base64.b64decode(job["input_b64"])), json.dumps(job.get("gen")))),
                 mapnote, " | ".join(stderr[:2])[:240]))
    e["repro"] = repro
    e["job"] = {k: job[k] for k in ("tool", "verb", "game", "opts", "ext", "gen", "input_b64", "maps", "shared_maps")}
    return e


def rekey_findings(pid):
    """python3 -m checks.toolchain rekey Cxx : re-run the reproducer of every listed finding against the
    current build; update keys whose panic line moved, mark findings that no longer reproduce as fixed."""
    fd = os.path.join(lib.VERIF, "findings.d", pid + ".json")
    cur = json.load(open(fd))
    runner = Runner(pid.lower() + "_rekey")
    jobs = []
    for e in cur:
        if "job" in e:
            j = Job.from_description(dict(e["job"]))
            j.hist = ("rekey", len(jobs))
            jobs.append((e, j))
    runner.run([j for _, j in jobs])
    chk = lib.Check(pid, "exploration", "quick", 1)
    rejected = {id(j): r for j, r in judge(chk, [j for _, j in jobs], pid.lower() + "_rekey")}
    for e, j in jobs:
        if id(j) not in rejected:
            if e["status"] == "open":
                e["status"] = "fixed"
                print("no longer reproduces:", e["key"])
            continue
        key = finding_key(j, rejected[id(j)], runner)
        if e["status"] != "open":
            print("reproduces again:", key)
            e["status"] = "open"
        if key != e["key"]:
            print("moved: %s -> %s" % (e["key"], key))
            e["key"] = key
            m = PANIC_KEY.match(key)
            if m:
                e["site_fn"] = enclosing_fn(m.group(1), int(m.group(2))) or e.get("site_fn")
    seen, out = set(), []
    for e in sorted(cur, key=lambda e: (e["key"], len(e.get("job", {}).get("input_b64", "")))):
        if e["key"] in seen:
            print("duplicate after rekey, dropped:", e["key"])
            continue
        seen.add(e["key"])
        out.append(e)
    with open(fd, "w") as f:
        json.dump(out, f, indent=1, ensure_ascii=False)
        f.write("\n")


if __name__ == "__main__":
    import sys
    {"record": record_findings, "rekey": rekey_findings}[sys.argv[1]](sys.argv[2])
