"""Shared machinery of the two L3 contract checks C04 / C16 (Mode H).

The driver launches the REAL command line tool (lib.TRUTH_CORE, built from the current /repo tree)
once per input, records raw facts about the process (exit status, signal, time-out, counts of
stderr lines starting with `error` / `warning`, whether the input's file name occurs in stderr, which
of a fixed list of substrings occur) as one `cmd` event, concatenates the events of a batch into one
history file and lets TLC judge it against spec/Toolchain.tla through spec/Trace_Outcomes.tla.
Nothing here decides whether an observation is acceptable; the only thing derived from stderr in
Python is the *identity* of a rejected event (panic site), used to de-duplicate findings."""
import base64, json, os, re, resource, shutil, signal, subprocess, threading, time
from concurrent.futures import ThreadPoolExecutor
from . import lib

WALL_LIMIT_S = 10
AS_LIMIT = 4 << 30
THREADS = 8
MARKS = ["panicked at", "has overflowed its stack", "memory allocation of", "capacity overflow"]

TOOL_ARGV = {
    "truanm": ["truanm"], "trustd": ["trustd"], "trumsg": ["trumsg"], "truecl": ["truecl"],
    "trumsg-mission": ["trumsg"],
}


class Job:
    """One tool invocation.  `inputs`: list of (role, file name, bytes); role in
    {"input", "map"}; the first must be the input.  `gen`: free-form description of how the input
    was generated (goes to samples / replay files / finding keys)."""
    __slots__ = ("jid", "hist", "tool", "verb", "game", "opts", "inputs", "gen", "ext", "shared_maps", "event", "stderr", "argv")

    def __init__(self, tool, verb, game, data, ext, opts=(), maps=(), gen=None, hist=None, shared_maps=()):
        self.tool, self.verb, self.game, self.opts = tool, verb, game, list(opts)
        self.inputs = [("input", None, data)] + [("map", name, d) for name, d in maps]
        self.shared_maps = list(shared_maps)     # absolute paths of pristine files passed with -m
        self.ext, self.gen, self.hist = ext, gen or {}, hist
        self.jid, self.event, self.stderr, self.argv = None, None, None, None

    @property
    def data(self):
        return self.inputs[0][2]

    def content_ids(self):
        return [lib.sha(d) for _, _, d in self.inputs] + ["file:" + os.path.basename(p) for p in self.shared_maps]

    def describe(self):
        d = {"tool": self.tool, "verb": self.verb, "game": self.game, "opts": self.opts, "ext": self.ext,
             "gen": self.gen, "input_b64": base64.b64encode(self.data).decode(),
             "maps": [[n, base64.b64encode(x).decode()] for r, n, x in self.inputs[1:]],
             "shared_maps": self.shared_maps}
        try:
            t = self.data.decode("utf-8")
            if len(t) < 4000 and self.verb == "compile":
                d["input_text"] = t
        except UnicodeDecodeError:
            pass
        if len(self.data) <= 4096 and self.verb != "compile":
            d["input_hex"] = self.data.hex()
        d["command"] = " ".join(["truth-core"] + (self.argv or []))
        return d

    @staticmethod
    def from_description(d):
        j = Job(d["tool"], d["verb"], d["game"], base64.b64decode(d["input_b64"]), d["ext"], d["opts"],
                [(n, base64.b64decode(x)) for n, x in d.get("maps", [])], d.get("gen"), shared_maps=d.get("shared_maps", ()))
        return j


class Runner:
    """Runs jobs in a pool of <= 8 threads, one process per job, 10 s wall limit, 4 GiB address
    space limit.  The address-space limit is set as the *soft* RLIMIT_AS of this process while jobs
    are being launched (children inherit it; restored before TLC is started) -- measured here:
    a preexec_fn forces fork() of the Python process and costs ~45 ms per launch, an inherited
    limit lets subprocess use vfork (~7 ms)."""

    def __init__(self, name):
        self.dir = lib.workdir(name)
        self.env = lib.clean_env()
        self.n = 0
        self.lock = threading.Lock()

    def _argv(self, job, d):
        inp = os.path.join(d, "in_%06d.%s" % (job.jid, job.ext))
        argv = TOOL_ARGV[job.tool] + [job.verb]
        if job.tool == "trumsg-mission":
            argv.append("--mission")
        argv += ["-g", job.game, inp]
        paths = [inp]
        for k, (role, name, data) in enumerate(job.inputs[1:]):
            p = os.path.join(d, name.replace("@ID@", "%06d" % job.jid))
            paths.append(p)
            argv += ["-m", p]
        for p in job.shared_maps:
            argv += ["-m", p]
        out = os.path.join(d, "out_%06d" % job.jid)
        if job.verb in ("compile", "extract"):
            argv += ["-o", out]
        argv += job.opts
        return argv, paths, out

    def run_one(self, job):
        d = self.dir
        argv, paths, out = self._argv(job, d)
        job.argv = argv
        for (role, name, data), p in zip(job.inputs, paths):
            if role == "map":
                data = data.replace(b"@SELF@", os.path.basename(p).encode())
            with open(p, "wb") as f:
                f.write(data)
        timed_out = False
        t0 = time.time()
        try:
            p = subprocess.run([lib.TRUTH_CORE] + argv, stdin=subprocess.DEVNULL, stdout=subprocess.DEVNULL,
                               stderr=subprocess.PIPE, env=self.env, timeout=WALL_LIMIT_S, cwd=d)
            rc, err = p.returncode, p.stderr
        except subprocess.TimeoutExpired as e:
            timed_out, rc, err = True, -signal.SIGKILL, (e.stderr or b"")
        wall = time.time() - t0
        for p in paths:
            try:
                os.unlink(p)
            except OSError:
                pass
        if os.path.isdir(out):
            shutil.rmtree(out, ignore_errors=True)
        elif os.path.exists(out):
            os.unlink(out)
        text = err.decode("utf-8", "replace")
        lines = text.splitlines()
        ids = job.content_ids()
        job.stderr = text[:6000]
        job.event = {
            "ev": "cmd", "tool": job.tool, "verb": job.verb, "game": job.game, "opts": job.opts,
            "inputs": ids, "input_id": "%d:%s" % (job.jid, ids[0]),
            "exit_code": rc, "signal": -rc if rc < 0 else 0, "timed_out": timed_out,
            "n_error_diags": sum(1 for l in lines if l.startswith("error")),
            "n_warning_diags": sum(1 for l in lines if l.startswith("warning")),
            "names_file": os.path.basename(paths[0]) in text,
            "marks": [m for m in MARKS if m in text],
            "stderr_head": re.sub(r"[^\x20-\x7e]", "?", text[:160]),
            "wall_ms": int(wall * 1000),
        }
        return job

    def run(self, jobs):
        for j in jobs:
            self.n += 1
            j.jid = self.n
        soft, hard = resource.getrlimit(resource.RLIMIT_AS)
        resource.setrlimit(resource.RLIMIT_AS, (AS_LIMIT, hard))
        try:
            with ThreadPoolExecutor(max_workers=THREADS) as ex:
                list(ex.map(self.run_one, jobs))
        finally:
            resource.setrlimit(resource.RLIMIT_AS, (soft, hard))
        return jobs


# ----------------------------------------------------------------------------- TLC judgement

def histories(jobs):
    """Group jobs into histories (jobs with the same .hist, in order) -> list of lists."""
    groups, order = {}, []
    for j in jobs:
        h = j.hist if j.hist is not None else ("job", j.jid)
        if h not in groups:
            groups[h] = []
            order.append(h)
        groups[h].append(j)
    return [groups[h] for h in order]


def write_history(path, hists):
    """-> index: event line number (1-based) -> job"""
    index = {}
    n = 0
    with open(path, "w") as f:
        for k, hs in enumerate(hists):
            store = []
            for j in hs:
                for c in j.content_ids():
                    if c not in store:
                        store.append(c)
            n += 1
            f.write(json.dumps({"ev": "reset", "hist": k + 1, "store": store}) + "\n")
            for j in hs:
                n += 1
                index[n] = j
                f.write(json.dumps(j.event) + "\n")
    return index, n


UNMATCHED = re.compile(r'^<<"UNMATCHED", (\d+), "([^"]*)", "(\w+)">>', re.M)


def judge(chk, jobs, tag):
    """Let TLC validate the recorded histories.  Returns list of (job, reason) for every history
    that Trace_Outcomes rejects (at its first unmatched event)."""
    hists = histories(jobs)
    wd = lib.workdir("hist_" + tag)
    path = os.path.join(wd, "history.ndjson")
    index, nlines = write_history(path, hists)
    res = lib.tlc("Trace_Outcomes", env={"HIST": path}, workers=8, timeout=1500, extra=["-continue"], name="trace_" + tag)
    chk.tlc_stats(res)
    m = re.search(r'<<"HISTORIES", (\d+), "EVENTS", (\d+)>>', res.out)
    if not m or int(m.group(1)) != len(hists) or int(m.group(2)) != len(jobs):
        raise lib.ToolError("Trace_Outcomes did not load the history that was written\n" + res.out[-2000:])
    rejected = []
    for m in UNMATCHED.finditer(res.out):
        line, input_id, reason = int(m.group(1)), m.group(2), m.group(3)
        job = index[line]
        if job.event["input_id"] != input_id:
            raise lib.ToolError("history index mismatch at line %d" % line)
        rejected.append((job, reason))
    nviol = len(re.findall(r"Invariant Accepted is violated", res.out))
    if nviol != len(rejected):
        raise lib.ToolError("TLC reported %d rejections but %d UNMATCHED lines were parsed" % (nviol, len(rejected)))
    other = re.findall(r"Invariant (?!Accepted)(\w+) is violated", res.out)
    if other:
        raise lib.ToolError("toolchain invariant %s violated by a recorded history:\n%s" % (other[0], res.out[-3000:]))
    # acceptance = the whole file was consumed: every history contributes its start state plus one
    # state per consumed event; a rejected history stops at its unmatched event
    pos = {}
    for hs in hists:
        for k, j in enumerate(hs):
            pos[id(j)] = (k, len(hs))
    expected = len(hists) + len(jobs)
    for j, _ in rejected:
        k, n = pos[id(j)]
        expected -= (n - k)
    if res.distinct != expected:
        raise lib.ToolError("Trace_Outcomes explored %d states, expected %d: the history was not consumed as recorded"
                            % (res.distinct, expected))
    chk.add("histories_validated", len(hists))
    chk.add("events_validated", len(jobs))
    chk.add("histories_rejected", len(rejected))
    return rejected


# ----------------------------------------------------------------------------- finding identity

PANIC = re.compile(r"panicked at ([^\n]+?):(\d+):(\d+):\n([^\n]*)")


def msg_class(msg):
    msg = re.sub(r"0x[0-9a-fA-F]+|\d+", "N", msg)
    msg = re.sub(r"'[^']*'|\"[^\"]*\"|`[^`]*`", "_", msg)
    msg = re.sub(r"\s+", " ", msg).strip()
    return msg[:40]


def norm_site(path):
    if path.startswith("/repo/"):
        return path[len("/repo/"):]
    m = re.search(r"/rustc/[0-9a-f]+/(.*)", path)
    if m:
        return "rust:" + m.group(1)
    m = re.search(r"/registry/src/[^/]+/(.*)", path)
    if m:
        return "crate:" + m.group(1)
    return path


def finding_key(job, reason, runner=None):
    """Identity of a rejected event.  Panics: file:line of the location in the panic message
    (the innermost frame; a location outside /repo gets the first truth:: frame of a backtrace
    appended) plus the class of the message.  Everything else: reason, command and the class of
    input / first stderr line."""
    text = job.stderr or ""
    tv = "%s-%s" % (job.tool, job.verb)
    gclass = job.gen.get("class", "?")
    if reason == "Panic":
        m = PANIC.search(text)
        if m:
            site = norm_site(m.group(1))
            key = "panic:%s:%s:%s" % (site, m.group(2), msg_class(m.group(4)))
            if not site.startswith("src/") and runner is not None:
                fr = backtrace_frame(job, runner)
                if fr:
                    key = "panic:%s:%s@%s:%s" % (site, m.group(2), fr, msg_class(m.group(4)))
            return key
        return "panic:unknown:%s:%s" % (tv, msg_class(text.splitlines()[0] if text else ""))
    if reason in ("StackOverflow", "OutOfMemory", "Abort", "Timeout"):
        first = ""
        for l in text.splitlines():
            if l.strip():
                first = l
                break
        return "%s:%s:%s:%s" % (reason, tv, gclass, msg_class(first)[:40])
    first = ""
    for l in text.splitlines():
        if l.startswith("error"):
            first = l
            break
    if not first and text.strip():
        first = text.strip().splitlines()[0]
    if reason == "ErrorDoesNotNameFile":
        return "%s:%s:%s" % (reason, tv, msg_class(first))
    return "%s:%s:%s:%s" % (reason, tv, gclass, msg_class(first))


def backtrace_frame(job, runner):
    d = runner.dir
    jid = job.jid
    argv, paths, out = runner._argv(job, d)
    for (role, name, data), p in zip(job.inputs, paths):
        with open(p, "wb") as f:
            f.write(data)
    try:
        p = subprocess.run([lib.TRUTH_CORE] + argv, stdin=subprocess.DEVNULL, stdout=subprocess.DEVNULL, stderr=subprocess.PIPE,
                           env=lib.clean_env({"RUST_BACKTRACE": "1"}), timeout=30, cwd=d)
        for l in p.stderr.decode("utf-8", "replace").splitlines():
            m = re.match(r"\s*\d+:\s+(truth::[\w:<>]+)", l)
            if m:
                return re.sub(r"::h[0-9a-f]{16}$", "", m.group(1))
    except subprocess.TimeoutExpired:
        pass
    finally:
        for p_ in paths:
            try:
                os.unlink(p_)
            except OSError:
                pass
        if os.path.isdir(out):
            shutil.rmtree(out, ignore_errors=True)
        elif os.path.exists(out):
            os.unlink(out)
    return None


def report_rejections(chk, rejected, runner, prefer_small=True):
    """One finding per key; the smallest input is kept as the reproducer."""
    best = {}
    for job, reason in rejected:
        chk.add("outcome_rejected_" + reason)
        key = finding_key(job, reason, runner)
        if key not in best or len(job.data) < len(best[key][0].data):
            best[key] = (job, reason)
    for key in sorted(best):
        job, reason = best[key]
        head = (job.stderr or "").strip().splitlines()
        what = "%s %s -g %s %s: %s; stderr: %s" % (job.tool, job.verb, job.game, " ".join(job.opts), reason,
                                                   " | ".join(head[:2])[:300])
        chk.report(key, what, {"reason": reason, "job": job.describe(), "event": job.event, "stderr": job.stderr,
                               "judged_by": "spec/Trace_Outcomes.tla (no transition of spec/Toolchain.tla matches this event)"})
    return best


def outcome_counters(chk, jobs):
    """Raw counters for the evidence file (exit statuses as observed; no judgement)."""
    for j in jobs:
        e = j.event
        if e["timed_out"]:
            chk.add("observed_timed_out")
        elif e["signal"]:
            chk.add("observed_signal_%d" % e["signal"])
        else:
            chk.add("observed_exit_%d" % e["exit_code"])


def replay_job(chk, replay, tag):
    """./check Cxx quick --replay FILE: re-run exactly that invocation and have TLC judge it again."""
    case = json.load(open(replay))["case"]
    job = Job.from_description(case["job"])
    runner = Runner(tag + "_replay")
    runner.run([job])
    chk.add("evaluations")
    rejected = judge(chk, [job], tag + "_replay")
    report_rejections(chk, rejected, runner)
    chk.sample({"replayed": job.describe()["command"], "event": job.event})
    chk.set("distinct_nontrivial", 1)
    chk.set("rule", "replay of one recorded case")
    return rejected
