"""Random program generators (interchange JSON form).  No semantics here: only shapes.

Registers of the test language: ints r1000..r1003, floats r1004..r1006, r1020 = non-scratch int.
"""
import random

INT_REGS = [1000, 1001, 1002, 1003]
FLOAT_REGS = [1004, 1005, 1006]
INT_VALS = [0, 1, 2, 3, -1, 5]
FLOAT_VALS = [(0, 0, "zero"), (1, 1, "fin"), (-3, 1, "fin"), (2, 0, "fin"), (5, 2, "fin")]


def ilit(v):
    return {"k": "int", "v": v}


def flit(n, s=0, cls=None):
    if cls is None:
        cls = "zero" if n == 0 else "fin"
    return {"k": "float", "cls": cls, "n": n, "s": s}


def var(reg, sig=""):
    return {"k": "var", "sig": sig, "id": "r%d" % reg}


def local(name, sig=""):
    return {"k": "var", "sig": sig, "id": "n:" + name}


def binop(op, a, b):
    return {"k": "bin", "op": op, "a": a, "b": b}


def unop(op, x):
    return {"k": "un", "op": op, "x": x}


def call(opcode, args):
    return {"k": "expr", "e": {"k": "call", "name": {"ins": opcode}, "pseudos": [], "args": args}}


class BlockGen:
    """Structured programs for C06 (and, compiled, as jump graphs for C07)."""

    def __init__(self, rng, max_depth=3, ints=None, floats=None, allow_float=True, rich_exprs=False,
                 diff_labels=False):
        self.rng = rng
        self.max_depth = max_depth
        self.ints = ints or rng.sample(INT_REGS, rng.choice([1, 2, 2]))
        self.floats = (floats if floats is not None else (rng.sample(FLOAT_REGS, 1) if allow_float and rng.random() < 0.3 else []))
        self.rich = rich_exprs
        self.nlocal = 0
        self.locals = []      # stack of scopes: lists of (name, ty)
        self.diff_labels = diff_labels
        self.body_sizes = [1, 1, 2, 2, 3]
        self.top_sizes = [1, 2, 2, 3, 4]

    # ---- expressions
    def int_atom(self):
        r = self.rng.random()
        vis = [n for sc in self.locals for (n, t) in sc if t == "i"]
        if vis and r < 0.2:
            return local(self.rng.choice(vis))
        if r < 0.65:
            return var(self.rng.choice(self.ints))
        return ilit(self.rng.choice(INT_VALS))

    def float_atom(self):
        if self.floats and self.rng.random() < 0.6:
            return var(self.rng.choice(self.floats))
        n, s, c = self.rng.choice(FLOAT_VALS)
        return flit(n, s, c)

    def int_expr(self, depth=0):
        r = self.rng.random()
        if depth >= 2 or r < 0.5:
            return self.int_atom()
        if r < 0.85:
            return binop(self.rng.choice(["+", "-", "*"]), self.int_expr(depth + 1), self.int_expr(depth + 1))
        if r < 0.92 and self.floats:
            return var(self.rng.choice(self.floats), "$")
        return unop("-", self.int_expr(depth + 1))

    def float_expr(self, depth=0):
        r = self.rng.random()
        if depth >= 2 or r < 0.55:
            return self.float_atom()
        if r < 0.9:
            return binop(self.rng.choice(["+", "-", "*"]), self.float_expr(depth + 1), self.float_expr(depth + 1))
        return var(self.rng.choice(self.ints), "%")

    def cond(self):
        r = self.rng.random()
        if r < 0.55:
            return binop(self.rng.choice(["==", "!=", "<", "<=", ">", ">="]), self.int_atom(), self.int_atom())
        if r < 0.7 and self.floats:
            return binop(self.rng.choice(["<", ">=", "=="]), self.float_atom(), self.float_atom())
        if r < 0.8:
            return self.int_atom()
        if r < 0.9:
            return binop(self.rng.choice(["&&", "||"]),
                         binop(self.rng.choice(["==", "<"]), self.int_atom(), self.int_atom()),
                         binop(self.rng.choice(["!=", ">"]), self.int_atom(), self.int_atom()))
        return unop("!", binop("==", self.int_atom(), self.int_atom()))

    # ---- statements
    def time_label(self):
        r = self.rng.random()
        if r < 0.6:
            return {"k": "rel", "e": ilit(self.rng.choice([0, 1, 5, 10]))}
        return {"k": "abs", "t": self.rng.choice([0, 5, 10, 20, 30, -1])}

    def simple(self):
        r = self.rng.random()
        if r < 0.4:
            n = self.rng.choice([0, 1, 1, 2])
            if n == 0:
                return call(100, [])
            if n == 1:
                if self.floats and self.rng.random() < 0.3:
                    return call(102, [self.float_expr() if self.rich else self.float_atom()])
                return call(101, [self.int_expr() if self.rich else self.int_atom()])
            return call(103, [self.int_atom(), self.int_atom()])
        if r < 0.75:
            tgt = var(self.rng.choice(self.ints))
            op = self.rng.choice(["=", "=", "+=", "-=", "*="])
            return {"k": "assign", "var": tgt, "op": op, "value": self.int_expr() if self.rich else
                    self.rng.choice([self.int_atom(), binop("+", self.int_atom(), ilit(1)), binop("-", self.int_atom(), ilit(1))])}
        if r < 0.85 and self.floats:
            tgt = var(self.rng.choice(self.floats))
            return {"k": "assign", "var": tgt, "op": self.rng.choice(["=", "+="]), "value": self.float_expr() if self.rich else self.float_atom()}
        if r < 0.93:
            self.nlocal += 1
            name = "loc%d" % self.nlocal
            init = self.int_atom()
            self.locals[-1].append((name, "i"))
            return {"k": "decl", "ty": "int", "vars": [{"var": local(name), "init": init}]}
        return call(100, [])

    def body(self, depth, in_loop, n=None):
        self.locals.append([])
        out = []
        n = n if n is not None else self.rng.choice(self.body_sizes)
        if self.rng.random() < 0.35:
            out.append(self.time_label())
        for _ in range(n):
            out.append(self.stmt(depth, in_loop))
            if self.rng.random() < 0.3:
                out.append(self.time_label())
        self.locals.pop()
        return out

    def stmt(self, depth, in_loop):
        r = self.rng.random()
        if depth >= self.max_depth or r < 0.45:
            if in_loop and self.rng.random() < 0.12:
                return {"k": "jump", "jump": "break"}
            s = self.simple()
            if self.diff_labels and self.rng.random() < 0.2 and s["k"] in ("expr", "assign"):
                s["diff"] = self.rng.choice(["E", "NH", "L", "ENH", "EN", "H"])
            return s
        r = self.rng.random()
        if r < 0.3:
            nb = self.rng.choice([1, 1, 2, 3])
            blocks = [{"kw": "unless" if self.rng.random() < 0.1 else "if", "cond": self.cond(),
                       "body": self.body(depth + 1, in_loop)} for _ in range(nb)]
            s = {"k": "chain", "blocks": blocks}
            if self.rng.random() < 0.5:
                s["else"] = self.body(depth + 1, in_loop)
            return s
        if r < 0.45:
            return {"k": "while", "do": self.rng.random() < 0.5, "cond": self.cond(), "body": self.body(depth + 1, True)}
        if r < 0.75:
            cnt = self.rng.choice([ilit(0), ilit(1), ilit(2), ilit(3), var(self.rng.choice(self.ints)), var(self.rng.choice(self.ints))])
            s = {"k": "times", "count": cnt, "body": self.body(depth + 1, True)}
            if self.rng.random() < 0.35:
                s["clobber"] = var(self.rng.choice(self.ints))
            return s
        if r < 0.88:
            b = self.body(depth + 1, True)
            # make sure most loops can end
            if self.rng.random() < 0.9:
                b.insert(self.rng.randrange(len(b) + 1),
                         {"k": "chain", "blocks": [{"kw": "if", "cond": self.cond(), "body": [{"k": "jump", "jump": "break"}]}]})
            return {"k": "loop", "body": b}
        return {"k": "block", "body": self.body(depth + 1, in_loop)}

    def program(self, pid, count_jmp):
        self.locals = []
        body = self.body(0, False, n=self.rng.choice(self.top_sizes))
        vars_ = [{"id": "r%d" % r, "ty": "i"} for r in self.ints] + [{"id": "r%d" % r, "ty": "f"} for r in self.floats]
        return {"id": pid, "cfg": {"int_regs": INT_REGS + [1020], "float_regs": FLOAT_REGS, "count_jmp": count_jmp},
                "vars": vars_, "body": body}


def block_programs(seed, n, count_jmp, start_id=1, **kw):
    rng = random.Random(seed)
    out = []
    for i in range(n):
        depth = rng.choice([1, 1, 2, 2, 2, 3, 3, 4, 5])
        g = BlockGen(rng, max_depth=depth, **kw)
        if depth >= 4:
            g.body_sizes = [1, 1, 2]
            g.top_sizes = [1, 2]
        out.append(g.program(start_id + i, count_jmp))
    return out
