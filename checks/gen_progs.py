"""Random program generators (interchange JSON form).  No semantics here: only shapes.

Registers of the test language: ints r1000..r1003, floats r1004..r1006, r1020 = non-scratch int.
"""
import random

INT_REGS = [1000, 1001, 1002, 1003]
FLOAT_REGS = [1004, 1005, 1006]
INT_VALS = [0, 1, 2, 3, -1, 5]
FLOAT_VALS = [(0, 0, "zero"), (1, 1, "fin"), (-3, 1, "fin"), (2, 0, "fin"), (5, 2, "fin")]


def ilit(v):
    return {"k": "int", "v": v}


def flit(n, s=0, cls=None):
    if cls is None:
        cls = "zero" if n == 0 else "fin"
    return {"k": "float", "cls": cls, "n": n, "s": s}


def var(reg, sig=""):
    return {"k": "var", "sig": sig, "id": "r%d" % reg}


def local(name, sig=""):
    return {"k": "var", "sig": sig, "id": "n:" + name}


def binop(op, a, b):
    return {"k": "bin", "op": op, "a": a, "b": b}


def unop(op, x):
    return {"k": "un", "op": op, "x": x}


def call(opcode, args):
    return {"k": "expr", "e": {"k": "call", "name": {"ins": opcode}, "pseudos": [], "args": args}}


class BlockGen:
    """Structured programs for C06 (and, compiled, as jump graphs for C07)."""

    def __init__(self, rng, max_depth=3, ints=None, floats=None, allow_float=True, rich_exprs=False,
                 diff_labels=False):
        self.rng = rng
        self.max_depth = max_depth
        self.ints = ints or rng.sample(INT_REGS, rng.choice([1, 2, 2]))
        self.floats = (floats if floats is not None else (rng.sample(FLOAT_REGS, 1) if allow_float and rng.random() < 0.3 else []))
        self.rich = rich_exprs
        self.nlocal = 0
        self.locals = []      # stack of scopes: lists of (name, ty)
        self.diff_labels = diff_labels
        self.body_sizes = [1, 1, 2, 2, 3]
        self.top_sizes = [1, 2, 2, 3, 4]

    # ---- expressions
    def int_atom(self):
        r = self.rng.random()
        vis = [n for sc in self.locals for (n, t) in sc if t == "i"]
        if vis and r < 0.2:
            return local(self.rng.choice(vis))
        if r < 0.65:
            return var(self.rng.choice(self.ints))
        return ilit(self.rng.choice(INT_VALS))

    def float_atom(self):
        if self.floats and self.rng.random() < 0.6:
            return var(self.rng.choice(self.floats))
        n, s, c = self.rng.choice(FLOAT_VALS)
        return flit(n, s, c)

    def int_expr(self, depth=0):
        r = self.rng.random()
        if depth >= 2 or r < 0.5:
            return self.int_atom()
        if r < 0.85:
            return binop(self.rng.choice(["+", "-", "*"]), self.int_expr(depth + 1), self.int_expr(depth + 1))
        if r < 0.92 and self.floats:
            return var(self.rng.choice(self.floats), "$")
        return unop("-", self.int_expr(depth + 1))

    def float_expr(self, depth=0):
        r = self.rng.random()
        if depth >= 2 or r < 0.55:
            return self.float_atom()
        if r < 0.9:
            return binop(self.rng.choice(["+", "-", "*"]), self.float_expr(depth + 1), self.float_expr(depth + 1))
        return var(self.rng.choice(self.ints), "%")

    def cond(self):
        r = self.rng.random()
        if r < 0.55:
            return binop(self.rng.choice(["==", "!=", "<", "<=", ">", ">="]), self.int_atom(), self.int_atom())
        if r < 0.7 and self.floats:
            return binop(self.rng.choice(["<", ">=", "=="]), self.float_atom(), self.float_atom())
        if r < 0.8:
            return self.int_atom()
        if r < 0.9:
            return binop(self.rng.choice(["&&", "||"]),
                         binop(self.rng.choice(["==", "<"]), self.int_atom(), self.int_atom()),
                         binop(self.rng.choice(["!=", ">"]), self.int_atom(), self.int_atom()))
        return unop("!", binop("==", self.int_atom(), self.int_atom()))

    # ---- statements
    def time_label(self):
        r = self.rng.random()
        if r < 0.8:
            return {"k": "rel", "e": ilit(self.rng.choice([0, 1, 5, 10]))}
        return {"k": "abs", "t": self.rng.choice([0, 5, 10, 20, 30, 30, 40, 60, -1])}

    def simple(self):
        r = self.rng.random()
        if r < 0.4:
            n = self.rng.choice([0, 1, 1, 2])
            if n == 0:
                return call(100, [])
            if n == 1:
                if self.floats and self.rng.random() < 0.3:
                    return call(102, [self.float_expr() if self.rich else self.float_atom()])
                return call(101, [self.int_expr() if self.rich else self.int_atom()])
            return call(103, [self.int_atom(), self.int_atom()])
        if r < 0.75:
            tgt = var(self.rng.choice(self.ints))
            op = self.rng.choice(["=", "=", "+=", "-=", "*="])
            return {"k": "assign", "var": tgt, "op": op, "value": self.int_expr() if self.rich else
                    self.rng.choice([self.int_atom(), binop("+", self.int_atom(), ilit(1)), binop("-", self.int_atom(), ilit(1))])}
        if r < 0.85 and self.floats:
            tgt = var(self.rng.choice(self.floats))
            return {"k": "assign", "var": tgt, "op": self.rng.choice(["=", "+="]), "value": self.float_expr() if self.rich else self.float_atom()}
        if r < 0.93:
            self.nlocal += 1
            name = "loc%d" % self.nlocal
            init = self.int_atom()
            self.locals[-1].append((name, "i"))
            return {"k": "decl", "ty": "int", "vars": [{"var": local(name), "init": init}]}
        return call(100, [])

    def body(self, depth, in_loop, n=None):
        self.locals.append([])
        out = []
        n = n if n is not None else self.rng.choice(self.body_sizes)
        if self.rng.random() < 0.35:
            out.append(self.time_label())
        for _ in range(n):
            out.append(self.stmt(depth, in_loop))
            if self.rng.random() < 0.3:
                out.append(self.time_label())
        self.locals.pop()
        return out

    def stmt(self, depth, in_loop):
        r = self.rng.random()
        if depth >= self.max_depth or r < 0.45:
            if in_loop and self.rng.random() < 0.12:
                return {"k": "jump", "jump": "break"}
            s = self.simple()
            if self.diff_labels and self.rng.random() < 0.2 and s["k"] in ("expr", "assign"):
                s["diff"] = self.rng.choice(["E", "NH", "L", "ENH", "EN", "H"])
            return s
        r = self.rng.random()
        if r < 0.3:
            nb = self.rng.choice([1, 1, 2, 3])
            blocks = [{"kw": "unless" if self.rng.random() < 0.1 else "if", "cond": self.cond(),
                       "body": self.body(depth + 1, in_loop)} for _ in range(nb)]
            s = {"k": "chain", "blocks": blocks}
            if self.rng.random() < 0.5:
                s["else"] = self.body(depth + 1, in_loop)
            return s
        if r < 0.45:
            return {"k": "while", "do": self.rng.random() < 0.5, "cond": self.cond(), "body": self.body(depth + 1, True)}
        if r < 0.75:
            cnt = self.rng.choice([ilit(0), ilit(1), ilit(2), ilit(3), var(self.rng.choice(self.ints)), var(self.rng.choice(self.ints))])
            s = {"k": "times", "count": cnt, "body": self.body(depth + 1, True)}
            if self.rng.random() < 0.35:
                s["clobber"] = var(self.rng.choice(self.ints))
            return s
        if r < 0.88:
            b = self.body(depth + 1, True)
            # make sure most loops can end
            if self.rng.random() < 0.9:
                b.insert(self.rng.randrange(len(b) + 1),
                         {"k": "chain", "blocks": [{"kw": "if", "cond": self.cond(), "body": [{"k": "jump", "jump": "break"}]}]})
            return {"k": "loop", "body": b}
        return {"k": "block", "body": self.body(depth + 1, in_loop)}

    def program(self, pid, count_jmp):
        self.locals = []
        body = self.body(0, False, n=self.rng.choice(self.top_sizes))
        vars_ = [{"id": "r%d" % r, "ty": "i"} for r in self.ints] + [{"id": "r%d" % r, "ty": "f"} for r in self.floats]
        return {"id": pid, "cfg": {"int_regs": INT_REGS + [1020], "float_regs": FLOAT_REGS, "count_jmp": count_jmp},
                "vars": vars_, "body": body}


def block_programs(seed, n, count_jmp, start_id=1, **kw):
    rng = random.Random(seed)
    out = []
    for i in range(n):
        depth = rng.choice([1, 1, 2, 2, 2, 3, 3, 4, 5])
        g = BlockGen(rng, max_depth=depth, **kw)
        if depth >= 4:
            g.body_sizes = [1, 1, 2]
            g.top_sizes = [1, 2]
        out.append(g.program(start_id + i, count_jmp))
    return out


# ------------------------------------------------------------------------------------------------
# C02: bodies with rich expressions and raw jumps

class ExprGen(BlockGen):
    def __init__(self, rng, **kw):
        super().__init__(rng, rich_exprs=True, **kw)
        self.labels = 0
        self.bitops = []
        self.cmp_values = True
        self.count_jmp = True
        self.use_ds = False
        self.in_ds = 0
        self.ds_len = None

    def int_expr(self, depth=0):
        r = self.rng.random()
        if depth >= 3 or r < 0.3:
            return self.int_atom()
        if r < 0.6:
            op = self.rng.choice(["+", "-", "*", "+", "-", "*", "/", "%"])
            if op in ("/", "%"):     # run-time division by zero is not decided: divide by non-zero constants only
                return binop(op, self.int_expr(depth + 1), ilit(self.rng.choice([1, 2, 3, -1, -2])))
            return binop(op, self.int_expr(depth + 1), self.int_expr(depth + 1))
        if r < 0.64:
            return unop("-", self.int_expr(depth + 1))
        if r < 0.68 and self.bitops:
            k = self.rng.random()
            if k < 0.6:
                return binop(self.rng.choice(self.bitops), self.int_expr(depth + 1),
                             self.int_expr(depth + 1) if self.rng.random() < 0.5 else ilit(self.rng.choice([1, 2, 31, 33, -1])))
            return unop(self.rng.choice(["~", "!"]), self.int_expr(depth + 1))
        if r < 0.76 and self.floats:
            return self.rng.choice([var(self.rng.choice(self.floats), "$"), unop("int", self.float_expr(depth + 1)),
                                    unop("$", self.float_expr(depth + 1))])
        if r < 0.84:
            return {"k": "tern", "c": self.cond_expr(depth + 1), "a": self.int_expr(depth + 1), "b": self.int_expr(depth + 1)}
        if r < 0.9 and self.cmp_values:
            return binop(self.rng.choice(["==", "!=", "<", "<=", ">", ">="]), self.int_expr(depth + 1), self.int_expr(depth + 1))
        if r < 0.96 and self.use_ds and self.in_ds < 2:
            # a switch inside a case of another switch has the same length (mixed lengths are rejected by design)
            n = self.ds_len if self.in_ds else self.rng.choice([2, 3, 4])
            outer_len, self.ds_len = getattr(self, "ds_len", None), n
            self.in_ds += 1
            cases = [self.int_expr(depth + 2)] + [self.int_expr(depth + 2) if self.rng.random() < 0.7 else {"k": "hole"} for _ in range(n - 1)]
            self.in_ds -= 1
            self.ds_len = outer_len
            return {"k": "ds", "cases": cases}
        return self.int_atom()

    def float_expr(self, depth=0):
        r = self.rng.random()
        if depth >= 3 or r < 0.4 or not self.floats:
            return self.float_atom()
        if r < 0.75:
            return binop(self.rng.choice(["+", "-", "*"]), self.float_expr(depth + 1), self.float_expr(depth + 1))
        if r < 0.82:
            return unop("-", self.float_expr(depth + 1))
        if r < 0.92:
            return self.rng.choice([var(self.rng.choice(self.ints), "%"), unop("float", self.int_expr(depth + 1))])
        return {"k": "tern", "c": self.cond_expr(depth + 1), "a": self.float_expr(depth + 1), "b": self.float_expr(depth + 1)}

    def cond_expr(self, depth=0):
        r = self.rng.random()
        if r < 0.6:
            return binop(self.rng.choice(["==", "!=", "<", "<=", ">", ">="]), self.int_expr(depth + 1), self.int_expr(depth + 1))
        if r < 0.75 and self.floats:
            return binop(self.rng.choice(["<", ">=", "==", "!="]), self.float_expr(depth + 1), self.float_expr(depth + 1))
        return self.int_expr(depth + 1)

    def cond(self, top=True):
        r = self.rng.random()
        if r < 0.5:
            return self.cond_expr(1)
        if r < 0.75:
            return binop(self.rng.choice(["&&", "||"]), self.cond(False), self.cond(False))
        if r < 0.85:
            return unop("!", self.cond(False))
        if r < 0.93 and top and self.count_jmp:
            return {"k": "xcr", "op": "--", "order": "pre", "var": var(self.rng.choice(self.ints))}
        return self.int_atom()

    def simple(self):
        r = self.rng.random()
        if r < 0.3:
            k = self.rng.random()
            if k < 0.15:
                return call(100, [])
            if k < 0.5:
                return call(101, [self.int_expr()])
            if k < 0.65 and self.floats:
                return call(102, [self.float_expr()])
            if k < 0.85:
                return call(103, [self.int_expr(1), self.int_expr(1)])
            if self.floats:
                return call(104, [self.int_expr(1), self.float_expr(1)])
            return call(107, [self.int_atom(), self.int_expr(1), self.int_atom()])
        if r < 0.7:
            tgt = var(self.rng.choice(self.ints))
            op = self.rng.choice(["=", "=", "=", "+=", "-=", "*=", "/=", "%="])
            val = self.int_expr()
            if op in ("/=", "%="):
                val = ilit(self.rng.choice([1, 2, 3, -1]))
            return {"k": "assign", "var": tgt, "op": op, "value": val}
        if r < 0.82 and self.floats:
            tgt = var(self.rng.choice(self.floats))
            return {"k": "assign", "var": tgt, "op": self.rng.choice(["=", "=", "+=", "-=", "*="]), "value": self.float_expr()}
        if r < 0.92:
            self.nlocal += 1
            name = "loc%d" % self.nlocal
            if self.floats and self.rng.random() < 0.3:
                init = self.float_expr(1)
                self.locals[-1].append((name, "f"))
                return {"k": "decl", "ty": "float", "vars": [{"var": local(name), "init": init}]}
            init = self.int_expr(1)
            self.locals[-1].append((name, "i"))
            return {"k": "decl", "ty": "int", "vars": [{"var": local(name), "init": init}]}
        return call(100, [])

    def float_atom(self):
        vis = [n for sc in self.locals for (n, t) in sc if t == "f"]
        if vis and self.rng.random() < 0.25:
            return local(self.rng.choice(vis))
        return super().float_atom()

    def flat_program(self, pid, cfg):
        """a flat body: simple statements, labels and conditional / counting jumps (forward mostly)"""
        self.locals = [[]]
        n = self.rng.choice([2, 3, 4, 5, 6])
        body = []
        pending = []
        for i in range(n):
            if self.rng.random() < 0.25:
                body.append(self.time_label())
            if self.rng.random() < 0.3:
                self.labels += 1
                lab = "L%d" % self.labels
                pending.append(lab)
                kw = "unless" if self.rng.random() < 0.2 else "if"
                j = {"k": "condjump", "kw": kw, "cond": self.cond(), "jump": "goto", "label": lab}
                if self.rng.random() < 0.2:
                    j["time"] = self.rng.choice([0, 5, 10, 20])
                body.append(j)
            s = self.simple()
            if self.diff_labels and self.rng.random() < 0.25 and s["k"] in ("expr", "assign"):
                s["diff"] = self.rng.choice(["E", "NH", "L", "ENH", "EN", "H"])
            body.append(s)
            if pending and self.rng.random() < 0.5:
                body.append({"k": "label", "name": pending.pop(0)})
        for lab in pending:
            body.append({"k": "label", "name": lab})
        body.append(call(100, []))
        vars_ = [{"id": "r%d" % r, "ty": "i"} for r in self.ints] + [{"id": "r%d" % r, "ty": "f"} for r in self.floats]
        return {"id": pid, "cfg": cfg, "vars": vars_, "body": body}

    def block_program(self, pid, cfg):
        p = self.program(pid, cfg.get("count_jmp", "!="))
        p["cfg"] = cfg
        return p


BASE_CFG = {"int_regs": INT_REGS + [1020], "float_regs": FLOAT_REGS,
            "scratch_int": INT_REGS, "scratch_float": FLOAT_REGS,
            "assign_ops": ["=", "+=", "-=", "*=", "/=", "%="], "binops": ["+", "-", "*", "/", "%"], "unops": ["-"],
            "cmp_binops": ["==", "!=", "<", "<=", ">", ">="],
            "cond_jmp": "single", "count_jmp": "!=", "jmp_order": "ot", "aux_flags": False}


def lang_configs():
    """the 'sets of available intrinsics x argument orders x pool sizes' quantifier of C02 (named)"""
    def mk(**kw):
        c = dict(BASE_CFG)
        c.update(kw)
        return c
    return [
        ("native", mk()),
        ("fallback-unop", mk(unops=[])),
        ("assign-only-direct", mk(assign_ops=["="])),
        ("no-binops", mk(binops=[], cmp_binops=[])),
        ("two-part-cmp", mk(cond_jmp="two", jmp_order="to", cmp_binops=[])),
        ("count-gt", mk(count_jmp=">", jmp_order="to")),
        # ("jump-no-time", mk(jmp_order="o")) is deliberately absent: a jump without a time argument cannot carry
        # "goto sets the time to the label's time" when the label sits before a time label, and what the game
        # does then is not documented by truth (see design_notes/coordinator.md)
        ("small-pool", mk(scratch_int=[1002, 1003], scratch_float=[1006])),
        ("pool-1", mk(scratch_int=[1003], scratch_float=[1006], unops=[])),
        ("no-scratch", mk(scratch_int=[], scratch_float=[])),
        ("aux-flags", mk(aux_flags=True)),
        ("bitwise-native", mk(binops=["+", "-", "*", "/", "%", "|", "^", "&", "<<", ">>", ">>>"], unops=["-", "~", "!"], bit_exprs=True)),
        ("bitwise-fallback-unops", mk(binops=["+", "-", "*", "/", "%", "|", "^", "&", "<<", ">>", ">>>"], unops=[], bit_exprs=True)),
        ("no-count-two-part", mk(count_jmp="none", cond_jmp="two", assign_ops=["=", "+=", "-="])),
    ]


def expr_programs(seed, n, cfg, start_id=1, use_ds=True, diff_labels=True):
    rng = random.Random(seed)
    out = []
    for i in range(n):
        g = ExprGen(rng, max_depth=rng.choice([1, 1, 2]), allow_float=True, diff_labels=diff_labels and rng.random() < 0.3)
        g.use_ds = use_ds and rng.random() < 0.4
        g.cmp_values = bool(cfg.get("cmp_binops"))
        g.bitops = [b for b in cfg.get("binops", []) if b in ("|", "^", "&", "<<", ">>", ">>>")] if cfg.get("bit_exprs") else []
        g.count_jmp = cfg.get("count_jmp") != "none"
        g.body_sizes = [1, 1, 2]
        g.top_sizes = [1, 2, 2, 3]
        if rng.random() < 0.6:
            out.append(g.flat_program(start_id + i, cfg))
        else:
            out.append(g.block_program(start_id + i, cfg))
    return out


# ------------------------------------------------------------------------------------------------
# C05: scenarios — which pool registers the script mentions, and in which syntactic position kind

MENTION_KINDS = ["assign_target", "rhs", "sigil", "call_arg", "ds_call", "ds_assign", "jump_cond", "predec",
                 "times_count", "times_clobber", "alias", "ternary", "while_cond", "compound_assign", "label_cond_time",
                 "nested", "nested", "nested_ds", "nested_dead", "const_dead"]


def nest_mention(rng, leaf, is_float, depth, force_ds=False):
    """the register as a leaf under 1..depth randomly chosen constructors (switch in switch, ternary in switch, ...)"""
    e = leaf
    lit = (lambda: flit(rng.choice([1, 3, 5]), 1)) if is_float else (lambda: ilit(rng.choice([1, 2, 3])))
    for d in range(depth):
        k = "ds" if force_ds else rng.choice(["ds", "ds", "tern", "bin", "neg"])
        if k == "ds":
            n = 4        # one length everywhere: mixed lengths in one statement are rejected by design
            # the register sits in case 0, which applies on difficulty 0 whatever surrounds it (a *live* mention)
            cases = [e] + [lit() if rng.random() < 0.5 else {"k": "hole"} for _ in range(n - 1)]
            e = {"k": "ds", "cases": cases}
        elif k == "tern":
            c = binop(rng.choice(["<", "=="]), var(1020), ilit(rng.choice([0, 1])))
            e = {"k": "tern", "c": c, "a": e, "b": lit()} if rng.random() < 0.5 else {"k": "tern", "c": c, "a": lit(), "b": e}
        elif k == "bin":
            e = binop(rng.choice(["+", "-", "*"]), e, lit()) if rng.random() < 0.5 else binop(rng.choice(["+", "*"]), lit(), e)
        else:
            e = unop("-", e)
    return e


def mention_stmt(rng, kind, reg, is_float, labels):
    v = var(reg)
    other = var(1020)
    if is_float and kind in ("predec", "times_count", "times_clobber", "jump_cond", "while_cond", "ternary"):
        kind = rng.choice(["rhs", "call_arg", "sigil", "assign_target"])
    if kind == "assign_target":
        return [{"k": "assign", "var": v, "op": "=", "value": flit(1, 1) if is_float else ilit(2)}]
    if kind == "compound_assign":
        return [{"k": "assign", "var": v, "op": "+=", "value": flit(1, 1) if is_float else ilit(2)}]
    if kind == "rhs":
        return [{"k": "assign", "var": var(1021) if is_float else other, "op": "=", "value": v}]
    if kind == "sigil":
        return [call(101, [var(reg, "$")])] if is_float else [call(102, [var(reg, "%")])]
    if kind == "call_arg":
        return [call(102 if is_float else 101, [v])]
    if kind == "ds_call":
        lit = flit(1, 1) if is_float else ilit(1)
        cases = rng.choice([[lit, v], [v, {"k": "hole"}, lit], [lit, lit, {"k": "hole"}, v]])
        return [call(102 if is_float else 101, [{"k": "ds", "cases": cases}])]
    if kind == "ds_assign":
        lit = flit(1, 1) if is_float else ilit(1)
        return [{"k": "assign", "var": var(1021) if is_float else other, "op": "=", "value": {"k": "ds", "cases": [lit, v, lit]}}]
    if kind in ("jump_cond", "label_cond_time"):
        labels[0] += 1
        lab = "M%d" % labels[0]
        j = {"k": "condjump", "kw": "if", "cond": binop("==", v, ilit(0)), "jump": "goto", "label": lab}
        if kind == "label_cond_time":
            j["time"] = 5
        return [j, call(100, []), {"k": "label", "name": lab}]
    if kind == "predec":
        labels[0] += 1
        lab = "M%d" % labels[0]
        return [{"k": "label", "name": lab}, call(100, []),
                {"k": "condjump", "kw": "if", "cond": {"k": "xcr", "op": "--", "order": "pre", "var": v}, "jump": "goto", "label": lab}]
    if kind == "times_count":
        return [{"k": "times", "count": v, "body": [call(100, [])]}]
    if kind == "times_clobber":
        return [{"k": "times", "count": ilit(2), "clobber": v, "body": [call(100, [])]}]
    if kind == "ternary":
        return [call(101, [{"k": "tern", "c": v, "a": ilit(1), "b": ilit(2)}])]
    if kind == "while_cond":
        return [{"k": "while", "do": False, "cond": binop(">", v, ilit(100)), "body": [call(100, [])]}]
    if kind == "alias":
        return [call(102 if is_float else 101, [{"k": "var", "sig": "", "id": "n:ALIAS%d" % reg}])]
    if kind == "nested_dead":
        # the register is mentioned only in a case that can never apply: case 3 of a switch that is itself
        # case 0 of a fully explicit switch (so the inner switch is only consulted on difficulty 0)
        lit = (lambda: flit(rng.choice([1, 3, 5]), 1)) if is_float else (lambda: ilit(rng.choice([1, 2, 3])))
        inner = {"k": "ds", "cases": [lit(), lit(), lit(), binop("+", v, lit())]}
        e = {"k": "ds", "cases": [inner, lit(), lit(), lit()]}
        return [call(102 if is_float else 101, [e])]
    if kind == "const_dead":
        # the register is mentioned only in the branch of a ternary whose condition is a constant expression
        # (const_simplify drops that branch before lowering)
        lit = (lambda: flit(rng.choice([1, 3, 5]), 1)) if is_float else (lambda: ilit(rng.choice([1, 2, 3])))
        dead = rng.choice([v, binop("+", v, lit()), unop("-", v)])
        c = rng.choice([ilit(0), ilit(2), binop("<", ilit(1), ilit(2)), binop("==", ilit(3), ilit(1))])
        truthy = c.get("v", None) == 2 or (c.get("k") == "bin" and c["op"] == "<")
        e = {"k": "tern", "c": c, "a": lit(), "b": dead} if truthy else {"k": "tern", "c": c, "a": dead, "b": lit()}
        if rng.random() < 0.5:
            return [call(102 if is_float else 101, [e])]
        return [{"k": "assign", "var": var(1021) if is_float else other, "op": "=", "value": e}]
    if kind in ("nested", "nested_ds"):
        e = nest_mention(rng, v, is_float, rng.choice([2, 2, 3]), force_ds=(kind == "nested_ds"))
        if rng.random() < 0.5:
            return [call(102 if is_float else 101, [e])]
        return [{"k": "assign", "var": var(1021) if is_float else other, "op": "=", "value": e}]
    raise ValueError(kind)


def temp_stmt(rng, nesting):
    """statements that need temporaries / locals; operands are non-pool registers 1020 (int) and 1021 (float)"""
    a = var(1020)
    f = var(1021)
    def deep(n):
        if n == 0:
            return binop("+", a, ilit(rng.choice([1, 2, 3])))
        return binop(rng.choice(["*", "+", "-"]), deep(n - 1), deep(n - 1))
    r = rng.random()
    if r < 0.35:
        return [call(103, [deep(nesting), deep(max(0, nesting - 1))])]
    if r < 0.55:
        return [{"k": "decl", "ty": "int", "vars": [{"var": local("t%d" % rng.randrange(1000)), "init": deep(1)}]}]
    if r < 0.7:
        return [call(104, [deep(1), binop("*", binop("+", f, flit(1, 1)), binop("-", f, flit(3, 1)))])]
    if r < 0.85:
        return [{"k": "times", "count": a, "body": [call(101, [deep(1)])]}]
    return [{"k": "block", "body": [
        {"k": "decl", "ty": "float", "vars": [{"var": local("u%d" % rng.randrange(1000)), "init": binop("+", f, flit(1, 1))}]},
        call(101, [deep(1)])]}]


def regalloc_scenarios(seed, n, start_id=1):
    rng = random.Random(seed)
    out = []
    for i in range(n):
        si = rng.sample(INT_REGS, rng.choice([0, 1, 2, 3, 4]))
        sf = rng.sample(FLOAT_REGS, rng.choice([0, 1, 2, 3]))
        cfg = dict(BASE_CFG)
        cfg.update(int_regs=INT_REGS + [1020], float_regs=FLOAT_REGS + [1021], scratch_int=si, scratch_float=sf,
                   aliases={"ALIAS%d" % r: r for r in INT_REGS + FLOAT_REGS},
                   unops=rng.choice([["-"], []]), cond_jmp=rng.choice(["single", "two"]),
                   count_jmp=rng.choice(["!=", ">"]), cmp_binops=[])
        if rng.random() < 0.15:
            cfg["anti"] = 99
        labels = [0]
        body = []
        pool = [(r, False) for r in si] + [(r, True) for r in sf]
        nm = rng.choice([0, 1, 1, 2, 3])
        chunks = []
        mkinds = {}
        for _ in range(min(nm, len(pool))):
            reg, isf = rng.choice(pool)
            kind = rng.choice(MENTION_KINDS)
            mkinds.setdefault("r%d" % reg, []).append(kind)
            chunks.append(mention_stmt(rng, kind, reg, isf, labels))
        for _ in range(rng.choice([1, 2, 3])):
            chunks.append(temp_stmt(rng, rng.choice([1, 2, 2, 3])))
        if "anti" in cfg and rng.random() < 0.7:
            # the scratch-forbidding instruction, in its plain spelling or as a raw blob
            if rng.random() < 0.5:
                chunks.append([call(99, [])])
            else:
                chunks.append([{"k": "expr", "e": {"k": "call", "name": {"ins": 99}, "args": [],
                                                  "pseudos": [{"kind": "blob", "v": {"k": "str", "v": ""}}]}}])
        rng.shuffle(chunks)
        for c in chunks:
            body.extend(c)
        out.append({"id": start_id + i, "cfg": cfg, "vars": [], "body": body, "mention_kinds": mkinds})
    return out


# ------------------------------------------------------------------------------------------------
# C07: jump graphs (flat programs with arbitrary forward / backward jumps)

def graph_program(rng, pid, cfg, nslots, regs):
    """regs: int registers to use.  Each slot: call | goto | cond goto | counting goto | interrupt label."""
    slots = []
    targeted = set()
    for i in range(nslots):
        r = rng.random()
        tgt = rng.randrange(nslots + 1)
        if r < 0.4:
            slots.append(call(101, [var(rng.choice(regs))]) if rng.random() < 0.5 else call(100, []))
            continue
        if r < 0.48:
            slots.append({"k": "assign", "var": var(rng.choice(regs)), "op": rng.choice(["=", "+=", "-="]),
                          "value": ilit(rng.choice([0, 1, 2]))})
            continue
        if r < 0.52:
            slots.append({"k": "interrupt", "e": ilit(rng.choice([1, 2]))})
            continue
        targeted.add(tgt)
        lab = "L%d" % tgt
        if r < 0.62:
            s = {"k": "jump", "jump": "goto", "label": lab}
        elif r < 0.85:
            a = var(rng.choice(regs))
            b = rng.choice([ilit(0), ilit(1), var(rng.choice(regs))])
            s = {"k": "condjump", "kw": rng.choice(["if", "if", "unless"]), "cond": binop(rng.choice(["==", "!=", "<", ">"]), a, b),
                 "jump": "goto", "label": lab}
        else:
            s = {"k": "condjump", "kw": "if", "cond": {"k": "xcr", "op": "--", "order": "pre", "var": var(rng.choice(regs))},
                 "jump": "goto", "label": lab}
        if rng.random() < 0.15:
            s["time"] = rng.choice([0, 5, 10])
        if rng.random() < 0.08:
            s["diff"] = rng.choice(["E", "NH", "EN"])
        slots.append(s)
    body = []
    for i, s in enumerate(slots):
        if i in targeted:
            # the label sits before or after the time label of its slot
            if rng.random() < 0.5:
                body.append({"k": "label", "name": "L%d" % i})
        r = rng.random()
        if r < 0.25:
            body.append({"k": "rel", "e": ilit(rng.choice([5, 10]))})
        elif r < 0.3:
            body.append({"k": "abs", "t": rng.choice([0, 3, -1])})
        if i in targeted and not any(b.get("k") == "label" and b.get("name") == "L%d" % i for b in body):
            body.append({"k": "label", "name": "L%d" % i})
        body.append(s)
    if nslots in targeted:
        if rng.random() < 0.3:
            body.append({"k": "rel", "e": ilit(5)})
        body.append({"k": "label", "name": "L%d" % nslots})
    if rng.random() < 0.5:
        body.append(call(100, []))
    return {"id": pid, "cfg": cfg, "vars": [{"id": "r%d" % r, "ty": "i"} for r in regs], "body": body}


def graph_programs(seed, n, cfg, max_slots=8, start_id=1):
    rng = random.Random(seed)
    out = []
    for i in range(n):
        regs = rng.sample(INT_REGS, rng.choice([1, 2, 2]))
        out.append(graph_program(rng, start_id + i, cfg, rng.choice(range(2, max_slots + 1)), regs))
    return out


# ------------------------------------------------------------------------------------------------
# C02: the "interactions" family — every aliasing pattern between destination, operands and
# temporaries for `v = A op B` (systematic, independent of the seed)

def interaction_programs(cfg, start_id=1, floats=False):
    v, w = (1004, 1005) if floats else (1000, 1001)
    lit = (lambda n: flit(n * 2 + 1, 1)) if floats else ilit
    V, W = var(v), var(w)
    simple = [V, W, lit(2)]
    nonatomic = [binop("+", W, lit(1)), binop("*", V, W), unop("-", V), binop("-", lit(3), V)]
    switches = [{"k": "ds", "cases": [W, V]}, {"k": "ds", "cases": [V, {"k": "hole"}, W, V]}, {"k": "ds", "cases": [lit(1), V, lit(2), W]}]
    tern = [{"k": "tern", "c": binop("<", V, W) if not floats else binop("<", var(1000), var(1001)), "a": V, "b": W}]
    # casts and sigils, also stacked on a variable that already carries the opposite sigil (`float($F)`, `%($F)`,
    # `int(%I)`, `$(%I)`): the inner read truncates / converts first, so the pair is not the identity
    casts = ([unop("float", var(1000)), var(1000, "%"), unop("float", var(v, "$")), unop("%", var(w, "$")), unop("float", unop("int", V))]
             if floats else
             [unop("int", var(1004)), var(1004, "$"), unop("int", var(v, "%")), unop("$", var(w, "%")), unop("int", unop("float", V)),
              unop("int", unop("float", var(1004, "$")))])
    operands = simple + nonatomic + switches + tern + casts
    ops = ["+", "-", "*"]
    out = []
    pid = start_id
    obs = call(102 if floats else 101, [V])
    obs2 = call(102 if floats else 101, [W])
    ivars = [{"id": "r%d" % v, "ty": "f" if floats else "i"}, {"id": "r%d" % w, "ty": "f" if floats else "i"}]
    if floats:
        ivars.append({"id": "r1000", "ty": "i"})
    else:
        ivars.append({"id": "r1004", "ty": "f"})
    for a in operands:
        for b in operands:
            for op in ops:
                for asg in ("=", "+="):
                    if asg == "+=" and op != "+":
                        continue
                    value = binop(op, a, b) if asg == "=" else binop("*", a, b)
                    body = [{"k": "assign", "var": V, "op": asg, "value": value}, obs, obs2]
                    out.append({"id": pid, "cfg": cfg, "vars": ivars, "body": body})
                    pid += 1
    return out


# ------------------------------------------------------------------------------------------------
# C07: systematic loop nests with exits (flat label/goto form), independent of the seed

def loopnest_programs(cfg, start_id=1):
    """Two nested back-edges; one jump inside the inner body goes to every interesting place (after the inner
    loop, after the outer loop, to either loop head, past a statement after the outer loop), as goto /
    conditional goto / with an explicit time; back-edges conditional or counting; optional statements and time
    labels between the pieces.  Every combination is generated."""
    R, S = var(1000), var(1001)
    out = []
    pid = start_id
    targets = ["after_inner", "after_outer", "outer_head", "inner_head", "past_outer"]
    jump_kinds = ["cond", "goto", "cond_time"]
    backs = [("cond", "cond"), ("count", "cond"), ("cond", "count"), ("goto", "cond")]
    for tgt in targets:
        for jk in jump_kinds:
            for (inner_back, outer_back) in backs:
                for filler in (0, 1, 2):
                    for tl in (0, 1):
                        lab = {"after_inner": "AI", "after_outer": "AO", "outer_head": "LO", "inner_head": "LI", "past_outer": "PO"}[tgt]
                        body = []
                        body.append({"k": "label", "name": "LO"})
                        if tl:
                            body.append({"k": "rel", "e": ilit(5)})
                        body.append(call(101, [R]))
                        body.append({"k": "label", "name": "LI"})
                        if tl:
                            body.append({"k": "rel", "e": ilit(5)})
                        if filler >= 1:
                            body.append({"k": "assign", "var": S, "op": "+=", "value": ilit(1)})
                        j = {"k": "jump", "jump": "goto", "label": lab} if jk == "goto" else \
                            {"k": "condjump", "kw": "if", "cond": binop("==", S, ilit(3)), "jump": "goto", "label": lab}
                        if jk == "cond_time":
                            j["time"] = 5
                        body.append(j)
                        body.append(call(101, [S]))
                        def back(kind, reg, label):
                            if kind == "cond":
                                return {"k": "condjump", "kw": "if", "cond": binop("<", reg, ilit(3)), "jump": "goto", "label": label}
                            if kind == "count":
                                return {"k": "condjump", "kw": "if", "cond": {"k": "xcr", "op": "--", "order": "pre", "var": reg}, "jump": "goto", "label": label}
                            return {"k": "jump", "jump": "goto", "label": label}
                        if inner_back != "count":
                            body.append({"k": "assign", "var": S, "op": "+=", "value": ilit(1)})
                        body.append(back(inner_back, S, "LI"))
                        body.append({"k": "label", "name": "AI"})
                        if filler >= 2:
                            body.append(call(100, []))
                        if outer_back != "count":
                            body.append({"k": "assign", "var": R, "op": "+=", "value": ilit(1)})
                        body.append(back(outer_back, R, "LO"))
                        body.append({"k": "label", "name": "AO"})
                        if tl:
                            body.append({"k": "rel", "e": ilit(10)})
                        body.append(call(103, [R, S]))
                        body.append({"k": "label", "name": "PO"})
                        body.append(call(100, []))
                        # unused labels are fine for the compiler; drop those nothing jumps to, to keep the shape tight
                        used = {s.get("label") for s in body if s.get("label")}
                        body = [s for s in body if not (s.get("k") == "label" and s["name"] not in used)]
                        out.append({"id": pid, "cfg": cfg, "vars": [{"id": "r1000", "ty": "i"}, {"id": "r1001", "ty": "i"}], "body": body})
                        pid += 1
    return out


def chain_programs(cfg, start_id=1):
    """C07: systematic two- and three-block conditional chains in flat label/goto form where the exit jump of each
    block and the conditional jumps go to every interesting place (the chain's end label, a label in the middle of
    the last block, a label after the statement following the chain, the next block's label), with and without time
    labels between the pieces.  Every combination is generated."""
    R, S = var(1000), var(1001)
    out = []
    pid = start_id
    def cj(kw, reg, val, label):
        return {"k": "condjump", "kw": kw, "cond": binop("==", reg, ilit(val)), "jump": "goto", "label": label}
    for nblocks in (2, 3):
        for x in ("E", "M", "P", "NEXT", "none"):           # where block 1 goes when it is done
            for y in ("E", "P", "M"):                         # where the last conditional jump goes when it does not hold
                for kw in ("if", "unless"):
                    for tl in (0, 1, 2):
                        body = []
                        body.append(cj(kw, R, 0, "L1"))
                        body.append(call(101, [ilit(1)]))
                        if tl == 1:
                            body.append({"k": "rel", "e": ilit(5)})
                        if x != "none":
                            body.append({"k": "jump", "jump": "goto", "label": {"E": "E", "M": "M", "P": "P", "NEXT": "L1"}[x]})
                        body.append({"k": "label", "name": "L1"})
                        if nblocks == 3:
                            body.append(cj(kw, R, 1, "L2"))
                            body.append(call(101, [ilit(2)]))
                            body.append({"k": "jump", "jump": "goto", "label": "E"})
                            body.append({"k": "label", "name": "L2"})
                        if tl == 2:
                            body.append({"k": "rel", "e": ilit(5)})
                        body.append(cj(kw, S, 0, y))
                        body.append(call(101, [ilit(3)]))
                        body.append({"k": "label", "name": "M"})
                        body.append(call(101, [ilit(4)]))
                        body.append({"k": "label", "name": "E"})
                        body.append(call(101, [ilit(5)]))
                        body.append({"k": "label", "name": "P"})
                        body.append(call(100, []))
                        used = {s.get("label") for s in body if s.get("label")}
                        body = [s for s in body if not (s.get("k") == "label" and s["name"] not in used)]
                        out.append({"id": pid, "cfg": cfg, "vars": [{"id": "r1000", "ty": "i"}, {"id": "r1001", "ty": "i"}], "body": body})
                        pid += 1
                        if tl == 0 and kw == "if":
                            # the same chain as the body of a loop (a back-edge after it), with a jump from *outside* the
                            # loop to each label of the chain: the label has a referrer the chain's own block does not contain
                            T = var(1002)
                            for entry in (None, "L1", "M", "E"):
                                if entry is not None and entry not in used:
                                    continue
                                pre = [cj("if", S, 3, entry)] if entry else []
                                chain = [s2 for s2 in body[:-1] if not (s2.get("k") == "label" and s2["name"] == "P")]
                                inner = (pre + [{"k": "label", "name": "LH"}] + chain
                                         + [{"k": "assign", "var": T, "op": "+=", "value": ilit(1)},
                                            {"k": "condjump", "kw": "if", "cond": binop("<", T, ilit(3)), "jump": "goto", "label": "LH"},
                                            {"k": "label", "name": "P"}, call(100, [])])
                                labels = {s2["name"] for s2 in inner if s2.get("k") == "label"}
                                if any(s2.get("label") and s2["label"] not in labels for s2 in inner):
                                    continue
                                out.append({"id": pid, "cfg": cfg, "vars": [{"id": "r1000", "ty": "i"}, {"id": "r1001", "ty": "i"}, {"id": "r1002", "ty": "i"}],
                                            "body": inner})
                                pid += 1
    return out


# ------------------------------------------------------------------------------------------------
# C07: structured bases with ONE extra edge.  The decompiler's block recovery is written for the jump graphs the
# compiler emits for blocks; the interesting inputs are those graphs with one more jump in them (from every
# position to every position, conditional and unconditional): jumps into / out of / across the would-be blocks.

def edge_bases():
    R, S, T, U = var(1000), var(1001), var(1002), var(1003)
    def c(n):
        return call(101, [ilit(n)])
    def cj(cond, label, kw="if"):
        return {"k": "condjump", "kw": kw, "cond": cond, "jump": "goto", "label": label}
    def go(label):
        return {"k": "jump", "jump": "goto", "label": label}
    def lab(name):
        return {"k": "label", "name": name}
    def inc(v):
        return {"k": "assign", "var": v, "op": "+=", "value": ilit(1)}
    eq = lambda v, n: binop("==", v, ilit(n))
    lt = lambda v, n: binop("<", v, ilit(n))
    loop1 = [lab("LH"), c(1), inc(T), cj(lt(T, 3), "LH"), c(2)]
    nested = [lab("LA"), c(1), lab("LB"), c(2), inc(U), cj(lt(U, 2), "LB"), inc(T), cj(lt(T, 2), "LA"), c(3)]
    ifelse = [cj(eq(R, 0), "EL"), c(1), go("EN"), lab("EL"), c(2), lab("EN"), c(3)]
    ifelif = [cj(eq(R, 0), "E1"), c(1), go("EN"), lab("E1"), cj(eq(R, 1), "E2"), c(2), go("EN"), lab("E2"), c(3), lab("EN"), c(4)]
    ifonly = [cj(eq(R, 0), "EN"), c(1), lab("EN"), c(2)]
    chain_in_loop = [lab("LH"), cj(eq(R, 0), "EL"), c(1), go("EN"), lab("EL"), c(2), lab("EN"), inc(T), cj(lt(T, 3), "LH"), c(3)]
    loop_in_if = [cj(eq(R, 0), "EL"), lab("LH"), c(1), inc(T), cj(lt(T, 2), "LH"), go("EN"), lab("EL"), c(2), lab("EN"), c(3)]
    two_loops = [lab("LA"), c(1), inc(T), cj(lt(T, 2), "LA"), lab("LB"), c(2), inc(U), cj(lt(U, 2), "LB"), c(3)]
    loop_break = [lab("LH"), c(1), cj(eq(R, 1), "OUT"), c(2), inc(T), cj(lt(T, 3), "LH"), lab("OUT"), c(3)]
    inf_loop = [lab("LH"), c(1), cj(eq(R, 1), "OUT"), inc(T), go("LH"), lab("OUT"), c(2)]
    return [("loop", loop1), ("nested", nested), ("ifelse", ifelse), ("ifelif", ifelif), ("ifonly", ifonly), ("chain-in-loop", chain_in_loop),
            ("loop-in-if", loop_in_if), ("two-loops", two_loops), ("loop-break", loop_break), ("loop-forever-break", inf_loop)]


def edge_programs(cfg, start_id=1):
    S = var(1001)
    out = []
    pid = start_id
    vars_ = [{"id": "r%d" % r, "ty": "i"} for r in (1000, 1001, 1002, 1003)]
    for name, base in edge_bases():
        n = len(base)
        for src in range(n + 1):              # the extra jump is inserted before statement `src` (n: at the end)
            for dst in range(n + 1):          # and goes to a new label in front of statement `dst` (n: the end)
                for kind in ("if", "goto"):
                    if kind == "goto" and dst <= src:
                        continue              # an unconditional backward jump never terminates
                    body = []
                    for i in range(n + 1):
                        if i == dst:
                            body.append({"k": "label", "name": "X"})
                        if i == src:
                            if kind == "if":
                                body.append({"k": "condjump", "kw": "if", "cond": binop("==", S, ilit(3)), "jump": "goto", "label": "X"})
                                # (the condition register changes, so a backward extra jump is taken at most once)
                                body.append({"k": "assign", "var": S, "op": "+=", "value": ilit(1)})
                            else:
                                body.append({"k": "jump", "jump": "goto", "label": "X"})
                        if i < n:
                            body.append(base[i])
                    body.append(call(100, []))
                    out.append({"id": pid, "cfg": cfg, "vars": vars_, "body": body, "edge": "%s:%s:%d->%d" % (name, kind, src, dst)})
                    pid += 1
    return out
