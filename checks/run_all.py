#!/usr/bin/env python3
"""Run every registered quick (or thorough) check once and summarise: run_all.py [quick|thorough] [ids...]"""
import json, subprocess, sys, time, os
VERIF = os.path.dirname(os.path.dirname(os.path.abspath(__file__)))
tier = sys.argv[1] if len(sys.argv) > 1 else "quick"
only = sys.argv[2:]
man = json.load(open(os.path.join(VERIF, "MANIFEST.json")))
subprocess.run(man["setup_cmd"], shell=True, cwd=VERIF, stdout=subprocess.DEVNULL, stderr=subprocess.DEVNULL)
rows = []
for c in man["checks"]:
    pid = c["property_id"]
    if only and pid not in only:
        continue
    cmd = c["quick_cmd"] if tier == "quick" else c.get("thorough_cmd", c["quick_cmd"])
    t0 = time.time()
    p = subprocess.run(cmd, shell=True, cwd=VERIF, env=dict(os.environ, VERIF_NO_BUILD="1"), stdout=subprocess.PIPE, stderr=subprocess.STDOUT, text=True)
    dt = time.time() - t0
    viol = [l for l in p.stdout.splitlines() if l.startswith("VIOLATION")]
    known = [l for l in p.stdout.splitlines() if l.startswith("KNOWN-FINDING")]
    rows.append((pid, p.returncode, round(dt), len(viol), len(known)))
    print("%s rc=%d %ds violations=%d known=%d" % rows[-1], flush=True)
    if p.returncode not in (0,):
        print("   " + "\n   ".join(p.stdout.splitlines()[-6:]), flush=True)
