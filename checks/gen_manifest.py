#!/usr/bin/env python3
"""Writes MANIFEST.json from the table below (one source of truth for the registered checks)."""
import json, os
VERIF = os.path.dirname(os.path.dirname(os.path.abspath(__file__)))

CHECKS = {
 "C11": dict(level="model_checking", design="DESIGN.md §4 C11",
    technique="TLA+ operator semantics (I32/F32/ExprSem) enumerated by TLC, every case replayed into the real const folder / const evaluator / lowering (spec -> impl replay)",
    text="TLC enumerates every operator over boundary operands with the value the TLA+ transcription of the documented machine semantics assigns (in-model: algebraic sanity of the transcription, closure, definedness), and every enumerated case is replayed into three real code paths (const_simplify, evaluate_const_vars, lowering of named vs inline constants). Exhaustive over the enumerated domain; the spec is a third, independent implementation of the operator table.",
    note="Trusted: TLC, CommunityModules Json, the harness renderer (JSON -> source text). Float results outside the exact (dyadic) envelope are not decided; && and || compared by truthiness."),
 "C06": dict(level="translation_validation", design="DESIGN.md §4 C06, §3 (SrcSem rules)",
    technique="TLC model-checks the product of the TLA+ script machine (AstSem) on the real parser's block tree and on the real desugar_blocks output, from every initial register valuation x difficulty (translation validation of each pass run)",
    text="For each generated structured program the harness exports the block tree as the real parser produced it and the flat statement list the real desugar_blocks pass produced (both counting-jump flavours); TLC explores the product of the L1 machine on both from all valuations of the mentioned registers over a 3/4-value domain and all difficulties and checks at every state that the flat side's call log is a prefix of the source's, and at termination equal logs (with time and real time of each call), final time, real time and registers.",
    note="Trusted: TLC; structural AST->JSON exporter and JSON->text renderer; the reading of doc/syntax.md in AstSem.tla (falling through never changes time, implicit jumps set the lexical time of their target). Bounded: 150 source steps, non-negative times() counts, dyadic floats."),
}

NOT_YET = {}

def main():
    props = [json.loads(l) for l in open(os.path.join(VERIF, "properties.jsonl"))]
    checks = []
    for p in props:
        c = CHECKS.get(p["id"])
        if not c:
            continue
        checks.append({
            "property_id": p["id"],
            "quick_cmd": "./check %s quick" % p["id"],
            "thorough_cmd": "./check %s thorough" % p["id"],
            "evidence_file": "/verif/evidence/%s.json" % p["id"],
            "replay_cmd_template": "./check %s quick --replay {path}" % p["id"],
            "engine": "tlc+vh",
            "level_claimed": {"category": c["level"], "text": c["text"], "design_ref": c["design"]},
            "level_note": c["note"],
            "technique": c["technique"],
        })
    na = [{"property_id": p["id"], "reason": NOT_YET.get(p["id"], "check not built yet in this round; planned with the TLA+ specification (see DESIGN.md §4)")}
          for p in props if p["id"] not in CHECKS]
    man = {
        "version": 1,
        "setup_cmd": "cd /verif/harness && CARGO_NET_OFFLINE=true cargo build --release --offline",
        "hooks": {
            "guard": "--cfg truth_verif",
            "enable": "harness/.cargo/config.toml sets rustflags = [\"--cfg\",\"truth_verif\",\"--check-cfg\",\"cfg(truth_verif)\"]; the harness crate depends on /repo by path, so `cargo build --release` in /verif/harness rebuilds truth from the working tree with the guard on",
            "baseline_off_cmd": "python3 /verif/checks/baseline.py /repo",
            "source_commits": HOOK_COMMITS,
            "add_only": True,
        },
        "engines": [
            {"name": "tlc+vh", "path": "/verif/check", "serves_properties": [c["property_id"] for c in checks],
             "kind_free_text": "python driver; TLC (spec/*.tla) generates cases / judges histories and product runs; Rust harness `vh` (harness/) drives the real truth code and serialises observations"},
        ],
        "checks": checks,
        "not_applicable": na,
        "notes": "See DESIGN.md. known_findings.json lists genuine defects (open / fixed).",
    }
    with open(os.path.join(VERIF, "MANIFEST.json"), "w") as f:
        json.dump(man, f, indent=1)
    print("MANIFEST.json: %d checks, %d not_applicable" % (len(checks), len(na)))

HOOK_COMMITS = ["74c5854"]

if __name__ == "__main__":
    main()
