#!/usr/bin/env python3
"""Writes MANIFEST.json from the table below (one source of truth for the registered checks)."""
import json, os
VERIF = os.path.dirname(os.path.dirname(os.path.abspath(__file__)))

import importlib, sys
sys.path.insert(0, VERIF)


def load_checks():
    out = {}
    for f in sorted(os.listdir(os.path.join(VERIF, "checks"))):
        m = __import__("re").match(r"(c\d+)\.py$", f)
        if not m:
            continue
        mod = importlib.import_module("checks." + m.group(1))
        if getattr(mod, "MANIFEST", None):
            out[m.group(1).upper()] = dict(mod.MANIFEST, level=mod.LEVEL)
    return out


CHECKS = load_checks()

NOT_YET = {}
NOT_YET_OLD = {"C04": "check under construction in this round (outcome contract spec/Toolchain.tla + Trace_Outcomes.tla exist; findings being saturated)", "C16": "check under construction in this round (outcome contract spec/Toolchain.tla + Trace_Outcomes.tla exist; findings being saturated)"}

def main():
    props = [json.loads(l) for l in open(os.path.join(VERIF, "properties.jsonl"))]
    checks = []
    for p in props:
        c = CHECKS.get(p["id"])
        if not c:
            continue
        checks.append({
            "property_id": p["id"],
            "quick_cmd": "./check %s quick" % p["id"],
            "thorough_cmd": "./check %s thorough" % p["id"],
            "evidence_file": "/verif/evidence/%s.json" % p["id"],
            "replay_cmd_template": "./check %s quick --replay {path}" % p["id"],
            "engine": "tlc+vh",
            "level_claimed": {"category": c["level"], "text": c["text"], "design_ref": c["design"]},
            "level_note": c["note"],
            "technique": c["technique"],
        })
    na = [{"property_id": p["id"], "reason": NOT_YET.get(p["id"], "check not built yet in this round; planned with the TLA+ specification (see DESIGN.md §4)")}
          for p in props if p["id"] not in CHECKS]
    man = {
        "version": 1,
        "setup_cmd": "cd /verif/harness && CARGO_NET_OFFLINE=true cargo build --release --offline",
        "hooks": {
            "guard": "--cfg truth_verif",
            "enable": "harness/.cargo/config.toml sets rustflags = [\"--cfg\",\"truth_verif\",\"--check-cfg\",\"cfg(truth_verif)\"]; the harness crate depends on /repo by path, so `cargo build --release` in /verif/harness rebuilds truth from the working tree with the guard on",
            "baseline_off_cmd": "python3 /verif/checks/baseline.py /repo",
            "source_commits": HOOK_COMMITS,
            "add_only": True,
        },
        "engines": [
            {"name": "tlc+vh", "path": "/verif/check", "serves_properties": [c["property_id"] for c in checks],
             "kind_free_text": "python driver; TLC (spec/*.tla) generates cases / judges histories and product runs; Rust harness `vh` (harness/) drives the real truth code and serialises observations"},
        ],
        "checks": checks,
        "not_applicable": na,
        "notes": "See DESIGN.md. known_findings.json lists genuine defects (open / fixed).",
    }
    with open(os.path.join(VERIF, "MANIFEST.json"), "w") as f:
        json.dump(man, f, indent=1)
    print("MANIFEST.json: %d checks, %d not_applicable" % (len(checks), len(na)))

HOOK_COMMITS = ["74c5854", "9680b38", "6d5594b", "5be1350", "e133c23"]

if __name__ == "__main__":
    main()
