"""C17 — extracting images and compiling them back reproduces the embedded textures; image-source precedence.

Mode G: TLC explores spec/ImageSources.tla over all command lines of <= 3 image sources (Gen_ImageSources,
in-model LastWins /\\ InOrder /\\ HeaderRule /\\ Outcome) and prints every finalized run with its expected
provenance; every run is replayed into the real `truanm compile -i ...` and the provenance is read off the
texture bytes / header fields of the file the real tool wrote.
In-model: spec/MC_Pixels.tla visits every 16-bit / 8-bit pixel value (Down(Up(p)) = p).
Real code: every pixel value, every texture size 1..64 x offsets 0..8 go through the real
extract -> PNG -> compile -i DIR loop and must come back byte-identical; ANM-as-source must copy verbatim."""
import json, os, shutil, struct, subprocess, random
from concurrent.futures import ThreadPoolExecutor
from . import lib, c17_binfmt as binfmt

LEVEL = "model_checking"
MANIFEST = dict(
    design='DESIGN.md §4 C17',
    technique='TLA+ machine of image-source application (Missing/Soft/Explicit fields, per-path FIFO) explored by TLC over all command lines of <=3 sources; every finalized run replayed into the real CLI and provenance read off the written file; TLA+ pixel codec checked on all 131 328 narrow-format values; exhaustive pixel / size / offset sweep through the real extract+compile loop',
    text='TLC explores ImageSources.tla (written from README "image sources") over every destination script of <=3 entries with duplicate paths, every sequence of <=3 sources (ANM files with duplicate entries, directories) and explicit/omitted header fields, checking LastWins, InOrder, HeaderRule and Outcome on every finalized run; each finalized run with its expected provenance is replayed into the real `truanm compile -i` (sources are real ANM files and PNG directories whose textures carry a tag unique to (source, entry)) and the provenance is read back from the THTX bytes and header fields of the output with an independent layout walker. Pixels.tla (bit replication up, truncation down, integer gray formula) is model-checked for Down(Up(p)) = p on all 65 536 RGB_565, all 65 536 ARGB_4444 and all 256 GRAY_8 values. The real tool is driven over textures containing every pixel value of each narrow format, random ARGB_8888 pixels and all sizes 1..64 x offsets 0..8: extract -> PNG -> compile with that directory must reproduce the THTX section byte for byte, and the original ANM as image source must copy it verbatim.',
    note='Trusted: TLC, Json module, the stdlib-only PNG reader/writer and ANM layout walker/writer in checks/c17_binfmt.py (the writer is validated on every run: truth decompiles and re-emits the hand-written files byte-identically). PNG encode/decode fidelity is the image crate\'s. Differences between the real 8888 expansion and Pixels.Up/Down are reported as informational model_drift, not violations (the property demands losslessness only). Quick tier replays all successful runs of two reduced domains (3 sources over 2 paths; 2 sources over 3 paths) and a stride of the failing ones; thorough replays the full 3x3 domain (failing runs by stride 6).',
)

GAME = "12"
PATHS = {"a": "a.png", "b": "sub/b.png", "c": "c.png"}
EXPLICIT_PRIO = 7
FMT_NAME = {1: "ARGB_8888", 3: "RGB_565", 5: "ARGB_4444", 7: "GRAY_8"}
BPP = {1: 4, 3: 2, 5: 2, 7: 1}


TRUTH = os.environ.get("VERIF_TRUTH_CORE") or lib.TRUTH_CORE      # override only for mutation self-tests


def truth(args, cwd=None):
    p = subprocess.run([TRUTH] + list(args), env=lib.clean_env(), cwd=cwd, stdout=subprocess.PIPE,
                       stderr=subprocess.PIPE, text=True, errors="replace")
    return p


def panicked(p):
    return "panicked at" in p.stderr or p.returncode not in (0, 1)


# ===================================================================================== provenance (Mode G)
def tag_byte(slot, is_dir, j):
    return slot * 40 + (20 if is_dir else 0) + j


def tag_pixels(tb, local):
    """2x2 texture, gray opaque pixels (so RGBA and BGRA orders coincide): tag, scenario-in-batch, 2 check bytes."""
    out = bytearray()
    for v in (tb, 100 + local, 0xA5, 0x3C):
        out += bytes((v, v, v, 255))
    return bytes(out)


def prio_of(local, slot, j):
    return 1000 * (local + 1) + 100 + 10 * slot + j


def case_key(c):
    srcs = ",".join(("A:" + "".join(s["entries"])) if s["kind"] == "anm" else ("D:" + "".join(sorted(s["paths"]))) for s in c["srcs"])
    return "%s|%s|%s" % ("".join(c["dest"]), "".join(str(x) for x in c["expl"]), srcs)


def parse_cases(res):
    out = []
    for line in res.printed("CASE"):
        # <<"CASE", "json-with-escaped-quotes">>
        body = line[line.index(",") + 1:].strip()
        body = body[:-2].strip()
        out.append(json.loads(json.loads(body)))
    return out


def build_batch(wd, tag, batch):
    """One compile for a batch of scenarios that share the kinds of their sources.  Scenario k lives under path prefix k/."""
    bd = os.path.join(wd, tag)
    if os.path.isdir(bd):
        shutil.rmtree(bd)
    os.makedirs(bd)
    kinds = [s["kind"] for s in batch[0]["srcs"]]
    script = []
    for k, c in enumerate(batch):
        for e, p in enumerate(c["dest"], 1):
            fields = ['path: "%d/%s"' % (k, PATHS[p])]
            if e in c["expl"]:
                fields.append("memory_priority: %d" % EXPLICIT_PRIO)
            fields.append("sprites: {}")
            script.append("entry { %s }" % ", ".join(fields))
    spec = os.path.join(bd, "dest.spec")
    with open(spec, "w") as f:
        f.write("\n".join(script) + "\n")
    args = ["truanm", "compile", spec, "-g", GAME, "-o", os.path.join(bd, "out.anm")]
    for i, kind in enumerate(kinds, 1):
        if kind == "anm":
            ents = []
            for k, c in enumerate(batch):
                for j, p in enumerate(c["srcs"][i - 1]["entries"], 1):
                    ents.append(dict(path="%d/%s" % (k, PATHS[p]), w=2, h=2, fmt=1, data=tag_pixels(tag_byte(i, False, j), k),
                                     rt_width=2, rt_height=2, rt_format=1, memory_priority=prio_of(k, i, j)))
            sp = os.path.join(bd, "src%d.anm" % i)
            with open(sp, "wb") as f:
                f.write(binfmt.write_anm_v7(ents))
        else:
            sp = os.path.join(bd, "src%d" % i)
            for k, c in enumerate(batch):
                for p in c["srcs"][i - 1]["paths"]:
                    fp = os.path.join(sp, str(k), PATHS[p])
                    os.makedirs(os.path.dirname(fp), exist_ok=True)
                    binfmt.write_png(fp, 2, 2, tag_pixels(tag_byte(i, True, 0), k))
            os.makedirs(sp, exist_ok=True)
        args += ["-i", sp]
    return bd, args


def observe_batch(bd, args, batch):
    """Runs the real compile; returns per scenario {"ok":bool, "tex":[[i,j]..], "hdr":[...]} or {"panic":..}."""
    p = truth(args)
    if panicked(p):
        return [{"panic": p.stderr[-600:]}] * len(batch), p
    if p.returncode != 0:
        return [{"ok": False, "stderr": p.stderr[-400:]}] * len(batch), p
    ents = binfmt.walk_anm(open(os.path.join(bd, "out.anm"), "rb").read(), False)
    obs = []
    pos = 0
    for k, c in enumerate(batch):
        tex, hdr = [], []
        for e, pth in enumerate(c["dest"], 1):
            ent = ents[pos]
            pos += 1
            if ent["path"] != "%d/%s" % (k, PATHS[pth]):
                raise lib.ToolError("output entry order unexpected: %s" % ent["path"])
            t = ent["thtx"]
            tg = None
            if t is not None and t["fmt"] == 1 and t["w"] == 2 and t["h"] == 2:
                d = t["data"]
                for i in (1, 2, 3):
                    for kind_dir in (False, True):
                        for j in range(0, 10):
                            if d == tag_pixels(tag_byte(i, kind_dir, j), k):
                                tg = [i, j]
            tex.append(tg if tg is not None else ["?", (t or {}).get("data", b"").hex() if t else None])
            pr = ent["memory_priority"]
            hv = ["?", pr]
            if pr == EXPLICIT_PRIO:
                hv = [9, 9]
            else:
                known = False
                for i in (1, 2, 3):
                    for j in range(1, 10):
                        if pr == prio_of(k, i, j):
                            hv = [i, j]
                            known = True
                if not known and pr < 1000:
                    hv = [0, 0]       # nobody's value: the format default
            hdr.append(hv)
        obs.append({"ok": True, "tex": tex, "hdr": hdr})
    return obs, p


def judge_case(chk, c, o, how):
    key_class = "%dsrc" % len(c["srcs"])
    rep = {"kind": "prov", "case": c, "observed": o, "how": how}
    if "panic" in o:
        chk.report("prov:panic:%s" % key_class, "truanm compile panics for image-source scenario %s: %s" % (case_key(c), o["panic"][-200:]), rep)
        return
    if o["ok"] != c["ok"]:
        chk.report("prov:outcome:%s:%s" % (key_class, "should-fail" if not c["ok"] else "should-succeed"),
                   "scenario %s: specification says compile %s, real tool %s" % (case_key(c), "succeeds" if c["ok"] else "fails", "succeeded" if o["ok"] else "failed: " + o.get("stderr", "")), rep)
        return
    if not c["ok"]:
        return
    for e in range(len(c["dest"])):
        if o["tex"][e] != c["tex"][e]:
            chk.report("prov:texture:%s" % key_class, "scenario %s: texture of destination entry %d comes from %s, specification says %s"
                       % (case_key(c), e + 1, o["tex"][e], c["tex"][e]), rep)
            return
        if o["hdr"][e] != c["hdr"][e]:
            chk.report("prov:header:%s" % key_class, "scenario %s: memory_priority of destination entry %d comes from %s, specification says %s"
                       % (case_key(c), e + 1, o["hdr"][e], c["hdr"][e]), rep)
            return


def replay_cases(chk, cases, wd, batch_size, individual_stride):
    ok_cases = [c for c in cases if c["ok"] and c["srcs"]]
    fail_cases = [c for c in cases if not (c["ok"] and c["srcs"])]
    groups = {}
    for c in ok_cases:
        groups.setdefault(tuple(s["kind"] for s in c["srcs"]), []).append(c)
    jobs = []
    for sig in sorted(groups):
        g = groups[sig]
        for b in range(0, len(g), batch_size):
            jobs.append(("b", g[b:b + batch_size]))
    # deterministic samples replayed one scenario per command line as well
    singles = [c for n, c in enumerate(ok_cases) if n % individual_stride == 0]
    singles += fail_cases
    for c in singles:
        jobs.append(("s", [c]))

    def work(arg):
        n, (how, batch) = arg
        bd, args = build_batch(wd, "j%d" % n, batch)
        obs, p = observe_batch(bd, args, batch)
        if how == "b" and (p.returncode != 0):
            # a batch that does not compile: fall back to one compile per scenario to attribute it
            obs = []
            for k, c in enumerate(batch):
                bd2, a2 = build_batch(wd, "j%d_%d" % (n, k), [c])
                o2, _ = observe_batch(bd2, a2, [c])
                obs.append(o2[0])
                shutil.rmtree(bd2, ignore_errors=True)
        shutil.rmtree(bd, ignore_errors=True)
        return how, batch, obs

    with ThreadPoolExecutor(max_workers=8) as ex:
        for how, batch, obs in ex.map(work, list(enumerate(jobs))):
            chk.add("compiles_run")
            for c, o in zip(batch, obs):
                chk.add("traces_validated_against_impl")
                chk.add("prov_replayed_batched" if how == "b" else "prov_replayed_single")
                judge_case(chk, c, o, how)
    return ok_cases, fail_cases


def gen_cfgs(quick):
    return ["s3p2", "s2p3", "same"] if quick else ["s3p3", "deep", "same"]


def run_gen(cfg, workers):
    return lib.tlc("Gen_ImageSources", cfg="Gen_ImageSources_%s.cfg" % cfg, workers=workers, timeout=2400, name="gen_is_" + cfg)


def run_provenance(chk, wd, replay_case=None, gen_results=None):
    quick = chk.tier == "quick"
    if replay_case is not None:
        c = replay_case
        bd, args = build_batch(wd, "replay", [c])
        obs, p = observe_batch(bd, args, [c])
        chk.add("traces_validated_against_impl")
        judge_case(chk, c, obs[0], "s")
        return
    cfgs, results = gen_results
    seen = {}
    for cfg, r in zip(cfgs, results):
        if not r.ok:
            raise lib.ToolError("Gen_ImageSources (%s): the machine does not satisfy LastWins/InOrder/HeaderRule/Outcome in the model\n%s"
                                % (cfg, r.out[-3000:]))
        chk.tlc_stats(r)
        cs = parse_cases(r)
        chk.add("scenarios_enumerated", len(cs))
        for c in cs:
            seen.setdefault(case_key(c), c)
    cases = [seen[k] for k in sorted(seen)]
    chk.set("scenarios_distinct", len(cases))
    # all successful scenarios are replayed (batched); failing ones (an entry nobody supplies) by stride
    stride = 80 if quick else 6
    fails = [c for c in cases if not c["ok"]]
    keep_fail = set(case_key(c) for n, c in enumerate(fails) if n % stride == 0)
    cases = [c for c in cases if c["ok"] or case_key(c) in keep_fail]
    import time
    t0 = time.time()
    ok_cases, fail_cases = replay_cases(chk, cases, wd, 120, 199 if quick else 211)
    chk.set("prov_replay_seconds", round(time.time() - t0, 1))
    chk.set("prov_expected_ok", len(ok_cases))
    chk.set("prov_expected_fail_replayed", len(fail_cases))
    for c in (ok_cases[len(ok_cases) // 3:len(ok_cases) // 3 + 1] + ok_cases[-1:]):
        chk.sample({"scenario": case_key(c), "expected_texture_provenance": c["tex"], "expected_header_provenance": c["hdr"]})


# ===================================================================================== pixel sweep (real code)
def le16_all():
    return b"".join(struct.pack("<H", p) for p in range(65536))


def sweep_entries_pixels(rng, quick):
    n = 64 if quick else 1000
    ents = [
        dict(path="px/all565.png", w=256, h=256, fmt=3, data=le16_all()),
        dict(path="px/all4444.png", w=256, h=256, fmt=5, data=le16_all()),
        dict(path="px/gray.png", w=16, h=16, fmt=7, data=bytes(range(256))),
        dict(path="px/rand8888.png", w=n, h=n, fmt=1, data=bytes(rng.getrandbits(8) for _ in range(4 * n * n))),
        # the same with an offset, so the padding/cropping path sees every value too
        dict(path="px/all565_off.png", w=256, h=256, fmt=3, data=le16_all(), offset_x=3, offset_y=5),
        dict(path="px/all4444_off.png", w=256, h=256, fmt=5, data=le16_all(), offset_x=8, offset_y=1),
    ]
    return ents


def size_offset_points(quick):
    if quick:
        pts = []
        for n in range(1, 65):
            for o in range(0, 9):
                pts.append((n, n, o, o))
        # plus non-square / mixed-offset samples
        for n in range(1, 65):
            pts.append((n, 65 - n, n % 9, (n * 5) % 9))
        return pts
    pts = []
    for w in range(1, 65):
        for h in range(1, 65):
            pts.append((w, h, (w + 2 * h) % 9, (3 * w + h) % 9))
    for n in (1, 2, 3, 7, 8, 31, 64):
        for ox in range(9):
            for oy in range(9):
                pts.append((n, 65 - n, ox, oy))
    for w in range(1, 65):          # every (w, ox) and (h, oy) pair
        for o in range(9):
            pts.append((w, 5, o, 0))
            pts.append((5, w, 0, o))
    return pts


def sweep_files(chk, quick):
    """Returns list of (name, entries).  Every entry: path, w, h, fmt, data, offsets, rt fields."""
    rng = random.Random(chk.seed * 7919 + 17)
    files = [("pixels", sweep_entries_pixels(rng, quick))]
    pts = size_offset_points(quick)
    fmts = [1, 3, 5, 7]
    per_file = 96
    cur = []
    n = 0
    for idx, (w, h, ox, oy) in enumerate(pts):
        for f in (fmts if not quick else [fmts[idx % 4], fmts[(idx + 1 + idx // 4) % 4]]):
            data = bytes(rng.getrandbits(8) for _ in range(w * h * BPP[f]))
            cur.append(dict(path="s/e%05d_%dx%d_o%d_%d_f%d.png" % (n, w, h, ox, oy, f), w=w, h=h, fmt=f, data=data, offset_x=ox, offset_y=oy))
            n += 1
            if len(cur) == per_file:
                files.append(("sizes%03d" % len(files), cur))
                cur = []
    if cur:
        files.append(("sizes%03d" % len(files), cur))
    for _, ents in files:
        for k, e in enumerate(ents):
            e.setdefault("offset_x", 0)
            e.setdefault("offset_y", 0)
            e["rt_width"] = 1 << max(0, (e["w"] - 1).bit_length())
            e["rt_height"] = 1 << max(0, (e["h"] - 1).bit_length())
            e["rt_format"] = e["fmt"]
            e["sprites"] = [(k, 0.0, 0.0, float(e["w"]), float(e["h"]))] if k % 2 == 0 else []
            e["scripts"] = [(k, b"")] if k % 3 == 0 else []
    return files


def entry_class(e):
    return "%s:%s" % (FMT_NAME[e["fmt"]], "offset" if (e["offset_x"] or e["offset_y"]) else "nooffset")


def sweep_one(args):
    wd, name, ents = args
    d = os.path.join(wd, name)
    os.makedirs(d, exist_ok=True)
    orig = os.path.join(d, "orig.anm")
    blob = binfmt.write_anm_v7(ents)
    with open(orig, "wb") as f:
        f.write(blob)
    res = {"name": name, "problems": [], "n": len(ents), "pngs": {}}
    steps = [
        ("decompile", ["truanm", "decompile", orig, "-g", GAME, "-o", os.path.join(d, "orig.spec")]),
        ("extract", ["truanm", "extract", orig, "-g", GAME, "-o", os.path.join(d, "img")]),
        ("compile-dir", ["truanm", "compile", os.path.join(d, "orig.spec"), "-g", GAME, "-i", os.path.join(d, "img"), "-o", os.path.join(d, "fromdir.anm")]),
        ("compile-anm", ["truanm", "compile", os.path.join(d, "orig.spec"), "-g", GAME, "-i", orig, "-o", os.path.join(d, "fromanm.anm")]),
    ]
    for step, a in steps:
        p = truth(a)
        if panicked(p):
            res["problems"].append(("panic:" + step, None, p.stderr[-500:]))
            return res
        if p.returncode != 0:
            res["problems"].append(("fails:" + step, None, p.stderr[-500:]))
            return res
    for outname, step in (("fromdir.anm", "dir"), ("fromanm.anm", "anm")):
        got = binfmt.walk_anm(open(os.path.join(d, outname), "rb").read(), False)
        if len(got) != len(ents):
            res["problems"].append(("entries:" + step, None, "%d entries written, %d expected" % (len(got), len(ents))))
            continue
        for k, (e, g) in enumerate(zip(ents, got)):
            t = g["thtx"]
            if t is None or (t["fmt"], t["w"], t["h"]) != (e["fmt"], e["w"], e["h"]) or t["data"] != e["data"]:
                first = None
                if t is not None and len(t["data"]) == len(e["data"]):
                    first = next(i for i in range(len(e["data"])) if t["data"][i] != e["data"][i])
                res["problems"].append(("thtx:%s:%s" % (step, entry_class(e)), k,
                                        "entry %s (%dx%d fmt %d offset %d,%d): THTX differs%s" % (
                                            e["path"], e["w"], e["h"], e["fmt"], e["offset_x"], e["offset_y"],
                                            "" if first is None else " first at byte %d: %02x -> %02x" % (first, e["data"][first], t["data"][first]))))
        if step == "anm" and open(os.path.join(d, outname), "rb").read() != blob:
            res["problems"].append(("verbatim:anm", None, "recompiling with the original ANM as image source does not reproduce the file"))
    if name == "pixels":
        for e in ents:
            res["pngs"][e["path"]] = binfmt.read_png(os.path.join(d, "img", e["path"]))
    else:
        # geometry of the extracted image: offset padding
        for e in ents[::7]:
            w, h, _ = binfmt.read_png(os.path.join(d, "img", e["path"]))
            if (w, h) != (e["w"] + e["offset_x"], e["h"] + e["offset_y"]):
                res["problems"].append(("extract-geometry", None, "%s extracted as %dx%d" % (e["path"], w, h)))
        shutil.rmtree(d, ignore_errors=True)
    return res


def run_sweep(chk, wd, only=None):
    quick = chk.tier == "quick"
    files = sweep_files(chk, quick)
    if only is not None:
        files = [(n, e) for n, e in files if n == only]
    pix = None
    with ThreadPoolExecutor(max_workers=8) as ex:
        for (name, ents), res in zip(files, ex.map(sweep_one, [(wd, n, e) for n, e in files])):
            chk.add("sweep_files")
            chk.add("sweep_textures", res["n"])
            chk.add("traces_validated_against_impl", 2 * res["n"])      # via directory and via ANM source
            for key, k, what in res["problems"]:
                e = ents[k] if k is not None else None
                rep = {"kind": "sweep", "file": name, "entry": None if e is None else {x: e[x] for x in ("path", "w", "h", "fmt", "offset_x", "offset_y")},
                       "what": what}
                chk.report("sweep:" + key, "pixel sweep (%s): %s" % (name, what), rep)
            if name == "pixels":
                pix = (ents, res)
    for n, e in files[1:2]:
        chk.sample({"sweep_file": n, "first_entries": [x["path"] for x in e[:3]], "entries": len(e)})
    return pix


# ===================================================================================== model vs real expansion
def pixel_samples(chk, wd):
    """Sample ARGB pixels whose Down value TLC computes (written before MC_Pixels starts)."""
    rng = random.Random(chk.seed * 104729 + 3)
    n = 48
    sample_px = {}
    rows = []
    for fmt in (3, 5, 7):
        px = []
        for i in range(n * n):
            if i % 5 == 0:       # near-boundary values
                q = [rng.choice((0, 255, 128, 127)), rng.choice((0, 7, 8, 248, 255)), rng.choice((0, 3, 4, 252, 255)), rng.choice((0, 7, 8, 15, 16, 255))]
            else:
                q = [rng.getrandbits(8) for _ in range(4)]
            px.append(q)         # [a, r, g, b]
        sample_px[fmt] = px
        rows.append({"fmt": FMT_NAME[fmt], "px": px})
    sp = os.path.join(wd, "down_samples.ndjson")
    lib.write_ndjson(sp, rows)
    return n, sample_px, sp


def run_mc_pixels(wd, sp, workers):
    return lib.tlc("MC_Pixels", env={"UP_OUT": os.path.join(wd, "up.ndjson"), "SAMPLES": sp, "DOWN_OUT": os.path.join(wd, "down.ndjson")},
                   workers=workers, timeout=1500)


def run_pixels_model(chk, wd, pix, samples, pixel_future):
    """MC_Pixels: in-model losslessness on every value; Up table / Down samples compared with the real tool (informational)."""
    n, sample_px, sp = samples
    up_out, down_out = os.path.join(wd, "up.ndjson"), os.path.join(wd, "down.ndjson")
    r = pixel_future.result()
    if not r.ok:
        raise lib.ToolError("MC_Pixels: Down(Up(p)) = p fails in the model\n" + r.out[-3000:])
    chk.tlc_stats(r)
    chk.set("pixel_values_model_checked", r.distinct)
    up = {row["fmt"]: [q for chunk in row["up"] for q in chunk] for row in lib.read_ndjson(up_out)}
    down = {row["fmt"]: row["down"] for row in lib.read_ndjson(down_out)}
    drift_up = 0
    first = None
    if pix is not None:
        ents, res = pix
        for e in ents:
            if e["fmt"] == 1 or e["offset_x"] or e["offset_y"] or e["path"] not in res["pngs"]:
                continue
            w, h, rgba = res["pngs"][e["path"]]
            table = up[FMT_NAME[e["fmt"]]]
            for p in range(len(table)):
                a, rr, g, b = table[p]
                if rgba[4 * p:4 * p + 4] != bytes((rr, g, b, a)):
                    drift_up += 1
                    if first is None:
                        first = {"fmt": FMT_NAME[e["fmt"]], "value": p, "model_argb": table[p], "real_rgba": list(rgba[4 * p:4 * p + 4])}
                chk.add("up_values_compared_with_real_png")
    chk.set("model_drift_up", drift_up)
    # Down: compile PNGs holding the sample pixels into each narrow format with the real tool
    d = os.path.join(wd, "down")
    os.makedirs(os.path.join(d, "img"), exist_ok=True)
    script = []
    for fmt in (3, 5, 7):
        rgba = b"".join(bytes((q[1], q[2], q[3], q[0])) for q in sample_px[fmt])
        binfmt.write_png(os.path.join(d, "img", "d%d.png" % fmt), n, n, rgba)
        script.append('entry { path: "d%d.png", img_format: %d, sprites: {} }' % (fmt, fmt))
    with open(os.path.join(d, "down.spec"), "w") as f:
        f.write("\n".join(script) + "\n")
    p = truth(["truanm", "compile", os.path.join(d, "down.spec"), "-g", GAME, "-i", os.path.join(d, "img"), "-o", os.path.join(d, "down.anm")])
    drift_down = 0
    if panicked(p) or p.returncode != 0:
        chk.report("down:compile", "compiling a PNG into the narrow formats fails: " + p.stderr[-300:], {"kind": "down", "stderr": p.stderr[-2000:]})
    else:
        for fmt, g in zip((3, 5, 7), binfmt.walk_anm(open(os.path.join(d, "down.anm"), "rb").read(), False)):
            data = g["thtx"]["data"]
            vals = list(data) if fmt == 7 else [v for (v,) in struct.iter_unpack("<H", data)]
            exp = down[FMT_NAME[fmt]]
            for i, (x, y) in enumerate(zip(vals, exp)):
                chk.add("down_values_compared_with_real")
                if x != y:
                    drift_down += 1
                    if first is None:
                        first = {"fmt": FMT_NAME[fmt], "pixel_argb": sample_px[fmt][i], "model": y, "real": x}
    chk.set("model_drift_down", drift_down)
    if first is not None:
        chk.set("model_drift_example", first)
        print("INFO: property=C17 model_drift up=%d down=%d (informational; first: %s)" % (drift_up, drift_down, json.dumps(first)))


def run(chk, replay=None):
    wd = lib.workdir("c17")
    if replay:
        case = json.load(open(replay))["case"]
        if case.get("kind") == "prov":
            run_provenance(chk, wd, replay_case=case["case"])
            chk.set("states", 1); chk.set("transitions", 1)
        else:
            run_sweep(chk, wd, only=case.get("file"))
            chk.set("states", 1); chk.set("transitions", 1)
        return
    import time
    quick = chk.tier == "quick"
    t0 = time.time()
    samples = pixel_samples(chk, wd)
    cfgs = gen_cfgs(quick)
    # the three TLC jobs run side by side (3 + 2 + 2 workers), then the real-tool phases use the 8 threads
    with ThreadPoolExecutor(max_workers=3) as ex:
        pixel_future = ex.submit(run_mc_pixels, wd, samples[2], 3)
        gen_futures = [ex.submit(run_gen, c, 2 if quick else 3) for c in cfgs]
        gen_results = [f.result() for f in gen_futures]
        pixel_future.result()
    t1 = time.time()
    pix = run_sweep(chk, wd)
    t2 = time.time()
    run_pixels_model(chk, wd, pix, samples, pixel_future)
    t3 = time.time()
    run_provenance(chk, wd, gen_results=(cfgs, gen_results))
    chk.set("phase_seconds", {"tlc_jobs": round(t1 - t0, 1), "sweep": round(t2 - t1, 1), "pixel_compare": round(t3 - t2, 1), "provenance_replay": round(time.time() - t3, 1)})
    thorough = chk.tier != "quick"
    chk.set("exhaustive", False)      # the models are exhaustive (TLC); the replay of failing runs is strided in both tiers
    chk.set("rule", "in-model: every pixel value of RGB_565/ARGB_4444/GRAY_8 and every command line of the bounded source domain is a TLC state; "
                    "replay: every finalized successful run (quick: reduced domains, failing runs by stride 80) is compiled by the real CLI; "
                    "sweep: every narrow pixel value, random 8888 pixels, sizes 1..64 x offsets 0..8 (quick: diagonal + mixed sample) through real extract+compile")
    chk.assume("PNG encode/decode fidelity is the image crate's (not decided)")
    chk.assume("`hdr` of the model is observed through memory_priority; the other header fields are assumed to follow the same SoftOption path")
    chk.assume("source ANM files are written by checks/c17_binfmt.py (byte-identical to truth's own writer on the sweep files, validated by decompile on every run)")
