"""Shared driver machinery: harness build, TLC runner, evidence, findings, violations."""
import json, os, re, subprocess, sys, time, hashlib, shutil, random

VERIF = os.path.dirname(os.path.dirname(os.path.abspath(__file__)))
SPEC = os.path.join(VERIF, "spec")
HARNESS = os.path.join(VERIF, "harness")
WORK = os.path.join(VERIF, "work")
REPLAYS = os.path.join(VERIF, "replays")
EVIDENCE = os.path.join(VERIF, "evidence")
REPO = "/repo"
BIN = os.path.join(HARNESS, "target", "release")
TRUTH_CORE = os.path.join(HARNESS, "target", "release", "truth-core")


class ToolError(Exception):
    pass


def clean_env(extra=None):
    env = dict(os.environ)
    for k in ("RUST_BACKTRACE", "TRUTH_MAP_PATH", "RUST_LIB_BACKTRACE"):
        env.pop(k, None)
    env["RUST_BACKTRACE"] = "0"
    env["CARGO_NET_OFFLINE"] = "true"
    if extra:
        env.update(extra)
    return env


def build_harness(quiet=True):
    """cargo build --release of the harness against /repo's current working tree (guard on)."""
    t0 = time.time()
    p = subprocess.run(["cargo", "build", "--release", "--offline"], cwd=HARNESS, env=clean_env(),
                       stdout=subprocess.PIPE, stderr=subprocess.STDOUT, text=True)
    if p.returncode != 0:
        sys.stdout.write(p.stdout[-6000:])
        raise ToolError("harness build failed")
    return time.time() - t0


def workdir(name, fresh=True):
    d = os.path.join(WORK, name)
    if fresh and os.path.isdir(d):
        shutil.rmtree(d)
    os.makedirs(d, exist_ok=True)
    return d


def vh(args, stdin=None, timeout=1800, env=None, check=True):
    """Run a harness binary: args[0] names it (harness/src/bin/<name>.rs).  A non-zero exit is a tool
    error (panics of the code under test are caught inside the harness and reported as data)."""
    p = subprocess.run([os.path.join(BIN, args[0])] + list(args[1:]), input=stdin, stdout=subprocess.PIPE, stderr=subprocess.PIPE,
                       text=True, timeout=timeout, env=clean_env(env))
    if check and p.returncode != 0:
        sys.stderr.write(p.stderr[-4000:])
        raise ToolError("vh %s exited %d" % (" ".join(args[:3]), p.returncode))
    return p


TLC_STATS = re.compile(r"(\d+) states generated, (\d+) distinct states found")


class TlcResult:
    def __init__(self, rc, out):
        self.rc, self.out = rc, out
        m = None
        for m in TLC_STATS.finditer(out):
            pass
        self.generated = int(m.group(1)) if m else 0
        self.distinct = int(m.group(2)) if m else 0
        # TLC exit codes: 0 ok; 10 assumption false; 11 deadlock; 12 safety; 13 liveness; others = errors
        self.ok = rc == 0
        self.violation = rc in (10, 11, 12, 13)

    def printed(self, tag):
        """values printed with PrintT(<<tag, ...>>): returns raw lines"""
        return [l for l in self.out.splitlines() if l.startswith('<<"%s"' % tag)]


TLA_CP = "/opt/veriftools/tla/tla2tools.jar:/opt/veriftools/tla/CommunityModules-deps.jar"


def tlc(module, cfg=None, env=None, workers=8, timeout=900, simulate=None, extra=(), name=None,
        deque=False, coverage=False, heap=None):
    """Run TLC on spec/<module>.tla.  Returns TlcResult.  Raises ToolError on timeouts and on
    anything that is neither success nor a property violation (parse errors, evaluation errors)."""
    name = name or module
    meta = workdir("tlc_" + name)
    cfg = cfg or (module + ".cfg")
    e = clean_env(env)
    e.pop("JAVA_TOOL_OPTIONS", None)
    cmd = ["timeout", str(timeout), "java", "-Xss1g", "-XX:+UseParallelGC"]
    if deque:
        cmd.append("-Dtlc2.tool.queue.IStateQueue=StateDeque")
    if heap:
        cmd.append("-Xmx" + heap)
    cmd += ["-cp", TLA_CP, "tlc2.TLC", "-workers", str(workers), "-metadir", meta, "-cleanup",
            "-noGenerateSpecTE", "-config", cfg]
    if coverage:
        cmd += ["-coverage", "1"]
    if simulate:
        cmd += ["-simulate", simulate]
    cmd += list(extra) + [module + ".tla"]
    p = subprocess.run(cmd, cwd=SPEC, env=e, stdout=subprocess.PIPE, stderr=subprocess.STDOUT, text=True)
    shutil.rmtree(meta, ignore_errors=True)
    out = p.stdout
    res = TlcResult(p.returncode, out)
    if p.returncode == 124:
        raise ToolError("TLC timed out on %s" % module)
    if p.returncode != 0 and not res.violation:
        sys.stderr.write(out[-5000:])
        raise ToolError("TLC failed on %s (rc=%d)" % (module, p.returncode))
    return res


def read_ndjson(path):
    out = []
    with open(path) as f:
        for line in f:
            line = line.strip()
            if line:
                out.append(json.loads(line))
    return out


def write_ndjson(path, rows):
    with open(path, "w") as f:
        for r in rows:
            f.write(json.dumps(r, separators=(",", ":"), ensure_ascii=False))
            f.write("\n")


def norm_loc(loc):
    """panic location relative to the repository root wherever the tree under test lives"""
    return re.sub(r"^.*?/(src/|tests/|build/)", r"\1", str(loc))


def sha(x):
    if isinstance(x, str):
        x = x.encode()
    return hashlib.sha256(x).hexdigest()[:16]


class Check:
    """One run of one property's check."""

    def __init__(self, pid, level, tier, seed):
        self.pid, self.level, self.tier, self.seed = pid, level, tier, seed
        self.t0 = time.time()
        self.cov = {"samples": []}
        self.assumptions = []
        self.violations = []      # (key, what, replay_path)
        self.known = []
        self.rng = random.Random(seed)
        kf = os.path.join(VERIF, "known_findings.json")
        self.findings = json.load(open(kf)) if os.path.exists(kf) else []
        fd = os.path.join(VERIF, "findings.d")
        if os.path.isdir(fd):
            for f in sorted(os.listdir(fd)):
                if f.endswith(".json"):
                    self.findings += json.load(open(os.path.join(fd, f)))
        self._seen_keys = set()

    # ---- coverage counters
    def add(self, key, n=1):
        self.cov[key] = self.cov.get(key, 0) + n

    def set(self, key, v):
        self.cov[key] = v

    def sample(self, obj, limit=5):
        if len(self.cov["samples"]) < limit:
            self.cov["samples"].append(obj)

    def tlc_stats(self, res):
        self.add("states", res.distinct)
        self.add("transitions", res.generated)

    def assume(self, text):
        if text not in self.assumptions:
            self.assumptions.append(text)

    # ---- findings
    def report(self, key, what, replay):
        """A property violation identified by `key`.  Known open findings are reported as such."""
        if key in self._seen_keys:
            return
        self._seen_keys.add(key)
        for f in self.findings:
            if f.get("property") == self.pid and f.get("key") == key and f.get("status") == "open":
                self.known.append((key, f.get("what", what)))
                return
        d = os.path.join(REPLAYS, self.pid)
        os.makedirs(d, exist_ok=True)
        path = os.path.join(d, "%s-%s.json" % (re.sub(r"[^A-Za-z0-9_.-]+", "_", key)[:80], sha(json.dumps(replay, sort_keys=True, default=str))[:8]))
        with open(path, "w") as f:
            json.dump({"property": self.pid, "key": key, "what": what, "tier": self.tier, "seed": self.seed,
                       "case": replay}, f, indent=1, default=str)
        self.violations.append((key, what, path))

    def finish(self):
        cov = self.cov
        if self.level == "model_checking":
            cov.setdefault("states", 0)
            cov.setdefault("transitions", 0)
            cov.setdefault("traces_validated_against_impl", 0)
        if self.level == "translation_validation":
            cov.setdefault("programs", 0)
            cov.setdefault("disagreements_checked", 0)
        ev = {
            "property_id": self.pid, "tier": self.tier, "seed": self.seed, "level": self.level,
            "coverage": cov, "assumptions": self.assumptions,
            "wall_s": round(time.time() - self.t0, 2), "violations": len(self.violations),
            "known_findings_hit": [k for k, _ in self.known],
        }
        os.makedirs(EVIDENCE, exist_ok=True)
        with open(os.path.join(EVIDENCE, self.pid + ".json"), "w") as f:
            json.dump(ev, f, indent=1, ensure_ascii=False, default=str)
        for key, what in self.known:
            print("KNOWN-FINDING: property=%s %s :: %s" % (self.pid, key, what))
        for key, what, path in self.violations:
            print("VIOLATION property=%s replay=%s" % (self.pid, path))
            print("  key=%s :: %s" % (key, what))
        sys.stdout.flush()
        return 1 if self.violations else 0


# ---------------------------------------------------------------- Mode P helper
COV_LINE = re.compile(r"<(\w+) line \d+, col \d+ to line \d+, col \d+ of module (\w+)>: (\d+):(\d+)")


def _product_shard(args):
    module, cfg, path, tag, timeout = args
    return tlc(module, cfg=cfg, env={"PAIRS": path}, workers=1, timeout=timeout, name=tag, heap="3g")


def product_check(chk, module, cfg, pairs, tag, shards=12, timeout=1500, max_rounds=4, key_of=None, per_shard=20):
    """Model-check the product machine over `pairs` (list of dicts with src/out/vars/diffs).
    The pairs are split over several single-worker TLC processes (the specs park per-run data in
    TLC registers, which is only safe with one worker per process).  Reports violations through
    chk; returns dict of per-action coverage counts."""
    from concurrent.futures import ThreadPoolExecutor
    wd = workdir("prod_" + tag)
    totals = {}
    remaining = list(pairs)
    for rnd in range(max_rounds):
        if not remaining:
            break
        k = max(1, min(shards, (len(remaining) + per_shard - 1) // per_shard))
        parts = [remaining[j::k] for j in range(k)]
        jobs = []
        for j, part in enumerate(parts):
            path = os.path.join(wd, "pairs_%d.ndjson" % j)
            write_ndjson(path, part)
            jobs.append((module, cfg, path, "prod_%s_%d" % (tag, j), timeout))
        with ThreadPoolExecutor(max_workers=k) as ex:
            results = list(ex.map(_product_shard, jobs))
        bad_ids = set()
        for part, res in zip(parts, results):
            chk.tlc_stats(res)
            m = re.search(r'<<"COUNTS", (\d+), (\d+), (\d+)>>', res.out)
            if m:
                for kk, v in zip(("runs_compared", "runs_discarded", "runs_source_out_of_fuel"), m.groups()):
                    totals[kk] = totals.get(kk, 0) + int(v)
            if res.ok:
                continue
            inv = re.search(r"Invariant (\w+) is violated", res.out)
            inv = inv.group(1) if inv else "unknown"
            idx = None
            for m in re.finditer(r"^/\\ i = (\d+)", res.out, re.M):
                idx = int(m.group(1))
            if idx is None:
                raise ToolError("cannot locate the violating pair in TLC output\n" + res.out[-3000:])
            bad = part[idx - 1]
            trace = res.out[res.out.find("Error:"):][:12000]
            key = key_of(inv, bad) if key_of else "%s:%s" % (inv, sha(bad.get("text", json.dumps(bad.get("src"))))[:10])
            chk.report(key, "%s violated for program:\n%s" % (inv, bad.get("text", "")),
                       {"invariant": inv, "pair": bad, "tlc_trace": trace, "module": module, "cfg": cfg})
            bad_ids.add(id(bad))
        if not bad_ids:
            break
        remaining = [p for p in remaining if id(p) not in bad_ids]
    return totals
